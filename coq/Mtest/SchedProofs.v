(* Mtest/SchedProofs.v — theorems about the scheduler transition system of
   Mtest/Sched.v.  Everything is proved for ALL traces (label lists that the
   system can execute from its initial state), by induction on the trace with
   the invariant [Inv]. *)
From MV Require Import Base.Strs Mtest.Classify Mtest.Sched.
From Coq Require Import Lia ZArith Arith List Bool.
Import ListNotations.
Open Scope nat_scope.

(* ------------------------------------------------------------------ lists *)
Lemma memn_In : forall i l, memn i l = true <-> In i l.
Proof.
  intros i l. unfold memn. rewrite existsb_exists. split.
  - intros [x [Hx He]]. apply Nat.eqb_eq in He. subst. exact Hx.
  - intros H. exists i. split; [exact H | apply Nat.eqb_refl].
Qed.
Lemma memn_false : forall i l, memn i l = false <-> ~ In i l.
Proof.
  intros. rewrite <- memn_In. destruct (memn i l).
  - split; intros H; [discriminate | exfalso; apply H; reflexivity].
  - split; intros H; [intros A; discriminate | reflexivity].
Qed.
Lemma In_remn : forall j i l, In j (remn i l) <-> In j l /\ j <> i.
Proof.
  intros. unfold remn. rewrite filter_In. rewrite negb_true_iff, Nat.eqb_neq. tauto.
Qed.
Lemma find_run_In : forall i l cn, find_run i l = Some cn -> In (i, cn) l.
Proof.
  induction l as [|[j d] l IH]; simpl; intros cn H; [discriminate|].
  destruct (j =? i) eqn:E.
  - apply Nat.eqb_eq in E. inversion H. subst. left. reflexivity.
  - right. apply IH. exact H.
Qed.
Lemma find_run_ids : forall i l cn, find_run i l = Some cn -> In i (run_ids l).
Proof.
  intros. apply find_run_In in H. unfold run_ids. apply in_map_iff. exists (i, cn). auto.
Qed.
Lemma find_run_none : forall i l, find_run i l = None -> ~ In i (run_ids l).
Proof.
  induction l as [|[j d] l IH]; simpl; intros H; [tauto|].
  destruct (j =? i) eqn:E; [discriminate|]. apply Nat.eqb_neq in E. intros [A|A]; [congruence|].
  apply IH; assumption.
Qed.
Lemma find_run_of_In : forall i l, In i (run_ids l) -> exists cn, find_run i l = Some cn.
Proof.
  intros. destruct (find_run i l) eqn:E; [eauto|]. apply find_run_none in E. contradiction.
Qed.
Lemma In_rem_run : forall x i l, In x (rem_run i l) <-> In x l /\ fst x <> i.
Proof.
  intros. unfold rem_run. rewrite filter_In, negb_true_iff, Nat.eqb_neq. tauto.
Qed.
Lemma run_ids_rem : forall i l, run_ids (rem_run i l) = remn i (run_ids l).
Proof.
  induction l as [|[j d] l IH]; simpl; [reflexivity|].
  destruct (j =? i); simpl; rewrite IH; reflexivity.
Qed.
Lemma run_ids_cancel : forall l, run_ids (map (fun x : nat * bool => (fst x, true)) l) = run_ids l.
Proof. intros. unfold run_ids. rewrite map_map. reflexivity. Qed.
Lemma run_ids_app : forall a b, run_ids (a ++ b) = run_ids a ++ run_ids b.
Proof. intros. unfold run_ids. apply map_app. Qed.
Lemma length_rem_run_le : forall i l, length (rem_run i l) <= length l.
Proof.
  induction l as [|[j d] l IH]; simpl; [lia|]. destruct (j =? i); simpl; lia.
Qed.
Lemma length_rem_run_lt : forall i l, In i (run_ids l) -> length (rem_run i l) < length l.
Proof.
  induction l as [|[j d] l IH]; simpl; [tauto|]. intros [A|A].
  - subst. rewrite Nat.eqb_refl. simpl. pose proof (length_rem_run_le i l). lia.
  - specialize (IH A). destruct (j =? i); simpl; lia.
Qed.
Lemma NoDup_remn : forall i l, NoDup l -> NoDup (remn i l).
Proof. intros. apply NoDup_filter. assumption. Qed.
Lemma isnil_true : forall A (l : list A), isnil l = true <-> l = [].
Proof. intros A [|x l]; simpl; split; intros; congruence. Qed.
Lemma all_eq_nodup_single : forall (l : list nat) i, NoDup l -> In i l -> (forall j, In j l -> j = i) -> l = [i].
Proof.
  intros l i ND Hin Hall. destruct l as [|a l]; [contradiction|].
  assert (a = i) by (apply Hall; left; reflexivity). subst a.
  destruct l as [|b l]; [reflexivity|].
  assert (b = i) by (apply Hall; right; left; reflexivity). subst b.
  inversion ND as [|? ? Hn _]. exfalso. apply Hn. left. reflexivity.
Qed.

(* ------------------------------------------------------------------ steps as a relation *)
Inductive step (c : cfg) (s : st) : label -> st -> Prop :=
| StSpawnPar k : s_pc s = PLoop k -> k < nrun c -> par c k = true ->
    step c s (LSpawn k) (mkst (after_body c s k) (s_wait s ++ [k]) (s_run s) (s_failc s) (s_intr s)
                              (s_started s) (s_done s) (s_results s))
| StSpawnSer k : s_pc s = PLoop k -> k < nrun c -> par c k = false -> s_wait s = [] -> s_run s = [] ->
    step c s (LSpawn k) (mkst (PAwait k) (s_wait s ++ [k]) (s_run s) (s_failc s) (s_intr s)
                              (s_started s) (s_done s) (s_results s))
| StResume k : s_pc s = PAwait k -> ~ In k (s_wait s) -> ~ In k (run_ids (s_run s)) ->
    step c s (LResume k) (mkst (after_body c s k) (s_wait s) (s_run s) (s_failc s) (s_intr s)
                               (s_started s) (s_done s) (s_results s))
| StStart i : In i (s_wait s) -> length (s_run s) < c_jobs c -> stopf c s = false ->
    step c s (LStart i) (mkst (s_pc s) (remn i (s_wait s)) (s_run s ++ [(i, false)]) (s_failc s) (s_intr s)
                              (s_started s ++ [i]) (s_done s) (s_results s))
| StSkip i : In i (s_wait s) -> length (s_run s) < c_jobs c -> stopf c s = true ->
    step c s (LSkip i) (mkst (s_pc s) (remn i (s_wait s)) (s_run s) (s_failc s) (s_intr s)
                             (s_started s) (i :: s_done s) (s_results s))
| StEndTrig i r : find_run i (s_run s) = Some (result_eqb r INTERRUPT) -> trig c s r = true ->
    step c s (LEnd i r) (mkst (s_pc s) [] (map (fun x => (fst x, true)) (rem_run i (s_run s)))
                              (failc_after s r) true
                              (s_started s) (i :: s_wait s ++ s_done s) (s_results s ++ [(i, r)]))
| StEnd i r : find_run i (s_run s) = Some (result_eqb r INTERRUPT) -> trig c s r = false ->
    step c s (LEnd i r) (mkst (s_pc s) (s_wait s) (rem_run i (s_run s)) (failc_after s r) (s_intr s)
                              (s_started s) (i :: s_done s) (s_results s ++ [(i, r)]))
| StVanish i : find_run i (s_run s) = Some true ->
    step c s (LVanish i) (mkst (s_pc s) (s_wait s) (rem_run i (s_run s)) (s_failc s) (s_intr s)
                               (s_started s) (i :: s_done s) (s_results s)).

Lemma exec_step : forall c s l s', exec c s l = Some s' -> step c s l s'.
Proof.
  intros c s l s' H. destruct l as [k|k|i|i|i r|i]; unfold exec in H.
  - destruct (s_pc s) as [k'|k'] eqn:Epc; [|discriminate].
    destruct ((k =? k') && (k <? nrun c) && (par c k || (isnil (s_wait s) && isnil (s_run s)))) eqn:G; [|discriminate].
    apply andb_prop in G. destruct G as [G G3]. apply andb_prop in G. destruct G as [G1 G2].
    apply Nat.eqb_eq in G1. subst k'. apply Nat.ltb_lt in G2.
    destruct (par c k) eqn:Ep; inversion H; subst.
    + apply StSpawnPar; assumption.
    + simpl in G3. apply andb_prop in G3. destruct G3 as [A B].
      apply isnil_true in A. apply isnil_true in B. apply StSpawnSer; assumption.
  - destruct (s_pc s) as [k'|k'] eqn:Epc; [discriminate|].
    destruct ((k =? k') && negb (memn k (s_wait s)) && negb (memn k (run_ids (s_run s)))) eqn:G; [|discriminate].
    apply andb_prop in G. destruct G as [G G3]. apply andb_prop in G. destruct G as [G1 G2].
    apply Nat.eqb_eq in G1. subst k'. apply negb_true_iff in G2, G3.
    apply memn_false in G2, G3. inversion H; subst. apply StResume; assumption.
  - destruct (memn i (s_wait s) && (length (s_run s) <? c_jobs c) && negb (stopf c s)) eqn:G; [|discriminate].
    apply andb_prop in G. destruct G as [G G3]. apply andb_prop in G. destruct G as [G1 G2].
    apply memn_In in G1. apply Nat.ltb_lt in G2. apply negb_true_iff in G3.
    inversion H; subst. apply StStart; assumption.
  - destruct (memn i (s_wait s) && (length (s_run s) <? c_jobs c) && stopf c s) eqn:G; [|discriminate].
    apply andb_prop in G. destruct G as [G G3]. apply andb_prop in G. destruct G as [G1 G2].
    apply memn_In in G1. apply Nat.ltb_lt in G2.
    inversion H; subst. apply StSkip; assumption.
  - destruct (find_run i (s_run s)) as [cn|] eqn:F; [|discriminate].
    destruct (Bool.eqb cn (result_eqb r INTERRUPT)) eqn:G; [|discriminate].
    apply eqb_prop in G. subst cn.
    destruct (trig c s r) eqn:T; inversion H; subst.
    + apply StEndTrig; assumption.
    + apply StEnd; assumption.
  - destruct (find_run i (s_run s)) as [[|]|] eqn:F; try discriminate.
    inversion H; subst. apply StVanish; assumption.
Qed.

Lemma step_exec : forall c s l s', step c s l s' -> exec c s l = Some s'.
Proof.
  intros c s l s' H. destruct H; unfold exec.
  - rewrite H, Nat.eqb_refl. apply Nat.ltb_lt in H0. rewrite H0, H1. reflexivity.
  - rewrite H, Nat.eqb_refl. apply Nat.ltb_lt in H0. rewrite H0, H1, H2, H3. reflexivity.
  - rewrite H, Nat.eqb_refl. apply memn_false in H0, H1. rewrite H0, H1. reflexivity.
  - apply memn_In in H. apply Nat.ltb_lt in H0. rewrite H, H0, H1. reflexivity.
  - apply memn_In in H. apply Nat.ltb_lt in H0. rewrite H, H0, H1. reflexivity.
  - rewrite H, eqb_reflx, H0. reflexivity.
  - rewrite H, eqb_reflx, H0. reflexivity.
  - rewrite H. reflexivity.
Qed.

(* ------------------------------------------------------------------ the invariant *)
Definition resids (s : st) : list nat := map fst (s_results s).
Definition spawned (p : pc) (i : nat) : Prop :=
  match p with PLoop k => i < k | PAwait k => i <= k end.
Definition pcm (c : cfg) (p : pc) : nat :=
  match p with PLoop k => 4 * (nrun c - k) | PAwait k => 4 * (nrun c - k) - 3 end.
Definition measure (c : cfg) (s : st) : nat :=
  pcm c (s_pc s) + 2 * length (s_wait s) + length (s_run s).

Record Inv (c : cfg) (s : st) : Prop := mkInv {
  I_pcb : match s_pc s with PLoop k => k <= nrun c | PAwait k => k < nrun c /\ par c k = false end;
  I_up : forall i, In i (s_wait s) \/ In i (run_ids (s_run s)) \/ In i (s_done s) -> spawned (s_pc s) i;
  I_low : repfail c s = false -> forall i, spawned (s_pc s) i ->
          In i (s_wait s) \/ In i (run_ids (s_run s)) \/ In i (s_done s);
  I_solo : forall i, In i (s_wait s) \/ In i (run_ids (s_run s)) ->
           match s_pc s with PLoop _ => par c i = true | PAwait k => i = k end;
  I_dwr : forall i, In i (s_wait s) -> ~ In i (run_ids (s_run s));
  I_dwd : forall i, In i (s_wait s) -> ~ In i (s_done s);
  I_drd : forall i, In i (run_ids (s_run s)) -> ~ In i (s_done s);
  I_ndr : NoDup (run_ids (s_run s));
  I_jobs : length (s_run s) <= c_jobs c;
  I_st1 : NoDup (s_started s);
  I_st2 : forall i, In i (run_ids (s_run s)) -> In i (s_started s);
  I_st3 : forall i, In i (s_wait s) -> ~ In i (s_started s);
  I_st4 : forall i, In i (s_started s) -> In i (run_ids (s_run s)) \/ In i (s_done s);
  I_res1 : forall i, In i (resids s) -> In i (s_done s);
  I_res2 : NoDup (resids s);
  I_res3 : forall i, In i (resids s) -> In i (s_started s);
  I_f : stopf c s = false -> forall i, In i (s_done s) -> In i (resids s);
  I_canc : forall i, In (i, true) (s_run s) -> s_intr s = true;
  I_failc : s_failc s = length (filter counts_fail (map snd (s_results s)));
  I_intr : s_intr s = true -> (c_maxfail c <> 0 /\ c_maxfail c <= Z.of_nat (s_failc s))%Z;
  I_meas : measure c s <= 4 * nrun c
}.

Lemma inv_init : forall c, Inv c (init c).
Proof.
  intros c. constructor; simpl; intros; try tauto; try lia; try constructor; try discriminate.
  unfold measure. simpl. lia.
Qed.

Lemma filter_len_le : forall A (f : A -> bool) l, length (filter f l) <= length l.
Proof. induction l as [|x l IH]; simpl; [lia|]. destruct (f x); simpl; lia. Qed.

Lemma length_remn_lt : forall i l, In i l -> length (remn i l) < length l.
Proof.
  induction l as [|j l IH]; simpl; [tauto|]. intros [A|A].
  - subst. rewrite Nat.eqb_refl. simpl.
    pose proof (filter_len_le _ (fun j => negb (j =? i)) l). unfold remn. lia.
  - specialize (IH A). destruct (j =? i); simpl; unfold remn in *; lia.
Qed.

Lemma step_measure : forall c s l s', Inv c s -> step c s l s' -> measure c s' < measure c s.
Proof.
  intros c s l s' I H. pose proof (I_pcb c s I) as P.
  destruct H; unfold measure; simpl; try rewrite app_length; simpl.
  - rewrite H in *. unfold after_body. destruct (repfail c s); simpl; lia.
  - rewrite H in *. simpl. lia.
  - rewrite H in *. unfold after_body. destruct (repfail c s); simpl; lia.
  - pose proof (length_remn_lt i _ H). lia.
  - pose proof (length_remn_lt i _ H). lia.
  - rewrite map_length. pose proof (length_rem_run_lt i _ (find_run_ids _ _ _ H)). lia.
  - pose proof (length_rem_run_lt i _ (find_run_ids _ _ _ H)). lia.
  - pose proof (length_rem_run_lt i _ (find_run_ids _ _ _ H)). lia.
Qed.

(* both stop flags are monotone *)
Lemma repfail_mono : forall c s l s', step c s l s' -> repfail c s = true -> repfail c s' = true.
Proof.
  intros c s l s' H. unfold repfail. destruct H; simpl; auto; unfold failc_after;
    intros R; apply andb_prop in R; destruct R as [R1 R2]; rewrite R1; simpl;
    apply Nat.ltb_lt in R2; apply Nat.ltb_lt; lia.
Qed.
Lemma stopf_mono : forall c s l s', step c s l s' -> stopf c s = true -> stopf c s' = true.
Proof.
  intros c s l s' H S. unfold stopf in *. apply orb_prop in S. destruct S as [S|S].
  - destruct H; simpl; rewrite ?S; reflexivity.
  - rewrite (repfail_mono _ _ _ _ H S). apply orb_true_r.
Qed.

Ltac nrm := repeat (rewrite ?in_app_iff, ?In_remn, ?run_ids_app, ?run_ids_rem, ?run_ids_cancel in * ); simpl in *.
Ltac inv_open I :=
  destruct I as [pcb up low solo dwr dwd drd ndr jobs st1 st2 st3 st4 res1 res2 res3 ff canc failc intr meas].

Lemma inv_spawn_par : forall c s k,
  Inv c s -> s_pc s = PLoop k -> k < nrun c -> par c k = true ->
  Inv c (mkst (after_body c s k) (s_wait s ++ [k]) (s_run s) (s_failc s) (s_intr s)
              (s_started s) (s_done s) (s_results s)).
Proof.
  intros c s k I Hpc Hk Hp.
  assert (M := step_measure c s _ _ I (StSpawnPar c s k Hpc Hk Hp)).
  inv_open I. rewrite Hpc in *. simpl in *.
  assert (Hnew : ~ (In k (s_wait s) \/ In k (run_ids (s_run s)) \/ In k (s_done s))).
  { intros A. apply up in A. lia. }
  constructor; simpl; auto; unfold resids in *; simpl in *.
  - unfold after_body. destruct (repfail c s); lia.
  - intros i A. nrm. unfold after_body. destruct (repfail c s); simpl.
    + destruct A as [[A|[A|[]]]|A]; [specialize (up i (or_introl A)) | | specialize (up i (or_intror A))]; lia.
    + destruct A as [[A|[A|[]]]|A]; [specialize (up i (or_introl A)) | | specialize (up i (or_intror A))]; lia.
  - intros R i A. change (repfail c s = false) in R. unfold after_body in A. rewrite R in A. simpl in A. nrm.
    destruct (Nat.eq_dec i k) as [->|N]; [tauto|].
    assert (B : i < k) by lia. specialize (low R i B). tauto.
  - intros i A. nrm.
    assert (B : par c i = true).
    { destruct A as [[A|[A|[]]]|A]; [apply solo; tauto | subst; assumption | apply solo; tauto]. }
    unfold after_body. destruct (repfail c s); assumption.
  - intros i A. nrm. destruct A as [A|[A|[]]]; [apply dwr; assumption | subst; tauto].
  - intros i A. nrm. destruct A as [A|[A|[]]]; [apply dwd; assumption | subst; tauto].
  - intros i A. nrm. destruct A as [A|[A|[]]]; [apply st3; assumption | subst].
    intros B. apply st4 in B. tauto.
  - lia.
Qed.

Lemma NoDup_snoc : forall (l : list nat) x, NoDup l -> ~ In x l -> NoDup (l ++ [x]).
Proof.
  induction l as [|a l IH]; simpl; intros x ND N.
  - constructor; [tauto | constructor].
  - inversion ND as [|? ? Ha ND']. subst. constructor.
    + rewrite in_app_iff. simpl. intros [A|[A|[]]]; [contradiction | subst; tauto].
    + apply IH; tauto.
Qed.

Lemma inv_spawn_ser : forall c s k,
  Inv c s -> s_pc s = PLoop k -> k < nrun c -> par c k = false -> s_wait s = [] -> s_run s = [] ->
  Inv c (mkst (PAwait k) (s_wait s ++ [k]) (s_run s) (s_failc s) (s_intr s)
              (s_started s) (s_done s) (s_results s)).
Proof.
  intros c s k I Hpc Hk Hp Hw Hr.
  assert (M := step_measure c s _ _ I (StSpawnSer c s k Hpc Hk Hp Hw Hr)).
  inv_open I. rewrite Hpc, Hw, Hr in *. simpl in *.
  assert (Hnew : ~ In k (s_done s)).
  { intros A. specialize (up k). simpl in up. assert (k < k) by tauto. lia. }
  constructor; simpl; auto; unfold resids in *; simpl in *; try rewrite Hr; simpl; auto.
  - intros i [[A|[]]|[[]|A]]; [lia|]. specialize (up i). simpl in up. assert (i < k) by tauto. lia.
  - intros R i A. change (repfail c s = false) in R.
    destruct (Nat.eq_dec i k) as [->|N]; [tauto|].
    assert (B : i < k) by lia. specialize (low R i B). tauto.
  - intros i [[A|[]]|[]]. auto.
  - intros i [A|[]]. subst. assumption.
  - intros i [A|[]]. subst. intros B. apply st4 in B. tauto.
  - unfold measure in *. simpl in *. rewrite ?Hpc, ?Hw, ?Hr in *. simpl in *. lia.
Qed.

Lemma inv_resume : forall c s k,
  Inv c s -> s_pc s = PAwait k -> ~ In k (s_wait s) -> ~ In k (run_ids (s_run s)) ->
  Inv c (mkst (after_body c s k) (s_wait s) (s_run s) (s_failc s) (s_intr s)
              (s_started s) (s_done s) (s_results s)).
Proof.
  intros c s k I Hpc Hw Hr.
  assert (M := step_measure c s _ _ I (StResume c s k Hpc Hw Hr)).
  inv_open I. rewrite Hpc in *. simpl in *.
  constructor; simpl; auto; unfold resids in *; simpl in *.
  - unfold after_body. destruct (repfail c s); lia.
  - intros i A. apply up in A. unfold after_body. destruct (repfail c s); simpl; lia.
  - intros R i A. change (repfail c s = false) in R. unfold after_body in A. rewrite R in A. simpl in A.
    apply (low R). lia.
  - intros i A. exfalso. specialize (solo i A). subst. tauto.
  - lia.
Qed.

Lemma inv_start : forall c s i,
  Inv c s -> In i (s_wait s) -> length (s_run s) < c_jobs c -> stopf c s = false ->
  Inv c (mkst (s_pc s) (remn i (s_wait s)) (s_run s ++ [(i, false)]) (s_failc s) (s_intr s)
              (s_started s ++ [i]) (s_done s) (s_results s)).
Proof.
  intros c s i I Hw Hj Hs.
  assert (M := step_measure c s _ _ I (StStart c s i Hw Hj Hs)).
  inv_open I.
  constructor; simpl; auto; unfold resids in *; simpl in *.
  - intros j A. nrm. apply up. destruct A as [[A _]|[[A|[A|[]]]|A]]; subst; tauto.
  - intros R j A. change (repfail c s = false) in R. specialize (low R j A). nrm.
    destruct (Nat.eq_dec j i); subst; tauto.
  - intros j A. nrm. apply solo. destruct A as [[A _]|[A|[A|[]]]]; subst; tauto.
  - intros j A. nrm. destruct A as [A N]. intros [B|[B|[]]]; [apply (dwr j A B) | congruence].
  - intros j A. nrm. apply dwd. tauto.
  - intros j A. nrm. destruct A as [A|[A|[]]]; [apply drd; assumption | subst; apply dwd; assumption].
  - rewrite run_ids_app. simpl. apply NoDup_snoc; [assumption | apply dwr; assumption].
  - rewrite app_length. simpl. lia.
  - apply NoDup_snoc; [assumption | apply st3; assumption].
  - intros j A. nrm. destruct A as [A|[A|[]]]; [left; apply st2; assumption | subst; tauto].
  - intros j A. nrm. destruct A as [A N]. intros [B|[B|[]]]; [apply (st3 j A B) | congruence].
  - intros j A. nrm. destruct A as [A|[A|[]]]; [destruct (st4 j A); tauto | subst; tauto].
  - intros j A. nrm. left. apply res3. assumption.
  - intros j A. nrm. destruct A as [A|[A|[]]]; [apply (canc j A) | discriminate].
  - lia.
Qed.

Lemma inv_skip : forall c s i,
  Inv c s -> In i (s_wait s) -> length (s_run s) < c_jobs c -> stopf c s = true ->
  Inv c (mkst (s_pc s) (remn i (s_wait s)) (s_run s) (s_failc s) (s_intr s)
              (s_started s) (i :: s_done s) (s_results s)).
Proof.
  intros c s i I Hw Hj Hs.
  assert (M := step_measure c s _ _ I (StSkip c s i Hw Hj Hs)).
  inv_open I.
  constructor; simpl; auto; unfold resids in *; simpl in *.
  - intros j A. nrm. apply up. destruct A as [[A _]|[A|[A|A]]]; subst; tauto.
  - intros R j A. change (repfail c s = false) in R. specialize (low R j A). nrm.
    destruct (Nat.eq_dec j i); subst; tauto.
  - intros j A. nrm. apply solo. tauto.
  - intros j A. nrm. apply dwr. tauto.
  - intros j A. nrm. destruct A as [A N]. intros [B|B]; [congruence | apply (dwd j A B)].
  - intros j A [B|B]; [subst; apply (dwr j Hw A) | apply (drd j A B)].
  - intros j A. nrm. apply st3. tauto.
  - intros j A. destruct (st4 j A); tauto.
  - intros F. change (stopf c s = false) in F. congruence.
  - lia.
Qed.

Lemma failc_after_count : forall s r i,
  s_failc s = length (filter counts_fail (map snd (s_results s))) ->
  failc_after s r = length (filter counts_fail (map snd (s_results s ++ [(i, r)]))).
Proof.
  intros s r i H. unfold failc_after. rewrite map_app, filter_app, app_length, <- H. simpl.
  destruct (counts_fail r); reflexivity.
Qed.

Lemma resids_snoc : forall l (i : nat) (r : result), map fst (l ++ [(i, r)]) = map fst l ++ [i].
Proof. intros. rewrite map_app. reflexivity. Qed.

Lemma repfail_after : forall c s r,
  (c_repeat c && (0 <? failc_after s r)) = false -> repfail c s = false.
Proof.
  intros c s r H. unfold repfail. destruct (c_repeat c); [|reflexivity]. simpl in *.
  apply Nat.ltb_ge in H. apply Nat.ltb_ge. unfold failc_after in H. lia.
Qed.

Lemma inv_end_trig : forall c s i r,
  Inv c s -> find_run i (s_run s) = Some (result_eqb r INTERRUPT) -> trig c s r = true ->
  Inv c (mkst (s_pc s) [] (map (fun x => (fst x, true)) (rem_run i (s_run s)))
              (failc_after s r) true
              (s_started s) (i :: s_wait s ++ s_done s) (s_results s ++ [(i, r)])).
Proof.
  intros c s i r I Hf Ht.
  assert (M := step_measure c s _ _ I (StEndTrig c s i r Hf Ht)).
  pose proof (find_run_ids _ _ _ Hf) as Hi.
  inv_open I.
  constructor; simpl; auto; unfold resids in *; simpl in *; rewrite ?resids_snoc.
  - intros j A. nrm. apply up. destruct A as [[]|[[A _]|[A|A]]]; subst; tauto.
  - intros R j A. unfold repfail in R. simpl in R. apply repfail_after in R.
    specialize (low R j A). nrm. destruct (Nat.eq_dec j i); subst; tauto.
  - intros j A. nrm. apply solo. tauto.
  - intros j A. nrm. destruct A as [A N]. intros [B|[B|B]]; [congruence | apply (dwr j B A) | apply (drd j A B)].
  - rewrite run_ids_cancel, run_ids_rem. apply NoDup_remn. assumption.
  - rewrite map_length. pose proof (length_rem_run_le i (s_run s)). lia.
  - intros j A. nrm. apply st2. tauto.
  - intros j A. nrm. destruct (Nat.eq_dec j i); [subst; tauto|]. destruct (st4 j A); tauto.
  - intros j A. nrm. destruct A as [A|[A|[]]]; [apply res1 in A; tauto | subst; tauto].
  - apply NoDup_snoc; [assumption|]. intros A. apply res1 in A. apply (drd i Hi A).
  - intros j A. nrm. destruct A as [A|[A|[]]]; [apply res3; assumption | subst; apply st2; assumption].
  - unfold stopf. simpl. discriminate.
  - apply failc_after_count. assumption.
  - intros _. unfold trig in Ht. apply andb_prop in Ht. destruct Ht as [Ht _].
    apply andb_prop in Ht. destruct Ht as [A B]. apply negb_true_iff, Z.eqb_neq in A.
    apply Z.leb_le in B. split; assumption.
  - lia.
Qed.

Lemma inv_end : forall c s i r,
  Inv c s -> find_run i (s_run s) = Some (result_eqb r INTERRUPT) -> trig c s r = false ->
  Inv c (mkst (s_pc s) (s_wait s) (rem_run i (s_run s)) (failc_after s r) (s_intr s)
              (s_started s) (i :: s_done s) (s_results s ++ [(i, r)])).
Proof.
  intros c s i r I Hf Ht.
  assert (M := step_measure c s _ _ I (StEnd c s i r Hf Ht)).
  assert (SM := stopf_mono c s _ _ (StEnd c s i r Hf Ht)).
  pose proof (find_run_ids _ _ _ Hf) as Hi.
  inv_open I.
  constructor; simpl; auto; unfold resids in *; simpl in *; rewrite ?resids_snoc.
  - intros j A. nrm. apply up. destruct A as [A|[[A _]|[A|A]]]; subst; tauto.
  - intros R j A. unfold repfail in R. simpl in R. apply repfail_after in R.
    specialize (low R j A). nrm. destruct (Nat.eq_dec j i); subst; tauto.
  - intros j A. nrm. apply solo. tauto.
  - intros j A. nrm. intros [B _]. apply (dwr j A B).
  - intros j A [B|B]; [subst; apply (dwr j A Hi) | apply (dwd j A B)].
  - intros j A. nrm. destruct A as [A N]. intros [B|B]; [congruence | apply (drd j A B)].
  - rewrite run_ids_rem. apply NoDup_remn. assumption.
  - pose proof (length_rem_run_le i (s_run s)). lia.
  - intros j A. nrm. apply st2. tauto.
  - intros j A. nrm. destruct (Nat.eq_dec j i); [subst; tauto|]. destruct (st4 j A); tauto.
  - intros j A. nrm. destruct A as [A|[A|[]]]; [apply res1 in A; tauto | subst; tauto].
  - apply NoDup_snoc; [assumption|]. intros A. apply res1 in A. apply (drd i Hi A).
  - intros j A. nrm. destruct A as [A|[A|[]]]; [apply res3; assumption | subst; apply st2; assumption].
  - intros F j A. nrm.
    assert (F0 : stopf c s = false).
    { destruct (stopf c s) eqn:E; [|reflexivity]. specialize (SM eq_refl). congruence. }
    destruct A as [A|A]; [subst; tauto | left; apply (ff F0); assumption].
  - intros j A. apply In_rem_run in A. apply (canc j). tauto.
  - apply failc_after_count. assumption.
  - intros A. specialize (intr A). unfold failc_after. lia.
  - lia.
Qed.

Lemma inv_vanish : forall c s i,
  Inv c s -> find_run i (s_run s) = Some true ->
  Inv c (mkst (s_pc s) (s_wait s) (rem_run i (s_run s)) (s_failc s) (s_intr s)
              (s_started s) (i :: s_done s) (s_results s)).
Proof.
  intros c s i I Hf.
  assert (M := step_measure c s _ _ I (StVanish c s i Hf)).
  pose proof (find_run_ids _ _ _ Hf) as Hi.
  pose proof (find_run_In _ _ _ Hf) as Hin.
  inv_open I.
  constructor; simpl; auto; unfold resids in *; simpl in *.
  - intros j A. nrm. apply up. destruct A as [A|[[A _]|[A|A]]]; subst; tauto.
  - intros R j A. change (repfail c s = false) in R.
    specialize (low R j A). nrm. destruct (Nat.eq_dec j i); subst; tauto.
  - intros j A. nrm. apply solo. tauto.
  - intros j A. nrm. intros [B _]. apply (dwr j A B).
  - intros j A [B|B]; [subst; apply (dwr j A Hi) | apply (dwd j A B)].
  - intros j A. nrm. destruct A as [A N]. intros [B|B]; [congruence | apply (drd j A B)].
  - rewrite run_ids_rem. apply NoDup_remn. assumption.
  - pose proof (length_rem_run_le i (s_run s)). lia.
  - intros j A. nrm. apply st2. tauto.
  - intros j A. nrm. destruct (Nat.eq_dec j i); [subst; tauto|]. destruct (st4 j A); tauto.
  - intros F. unfold stopf in F. simpl in F. rewrite (canc i Hin) in F. discriminate.
  - intros j A. apply In_rem_run in A. apply (canc j). tauto.
  - lia.
Qed.

Theorem inv_step : forall c s l s', Inv c s -> exec c s l = Some s' -> Inv c s'.
Proof.
  intros c s l s' I H. apply exec_step in H. destruct H.
  - apply inv_spawn_par; assumption.
  - apply inv_spawn_ser; assumption.
  - apply inv_resume; assumption.
  - apply inv_start; assumption.
  - apply inv_skip; assumption.
  - apply inv_end_trig; assumption.
  - apply inv_end; assumption.
  - apply inv_vanish; assumption.
Qed.

Theorem inv_run : forall c ls s s', Inv c s -> run c s ls = Some s' -> Inv c s'.
Proof.
  intros c ls. induction ls as [|l ls IH]; simpl; intros s s' I H.
  - inversion H. subst. assumption.
  - destruct (exec c s l) as [s1|] eqn:E; [|discriminate].
    apply (IH s1 s'); [eapply inv_step; eassumption | assumption].
Qed.

Corollary inv_reach : forall c ls s, run c (init c) ls = Some s -> Inv c s.
Proof. intros. eapply inv_run; [apply inv_init | eassumption]. Qed.

(* ------------------------------------------------------------------ traces and history *)
Lemma run_app : forall c a b s, run c s (a ++ b) = match run c s a with Some s1 => run c s1 b | None => None end.
Proof.
  intros c a. induction a as [|l a IH]; simpl; intros b s; [reflexivity|].
  destruct (exec c s l); [apply IH | reflexivity].
Qed.

Lemma run_history : forall c ls s s', run c s ls = Some s' ->
  run_ids (s_run s') = active ls (run_ids (s_run s)) /\
  s_started s' = s_started s ++ starts ls /\
  s_results s' = s_results s ++ ends ls.
Proof.
  intros c ls. induction ls as [|l ls IH]; simpl; intros s s' H.
  - inversion H. subst. rewrite !app_nil_r. auto.
  - destruct (exec c s l) as [s1|] eqn:E; [|discriminate].
    specialize (IH s1 s' H). destruct IH as [A [B C]].
    apply exec_step in E. destruct E; simpl in *;
      rewrite ?run_ids_app, ?run_ids_cancel, ?run_ids_rem in A; simpl in A;
      try rewrite <- app_assoc in B; try rewrite <- app_assoc in C; simpl in B, C; auto.
Qed.

(* the trace projections agree with the state reached from init *)
Corollary reach_history : forall c ls s, run c (init c) ls = Some s ->
  run_ids (s_run s) = active ls [] /\ s_started s = starts ls /\ s_results s = ends ls.
Proof. intros c ls s H. apply run_history in H. simpl in H. exact H. Qed.

(* --- clause: every selected test starts at most once --- *)
Theorem starts_at_most_once : forall c ls s, run c (init c) ls = Some s -> NoDup (starts ls).
Proof.
  intros c ls s H. pose proof (inv_reach _ _ _ H) as I. apply reach_history in H.
  destruct H as [_ [B _]]. rewrite <- B. apply (I_st1 _ _ I).
Qed.

(* only selected tests start *)
Theorem starts_are_runners : forall c ls s i, run c (init c) ls = Some s -> In i (starts ls) -> i < nrun c.
Proof.
  intros c ls s i H Hin. pose proof (inv_reach _ _ _ H) as I. apply reach_history in H.
  destruct H as [_ [B _]]. rewrite <- B in Hin. apply (I_st4 _ _ I) in Hin.
  assert (U : spawned (s_pc s) i) by (apply (I_up _ _ I); tauto).
  pose proof (I_pcb _ _ I) as P. destruct (s_pc s); simpl in *; lia.
Qed.

(* every reported result belongs to a test that started, and a test gets at most one result *)
Theorem results_at_most_once : forall c ls s, run c (init c) ls = Some s ->
  NoDup (map fst (ends ls)) /\ forall i, In i (map fst (ends ls)) -> In i (starts ls).
Proof.
  intros c ls s H. pose proof (inv_reach _ _ _ H) as I. apply reach_history in H.
  destruct H as [_ [B C]]. rewrite <- B, <- C. split; [apply (I_res2 _ _ I) | apply (I_res3 _ _ I)].
Qed.

(* --- clause: never more tests running than the number of jobs --- *)
Theorem job_bound : forall c ls s, run c (init c) ls = Some s -> length (active ls []) <= c_jobs c.
Proof.
  intros c ls s H. pose proof (inv_reach _ _ _ H) as I. apply reach_history in H.
  destruct H as [A _]. rewrite <- A. unfold run_ids. rewrite map_length. apply (I_jobs _ _ I).
Qed.

(* --- clause: a non-parallel test never runs while any other test is running --- *)
Theorem serial_isolation : forall c ls s i, run c (init c) ls = Some s ->
  In i (active ls []) -> par c i = false -> active ls [] = [i].
Proof.
  intros c ls s i H Hin Hp. pose proof (inv_reach _ _ _ H) as I. apply reach_history in H.
  destruct H as [A _]. rewrite <- A in *.
  pose proof (I_solo _ _ I) as solo. pose proof (I_ndr _ _ I) as nd.
  destruct (s_pc s) as [k|k] eqn:Epc.
  - specialize (solo i (or_intror Hin)). congruence.
  - apply all_eq_nodup_single; [assumption | assumption |].
    intros j Hj. rewrite (solo j (or_intror Hj)). symmetry. apply (solo i (or_intror Hin)).
Qed.

(* a running test is a started, not yet finished one; the set has no duplicates *)
Theorem active_nodup : forall c ls s, run c (init c) ls = Some s -> NoDup (active ls []).
Proof.
  intros c ls s H. pose proof (inv_reach _ _ _ H) as I. apply reach_history in H.
  destruct H as [A _]. rewrite <- A. apply (I_ndr _ _ I).
Qed.

(* --- the run is cut short only by --maxfail or by a failure under --repeat --- *)
Definition failures (ls : list label) : nat := length (filter counts_fail (map snd (ends ls))).
Definition cut_short (c : cfg) (ls : list label) : Prop :=
  (c_maxfail c <> 0 /\ c_maxfail c <= Z.of_nat (failures ls))%Z \/ (c_repeat c = true /\ 0 < failures ls).

Lemma stop_is_cut_short : forall c ls s, run c (init c) ls = Some s -> stopf c s = true -> cut_short c ls.
Proof.
  intros c ls s H S. pose proof (inv_reach _ _ _ H) as I. apply reach_history in H.
  destruct H as [_ [_ C]]. unfold cut_short, failures. rewrite <- C, <- (I_failc _ _ I).
  unfold stopf, repfail in S. apply orb_prop in S. destruct S as [S|S].
  - left. apply (I_intr _ _ I S).
  - right. apply andb_prop in S. destruct S as [S1 S2]. apply Nat.ltb_lt in S2. auto.
Qed.

(* --- clause: every selected test starts exactly once per repetition, unless cut short --- *)
Theorem all_started_unless_cut_short : forall c ls s, run c (init c) ls = Some s ->
  terminal c s = true -> ~ cut_short c ls ->
  forall i, i < nrun c -> count_occ Nat.eq_dec (starts ls) i = 1 /\ In i (map fst (ends ls)).
Proof.
  intros c ls s H T NC i Hi.
  assert (S : stopf c s = false).
  { destruct (stopf c s) eqn:E; [|reflexivity]. exfalso. apply NC. eapply stop_is_cut_short; eassumption. }
  pose proof (inv_reach _ _ _ H) as I. pose proof (starts_at_most_once _ _ _ H) as ND.
  apply reach_history in H. destruct H as [_ [B C]].
  unfold terminal in T. destruct (s_pc s) as [k|k] eqn:Epc; [|discriminate].
  apply andb_prop in T. destruct T as [T Tr]. apply andb_prop in T. destruct T as [Tk Tw].
  apply Nat.leb_le in Tk. apply isnil_true in Tw, Tr.
  assert (R : repfail c s = false).
  { unfold stopf in S. apply orb_false_elim in S. tauto. }
  pose proof (I_low _ _ I R i) as L. rewrite Epc in L. simpl in L.
  rewrite Tw, Tr in L. simpl in L. destruct (L ltac:(lia)) as [[]|[[]|D]].
  apply (I_f _ _ I S) in D. split.
  - apply (I_res3 _ _ I) in D. rewrite B in D.
    apply (proj1 (NoDup_count_occ' Nat.eq_dec _) ND). assumption.
  - unfold resids in D. rewrite C in D. assumption.
Qed.

(* after a stop flag is up nothing is started any more *)
Theorem no_start_after_stop : forall c s i, stopf c s = true -> exec c s (LStart i) = None.
Proof.
  intros c s i S. unfold exec. rewrite S. rewrite !andb_false_r. reflexivity.
Qed.

(* --- the scheduler cannot get stuck, and it terminates --- *)
Theorem deadlock_free : forall c s, 1 <= c_jobs c ->
  terminal c s = true \/ exists l s', exec c s l = Some s'.
Proof.
  intros c s J.
  destruct (s_run s) as [|[i cn] rn] eqn:Er.
  - destruct (s_wait s) as [|i w] eqn:Ew.
    + destruct (s_pc s) as [k|k] eqn:Epc.
      * destruct (k <? nrun c) eqn:Ek.
        -- right. exists (LSpawn k). unfold exec. rewrite Epc, Nat.eqb_refl, Ek, Ew, Er. simpl.
           rewrite orb_true_r. eauto.
        -- left. unfold terminal. rewrite Epc, Ew, Er. simpl. apply Nat.ltb_ge in Ek.
           apply Nat.leb_le in Ek. rewrite Ek. reflexivity.
      * right. exists (LResume k). unfold exec. rewrite Epc, Nat.eqb_refl, Ew, Er. simpl. eauto.
    + right. destruct (stopf c s) eqn:S.
      * exists (LSkip i). unfold exec. rewrite Ew, Er, S. simpl. rewrite Nat.eqb_refl. simpl.
        assert (E : (0 <? c_jobs c) = true) by (apply Nat.ltb_lt; lia). rewrite E. simpl. eauto.
      * exists (LStart i). unfold exec. rewrite Ew, Er, S. simpl. rewrite Nat.eqb_refl. simpl.
        assert (E : (0 <? c_jobs c) = true) by (apply Nat.ltb_lt; lia). rewrite E. simpl. eauto.
  - right. destruct cn.
    + exists (LVanish i). unfold exec. rewrite Er. simpl. rewrite Nat.eqb_refl. eauto.
    + exists (LEnd i OK). unfold exec. rewrite Er. simpl. rewrite Nat.eqb_refl. simpl.
      destruct (trig c s OK); eauto.
Qed.

Theorem run_length_bound : forall c ls s, run c (init c) ls = Some s -> length ls <= 4 * nrun c.
Proof.
  intros c ls s H.
  assert (G : forall ls s0 s1, Inv c s0 -> run c s0 ls = Some s1 -> length ls + measure c s1 <= measure c s0).
  { clear. induction ls as [|l ls IH]; simpl; intros s0 s1 I H.
    - inversion H. lia.
    - destruct (exec c s0 l) as [s2|] eqn:E; [|discriminate].
      pose proof (step_measure c s0 l s2 I (exec_step _ _ _ _ E)).
      specialize (IH s2 s1 (inv_step _ _ _ _ I E) H). lia. }
  specialize (G ls (init c) s (inv_init c) H). unfold measure at 2 in G. simpl in G. lia.
Qed.

(* ------------------------------------------------------------------ the trace checker *)
Lemma next_skip_enabled : forall c s l, next_skip c s = Some l -> exists s', exec c s l = Some s'.
Proof.
  intros c s l H. unfold next_skip in H.
  destruct (stopf c s && (length (s_run s) <? c_jobs c)) eqn:G; [|discriminate].
  destruct (s_wait s) as [|i w] eqn:Ew; [discriminate|]. inversion H. subst.
  apply andb_prop in G. destruct G as [G1 G2]. unfold exec. rewrite Ew, G1, G2. simpl.
  rewrite Nat.eqb_refl. simpl. eauto.
Qed.
Lemma next_tau_enabled : forall c s l, next_tau c s = Some l -> exists s', exec c s l = Some s'.
Proof.
  intros c s l H. unfold next_tau in H. destruct (s_pc s) as [k|k] eqn:Epc.
  - destruct ((k <? nrun c) && (par c k || (isnil (s_wait s) && isnil (s_run s)))) eqn:G.
    + inversion H. subst. unfold exec. rewrite Epc, Nat.eqb_refl. simpl. rewrite G. eauto.
    + apply next_skip_enabled. assumption.
  - destruct (negb (memn k (s_wait s)) && negb (memn k (run_ids (s_run s)))) eqn:G.
    + inversion H. subst. unfold exec. rewrite Epc, Nat.eqb_refl. simpl. rewrite G. eauto.
    + apply next_skip_enabled. assumption.
Qed.
Lemma next_tau_tau : forall c s l, next_tau c s = Some l -> vis l = None.
Proof.
  intros c s l H. unfold next_tau, next_skip in H.
  destruct (s_pc s);
    repeat match type of H with
           | (if ?b then _ else _) = _ => destruct b
           | match ?w with [] => _ | _ :: _ => _ end = _ => destruct w
           end; inversion H; reflexivity.
Qed.

Lemma saturate_spec : forall c f s ls s', saturate c f s = (ls, s') ->
  run c s ls = Some s' /\ visible ls = [].
Proof.
  intros c f. induction f as [|f IH]; simpl; intros s ls s' H.
  - inversion H. subst. simpl. auto.
  - destruct (next_tau c s) as [l|] eqn:N; [|inversion H; subst; simpl; auto].
    destruct (exec c s l) as [s1|] eqn:E; [|inversion H; subst; simpl; auto].
    destruct (saturate c f s1) as [ls1 s2] eqn:S. inversion H. subst.
    destruct (IH _ _ _ S) as [A B]. simpl. rewrite E, (next_tau_tau _ _ _ N). auto.
Qed.

Lemma saturate_fix : forall c f s, Inv c s -> measure c s <= f ->
  next_tau c (snd (saturate c f s)) = None.
Proof.
  intros c f. induction f as [|f IH]; intros s I M.
  - simpl. destruct (next_tau c s) as [l|] eqn:N; [|reflexivity].
    destruct (next_tau_enabled _ _ _ N) as [s1 E].
    pose proof (step_measure _ _ _ _ I (exec_step _ _ _ _ E)). lia.
  - simpl. destruct (next_tau c s) as [l|] eqn:N; [|simpl; assumption].
    destruct (next_tau_enabled _ _ _ N) as [s1 E]. rewrite E.
    destruct (saturate c f s1) as [ls1 s2] eqn:S. simpl.
    pose proof (step_measure _ _ _ _ I (exec_step _ _ _ _ E)).
    specialize (IH s1 (inv_step _ _ _ _ I E) ltac:(lia)). rewrite S in IH. exact IH.
Qed.

Lemma visible_app : forall a b, visible (a ++ b) = visible a ++ visible b.
Proof.
  induction a as [|l a IH]; simpl; intros; [reflexivity|]. destruct (vis l); simpl; rewrite IH; reflexivity.
Qed.
Lemma vis_lab : forall v, vis (lab v) = Some v.
Proof. destruct v; reflexivity. Qed.

(* soundness: an accepted trace is the observable part of a run of the transition system *)
Theorem adm_sound : forall c tr s s', adm_st c s tr = Some s' ->
  exists ls, run c s ls = Some s' /\ visible ls = tr.
Proof.
  intros c tr. induction tr as [|v tr IH]; simpl; intros s s' H.
  - inversion H. subst. exists []. auto.
  - destruct (saturate c (sat_fuel c) s) as [ls0 s0] eqn:S. simpl in H.
    destruct (exec c s0 (lab v)) as [s1|] eqn:E; [|discriminate].
    destruct (IH _ _ H) as [ls1 [R1 V1]]. destruct (saturate_spec _ _ _ _ _ S) as [R0 V0].
    exists (ls0 ++ lab v :: ls1). split.
    + rewrite run_app, R0. simpl. rewrite E. assumption.
    + rewrite visible_app, V0. simpl. rewrite vis_lab, V1. reflexivity.
Qed.

(* the part of the state that observable steps depend on and change *)
Definition veq (a b : st) : Prop :=
  s_run a = s_run b /\ s_failc a = s_failc b /\ s_intr a = s_intr b /\
  s_started a = s_started b /\ s_results a = s_results b.

Lemma veq_refl : forall s, veq s s.
Proof. intros. unfold veq. auto. Qed.
Lemma veq_trans : forall a b d, veq a b -> veq b d -> veq a d.
Proof. unfold veq. intros a b d [A1 [A2 [A3 [A4 A5]]]] [B1 [B2 [B3 [B4 B5]]]]. repeat split; congruence. Qed.
Lemma veq_sym : forall a b, veq a b -> veq b a.
Proof. unfold veq. intros a b [A1 [A2 [A3 [A4 A5]]]]. repeat split; congruence. Qed.

Lemma tau_veq : forall c s l s', vis l = None -> exec c s l = Some s' -> veq s s'.
Proof.
  intros c s l s' V E. apply exec_step in E. destruct E; simpl in V; try discriminate; unfold veq; simpl; auto.
Qed.
Lemma taus_veq : forall c ls s s', visible ls = [] -> run c s ls = Some s' -> veq s s'.
Proof.
  intros c ls. induction ls as [|l ls IH]; simpl; intros s s' V R.
  - inversion R. apply veq_refl.
  - destruct (exec c s l) as [s1|] eqn:E; [|discriminate].
    destruct (vis l) eqn:Vl; [discriminate|].
    eapply veq_trans; [eapply tau_veq; eassumption | apply IH; assumption].
Qed.

Lemma veq_stopf : forall c a b, veq a b -> stopf c a = stopf c b.
Proof. unfold veq, stopf, repfail. intros c a b [A1 [A2 [A3 _]]]. rewrite A2, A3. reflexivity. Qed.
Lemma veq_repfail : forall c a b, veq a b -> repfail c a = repfail c b.
Proof. unfold veq, repfail. intros c a b [A1 [A2 [A3 _]]]. rewrite A2. reflexivity. Qed.

(* End and Vanish depend on the observable part only *)
Lemma end_transfer : forall c a b i r a', veq a b -> exec c a (LEnd i r) = Some a' ->
  exists b', exec c b (LEnd i r) = Some b' /\ veq a' b'.
Proof.
  intros c a b i r a' V E. destruct V as [V1 [V2 [V3 [V4 V5]]]]. unfold exec in *.
  rewrite <- V1. destruct (find_run i (s_run a)) as [cn|]; [|discriminate].
  destruct (Bool.eqb cn (result_eqb r INTERRUPT)); [|discriminate].
  assert (T : trig c b r = trig c a r) by (unfold trig, failc_after; rewrite V2; reflexivity).
  assert (F : failc_after b r = failc_after a r) by (unfold failc_after; rewrite V2; reflexivity).
  rewrite T, F. destruct (trig c a r); inversion E; subst; eexists; split; try reflexivity;
    unfold veq; simpl; rewrite <- ?V3, <- ?V4, <- ?V5; auto.
Qed.
Lemma vanish_transfer : forall c a b i a', veq a b -> exec c a (LVanish i) = Some a' ->
  exists b', exec c b (LVanish i) = Some b' /\ veq a' b'.
Proof.
  intros c a b i a' V E. destruct V as [V1 [V2 [V3 [V4 V5]]]]. unfold exec in *.
  rewrite <- V1. destruct (find_run i (s_run a)) as [[|]|]; try discriminate.
  inversion E; subst; eexists; split; try reflexivity. unfold veq; simpl; auto.
Qed.

(* what a task waiting for a semaphore slot knows while no stop flag is up:
   every earlier non-parallel runner has its result, and if the task is itself
   non-parallel every earlier runner has *)
Lemma waiting_elig : forall c s i, Inv c s -> In i (s_wait s) -> stopf c s = false ->
  (forall j, j < i -> par c j = false -> In j (resids s)) /\
  (par c i = false -> forall j, j < i -> In j (resids s)).
Proof.
  intros c s i I Hw S. inv_open I.
  assert (R : repfail c s = false) by (unfold stopf in S; apply orb_false_elim in S; tauto).
  assert (Ui : spawned (s_pc s) i) by (apply up; tauto).
  assert (Si := solo i (or_introl Hw)).
  split.
  - intros j Hj Hp.
    assert (Uj : spawned (s_pc s) j) by (destruct (s_pc s); simpl in *; lia).
    destruct (low R j Uj) as [A|[A|A]].
    + specialize (solo j (or_introl A)). destruct (s_pc s); [congruence | lia].
    + specialize (solo j (or_intror A)). destruct (s_pc s); [congruence | lia].
    + apply (ff S). assumption.
  - intros Hp j Hj.
    assert (Uj : spawned (s_pc s) j) by (destruct (s_pc s); simpl in *; lia).
    destruct (low R j Uj) as [A|[A|A]].
    + specialize (solo j (or_introl A)). destruct (s_pc s); [congruence | lia].
    + specialize (solo j (or_intror A)). destruct (s_pc s); [congruence | lia].
    + apply (ff S). assumption.
Qed.

(* the key step of completeness: in a state with the same observable part in
   which no internal step is enabled, the same task is waiting *)
Lemma start_transfer : forall c a b i,
  Inv c a -> Inv c b -> veq a b -> next_tau c b = None ->
  In i (s_wait a) -> stopf c a = false -> In i (s_wait b).
Proof.
  intros c a b i Ia Ib V N Hw S.
  destruct (waiting_elig c a i Ia Hw S) as [E1 E2].
  assert (Sb : stopf c b = false) by (rewrite <- (veq_stopf c a b V); assumption).
  assert (Rb : repfail c b = false) by (unfold stopf in Sb; apply orb_false_elim in Sb; tauto).
  destruct V as [V1 [V2 [V3 [V4 V5]]]].
  assert (Hres : resids a = resids b) by (unfold resids; rewrite V5; reflexivity).
  assert (Hns : ~ In i (s_started b)) by (rewrite <- V4; apply (I_st3 _ _ Ia); assumption).
  assert (Hi : i < nrun c).
  { pose proof (I_up _ _ Ia i (or_introl Hw)) as U. pose proof (I_pcb _ _ Ia) as P.
    destruct (s_pc a); simpl in *; lia. }
  (* a spawned, not started task of b is waiting *)
  assert (Sp : spawned (s_pc b) i -> In i (s_wait b)).
  { intros U. destruct (I_low _ _ Ib Rb i U) as [A|[A|A]]; [assumption | |].
    - exfalso. apply Hns. apply (I_st2 _ _ Ib). assumption.
    - exfalso. apply Hns. apply (I_res3 _ _ Ib). apply (I_f _ _ Ib Sb). assumption. }
  unfold next_tau in N. destruct (s_pc b) as [k|k] eqn:Epc.
  - destruct (lt_dec i k) as [L|L]; [apply Sp; exact L|]. exfalso.
    destruct ((k <? nrun c) && (par c k || (isnil (s_wait b) && isnil (s_run b)))) eqn:G; [discriminate|].
    assert (Hk : (k <? nrun c) = true) by (apply Nat.ltb_lt; lia). rewrite Hk in G. simpl in G.
    apply orb_false_elim in G. destruct G as [Gp Gn].
    destruct (Nat.eq_dec i k) as [->|Nk].
    + (* k itself: all earlier runners are done in b, so nothing can be waiting or running *)
      assert (D : forall j, In j (s_wait b) \/ In j (run_ids (s_run b)) -> False).
      { intros j A.
        assert (U : spawned (s_pc b) j) by (apply (I_up _ _ Ib); tauto). rewrite Epc in U. simpl in U.
        assert (Dj : In j (s_done b)).
        { apply (I_res1 _ _ Ib). rewrite <- Hres. apply (E2 Gp). assumption. }
        destruct A as [A|A]; [apply (I_dwd _ _ Ib j A Dj) | apply (I_drd _ _ Ib j A Dj)]. }
      destruct (s_wait b) as [|x w] eqn:Ew; [|apply (D x); left; left; reflexivity].
      destruct (s_run b) as [|[x cn] rn] eqn:Er; [discriminate|]. apply (D x). right. left. reflexivity.
    + (* k is an earlier non-parallel runner: it would have its result, yet it is not spawned in b *)
      assert (Dk : In k (s_done b)).
      { apply (I_res1 _ _ Ib). rewrite <- Hres. apply E1; [lia | assumption]. }
      pose proof (I_up _ _ Ib k (or_intror (or_intror Dk))) as U. rewrite Epc in U. simpl in U. lia.
  - destruct (le_dec i k) as [L|L]; [apply Sp; exact L|]. exfalso.
    pose proof (I_pcb _ _ Ib) as P. rewrite Epc in P. destruct P as [Pk Pp].
    assert (Dk : In k (s_done b)).
    { apply (I_res1 _ _ Ib). rewrite <- Hres. apply E1; [lia | assumption]. }
    destruct (negb (memn k (s_wait b)) && negb (memn k (run_ids (s_run b)))) eqn:G; [discriminate|].
    apply andb_false_elim in G. destruct G as [G|G]; apply negb_false_iff, memn_In in G.
    + apply (I_dwd _ _ Ib k G Dk).
    + apply (I_drd _ _ Ib k G Dk).
Qed.

Lemma saturate_inv : forall c f s, Inv c s -> Inv c (snd (saturate c f s)).
Proof.
  intros c f s I. destruct (saturate c f s) as [ls s'] eqn:S. simpl.
  destruct (saturate_spec _ _ _ _ _ S) as [R _]. eapply inv_run; eassumption.
Qed.
Lemma saturate_veq : forall c f s, veq s (snd (saturate c f s)).
Proof.
  intros c f s. destruct (saturate c f s) as [ls s'] eqn:S. simpl.
  destruct (saturate_spec _ _ _ _ _ S) as [R V]. eapply taus_veq; eassumption.
Qed.
Lemma sat_fuel_enough : forall c s, Inv c s -> measure c s <= sat_fuel c.
Proof. intros c s I. pose proof (I_meas _ _ I). unfold sat_fuel. lia. Qed.

Lemma visible_step_transfer : forall c a b v a',
  Inv c a -> Inv c b -> veq a b -> next_tau c b = None ->
  exec c a (lab v) = Some a' -> exists b', exec c b (lab v) = Some b' /\ veq a' b'.
Proof.
  intros c a b v a' Ia Ib V N E. destruct v as [i|i r|i]; cbn [lab] in *.
  - pose proof E as E0. apply exec_step in E0. inversion E0; subst.
    assert (Hb : In i (s_wait b)) by (apply (start_transfer c a b i Ia Ib V N); assumption).
    pose proof (veq_stopf c a b V) as Sb. destruct V as [V1 [V2 [V3 [V4 V5]]]].
    eexists. split.
    + apply step_exec. apply StStart; [assumption | rewrite <- V1; assumption | rewrite <- Sb; assumption].
    + unfold veq. simpl. rewrite V1, V2, V3, V4, V5. auto.
  - eapply end_transfer; eassumption.
  - eapply vanish_transfer; eassumption.
Qed.

(* completeness: the observable part of every run is accepted *)
Lemma adm_complete_gen : forall c ls a a' b,
  Inv c a -> Inv c b -> veq a b -> run c a ls = Some a' ->
  exists b', adm_st c b (visible ls) = Some b' /\ veq a' b' /\ Inv c b'.
Proof.
  intros c ls. induction ls as [|l ls IH]; simpl; intros a a' b Ia Ib V R.
  - inversion R. subst. exists b. auto.
  - destruct (exec c a l) as [a1|] eqn:E; [|discriminate].
    destruct (vis l) as [v|] eqn:Vl.
    + assert (L : l = lab v) by (destruct l; inversion Vl; reflexivity). subst l. simpl.
      set (b0 := snd (saturate c (sat_fuel c) b)).
      assert (Ib0 : Inv c b0) by (apply saturate_inv; assumption).
      assert (V0 : veq a b0) by (eapply veq_trans; [eassumption | apply saturate_veq]).
      assert (N0 : next_tau c b0 = None) by (apply saturate_fix; [assumption | apply sat_fuel_enough; assumption]).
      destruct (visible_step_transfer c a b0 v a1 Ia Ib0 V0 N0 E) as [b1 [E1 V1]].
      rewrite E1. apply (IH a1 a' b1); [exact (inv_step _ _ _ _ Ia E) | exact (inv_step _ _ _ _ Ib0 E1) | assumption | assumption].
    + apply (IH a1 a' b); [exact (inv_step _ _ _ _ Ia E) | assumption | | assumption].
      eapply veq_trans; [apply veq_sym; eapply tau_veq; eassumption | assumption].
Qed.

Theorem adm_complete : forall c ls s, run c (init c) ls = Some s -> admissible c (visible ls) = true.
Proof.
  intros c ls s R. unfold admissible.
  destruct (adm_complete_gen c ls (init c) s (init c) (inv_init c) (inv_init c) (veq_refl _) R) as [b [A _]].
  rewrite A. reflexivity.
Qed.

Theorem admissible_iff : forall c tr,
  admissible c tr = true <-> exists ls s, run c (init c) ls = Some s /\ visible ls = tr.
Proof.
  intros c tr. split.
  - unfold admissible. destruct (adm_st c (init c) tr) as [s|] eqn:A; [|discriminate]. intros _.
    destruct (adm_sound _ _ _ _ A) as [ls [R V]]. eauto.
  - intros [ls [s [R V]]]. subst tr. eapply adm_complete. eassumption.
Qed.

(* ------------------------------------------------------------------ finished runs *)
Lemma terminal_transfer : forall c a b, 1 <= c_jobs c ->
  Inv c a -> Inv c b -> veq a b -> next_tau c b = None -> terminal c a = true -> terminal c b = true.
Proof.
  intros c a b J Ia Ib V N T.
  unfold terminal in T. destruct (s_pc a) as [ka|ka] eqn:Epa; [|discriminate].
  apply andb_prop in T. destruct T as [T Tr]. apply andb_prop in T. destruct T as [Tk Tw].
  apply Nat.leb_le in Tk. apply isnil_true in Tw, Tr.
  pose proof (veq_stopf c a b V) as Sab.
  destruct V as [V1 [V2 [V3 [V4 V5]]]].
  assert (Rb : s_run b = []) by congruence.
  assert (J0 : (0 <? c_jobs c) = true) by (apply Nat.ltb_lt; lia).
  assert (W : s_wait b = []).
  { destruct (s_wait b) as [|x w] eqn:Ew; [reflexivity|]. exfalso.
    destruct (stopf c b) eqn:Sb.
    - assert (K : next_skip c b = Some (LSkip x)).
      { unfold next_skip. rewrite Sb, Rb, Ew. simpl. rewrite J0. reflexivity. }
      unfold next_tau in N. rewrite K in N.
      destruct (s_pc b); match type of N with (if ?g then _ else _) = _ => destruct g end; discriminate.
    - assert (Sa : stopf c a = false) by congruence.
      assert (Ra : repfail c a = false) by (unfold stopf in Sa; apply orb_false_elim in Sa; tauto).
      assert (Hx : In x (s_wait b)) by (rewrite Ew; left; reflexivity).
      assert (Xn : x < nrun c).
      { pose proof (I_up _ _ Ib x (or_introl Hx)) as U. pose proof (I_pcb _ _ Ib) as P.
        destruct (s_pc b); simpl in *; lia. }
      pose proof (I_low _ _ Ia Ra x) as L. rewrite Epa, Tw, Tr in L. simpl in L.
      destruct (L ltac:(lia)) as [[]|[[]|D]].
      apply (I_f _ _ Ia Sa) in D. unfold resids in D. rewrite V5 in D.
      apply (I_res3 _ _ Ib) in D. apply (I_st3 _ _ Ib x Hx D). }
  unfold terminal. unfold next_tau in N. rewrite W, Rb in *. simpl in *.
  destruct (s_pc b) as [k|k].
  - destruct (k <? nrun c) eqn:Ek.
    + simpl in N. rewrite orb_true_r in N. discriminate.
    + apply Nat.ltb_ge in Ek. apply Nat.leb_le in Ek. rewrite Ek. reflexivity.
  - discriminate.
Qed.

Theorem complete_run_iff : forall c tr, 1 <= c_jobs c ->
  (complete_run c tr = true <->
   exists ls s, run c (init c) ls = Some s /\ visible ls = tr /\ terminal c s = true).
Proof.
  intros c tr J. unfold complete_run. split.
  - destruct (adm_st c (init c) tr) as [s|] eqn:A; [|discriminate]. intros T.
    destruct (adm_sound _ _ _ _ A) as [ls [R V]].
    destruct (saturate c (sat_fuel c) s) as [ls1 s1] eqn:S. simpl in T.
    destruct (saturate_spec _ _ _ _ _ S) as [R1 V1].
    exists (ls ++ ls1), s1. repeat split; [rewrite run_app, R; assumption | | assumption].
    rewrite visible_app, V, V1, app_nil_r. reflexivity.
  - intros [ls [s [R [V T]]]]. subst tr.
    destruct (adm_complete_gen c ls (init c) s (init c) (inv_init c) (inv_init c) (veq_refl _) R) as [b [A [Vb Ib]]].
    rewrite A. apply (terminal_transfer c s); try assumption.
    + eapply inv_reach; eassumption.
    + apply saturate_inv; assumption.
    + eapply veq_trans; [eassumption | apply saturate_veq].
    + apply saturate_fix; [assumption | apply sat_fuel_enough; assumption].
Qed.

(* ------------------------------------------------------------------ INTERRUPT needs a real failure *)
(* A run is only ever reported INTERRUPT after cancel_all_tests, and that is only
   called for a bad result that is not itself an INTERRUPT.  (No signals in the model.) *)
Definition real_failure (s : st) : Prop :=
  exists j r, In (j, r) (s_results s) /\ is_bad r = true /\ r <> INTERRUPT.
Definition Inv2 (s : st) : Prop :=
  (s_intr s = true \/ exists i, In (i, INTERRUPT) (s_results s)) -> real_failure s.

Lemma real_failure_mono : forall s s', (forall x, In x (s_results s) -> In x (s_results s')) ->
  real_failure s -> real_failure s'.
Proof. intros s s' Hsub [j [r [A B]]]. exists j, r. split; [apply Hsub; assumption | assumption]. Qed.

Lemma inv2_step : forall c s l s', Inv c s -> Inv2 s -> exec c s l = Some s' -> Inv2 s'.
Proof.
  intros c s l s' I I2 E. apply exec_step in E.
  destruct E; unfold Inv2 in *; simpl; try exact I2.
  - (* End with trigger *)
    intros _. destruct (result_eqb r INTERRUPT) eqn:Er.
    + assert (r = INTERRUPT) by (destruct r; simpl in Er; congruence). subst r.
      assert (Hi : s_intr s = true) by (apply (I_canc _ _ I i); apply find_run_In; assumption).
      eapply real_failure_mono; [|apply I2; left; exact Hi]. simpl. intros x Hx. apply in_or_app. tauto.
    + exists i, r. simpl. split; [apply in_or_app; right; left; reflexivity|].
      unfold trig in H0. apply andb_prop in H0. destruct H0 as [_ Hb]. split; [assumption|].
      intros ->. simpl in Er. discriminate.
  - (* End without trigger *)
    intros P. destruct (result_eqb r INTERRUPT) eqn:Er.
    + assert (Hi : s_intr s = true) by (apply (I_canc _ _ I i); apply find_run_In; assumption).
      eapply real_failure_mono; [|apply I2; left; exact Hi]. simpl. intros x Hx. apply in_or_app. tauto.
    + eapply real_failure_mono; [simpl; intros x Hx; apply in_or_app; left; exact Hx|].
      apply I2. destruct P as [P|[k P]]; [left; exact P|]. right.
      apply in_app_or in P. destruct P as [P|[P|[]]]; [exists k; exact P|].
      inversion P. subst. simpl in Er. discriminate.
Qed.

Theorem interrupt_needs_real_failure : forall c ls s i, run c (init c) ls = Some s ->
  In (i, INTERRUPT) (ends ls) ->
  exists j r, In (j, r) (ends ls) /\ is_bad r = true /\ r <> INTERRUPT.
Proof.
  intros c ls s i R Hin.
  assert (G : forall ls s0 s1, Inv c s0 -> Inv2 s0 -> run c s0 ls = Some s1 -> Inv2 s1).
  { clear. induction ls as [|l ls IH]; simpl; intros s0 s1 I I2 H.
    - inversion H. subst. assumption.
    - destruct (exec c s0 l) as [s2|] eqn:E; [|discriminate].
      apply (IH s2 s1); [eapply inv_step; eassumption | eapply inv2_step; eassumption | assumption]. }
  assert (I0 : Inv2 (init c)).
  { unfold Inv2. simpl. intros [A|[k []]]. discriminate. }
  specialize (G ls (init c) s (inv_init c) I0 R).
  apply reach_history in R. destruct R as [_ [_ C]]. unfold Inv2, real_failure in G. rewrite C in G.
  apply G. right. exists i. assumption.
Qed.

(* ------------------------------------------------------------------ zero jobs *)
(* [deadlock_free] needs at least one job.  This lemma records why the option layer has to
   refuse --num-processes 0 (Sched.parse_jobs; Proofs.cli_never_stuck): with the semaphore at 0
   the transition system would be stuck right after the first task is created.  The
   configuration below is not one an accepted command line produces. *)
Theorem zero_jobs_stuck :
  exists c ls s, c = mk_cfg [true] 1 0 0%Z /\ c_jobs c = 0 /\ run c (init c) ls = Some s /\
                 terminal c s = false /\ forall l, exec c s l = None.
Proof.
  exists (mk_cfg [true] 1 0 0%Z), [LSpawn 0].
  eexists. split; [reflexivity|]. split; [reflexivity|]. split; [reflexivity|]. split; [reflexivity|].
  intros l. destruct l as [k|k|i|i|i r|i]; try reflexivity.
  - destruct k as [|[|k]]; reflexivity.
  - unfold exec. simpl. rewrite andb_false_r. reflexivity.
  - unfold exec. simpl. rewrite andb_false_r. reflexivity.
Qed.


