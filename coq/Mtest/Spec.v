(* Mtest/Spec.v — what an observer may see of `meson test`'s scheduler, stated
   directly on the observable events (no main loop, no semaphore queue):

     a test may START   iff it is a selected runner, has not been started before, a job
                        slot is free, no stop flag is up (maxfail reached / failure under
                        --repeat), every earlier non-parallel runner has reported its
                        result and, if the test is itself non-parallel, every earlier
                        runner has;
     a running test may REPORT result r  iff  (it was cancelled <-> r = INTERRUPT); the
                        result is tallied, and when maxfail is reached by a bad result
                        all other running tests are cancelled;
     a running test may VANISH (no result) iff it was cancelled.

   Mtest/SpecProofs.v proves that the traces of this specification are exactly the
   observable traces of the transition system of Mtest/Sched.v (= exactly the traces the
   checker `admissible` accepts).  No proofs in this file. *)
From MV Require Export Base.Strs Mtest.Classify Mtest.Sched.
From Coq Require Import ZArith Arith.
Open Scope nat_scope.

Record vst := mkvst {
  v_run : list (nat * bool);          (* running tests; flag = cancelled *)
  v_failc : nat;                      (* FAIL + ERROR + INTERRUPT so far *)
  v_intr : bool;                      (* maxfail was reached *)
  v_started : list nat;
  v_results : list (nat * result)
}.

Definition vinit : vst := mkvst [] 0 false [] [].
Definition v_resids (v : vst) : list nat := map fst (v_results v).
Definition vstop (c : cfg) (v : vst) : bool := v_intr v || (c_repeat c && (0 <? v_failc v)).

(* may runner i be started now? (the ordering part) *)
Definition velig (c : cfg) (v : vst) (i : nat) : bool :=
  (i <? nrun c) && negb (memn i (v_started v)) &&
  forallb (fun j => par c j || memn j (v_resids v)) (seq 0 i) &&
  (par c i || forallb (fun j => memn j (v_resids v)) (seq 0 i)).

Definition vexec (c : cfg) (v : vst) (l : vlabel) : option vst :=
  match l with
  | VStart i =>
      if velig c v i && (length (v_run v) <? c_jobs c) && negb (vstop c v)
      then Some (mkvst (v_run v ++ [(i, false)]) (v_failc v) (v_intr v) (v_started v ++ [i]) (v_results v))
      else None
  | VEnd i r =>
      match find_run i (v_run v) with
      | Some canc =>
          if Bool.eqb canc (result_eqb r INTERRUPT) then
            let failc' := v_failc v + (if counts_fail r then 1 else 0) in
            let trig := negb (c_maxfail c =? 0)%Z && (c_maxfail c <=? Z.of_nat failc')%Z && is_bad r in
            let rest := rem_run i (v_run v) in
            Some (mkvst (if trig then map (fun x => (fst x, true)) rest else rest) failc'
                        (v_intr v || trig) (v_started v) (v_results v ++ [(i, r)]))
          else None
      | None => None
      end
  | VVanish i =>
      match find_run i (v_run v) with
      | Some true => Some (mkvst (rem_run i (v_run v)) (v_failc v) (v_intr v) (v_started v) (v_results v))
      | _ => None
      end
  end.

Fixpoint vrun (c : cfg) (v : vst) (tr : list vlabel) : option vst :=
  match tr with
  | [] => Some v
  | l :: r => match vexec c v l with Some v' => vrun c v' r | None => None end
  end.

(* the observable part of a state of the transition system *)
Definition vabs (s : st) : vst := mkvst (s_run s) (s_failc s) (s_intr s) (s_started s) (s_results s).
