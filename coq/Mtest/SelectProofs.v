(* Mtest/SelectProofs.v — `--slice i/n` partitions the selection; the
   serialisation order is a stable sort by descending priority. *)
From MV Require Import Base.Strs Mtest.Select.
From Coq Require Import Lia ZArith Arith List Bool Permutation Sorting.Sorted.
Import ListNotations.
Open Scope nat_scope.

(* ------------------------------------------------------------------ slices *)
(* element q of slice i/n is element (i-1) + q*n of the list *)
Lemma stride_nth : forall A n (l : list A) c q, 0 < n ->
  nth_error (stride n c l) q = nth_error l (c + q * n).
Proof.
  intros A n l. induction l as [|x r IH]; intros c q Hn.
  - simpl. destruct q; destruct (c + _); reflexivity.
  - destruct c as [|c']; simpl.
    + destruct q as [|q']; [reflexivity|]. simpl. rewrite IH by assumption.
      destruct n as [|m]; [lia|]. simpl. rewrite Nat.sub_0_r. reflexivity.
    + apply IH. assumption.
Qed.

Theorem slice_nth : forall A (l : list A) i n q, 0 < n -> 1 <= i ->
  nth_error (slice l i n) q = nth_error l (i - 1 + q * n).
Proof. intros. unfold slice. apply stride_nth. assumption. Qed.

(* hence two different slices never share an index of the selection *)
Theorem slice_index_disjoint : forall i i' n q q', 1 <= i <= n -> 1 <= i' <= n ->
  i - 1 + q * n = i' - 1 + q' * n -> i = i'.
Proof.
  intros i i' n q q' Hi Hi' E.
  assert (A : (i - 1 + q * n) mod n = i - 1) by (rewrite Nat.mod_add by lia; apply Nat.mod_small; lia).
  assert (B : (i' - 1 + q' * n) mod n = i' - 1) by (rewrite Nat.mod_add by lia; apply Nat.mod_small; lia).
  rewrite E in A. lia.
Qed.

Lemma flat_map_nil : forall A B (l : list A), flat_map (fun _ => @nil B) l = [].
Proof. induction l; simpl; auto. Qed.
Lemma flat_map_map : forall A B C (f : B -> list C) (g : A -> B) l,
  flat_map f (map g l) = flat_map (fun x => f (g x)) l.
Proof. induction l; simpl; congruence. Qed.
Lemma flat_map_app_perm : forall A B (f g : A -> list B) l,
  Permutation (flat_map (fun c => f c ++ g c) l) (flat_map f l ++ flat_map g l).
Proof.
  induction l as [|a l IH]; simpl; [constructor|].
  rewrite <- !app_assoc. apply Permutation_app_head.
  eapply perm_trans; [apply Permutation_app_head; exact IH|].
  apply Permutation_app_swap_app.
Qed.

Definition tick (n c : nat) : nat := match c with O => n - 1 | S c' => c' end.

Lemma stride_cons : forall A n c (x : A) r,
  stride n c (x :: r) = (if c =? 0 then [x] else []) ++ stride n (tick n c) r.
Proof. intros. destruct c; reflexivity. Qed.

Lemma tick_seq : forall n, 0 < n -> Permutation (map (tick n) (seq 0 n)) (seq 0 n).
Proof.
  intros n Hn. destruct n as [|m]; [lia|]. simpl. rewrite Nat.sub_0_r.
  rewrite <- seq_shift, map_map. simpl. rewrite map_id.
  rewrite seq_shift. change (0 :: seq 1 m) with (seq 0 (S m)).
  rewrite seq_S. simpl. apply Permutation_cons_append.
Qed.

Lemma pick_seq : forall A (x : A) n, 0 < n ->
  flat_map (fun c => if c =? 0 then [x] else []) (seq 0 n) = [x].
Proof.
  intros A x n Hn. destruct n as [|m]; [lia|]. simpl. f_equal.
  rewrite <- seq_shift, flat_map_map. simpl. apply flat_map_nil.
Qed.

Lemma stride_perm : forall A n (l : list A) cs, 0 < n -> Permutation cs (seq 0 n) ->
  Permutation (flat_map (fun c => stride n c l) cs) l.
Proof.
  intros A n l. induction l as [|x r IH]; intros cs Hn P.
  - simpl. rewrite flat_map_nil. constructor.
  - erewrite flat_map_ext by (intros; apply stride_cons).
    eapply perm_trans; [apply flat_map_app_perm|].
    assert (P1 : Permutation (flat_map (fun c => if c =? 0 then [x] else []) cs) [x]).
    { eapply perm_trans; [apply Permutation_flat_map; exact P|]. rewrite pick_seq by assumption. apply Permutation_refl. }
    eapply perm_trans; [apply Permutation_app_tail; exact P1|]. simpl. constructor.
    rewrite <- (flat_map_map _ _ _ (fun c => stride n c r) (tick n) cs). apply IH; [assumption|].
    eapply perm_trans; [apply Permutation_map; exact P | apply tick_seq; assumption].
Qed.

(* --slice i/n over i = 1..n partitions the list *)
Theorem slice_partition : forall A (l : list A) n, 0 < n ->
  Permutation (concat (map (fun i => slice l i n) (seq 1 n))) l.
Proof.
  intros A l n Hn. rewrite <- flat_map_concat_map, <- seq_shift, flat_map_map.
  unfold slice. simpl.
  erewrite flat_map_ext by (intros; rewrite Nat.sub_0_r; reflexivity).
  apply stride_perm; [assumption | apply Permutation_refl].
Qed.

(* the same through get_tests: whatever the other selection options are *)
Definition no_slice (o : selopts) : selopts :=
  mkselopts (o_project o) (o_include o) (o_exclude_suites o) (o_exclude o) (o_args o) None.
Definition with_slice (o : selopts) (i n : nat) : selopts :=
  mkselopts (o_project o) (o_include o) (o_exclude_suites o) (o_exclude o) (o_args o) (Some (i, n)).

Lemma get_tests_slice : forall o tests sel i n,
  get_tests (no_slice o) tests = SelOk sel -> n <= length sel -> sel <> [] ->
  get_tests (with_slice o i n) tests = SelOk (slice sel i n).
Proof.
  intros o tests sel i n H Hn Hne. unfold get_tests in *. destruct tests as [|t ts].
  - inversion H. subst. contradiction.
  - change (pre_slice (with_slice o i n) (t :: ts)) with (pre_slice (no_slice o) (t :: ts)).
    destruct (pre_slice (no_slice o) (t :: ts)) as [t2|]; [|discriminate].
    simpl in *. inversion H. subst t2.
    assert (L : (length sel <? n) = false) by (apply Nat.ltb_ge; assumption).
    rewrite L. reflexivity.
Qed.

Theorem get_tests_slices_partition : forall o tests sel n,
  get_tests (no_slice o) tests = SelOk sel -> 0 < n -> n <= length sel ->
  exists parts, Forall2 (fun i p => get_tests (with_slice o i n) tests = SelOk p) (seq 1 n) parts /\
                Permutation (concat parts) sel.
Proof.
  intros o tests sel n H Hn Hl.
  exists (map (fun i => slice sel i n) (seq 1 n)). split.
  - assert (Hne : sel <> []) by (destruct sel; simpl in *; [lia | discriminate]).
    induction (seq 1 n) as [|i r IH]; simpl; constructor; [|exact IH].
    apply get_tests_slice; assumption.
  - apply slice_partition. assumption.
Qed.

(* ------------------------------------------------------------------ priority order *)
Lemma pinsert_perm : forall A (x : Z * A) l, Permutation (pinsert x l) (x :: l).
Proof.
  induction l as [|y r IH]; simpl; [constructor; constructor|].
  destruct (fst x <? fst y)%Z; [|apply Permutation_refl].
  eapply perm_trans; [apply perm_skip; exact IH | apply perm_swap].
Qed.
Theorem psort_perm : forall A (l : list (Z * A)), Permutation (psort l) l.
Proof.
  induction l as [|x r IH]; simpl; [constructor|].
  eapply perm_trans; [apply pinsert_perm | apply perm_skip; exact IH].
Qed.

Definition desc {A} (a b : Z * A) : Prop := (fst b <= fst a)%Z.

Lemma pinsert_sorted : forall A (x : Z * A) l, StronglySorted desc l -> StronglySorted desc (pinsert x l).
Proof.
  induction l as [|y r IH]; simpl; intros S.
  - constructor; constructor.
  - inversion S as [|? ? Sr Fy]. subst. destruct (fst x <? fst y)%Z eqn:E.
    + apply Z.ltb_lt in E. constructor; [apply IH; assumption|].
      rewrite Forall_forall. intros z Hz.
      apply (Permutation_in _ (pinsert_perm A x r)) in Hz. destruct Hz as [->|Hz].
      * unfold desc. lia.
      * rewrite Forall_forall in Fy. apply Fy. assumption.
    + apply Z.ltb_ge in E. constructor; [assumption|]. constructor; [unfold desc; lia|].
      rewrite Forall_forall in *. intros z Hz. specialize (Fy z Hz). unfold desc in *. lia.
Qed.
Theorem psort_sorted : forall A (l : list (Z * A)), StronglySorted desc (psort l).
Proof. induction l; simpl; [constructor | apply pinsert_sorted; assumption]. Qed.

(* stability: tests of equal priority keep their order of definition *)
Lemma pinsert_filter : forall A (x : Z * A) l p,
  filter (fun y => (fst y =? p)%Z) (pinsert x l) =
  if (fst x =? p)%Z then x :: filter (fun y => (fst y =? p)%Z) l else filter (fun y => (fst y =? p)%Z) l.
Proof.
  induction l as [|y r IH]; intros p; simpl; [reflexivity|].
  destruct (fst x <? fst y)%Z eqn:E; simpl.
  - rewrite IH. destruct (fst y =? p)%Z eqn:Ey; destruct (fst x =? p)%Z eqn:Ex; try reflexivity.
    apply Z.eqb_eq in Ey, Ex. apply Z.ltb_lt in E. lia.
  - reflexivity.
Qed.
Theorem psort_stable : forall A (l : list (Z * A)) p,
  filter (fun y => (fst y =? p)%Z) (psort l) = filter (fun y => (fst y =? p)%Z) l.
Proof.
  induction l as [|x r IH]; intros p; simpl; [reflexivity|].
  rewrite pinsert_filter, IH. reflexivity.
Qed.

Theorem psort_spec : forall A (l : list (Z * A)),
  Permutation (psort l) l /\ StronglySorted desc (psort l) /\
  forall p, filter (fun y => (fst y =? p)%Z) (psort l) = filter (fun y => (fst y =? p)%Z) l.
Proof. intros A l. exact (conj (psort_perm A l) (conj (psort_sorted A l) (psort_stable A l))). Qed.
