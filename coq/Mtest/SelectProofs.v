(* Mtest/SelectProofs.v — `--slice i/n` partitions the selection; the
   serialisation order is a stable sort by descending priority. *)
From MV Require Import Base.Strs Mtest.Select.
From Coq Require Import Lia ZArith Arith List Bool Permutation Sorting.Sorted.
Import ListNotations.
Open Scope nat_scope.

(* ------------------------------------------------------------------ slices *)
(* element q of slice i/n is element (i-1) + q*n of the list *)
Lemma stride_nth : forall A n (l : list A) c q, 0 < n ->
  nth_error (stride n c l) q = nth_error l (c + q * n).
Proof.
  intros A n l. induction l as [|x r IH]; intros c q Hn.
  - simpl. destruct q; destruct (c + _); reflexivity.
  - destruct c as [|c']; simpl.
    + destruct q as [|q']; [reflexivity|]. simpl. rewrite IH by assumption.
      destruct n as [|m]; [lia|]. simpl. rewrite Nat.sub_0_r. reflexivity.
    + apply IH. assumption.
Qed.

Theorem slice_nth : forall A (l : list A) i n q, 0 < n -> 1 <= i ->
  nth_error (slice l i n) q = nth_error l (i - 1 + q * n).
Proof. intros. unfold slice. apply stride_nth. assumption. Qed.

(* hence two different slices never share an index of the selection *)
Theorem slice_index_disjoint : forall i i' n q q', 1 <= i <= n -> 1 <= i' <= n ->
  i - 1 + q * n = i' - 1 + q' * n -> i = i'.
Proof.
  intros i i' n q q' Hi Hi' E.
  assert (A : (i - 1 + q * n) mod n = i - 1) by (rewrite Nat.mod_add by lia; apply Nat.mod_small; lia).
  assert (B : (i' - 1 + q' * n) mod n = i' - 1) by (rewrite Nat.mod_add by lia; apply Nat.mod_small; lia).
  rewrite E in A. lia.
Qed.

Lemma flat_map_nil : forall A B (l : list A), flat_map (fun _ => @nil B) l = [].
Proof. induction l; simpl; auto. Qed.
Lemma flat_map_map : forall A B C (f : B -> list C) (g : A -> B) l,
  flat_map f (map g l) = flat_map (fun x => f (g x)) l.
Proof. induction l; simpl; congruence. Qed.
Lemma flat_map_app_perm : forall A B (f g : A -> list B) l,
  Permutation (flat_map (fun c => f c ++ g c) l) (flat_map f l ++ flat_map g l).
Proof.
  induction l as [|a l IH]; simpl; [constructor|].
  rewrite <- !app_assoc. apply Permutation_app_head.
  eapply perm_trans; [apply Permutation_app_head; exact IH|].
  apply Permutation_app_swap_app.
Qed.

Definition tick (n c : nat) : nat := match c with O => n - 1 | S c' => c' end.

Lemma stride_cons : forall A n c (x : A) r,
  stride n c (x :: r) = (if c =? 0 then [x] else []) ++ stride n (tick n c) r.
Proof. intros. destruct c; reflexivity. Qed.

Lemma tick_seq : forall n, 0 < n -> Permutation (map (tick n) (seq 0 n)) (seq 0 n).
Proof.
  intros n Hn. destruct n as [|m]; [lia|]. simpl. rewrite Nat.sub_0_r.
  rewrite <- seq_shift, map_map. simpl. rewrite map_id.
  rewrite seq_shift. change (0 :: seq 1 m) with (seq 0 (S m)).
  rewrite seq_S. simpl. apply Permutation_cons_append.
Qed.

Lemma pick_seq : forall A (x : A) n, 0 < n ->
  flat_map (fun c => if c =? 0 then [x] else []) (seq 0 n) = [x].
Proof.
  intros A x n Hn. destruct n as [|m]; [lia|]. simpl. f_equal.
  rewrite <- seq_shift, flat_map_map. simpl. apply flat_map_nil.
Qed.

Lemma stride_perm : forall A n (l : list A) cs, 0 < n -> Permutation cs (seq 0 n) ->
  Permutation (flat_map (fun c => stride n c l) cs) l.
Proof.
  intros A n l. induction l as [|x r IH]; intros cs Hn P.
  - simpl. rewrite flat_map_nil. constructor.
  - erewrite flat_map_ext by (intros; apply stride_cons).
    eapply perm_trans; [apply flat_map_app_perm|].
    assert (P1 : Permutation (flat_map (fun c => if c =? 0 then [x] else []) cs) [x]).
    { eapply perm_trans; [apply Permutation_flat_map; exact P|]. rewrite pick_seq by assumption. apply Permutation_refl. }
    eapply perm_trans; [apply Permutation_app_tail; exact P1|]. simpl. constructor.
    rewrite <- (flat_map_map _ _ _ (fun c => stride n c r) (tick n) cs). apply IH; [assumption|].
    eapply perm_trans; [apply Permutation_map; exact P | apply tick_seq; assumption].
Qed.

(* --slice i/n over i = 1..n partitions the list *)
Theorem slice_partition : forall A (l : list A) n, 0 < n ->
  Permutation (concat (map (fun i => slice l i n) (seq 1 n))) l.
Proof.
  intros A l n Hn. rewrite <- flat_map_concat_map, <- seq_shift, flat_map_map.
  unfold slice. simpl.
  erewrite flat_map_ext by (intros; rewrite Nat.sub_0_r; reflexivity).
  apply stride_perm; [assumption | apply Permutation_refl].
Qed.

(* the same through get_tests: whatever the other selection options are *)
Definition no_slice (o : selopts) : selopts :=
  mkselopts (o_project o) (o_include o) (o_exclude_suites o) (o_exclude o) (o_args o) None.
Definition with_slice (o : selopts) (i n : nat) : selopts :=
  mkselopts (o_project o) (o_include o) (o_exclude_suites o) (o_exclude o) (o_args o) (Some (i, n)).

Lemma get_tests_slice : forall o tests sel i n,
  get_tests (no_slice o) tests = SelOk sel -> n <= length sel -> sel <> [] ->
  get_tests (with_slice o i n) tests = SelOk (slice sel i n).
Proof.
  intros o tests sel i n H Hn Hne. unfold get_tests in *. destruct tests as [|t ts].
  - inversion H. subst. contradiction.
  - change (pre_slice (with_slice o i n) (t :: ts)) with (pre_slice (no_slice o) (t :: ts)).
    destruct (pre_slice (no_slice o) (t :: ts)) as [t2|]; [|discriminate].
    simpl in *. inversion H. subst t2.
    assert (L : (length sel <? n) = false) by (apply Nat.ltb_ge; assumption).
    rewrite L. reflexivity.
Qed.

Theorem get_tests_slices_partition : forall o tests sel n,
  get_tests (no_slice o) tests = SelOk sel -> 0 < n -> n <= length sel ->
  exists parts, Forall2 (fun i p => get_tests (with_slice o i n) tests = SelOk p) (seq 1 n) parts /\
                Permutation (concat parts) sel.
Proof.
  intros o tests sel n H Hn Hl.
  exists (map (fun i => slice sel i n) (seq 1 n)). split.
  - assert (Hne : sel <> []) by (destruct sel; simpl in *; [lia | discriminate]).
    induction (seq 1 n) as [|i r IH]; simpl; constructor; [|exact IH].
    apply get_tests_slice; assumption.
  - apply slice_partition. assumption.
Qed.

(* ------------------------------------------------------------------ priority order *)
Lemma pinsert_perm : forall A (x : Z * A) l, Permutation (pinsert x l) (x :: l).
Proof.
  induction l as [|y r IH]; simpl; [constructor; constructor|].
  destruct (fst x <? fst y)%Z; [|apply Permutation_refl].
  eapply perm_trans; [apply perm_skip; exact IH | apply perm_swap].
Qed.
Theorem psort_perm : forall A (l : list (Z * A)), Permutation (psort l) l.
Proof.
  induction l as [|x r IH]; simpl; [constructor|].
  eapply perm_trans; [apply pinsert_perm | apply perm_skip; exact IH].
Qed.

Definition desc {A} (a b : Z * A) : Prop := (fst b <= fst a)%Z.

Lemma pinsert_sorted : forall A (x : Z * A) l, StronglySorted desc l -> StronglySorted desc (pinsert x l).
Proof.
  induction l as [|y r IH]; simpl; intros S.
  - constructor; constructor.
  - inversion S as [|? ? Sr Fy]. subst. destruct (fst x <? fst y)%Z eqn:E.
    + apply Z.ltb_lt in E. constructor; [apply IH; assumption|].
      rewrite Forall_forall. intros z Hz.
      apply (Permutation_in _ (pinsert_perm A x r)) in Hz. destruct Hz as [->|Hz].
      * unfold desc. lia.
      * rewrite Forall_forall in Fy. apply Fy. assumption.
    + apply Z.ltb_ge in E. constructor; [assumption|]. constructor; [unfold desc; lia|].
      rewrite Forall_forall in *. intros z Hz. specialize (Fy z Hz). unfold desc in *. lia.
Qed.
Theorem psort_sorted : forall A (l : list (Z * A)), StronglySorted desc (psort l).
Proof. induction l; simpl; [constructor | apply pinsert_sorted; assumption]. Qed.

(* stability: tests of equal priority keep their order of definition *)
Lemma pinsert_filter : forall A (x : Z * A) l p,
  filter (fun y => (fst y =? p)%Z) (pinsert x l) =
  if (fst x =? p)%Z then x :: filter (fun y => (fst y =? p)%Z) l else filter (fun y => (fst y =? p)%Z) l.
Proof.
  induction l as [|y r IH]; intros p; simpl; [reflexivity|].
  destruct (fst x <? fst y)%Z eqn:E; simpl.
  - rewrite IH. destruct (fst y =? p)%Z eqn:Ey; destruct (fst x =? p)%Z eqn:Ex; try reflexivity.
    apply Z.eqb_eq in Ey, Ex. apply Z.ltb_lt in E. lia.
  - reflexivity.
Qed.
Theorem psort_stable : forall A (l : list (Z * A)) p,
  filter (fun y => (fst y =? p)%Z) (psort l) = filter (fun y => (fst y =? p)%Z) l.
Proof.
  induction l as [|x r IH]; intros p; simpl; [reflexivity|].
  rewrite pinsert_filter, IH. reflexivity.
Qed.

Theorem psort_spec : forall A (l : list (Z * A)),
  Permutation (psort l) l /\ StronglySorted desc (psort l) /\
  forall p, filter (fun y => (fst y =? p)%Z) (psort l) = filter (fun y => (fst y =? p)%Z) l.
Proof. intros A l. exact (conj (psort_perm A l) (conj (psort_sorted A l) (psort_stable A l))). Qed.

(* ------------------------------------------------------------------ test-name arguments *)
(* the first-match loop with `break` (mtest.py:2034-2041) yields exactly the tests matched
   by SOME argument, each once, in order *)
Lemma first_match_spec : forall t pats,
  first_match t pats = if existsb (arg_matches t) pats then [t] else [].
Proof.
  induction pats as [|p r IH]; simpl; [reflexivity|].
  destruct (arg_matches t p); simpl; [reflexivity | exact IH].
Qed.

Theorem tests_from_args_filter : forall pats ts,
  tests_from_args pats ts = filter (fun t => existsb (arg_matches t) pats) ts.
Proof.
  intros pats ts. unfold tests_from_args. induction ts as [|t ts IH]; simpl; [reflexivity|].
  rewrite first_match_spec, IH. destruct (existsb (arg_matches t) pats); reflexivity.
Qed.

Inductive subseq {A : Type} : list A -> list A -> Prop :=
| sub_nil : subseq [] []
| sub_skip : forall x l l', subseq l l' -> subseq l (x :: l')
| sub_keep : forall x l l', subseq l l' -> subseq (x :: l) (x :: l').

Lemma subseq_refl : forall A (l : list A), subseq l l.
Proof. induction l; constructor; assumption. Qed.
Lemma subseq_nil : forall A (l : list A), subseq [] l.
Proof. induction l; constructor; assumption. Qed.
Lemma subseq_trans : forall A (a b c : list A), subseq a b -> subseq b c -> subseq a c.
Proof.
  intros A a b c H1 H2. revert a H1. induction H2; intros a H1.
  - exact H1.
  - constructor. apply IHsubseq. exact H1.
  - inversion H1; subst; [constructor; apply IHsubseq; assumption | constructor; apply IHsubseq; assumption].
Qed.
Lemma subseq_filter : forall A (f : A -> bool) l, subseq (filter f l) l.
Proof. induction l as [|x l IH]; simpl; [constructor|]. destruct (f x); constructor; assumption. Qed.
Lemma subseq_stride : forall A n (l : list A) c, subseq (stride n c l) l.
Proof.
  induction l as [|x l IH]; intros c; simpl; [constructor|].
  destruct c; constructor; apply IH.
Qed.
Lemma subseq_In : forall A (l l' : list A) x, subseq l l' -> In x l -> In x l'.
Proof. intros A l l' x H. induction H; simpl; intros Hin; [assumption | right; auto | destruct Hin; [left; assumption | right; auto]]. Qed.
Lemma subseq_map : forall A B (f : A -> B) l l', subseq l l' -> subseq (map f l) (map f l').
Proof. intros A B f l l' H. induction H; simpl; constructor; assumption. Qed.
Lemma subseq_NoDup : forall A (l l' : list A), subseq l l' -> NoDup l' -> NoDup l.
Proof.
  intros A l l' H. induction H; intros ND.
  - constructor.
  - inversion ND. auto.
  - inversion ND as [|? ? Hn ND']. subst. constructor; [|auto].
    intros Hin. apply Hn. eapply subseq_In; eassumption.
Qed.

(* whatever the options: the selection is a subsequence of the defined tests (order kept,
   nothing invented, nothing repeated) *)
Theorem get_tests_subseq : forall o tests l, get_tests o tests = SelOk l -> subseq l tests.
Proof.
  intros o tests l H. unfold get_tests in H. destruct tests as [|t ts].
  - inversion H. constructor.
  - unfold pre_slice in H.
    set (t1 := filter (test_suitable o) (t :: ts)) in *.
    destruct (negb (forallb (fun p => existsb (fun t0 => arg_matches t0 p) t1) (map arg_pattern (o_args o)))); [discriminate|].
    assert (S2 : subseq (match map arg_pattern (o_args o) with [] => t1 | _ :: _ => tests_from_args (map arg_pattern (o_args o)) t1 end) (t :: ts)).
    { destruct (map arg_pattern (o_args o)) as [|p ps].
      - apply subseq_filter.
      - rewrite tests_from_args_filter. eapply subseq_trans; [apply subseq_filter | apply subseq_filter]. }
    unfold apply_slice in H. destruct (o_slice o) as [[i n]|].
    + match type of H with (if ?b then _ else _) = _ => destruct b end; [discriminate|].
      inversion H. subst. eapply subseq_trans; [apply subseq_stride | exact S2].
    + inversion H. subst. exact S2.
Qed.

(* "starts every selected test exactly once": a test matched by several name arguments (or by a
   name argument and a suite) is selected once — tests are identified by (project, name) *)
Definition tkey (t : tdef) : str * str := (t_project t, t_name t).
Theorem get_tests_no_duplicates : forall o tests l,
  NoDup (map tkey tests) -> get_tests o tests = SelOk l -> NoDup (map tkey l).
Proof.
  intros o tests l ND H. eapply subseq_NoDup; [apply subseq_map; eapply get_tests_subseq; eassumption | exact ND].
Qed.

(* without --slice the selection is exactly: suitable (suite / exclude filters) and, when name
   arguments are given, matched by at least one of them *)
Theorem get_tests_exact : forall o tests l, get_tests (no_slice o) tests = SelOk l ->
  forall t, In t l <->
    In t tests /\ test_suitable o t = true /\
    (o_args o = [] \/ exists a, In a (o_args o) /\ arg_matches t (arg_pattern a) = true).
Proof.
  intros o tests l H t. unfold get_tests in H. destruct tests as [|t0 ts].
  - inversion H. simpl. tauto.
  - unfold pre_slice in H. change (test_suitable (no_slice o)) with (test_suitable o) in H.
    change (o_args (no_slice o)) with (o_args o) in H.
    set (t1 := filter (test_suitable o) (t0 :: ts)) in *.
    destruct (negb (forallb (fun p => existsb (fun t0 => arg_matches t0 p) t1) (map arg_pattern (o_args o)))); [discriminate|].
    simpl in H. inversion H as [E]. clear H.
    assert (T1 : In t t1 <-> In t (t0 :: ts) /\ test_suitable o t = true) by (unfold t1; apply filter_In).
    destruct (o_args o) as [|a r] eqn:Ea.
    + simpl. rewrite T1. split; [intros [A B]; auto | intros [A [B _]]; auto].
    + cbn [map]. rewrite tests_from_args_filter, filter_In, T1, existsb_exists. split.
      * intros [[A B] [p [Hp Hm]]]. change (arg_pattern a :: map arg_pattern r) with (map arg_pattern (a :: r)) in Hp.
        apply in_map_iff in Hp. destruct Hp as [a' [<- Ha']].
        repeat split; try assumption. right. exists a'. auto.
      * intros [A [B [C|[a' [Ha' Hm]]]]]; [discriminate|]. split; [auto|].
        exists (arg_pattern a'). split; [change (arg_pattern a :: map arg_pattern r) with (map arg_pattern (a :: r)); apply in_map; assumption | assumption].
Qed.

(* glob matching: `*` matches everything, a pattern without `*`, `?` and `[` only itself
   (bracket expressions are tied to Python's fnmatch by an exhaustive small-alphabet comparison) *)
Lemma gmatch_star : forall s, gmatch star s = true.
Proof. unfold gmatch, star. simpl. induction s as [|c s IH]; [reflexivity|]. simpl. exact IH. Qed.
Fixpoint plain (p : str) : bool :=
  match p with [] => true | c :: r => negb (c =? 42)%N && negb (c =? 63)%N && negb (c =? 91)%N && plain r end.
Lemma gtokens_plain : forall p f, plain p = true -> length p <= f -> gtokens f p = map GLit p.
Proof.
  induction p as [|c p IH]; intros f H L; destruct f; simpl in *; try reflexivity; try lia.
  apply andb_prop in H. destruct H as [H Hp]. apply andb_prop in H. destruct H as [H H3].
  apply andb_prop in H. destruct H as [H1 H2]. apply negb_true_iff in H1, H2, H3.
  rewrite H1, H2, H3. f_equal. apply IH; [assumption | lia].
Qed.
Lemma tmatch_lits : forall p s, tmatch (map GLit p) s = str_eqb p s.
Proof.
  induction p as [|c p IH]; intros s; simpl.
  - destruct s; reflexivity.
  - destruct s as [|d s]; [reflexivity|]. simpl. rewrite IH. reflexivity.
Qed.
Lemma gmatch_plain : forall p s, plain p = true -> gmatch p s = str_eqb p s.
Proof. intros p s H. unfold gmatch. rewrite gtokens_plain by (auto; lia). apply tmatch_lits. Qed.

