(* Mtest/ShrinkProofs.v — why the event log written by the test programs themselves can
   be judged by the checker with the stop rules switched off ([lax]).

   A test program logs its start a little after meson launched it and its end a little
   before meson reaps it, so the log is the exact observable trace with some starts moved
   later and some ends moved earlier, each past events of OTHER tests.  Such a move is a
   sequence of adjacent swaps  a;b -> b;a  of events of different tests, where a swap that
   moves a start in front of an end (which would lengthen a life) never occurs.
   Theorem [lax_shrink_closed]: for a lax configuration the accepted traces are closed
   under every such swap, hence under shrinking. *)
From MV Require Import Base.Strs Mtest.Classify Mtest.Sched Mtest.Spec Mtest.SchedProofs Mtest.SpecProofs.
From Coq Require Import Lia ZArith Arith List Bool Permutation.
Import ListNotations.
Open Scope nat_scope.

Definition vid (l : vlabel) : nat := match l with VStart i => i | VEnd i _ => i | VVanish i => i end.
Definition is_vstart (l : vlabel) : bool := match l with VStart _ => true | _ => false end.
(* a;b may be observed as b;a *)
Definition shrink_swap (a b : vlabel) : Prop :=
  vid a <> vid b /\ ~ (is_vstart a = false /\ is_vstart b = true).

Definition is_lax (c : cfg) : Prop := c_maxfail c = 0%Z /\ c_repeat c = false.
Lemma lax_is_lax : forall c, is_lax (lax c).
Proof. intros c. split; reflexivity. Qed.

(* ------------------------------------------------------------------ permutations *)
Lemma filter_perm : forall A (f : A -> bool) l l', Permutation l l' -> Permutation (filter f l) (filter f l').
Proof.
  intros A f l l' P. induction P; simpl.
  - constructor.
  - destruct (f x); [constructor|]; assumption.
  - destruct (f x), (f y); try apply perm_swap; try apply Permutation_refl.
  - eapply perm_trans; eassumption.
Qed.

Lemma find_run_nodup : forall i cn l, NoDup (run_ids l) -> In (i, cn) l -> find_run i l = Some cn.
Proof.
  induction l as [|[j d] l IH]; simpl; intros ND H; [contradiction|].
  inversion ND as [|? ? Hn ND']. subst. destruct H as [H|H].
  - inversion H. subst. rewrite Nat.eqb_refl. reflexivity.
  - destruct (j =? i) eqn:E; [|apply IH; assumption].
    apply Nat.eqb_eq in E. subst. exfalso. apply Hn. unfold run_ids. apply in_map_iff. exists (i, cn). auto.
Qed.

Lemma find_run_perm : forall i l l', NoDup (run_ids l) -> Permutation l l' -> find_run i l = find_run i l'.
Proof.
  intros i l l' ND P.
  assert (ND' : NoDup (run_ids l')) by (eapply Permutation_NoDup; [apply Permutation_map; exact P | exact ND]).
  destruct (find_run i l) as [cn|] eqn:E.
  - symmetry. apply find_run_nodup; [assumption|]. eapply Permutation_in; [exact P | apply find_run_In; exact E].
  - destruct (find_run i l') as [cn|] eqn:E'; [|reflexivity]. exfalso.
    apply find_run_none in E. apply E. apply find_run_ids in E'.
    eapply Permutation_in; [apply Permutation_sym; apply Permutation_map; exact P | exact E'].
Qed.

(* states equal up to the order inside the running set and the histories *)
Definition veqv (v w : vst) : Prop :=
  Permutation (v_run v) (v_run w) /\ v_failc v = v_failc w /\ v_intr v = v_intr w /\
  Permutation (v_started v) (v_started w) /\ Permutation (v_results v) (v_results w).
(* well-formedness of a specification state *)
Definition VI (v : vst) : Prop := NoDup (run_ids (v_run v)) /\ incl (run_ids (v_run v)) (v_started v).

Lemma veqv_refl : forall v, veqv v v.
Proof. intros. unfold veqv. auto using Permutation_refl. Qed.

Lemma velig_perm : forall c v w i, veqv v w -> velig c v i = true -> velig c w i = true.
Proof.
  intros c v w i [_ [_ [_ [Ps Pr]]]] H. apply velig_spec in H. apply velig_spec.
  destruct H as [A [B [C D]]].
  assert (T : forall j, In j (v_resids v) -> In j (v_resids w)).
  { intros j Hj. unfold v_resids in *. eapply Permutation_in; [apply Permutation_map; exact Pr | exact Hj]. }
  repeat split; auto.
  intros Hin. apply B. eapply Permutation_in; [apply Permutation_sym; exact Ps | exact Hin].
Qed.

Lemma VI_step : forall c v l v', VI v -> vexec c v l = Some v' -> VI v'.
Proof.
  intros c v l v' [ND IN] E. destruct l as [i|i r|i]; unfold vexec in E.
  - destruct (velig c v i && (length (v_run v) <? c_jobs c) && negb (vstop c v)) eqn:G; [|discriminate].
    inversion E; subst. unfold VI; simpl. rewrite run_ids_app. simpl.
    apply andb_prop in G. destruct G as [G _]. apply andb_prop in G. destruct G as [G _].
    apply velig_spec in G. destruct G as [_ [Ns _]]. split.
    + apply NoDup_snoc; [assumption|]. intros H. apply Ns. apply IN. assumption.
    + intros j Hj. apply in_app_or in Hj. apply in_or_app. destruct Hj as [Hj|Hj]; [left; apply IN; assumption | right; assumption].
  - destruct (find_run i (v_run v)) as [cn|]; [|discriminate].
    destruct (Bool.eqb cn (result_eqb r INTERRUPT)); [|discriminate]. inversion E; subst. unfold VI; simpl.
    match goal with |- context [if ?t then _ else _] => destruct t end;
      rewrite ?run_ids_cancel, run_ids_rem; (split; [apply NoDup_remn; assumption|]);
      intros j Hj; apply In_remn in Hj; apply IN; tauto.
  - destruct (find_run i (v_run v)) as [[|]|]; try discriminate. inversion E; subst. unfold VI; simpl.
    rewrite run_ids_rem. split; [apply NoDup_remn; assumption|]. intros j Hj. apply In_remn in Hj. apply IN. tauto.
Qed.

Lemma VI_perm : forall v w, veqv v w -> VI v -> VI w.
Proof.
  intros v w [Pr [_ [_ [Ps _]]]] [ND IN]. split.
  - eapply Permutation_NoDup; [apply Permutation_map; exact Pr | exact ND].
  - intros j Hj. eapply Permutation_in; [exact Ps|]. apply IN.
    eapply Permutation_in; [apply Permutation_sym; apply Permutation_map; exact Pr | exact Hj].
Qed.

(* the specification does not care about those orders *)
Lemma vexec_perm : forall c v w l v', VI v -> veqv v w -> vexec c v l = Some v' ->
  exists w', vexec c w l = Some w' /\ veqv v' w'.
Proof.
  intros c v w l v' Iv Q E. pose proof Q as [Pr [Pf [Pi [Ps Pres]]]]. destruct Iv as [ND _].
  assert (St : vstop c w = vstop c v) by (unfold vstop; rewrite Pf, Pi; reflexivity).
  destruct l as [i|i r|i]; unfold vexec in *.
  - destruct (velig c v i && (length (v_run v) <? c_jobs c) && negb (vstop c v)) eqn:G; [|discriminate].
    apply andb_prop in G. destruct G as [G G3]. apply andb_prop in G. destruct G as [G1 G2].
    rewrite (velig_perm c v w i Q G1), St, G3, <- (Permutation_length Pr), G2. simpl.
    inversion E; subst. eexists. split; [reflexivity|]. unfold veqv; simpl.
    repeat split; try assumption; apply Permutation_app_tail; assumption.
  - rewrite <- (find_run_perm i _ _ ND Pr). destruct (find_run i (v_run v)) as [cn|]; [|discriminate].
    destruct (Bool.eqb cn (result_eqb r INTERRUPT)); [|discriminate].
    inversion E; subst. eexists. split; [reflexivity|]. unfold veqv; simpl. rewrite <- Pf, <- Pi.
    repeat split; try assumption; try (apply Permutation_app_tail; assumption).
    match goal with |- context [if ?t then _ else _] => destruct t end;
      [apply Permutation_map|]; apply filter_perm; assumption.
  - rewrite <- (find_run_perm i _ _ ND Pr). destruct (find_run i (v_run v)) as [[|]|]; try discriminate.
    inversion E; subst. eexists. split; [reflexivity|]. unfold veqv; simpl.
    repeat split; try assumption. apply filter_perm. assumption.
Qed.

Lemma vrun_perm : forall c tr v w v', VI v -> veqv v w -> vrun c v tr = Some v' ->
  exists w', vrun c w tr = Some w' /\ veqv v' w'.
Proof.
  intros c tr. induction tr as [|l tr IH]; simpl; intros v w v' Iv Q R.
  - inversion R. subst. exists w. auto.
  - destruct (vexec c v l) as [v1|] eqn:E; [|discriminate].
    destruct (vexec_perm c v w l v1 Iv Q E) as [w1 [E1 Q1]]. rewrite E1.
    apply (IH v1 w1 v'); [eapply VI_step; eassumption | assumption | assumption].
Qed.

Lemma vrun_app : forall c a b v, vrun c v (a ++ b) = match vrun c v a with Some v1 => vrun c v1 b | None => None end.
Proof.
  intros c a. induction a as [|l a IH]; simpl; intros b v; [reflexivity|].
  destruct (vexec c v l); [apply IH | reflexivity].
Qed.
Lemma VI_run : forall c tr v v', VI v -> vrun c v tr = Some v' -> VI v'.
Proof.
  intros c tr. induction tr as [|l tr IH]; simpl; intros v v' Iv R.
  - inversion R. subst. assumption.
  - destruct (vexec c v l) as [v1|] eqn:E; [|discriminate]. apply (IH v1 v'); [eapply VI_step; eassumption | assumption].
Qed.

(* ------------------------------------------------------------------ lax configurations *)
Definition LI (v : vst) : Prop := v_intr v = false /\ forall x, In x (v_run v) -> snd x = false.

Lemma lax_trig : forall c f r, is_lax c ->
  negb (c_maxfail c =? 0)%Z && (c_maxfail c <=? Z.of_nat f)%Z && is_bad r = false.
Proof. intros c f r [M _]. rewrite M. reflexivity. Qed.
Lemma lax_stop : forall c v, is_lax c -> LI v -> vstop c v = false.
Proof. intros c v [_ R] [I _]. unfold vstop. rewrite I, R. reflexivity. Qed.

Lemma lax_start : forall c v i v', is_lax c -> LI v ->
  (vexec c v (VStart i) = Some v' <->
   velig c v i = true /\ length (v_run v) < c_jobs c /\
   v' = mkvst (v_run v ++ [(i, false)]) (v_failc v) (v_intr v) (v_started v ++ [i]) (v_results v)).
Proof.
  intros c v i v' L I. unfold vexec. rewrite (lax_stop c v L I). simpl. rewrite andb_true_r. split.
  - destruct (velig c v i && (length (v_run v) <? c_jobs c)) eqn:G; [|discriminate].
    apply andb_prop in G. destruct G as [G1 G2]. apply Nat.ltb_lt in G2. intros H. inversion H. auto.
  - intros [A [B ->]]. apply Nat.ltb_lt in B. rewrite A, B. reflexivity.
Qed.

Lemma lax_end : forall c v i r v', is_lax c -> LI v ->
  (vexec c v (VEnd i r) = Some v' <->
   find_run i (v_run v) = Some false /\ result_eqb r INTERRUPT = false /\
   v' = mkvst (rem_run i (v_run v)) (v_failc v + (if counts_fail r then 1 else 0)) (v_intr v)
              (v_started v) (v_results v ++ [(i, r)])).
Proof.
  intros c v i r v' L I. unfold vexec. rewrite (lax_trig c _ r L). destruct I as [Ii If].
  rewrite orb_false_r. split.
  - destruct (find_run i (v_run v)) as [cn|] eqn:F; [|discriminate].
    assert (cn = false) by (apply (If (i, cn)); apply find_run_In; assumption). subst cn.
    destruct (result_eqb r INTERRUPT); simpl; [discriminate|]. intros H. inversion H. auto.
  - intros [A [B ->]]. rewrite A, B. reflexivity.
Qed.

Lemma lax_vanish : forall c v i, LI v -> vexec c v (VVanish i) = None.
Proof.
  intros c v i [_ If]. unfold vexec. destruct (find_run i (v_run v)) as [[|]|] eqn:F; try reflexivity.
  apply find_run_In in F. apply If in F. discriminate.
Qed.

Lemma LI_step : forall c v l v', is_lax c -> LI v -> vexec c v l = Some v' -> LI v'.
Proof.
  intros c v l v' L I E. destruct l as [i|i r|i].
  - apply (lax_start c v i v' L I) in E. destruct E as [_ [_ ->]]. destruct I as [Ii If]. split; simpl; [assumption|].
    intros x Hx. apply in_app_or in Hx. destruct Hx as [Hx|[Hx|[]]]; [apply If; assumption | subst; reflexivity].
  - apply (lax_end c v i r v' L I) in E. destruct E as [_ [_ ->]]. destruct I as [Ii If]. split; simpl; [assumption|].
    intros x Hx. apply In_rem_run in Hx. apply If. tauto.
  - rewrite (lax_vanish c v i I) in E. discriminate.
Qed.
Lemma LI_run : forall c tr v v', is_lax c -> LI v -> vrun c v tr = Some v' -> LI v'.
Proof.
  intros c tr. induction tr as [|l tr IH]; simpl; intros v v' L I R.
  - inversion R. subst. assumption.
  - destruct (vexec c v l) as [v1|] eqn:E; [|discriminate]. apply (IH v1 v' L); [eapply LI_step; eassumption | assumption].
Qed.

Lemma find_run_app_ne : forall i j l cn, i <> j -> find_run j (l ++ [(i, cn)]) = find_run j l.
Proof.
  induction l as [|[k d] l IH]; simpl; intros cn N.
  - destruct (i =? j) eqn:E; [apply Nat.eqb_eq in E; contradiction | reflexivity].
  - destruct (k =? j); [reflexivity | apply IH; assumption].
Qed.
Lemma find_run_rem_ne : forall i j l, i <> j -> find_run i (rem_run j l) = find_run i l.
Proof.
  induction l as [|[k d] l IH]; simpl; intros N; [reflexivity|].
  destruct (k =? j) eqn:Ej; simpl.
  - apply Nat.eqb_eq in Ej. subst. destruct (j =? i) eqn:Ei; [apply Nat.eqb_eq in Ei; congruence | apply IH; assumption].
  - destruct (k =? i); [reflexivity | apply IH; assumption].
Qed.
Lemma rem_run_app_ne : forall i j l cn, i <> j -> rem_run j (l ++ [(i, cn)]) = rem_run j l ++ [(i, cn)].
Proof.
  intros. unfold rem_run. rewrite filter_app. simpl.
  destruct (i =? j) eqn:E; [apply Nat.eqb_eq in E; contradiction | reflexivity].
Qed.
Lemma rem_run_comm : forall i j l, rem_run i (rem_run j l) = rem_run j (rem_run i l).
Proof.
  intros. unfold rem_run. induction l as [|x l IH]; simpl; [reflexivity|].
  destruct (fst x =? j) eqn:Ej; destruct (fst x =? i) eqn:Ei; simpl; rewrite ?Ej, ?Ei; simpl; rewrite IH; reflexivity.
Qed.

(* eligibility only improves when more results are in, and does not depend on the other starts *)
Lemma velig_mono : forall c v w i,
  velig c v i = true -> (forall j, In j (v_resids v) -> In j (v_resids w)) ->
  ~ In i (v_started w) -> velig c w i = true.
Proof.
  intros c v w i H T N. apply velig_spec in H. apply velig_spec. destruct H as [A [_ [C D]]].
  repeat split; auto.
Qed.

(* the swap itself *)
Lemma lax_swap : forall c v a b v1 v2, is_lax c -> LI v -> shrink_swap a b ->
  vexec c v a = Some v1 -> vexec c v1 b = Some v2 ->
  exists w1 w2, vexec c v b = Some w1 /\ vexec c w1 a = Some w2 /\ veqv v2 w2.
Proof.
  intros c v a b v1 v2 L I [Nid Nes] Ea Eb.
  pose proof (LI_step c v a v1 L I Ea) as I1.
  destruct a as [i|i r|i]; [| |rewrite (lax_vanish c v i I) in Ea; discriminate];
    (destruct b as [j|j r'|j]; [| |rewrite (lax_vanish c v1 j I1) in Eb; discriminate]); simpl in Nid.
  - (* start i ; start j *)
    apply (lax_start c v i v1 L I) in Ea. destruct Ea as [A1 [A2 ->]].
    apply (lax_start c _ j v2 L I1) in Eb. simpl in Eb. destruct Eb as [B1 [B2 ->]].
    rewrite app_length in B2. simpl in B2.
    assert (Ni : ~ In i (v_started v)) by (apply velig_spec in A1; tauto).
    assert (Nj : ~ In j (v_started v)).
    { apply velig_spec in B1. destruct B1 as [_ [B _]]. simpl in B. intros H. apply B. apply in_or_app. tauto. }
    assert (Ej : velig c v j = true) by (eapply velig_mono; [exact B1 | auto | exact Nj]).
    set (w1 := mkvst (v_run v ++ [(j, false)]) (v_failc v) (v_intr v) (v_started v ++ [j]) (v_results v)).
    assert (I2 : LI w1) by (apply (LI_step c v (VStart j) w1 L I); apply (lax_start c v j w1 L I); repeat split; [assumption | lia]).
    exists w1. eexists. split; [apply (lax_start c v j w1 L I); repeat split; [assumption | lia]|]. split.
    + apply (lax_start c w1 i _ L I2). split; [|split; [|reflexivity]].
      * eapply velig_mono; [exact A1 | auto|]. simpl. intros H. apply in_app_or in H. destruct H as [H|[H|[]]]; [tauto | congruence].
      * simpl. rewrite app_length. simpl. lia.
    + unfold veqv; simpl. rewrite <- !app_assoc. simpl. repeat split; auto;
        try (apply Permutation_app_head; apply perm_swap); apply Permutation_refl.
  - (* start i ; end j *)
    apply (lax_start c v i v1 L I) in Ea. destruct Ea as [A1 [A2 ->]].
    apply (lax_end c _ j r' v2 L I1) in Eb. simpl in Eb. destruct Eb as [B1 [B2 ->]].
    rewrite find_run_app_ne in B1 by assumption.
    set (w1 := mkvst (rem_run j (v_run v)) (v_failc v + (if counts_fail r' then 1 else 0)) (v_intr v)
                     (v_started v) (v_results v ++ [(j, r')])).
    assert (E1 : vexec c v (VEnd j r') = Some w1) by (apply (lax_end c v j r' w1 L I); auto).
    pose proof (LI_step c v _ w1 L I E1) as I2.
    exists w1. eexists. split; [exact E1|]. split.
    + apply (lax_start c w1 i _ L I2). split; [|split; [|reflexivity]].
      * eapply velig_mono; [exact A1 | |].
        -- intros k Hk. unfold v_resids in *. simpl. rewrite map_app. apply in_or_app. tauto.
        -- simpl. apply velig_spec in A1. tauto.
      * simpl. pose proof (length_rem_run_le j (v_run v)). lia.
    + unfold veqv; simpl. rewrite rem_run_app_ne by assumption. repeat split; auto; apply Permutation_refl.
  - (* end i ; start j : not a shrink move *)
    exfalso. apply Nes. split; reflexivity.
  - (* end i ; end j *)
    apply (lax_end c v i r v1 L I) in Ea. destruct Ea as [A1 [A2 ->]].
    apply (lax_end c _ j r' v2 L I1) in Eb. simpl in Eb. destruct Eb as [B1 [B2 ->]].
    rewrite find_run_rem_ne in B1 by congruence.
    set (w1 := mkvst (rem_run j (v_run v)) (v_failc v + (if counts_fail r' then 1 else 0)) (v_intr v)
                     (v_started v) (v_results v ++ [(j, r')])).
    assert (E1 : vexec c v (VEnd j r') = Some w1) by (apply (lax_end c v j r' w1 L I); auto).
    pose proof (LI_step c v _ w1 L I E1) as I2.
    exists w1. eexists. split; [exact E1|]. split.
    + apply (lax_end c w1 i r _ L I2). simpl. rewrite find_run_rem_ne by assumption. auto.
    + unfold veqv; simpl. rewrite rem_run_comm, <- !app_assoc. simpl.
      repeat split; auto; try lia; try apply Permutation_refl.
      apply Permutation_app_head. apply perm_swap.
Qed.

Lemma VI_init : VI vinit.
Proof. split; simpl; [constructor | intros x []]. Qed.
Lemma LI_init : LI vinit.
Proof. split; simpl; [reflexivity | intros x []]. Qed.

(* the accepted traces of a lax configuration are closed under shrinking swaps *)
Theorem lax_shrink_closed : forall c pre a b post, is_lax c -> shrink_swap a b ->
  admissible c (pre ++ a :: b :: post) = true -> admissible c (pre ++ b :: a :: post) = true.
Proof.
  intros c pre a b post L S A. apply admissible_spec in A. destruct A as [v R]. apply admissible_spec.
  rewrite vrun_app in R. destruct (vrun c vinit pre) as [v0|] eqn:R0; [|discriminate]. simpl in R.
  destruct (vexec c v0 a) as [v1|] eqn:Ea; [|discriminate].
  destruct (vexec c v1 b) as [v2|] eqn:Eb; [|discriminate].
  pose proof (LI_run c pre vinit v0 L LI_init R0) as I0.
  pose proof (VI_run c pre vinit v0 VI_init R0) as W0.
  destruct (lax_swap c v0 a b v1 v2 L I0 S Ea Eb) as [w1 [w2 [F1 [F2 Q]]]].
  assert (W2 : VI v2) by (eapply VI_step; [eapply VI_step; [exact W0 | exact Ea] | exact Eb]).
  destruct (vrun_perm c post v2 w2 v W2 Q R) as [w [Rw _]].
  exists w. rewrite vrun_app, R0. simpl. rewrite F1, F2. exact Rw.
Qed.

(* ------------------------------------------------------------------ from the real configuration to the lax one *)
(* what the event log can tell: a test ended (its result is not in the log; a test that
   vanished after being cancelled also just ends) *)
Definition erase (l : vlabel) : vlabel :=
  match l with VStart i => VStart i | VEnd i _ => VEnd i OK | VVanish i => VEnd i OK end.

Definition ER (v w : vst) : Prop :=
  run_ids (v_run v) = run_ids (v_run w) /\ LI w /\ v_started v = v_started w /\
  incl (v_resids v) (v_resids w).

Lemma find_run_false : forall i l, (forall x, In x l -> snd x = false) -> In i (run_ids l) -> find_run i l = Some false.
Proof.
  intros i l F H. destruct (find_run_of_In i l H) as [cn E]. rewrite E.
  apply find_run_In in E. apply F in E. simpl in E. subst. reflexivity.
Qed.

Lemma velig_lax : forall c v w i, v_started v = v_started w -> incl (v_resids v) (v_resids w) ->
  velig c v i = true -> velig (lax c) w i = true.
Proof.
  intros c v w i Es Ir H. apply velig_spec in H. apply velig_spec. destruct H as [A [B [C D]]].
  unfold nrun, par in *. simpl. rewrite <- Es. repeat split; auto.
Qed.

Lemma erase_step : forall c v w l v', ER v w -> vexec c v l = Some v' ->
  exists w', vexec (lax c) w (erase l) = Some w' /\ ER v' w'.
Proof.
  intros c v w l v' [Er [Lw [Es Ir]]] E. pose proof (lax_is_lax c) as L.
  assert (Hlen : length (v_run w) = length (v_run v)).
  { rewrite <- (map_length fst (v_run w)), <- (map_length fst (v_run v)). unfold run_ids in Er. rewrite Er. reflexivity. }
  assert (EndOK : forall i, In i (run_ids (v_run v)) ->
            vexec (lax c) w (VEnd i OK) =
            Some (mkvst (rem_run i (v_run w)) (v_failc w + 0) (v_intr w) (v_started w) (v_results w ++ [(i, OK)]))).
  { intros i Hi. apply (lax_end (lax c) w i OK _ L Lw). repeat split.
    apply find_run_false; [apply Lw | rewrite <- Er; assumption]. }
  destruct l as [i|i r|i]; cbn [erase].
  - unfold vexec in E.
    destruct (velig c v i && (length (v_run v) <? c_jobs c) && negb (vstop c v)) eqn:G; [|discriminate].
    apply andb_prop in G. destruct G as [G _]. apply andb_prop in G. destruct G as [G1 G2].
    apply Nat.ltb_lt in G2. inversion E; subst.
    eexists. split.
    + apply (lax_start (lax c) w i _ L Lw). split; [eapply velig_lax; eassumption|].
      split; [simpl; lia | reflexivity].
    + unfold ER; simpl. rewrite !run_ids_app, Er, Es. repeat split; auto.
      * apply Lw.
      * intros x Hx. apply in_app_or in Hx. destruct Hx as [Hx|[Hx|[]]]; [apply Lw; assumption | subst; reflexivity].
  - unfold vexec in E. destruct (find_run i (v_run v)) as [cn|] eqn:F; [|discriminate].
    destruct (Bool.eqb cn (result_eqb r INTERRUPT)); [|discriminate]. inversion E; subst.
    rewrite (EndOK i (find_run_ids _ _ _ F)). eexists. split; [reflexivity|].
    unfold ER; simpl. repeat split; auto.
    + match goal with |- context [if ?t then _ else _] => destruct t end;
        rewrite ?run_ids_cancel, !run_ids_rem, Er; reflexivity.
    + apply Lw.
    + intros x Hx. apply In_rem_run in Hx. apply Lw. tauto.
    + unfold v_resids in *. simpl. rewrite !map_app. simpl. intros x Hx. apply in_app_or in Hx. apply in_or_app.
      destruct Hx as [Hx|Hx]; [left; apply Ir; assumption | right; assumption].
  - unfold vexec in E. destruct (find_run i (v_run v)) as [[|]|] eqn:F; try discriminate. inversion E; subst.
    rewrite (EndOK i (find_run_ids _ _ _ F)). eexists. split; [reflexivity|].
    unfold ER; simpl. repeat split; auto.
    + rewrite !run_ids_rem, Er. reflexivity.
    + apply Lw.
    + intros x Hx. apply In_rem_run in Hx. apply Lw. tauto.
    + unfold v_resids in *. simpl. rewrite map_app. intros x Hx. apply in_or_app. left. apply Ir. assumption.
Qed.

Theorem lax_erase : forall c tr, admissible c tr = true -> admissible (lax c) (map erase tr) = true.
Proof.
  intros c tr A. apply admissible_spec in A. destruct A as [v R]. apply admissible_spec.
  assert (G : forall tr v w v', ER v w -> vrun c v tr = Some v' -> exists w', vrun (lax c) w (map erase tr) = Some w').
  { clear. induction tr as [|l tr IH]; simpl; intros v w v' Q R; [eauto|].
    destruct (vexec c v l) as [v1|] eqn:E; [|discriminate].
    destruct (erase_step c v w l v1 Q E) as [w1 [E1 Q1]]. rewrite E1. eapply IH; eassumption. }
  apply (G tr vinit vinit v); [|assumption].
  unfold ER. split; [reflexivity|]. split; [apply LI_init|]. split; [reflexivity | apply incl_refl].
Qed.

(* the log of the test programs: the erased exact trace, shrunk *)
Inductive shrinks : list vlabel -> list vlabel -> Prop :=
| sh_refl : forall t, shrinks t t
| sh_swap : forall pre a b post t, shrink_swap a b -> shrinks (pre ++ b :: a :: post) t ->
            shrinks (pre ++ a :: b :: post) t.

(* whatever the scheduler does under configuration c, every event log it can leave behind
   is accepted by the checker under the lax configuration: the log check raises no false alarm *)
Theorem log_check_sound : forall c ls s log, run c (init c) ls = Some s ->
  shrinks (map erase (visible ls)) log -> admissible (lax c) log = true.
Proof.
  intros c ls s log R S.
  assert (A : admissible (lax c) (map erase (visible ls)) = true).
  { apply lax_erase. eapply adm_complete. eassumption. }
  induction S as [t | pre a b post t Sw S IH]; [assumption|].
  apply IH. apply lax_shrink_closed; [apply lax_is_lax | assumption | assumption].
Qed.
