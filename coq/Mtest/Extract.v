(* Extraction of the C12 model.  Only the ExtrOcamlBasic directives are used. *)
From Coq Require Extraction.
From Coq Require Import ExtrOcamlBasic.
From MV Require Import Mtest.Entry.
Extraction "../extract/C12/model.ml" Mtest.Entry.run.
