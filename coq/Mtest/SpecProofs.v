(* Mtest/SpecProofs.v — the observable specification Mtest/Spec.v and the transition
   system Mtest/Sched.v have the same observable traces. *)
From MV Require Import Base.Strs Mtest.Classify Mtest.Sched Mtest.Spec Mtest.SchedProofs.
From Coq Require Import Lia ZArith Arith List Bool.
Import ListNotations.
Open Scope nat_scope.

Lemma velig_spec : forall c v i, velig c v i = true <->
  i < nrun c /\ ~ In i (v_started v) /\
  (forall j, j < i -> par c j = false -> In j (v_resids v)) /\
  (par c i = false -> forall j, j < i -> In j (v_resids v)).
Proof.
  intros c v i. unfold velig. rewrite !andb_true_iff, Nat.ltb_lt, negb_true_iff, memn_false.
  rewrite orb_true_iff, !forallb_forall. split.
  - intros [[[A B] C] D]. repeat split; try assumption.
    + intros j Hj Hp. specialize (C j). rewrite in_seq in C. specialize (C ltac:(lia)).
      rewrite Hp in C. simpl in C. apply memn_In. assumption.
    + intros Hp j Hj. destruct D as [D|D]; [congruence|]. apply memn_In. apply D. apply in_seq. lia.
  - intros [A [B [C D]]]. repeat split; try assumption.
    + intros j Hj. apply in_seq in Hj. destruct (par c j) eqn:Hp; [reflexivity|]. simpl.
      apply memn_In. apply C; [lia | assumption].
    + destruct (par c i) eqn:Hp; [left; reflexivity|]. right. intros j Hj. apply in_seq in Hj.
      apply memn_In. apply D; [reflexivity | lia].
Qed.

Lemma stop_abs : forall c s, vstop c (vabs s) = stopf c s.
Proof. reflexivity. Qed.

(* a startable test is waiting once no internal step is left *)
Lemma start_enabled_from_elig : forall c b i,
  Inv c b -> next_tau c b = None -> stopf c b = false -> velig c (vabs b) i = true -> In i (s_wait b).
Proof.
  intros c b i Ib N Sb El. apply velig_spec in El. destruct El as [Hi [Hns [E1 E2]]].
  unfold v_resids in E1, E2. simpl in *. fold (resids b) in E1, E2.
  assert (Rb : repfail c b = false) by (unfold stopf in Sb; apply orb_false_elim in Sb; tauto).
  assert (Sp : spawned (s_pc b) i -> In i (s_wait b)).
  { intros U. destruct (I_low _ _ Ib Rb i U) as [A|[A|A]]; [assumption | |].
    - exfalso. apply Hns. apply (I_st2 _ _ Ib). assumption.
    - exfalso. apply Hns. apply (I_res3 _ _ Ib). apply (I_f _ _ Ib Sb). assumption. }
  unfold next_tau in N. destruct (s_pc b) as [k|k] eqn:Epc.
  - destruct (lt_dec i k) as [L|L]; [apply Sp; exact L|]. exfalso.
    destruct ((k <? nrun c) && (par c k || (isnil (s_wait b) && isnil (s_run b)))) eqn:G; [discriminate|].
    assert (Hk : (k <? nrun c) = true) by (apply Nat.ltb_lt; lia). rewrite Hk in G. simpl in G.
    apply orb_false_elim in G. destruct G as [Gp Gn].
    destruct (Nat.eq_dec i k) as [->|Nk].
    + assert (D : forall j, In j (s_wait b) \/ In j (run_ids (s_run b)) -> False).
      { intros j A.
        assert (U : spawned (s_pc b) j) by (apply (I_up _ _ Ib); tauto). rewrite Epc in U. simpl in U.
        assert (Dj : In j (s_done b)) by (apply (I_res1 _ _ Ib); apply (E2 Gp); assumption).
        destruct A as [A|A]; [apply (I_dwd _ _ Ib j A Dj) | apply (I_drd _ _ Ib j A Dj)]. }
      destruct (s_wait b) as [|x w] eqn:Ew; [|apply (D x); left; left; reflexivity].
      destruct (s_run b) as [|[x cn] rn] eqn:Er; [discriminate|]. apply (D x). right. left. reflexivity.
    + assert (Dk : In k (s_done b)) by (apply (I_res1 _ _ Ib); apply E1; [lia | assumption]).
      pose proof (I_up _ _ Ib k (or_intror (or_intror Dk))) as U. rewrite Epc in U. simpl in U. lia.
  - destruct (le_dec i k) as [L|L]; [apply Sp; exact L|]. exfalso.
    pose proof (I_pcb _ _ Ib) as P. rewrite Epc in P. destruct P as [Pk Pp].
    assert (Dk : In k (s_done b)) by (apply (I_res1 _ _ Ib); apply E1; [lia | assumption]).
    destruct (negb (memn k (s_wait b)) && negb (memn k (run_ids (s_run b)))) eqn:G; [discriminate|].
    apply andb_false_elim in G. destruct G as [G|G]; apply negb_false_iff, memn_In in G.
    + apply (I_dwd _ _ Ib k G Dk).
    + apply (I_drd _ _ Ib k G Dk).
Qed.

(* every observable step of the transition system is a step of the specification *)
Lemma exec_vexec : forall c a v a', Inv c a -> exec c a (lab v) = Some a' ->
  vexec c (vabs a) v = Some (vabs a').
Proof.
  intros c a v a' Ia E. destruct v as [i|i r|i]; cbn [lab] in E.
  - pose proof E as E0. apply exec_step in E0. inversion E0; subst.
    assert (El : velig c (vabs a) i = true).
    { apply velig_spec. destruct (waiting_elig c a i Ia H0 H2) as [E1 E2].
      repeat split.
      - pose proof (I_up _ _ Ia i (or_introl H0)) as U. pose proof (I_pcb _ _ Ia) as P.
        destruct (s_pc a); simpl in *; lia.
      - apply (I_st3 _ _ Ia). assumption.
      - exact E1.
      - exact E2. }
    unfold vexec. rewrite El, stop_abs, H2. simpl. apply Nat.ltb_lt in H1. rewrite H1. reflexivity.
  - unfold exec in E. unfold vexec. simpl.
    destruct (find_run i (s_run a)) as [cn|]; [|discriminate].
    destruct (Bool.eqb cn (result_eqb r INTERRUPT)); [|discriminate].
    unfold trig, failc_after in E.
    destruct (negb (c_maxfail c =? 0)%Z && (c_maxfail c <=? Z.of_nat (s_failc a + (if counts_fail r then 1 else 0)))%Z && is_bad r);
      inversion E; subst; unfold vabs; simpl; rewrite ?orb_true_r, ?orb_false_r; reflexivity.
  - unfold exec in E. unfold vexec. simpl.
    destruct (find_run i (s_run a)) as [[|]|]; try discriminate. inversion E; subst. reflexivity.
Qed.

(* and conversely, once no internal step is left *)
Lemma vexec_exec : forall c b v v', Inv c b -> next_tau c b = None ->
  vexec c (vabs b) v = Some v' -> exists b', exec c b (lab v) = Some b' /\ vabs b' = v'.
Proof.
  intros c b v v' Ib N E. destruct v as [i|i r|i]; cbn [lab].
  - unfold vexec in E.
    destruct (velig c (vabs b) i && (length (v_run (vabs b)) <? c_jobs c) && negb (vstop c (vabs b))) eqn:G; [|discriminate].
    apply andb_prop in G. destruct G as [G G3]. apply andb_prop in G. destruct G as [G1 G2].
    rewrite stop_abs in G3. apply negb_true_iff in G3. simpl in G2. apply Nat.ltb_lt in G2.
    pose proof (start_enabled_from_elig c b i Ib N G3 G1) as Hw.
    eexists. split; [apply step_exec; apply StStart; assumption|]. inversion E. reflexivity.
  - unfold vexec in E. unfold exec. simpl in E.
    destruct (find_run i (s_run b)) as [cn|]; [|discriminate].
    destruct (Bool.eqb cn (result_eqb r INTERRUPT)); [|discriminate].
    unfold trig, failc_after.
    destruct (negb (c_maxfail c =? 0)%Z && (c_maxfail c <=? Z.of_nat (s_failc b + (if counts_fail r then 1 else 0)))%Z && is_bad r);
      inversion E; subst; eexists; (split; [reflexivity|]); unfold vabs; simpl;
      rewrite ?orb_true_r, ?orb_false_r; reflexivity.
  - unfold vexec in E. unfold exec. simpl in E.
    destruct (find_run i (s_run b)) as [[|]|]; try discriminate. inversion E; subst.
    eexists. split; reflexivity.
Qed.

Lemma tau_vabs : forall c s l s', vis l = None -> exec c s l = Some s' -> vabs s' = vabs s.
Proof.
  intros c s l s' V E. destruct (tau_veq c s l s' V E) as [A [B [C [D F]]]].
  unfold vabs. rewrite A, B, C, D, F. reflexivity.
Qed.

Lemma run_vrun : forall c ls a a', Inv c a -> run c a ls = Some a' ->
  vrun c (vabs a) (visible ls) = Some (vabs a').
Proof.
  intros c ls. induction ls as [|l ls IH]; simpl; intros a a' Ia R.
  - inversion R. reflexivity.
  - destruct (exec c a l) as [a1|] eqn:E; [|discriminate].
    destruct (vis l) as [v|] eqn:Vl.
    + assert (L : l = lab v) by (destruct l; inversion Vl; reflexivity). subst l. simpl.
      rewrite (exec_vexec c a v a1 Ia E). apply IH; [eapply inv_step; eassumption | assumption].
    + rewrite <- (tau_vabs c a l a1 Vl E). apply IH; [eapply inv_step; eassumption | assumption].
Qed.

Lemma saturate_vabs : forall c f s, vabs (snd (saturate c f s)) = vabs s.
Proof.
  intros c f s. destruct (saturate_veq c f s) as [A [B [C [D F]]]].
  unfold vabs. rewrite <- A, <- B, <- C, <- D, <- F. reflexivity.
Qed.

Lemma vrun_adm : forall c tr b v', Inv c b -> vrun c (vabs b) tr = Some v' ->
  exists b', adm_st c b tr = Some b' /\ vabs b' = v'.
Proof.
  intros c tr. induction tr as [|v tr IH]; simpl; intros b v' Ib R.
  - inversion R. exists b. auto.
  - destruct (vexec c (vabs b) v) as [v1|] eqn:E; [|discriminate].
    set (b0 := snd (saturate c (sat_fuel c) b)).
    assert (Ib0 : Inv c b0) by (apply saturate_inv; assumption).
    assert (N0 : next_tau c b0 = None) by (apply saturate_fix; [assumption | apply sat_fuel_enough; assumption]).
    rewrite <- (saturate_vabs c (sat_fuel c) b) in E. fold b0 in E.
    destruct (vexec_exec c b0 v v1 Ib0 N0 E) as [b1 [E1 A1]]. rewrite E1.
    apply IH; [eapply inv_step; eassumption | rewrite A1; assumption].
Qed.

(* the checker accepts exactly the traces of the observable specification *)
Theorem admissible_spec : forall c tr,
  admissible c tr = true <-> exists v, vrun c vinit tr = Some v.
Proof.
  intros c tr. split.
  - intros A. apply admissible_iff in A. destruct A as [ls [s [R V]]]. subst tr.
    exists (vabs s). exact (run_vrun c ls (init c) s (inv_init c) R).
  - intros [v R]. unfold admissible.
    destruct (vrun_adm c tr (init c) v (inv_init c) R) as [b [A _]]. rewrite A. reflexivity.
Qed.

(* ... hence the observable traces of the transition system are those of the specification *)
Theorem observable_traces_spec : forall c tr,
  (exists ls s, run c (init c) ls = Some s /\ visible ls = tr) <-> exists v, vrun c vinit tr = Some v.
Proof. intros c tr. rewrite <- admissible_iff. apply admissible_spec. Qed.

(* the ordering part of the specification, stated on traces: when a test starts, every
   earlier non-parallel runner has reported, and if it is non-parallel every earlier runner has *)
Theorem start_order : forall c ls s i, run c (init c) (ls ++ [LStart i]) = Some s ->
  (forall j, j < i -> par c j = false -> In j (map fst (ends ls))) /\
  (par c i = false -> forall j, j < i -> In j (map fst (ends ls))).
Proof.
  intros c ls s i R. rewrite run_app in R. destruct (run c (init c) ls) as [s0|] eqn:R0; [|discriminate].
  cbn [run] in R. destruct (exec c s0 (LStart i)) as [s1|] eqn:E; [|discriminate].
  pose proof (inv_reach _ _ _ R0) as I0. unfold exec in E.
  destruct (memn i (s_wait s0) && (length (s_run s0) <? c_jobs c) && negb (stopf c s0)) eqn:G; [|discriminate].
  apply andb_prop in G. destruct G as [G G3]. apply andb_prop in G. destruct G as [G1 _].
  apply memn_In in G1. apply negb_true_iff in G3.
  destruct (waiting_elig c s0 i I0 G1 G3) as [E1 E2].
  destruct (reach_history _ _ _ R0) as [_ [_ C]]. unfold resids in E1, E2. rewrite C in E1, E2. auto.
Qed.
