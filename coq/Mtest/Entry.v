(* Mtest/Entry.v — entry points used by the C12 correspondence check: every
   function takes its arguments as a list of strings and returns one canonical
   string.  The encodings are mirrored in harness/check_C12.py. *)
From MV Require Import Base.Strs Mtest.Classify Mtest.Sched Mtest.Select.
From Coq Require Import ZArith.
Open Scope N_scope.

Definition SEP1 : str := [1].
Definition SEP2 : str := [2].

Definition nat_of_str (s : str) : nat := N.to_nat (digits_val s).
Definition z_of_str (s : str) : Z :=
  match s with
  | 45 :: r => (- Z.of_N (digits_val r))%Z
  | _ => Z.of_N (digits_val s)
  end.
Definition nat_str (n : nat) : str := N_dec (N.of_nat n).
Definition bools_of_str (s : str) : list bool := map (fun c => c =? 84) s.
Definition bool_of_str (s : str) : bool := match s with [84] => true | _ => false end.

Fixpoint split_on (sep : N) (s : str) (cur : str) : list str :=
  match s with
  | [] => [rev cur]
  | c :: r => if c =? sep then rev cur :: split_on sep r [] else split_on sep r (c :: cur)
  end.
Definition fields (sep : N) (s : str) : list str :=
  match s with [] => [] | _ => split_on sep s [] end.

(* results: one letter each *)
Definition result_of_char (c : N) : result :=
  if c =? 79 then OK else if c =? 84 then TIMEOUT else if c =? 73 then INTERRUPT
  else if c =? 83 then SKIP else if c =? 70 then FAIL else if c =? 88 then EXPECTEDFAIL
  else if c =? 85 then UNEXPECTEDPASS else if c =? 69 then ERROR else IGNORED.
Definition result_name (r : result) : str :=
  match r with
  | OK => s2l "OK" | TIMEOUT => s2l "TIMEOUT" | INTERRUPT => s2l "INTERRUPT" | SKIP => s2l "SKIP"
  | FAIL => s2l "FAIL" | EXPECTEDFAIL => s2l "EXPECTEDFAIL" | UNEXPECTEDPASS => s2l "UNEXPECTEDPASS"
  | ERROR => s2l "ERROR" | IGNORED => s2l "IGNORED"
  end.

(* tap events: o f s x u r = Test with OK FAIL SKIP EXPECTEDFAIL UNEXPECTEDPASS ERROR;
   b = Bailout, e = Error, anything else = other *)
Definition tapev_of_char (c : N) : tapev :=
  if c =? 111 then TTest OK else if c =? 102 then TTest FAIL else if c =? 115 then TTest SKIP
  else if c =? 120 then TTest EXPECTEDFAIL else if c =? 117 then TTest UNEXPECTEDPASS
  else if c =? 114 then TTest ERROR else if c =? 98 then TBailout else if c =? 101 then TError
  else TOther.

Definition proto_of_str (s : str) : proto :=
  match s with
  | [103] => PGtest | [116] => PTap | [114] => PRust | _ => PExitcode
  end.
Definition wkind_of_str (s : str) : wkind :=
  match s with [116] => WTimedOut | [99] => WCancelled | _ => WExited end.

(* events: "s<id>", "e<id><result letter>", "v<id>" *)
Definition vlabel_of_str (s : str) : option vlabel :=
  match s with
  | 115 :: r => Some (VStart (nat_of_str r))
  | 118 :: r => Some (VVanish (nat_of_str r))
  | 101 :: r =>
      match rev r with
      | c :: d => Some (VEnd (nat_of_str (rev d)) (result_of_char c))
      | [] => None
      end
  | _ => None
  end.
Fixpoint vlabels_of (l : list str) : option (list vlabel) :=
  match l with
  | [] => Some []
  | x :: r => match vlabel_of_str x, vlabels_of r with
              | Some v, Some vs => Some (v :: vs)
              | _, _ => None
              end
  end.

Definition render_counts (c : counts) : str :=
  join [44] (map nat_str [n_ok c; n_expfail c; n_fail c; n_unexppass c; n_skip c; n_ignored c; n_timeout c]).
Definition render_lines (l : list (nat * nat)) : str :=
  join [44] (map (fun p => nat_str (fst p) ++ [58] ++ nat_str (snd p)) l).

Definition tdef_of_str (s : str) : tdef :=
  match fields 2 s with
  | nm :: prj :: rest => mktdef nm prj (match rest with [su] => fields 3 su | _ => [] end)
  | _ => mktdef [] [] []
  end.
Definition slice_of_str (s : str) : option (nat * nat) :=
  match fields 47 s with
  | [a; b] => Some (nat_of_str a, nat_of_str b)
  | _ => None
  end.

Definition run (fn : str) (args : list str) : str :=
  if str_eqb fn (s2l "classify") then
    match args with
    | [p; xf; xe; evs; w; rc] =>
        result_name (classify (proto_of_str p) (bool_of_str xf) (z_of_str xe)
                              (map tapev_of_char evs) (wkind_of_str w) (z_of_str rc))
    | _ => s2l "?" end
  else if str_eqb fn (s2l "tally") then
    match args with
    | [rs] => let c := tally (map result_of_char rs) in
        join SEP1 [render_counts c; render_lines (summary_lines c);
                   nat_str (total_failure_count c); nat_str (exit_status c)]
    | _ => s2l "?" end
  else if str_eqb fn (s2l "adm") then
    (* par, jobs, maxfail, repeat>1, mode (L = lax), events... *)
    match args with
    | p :: j :: mf :: rp :: mode :: evs =>
        let c0 := mkcfg (bools_of_str p) (nat_of_str j) (z_of_str mf) (bool_of_str rp) in
        let c := match mode with [76] => lax c0 | _ => c0 end in
        match vlabels_of evs with
        | Some tr =>
            join SEP1 [bool_str (admissible c tr); bool_str (complete_run c tr);
                       match adm_pos c (init c) tr 0 with Some n => nat_str n | None => [45] end]
        | None => s2l "?"
        end
    | _ => s2l "?" end
  else if str_eqb fn (s2l "mkcfg") then
    match args with
    | [tp; rp; np; mf] =>
        let c := mk_cfg (bools_of_str tp) (nat_of_str rp) (nat_of_str np) (z_of_str mf) in
        join SEP1 [nat_str (c_jobs c); concat (map bool_str (c_par c)); bool_str (c_repeat c)]
    | _ => s2l "?" end
  else if str_eqb fn (s2l "prio") then
    (* one priority per argument -> original indices in serialisation order *)
    let keyed := combine (map z_of_str args) (seq 0 (length args)) in
    join [44] (map (fun p => nat_str (snd p)) (psort keyed))
  else if str_eqb fn (s2l "slice") then
    (* number of tests, i, n: get_tests with only --slice i/n on tests named 0,1,... *)
    match args with
    | [len; i; n] =>
        let tests := map (fun j => mktdef (nat_str j) [112] [[112]]) (seq 0 (nat_of_str len)) in
        match get_tests (mkselopts [112] [] [] [] [] (Some (nat_of_str i, nat_of_str n))) tests with
        | SelOk l => join [44] (map t_name l)
        | SelErr => s2l "ERR"
        end
    | _ => s2l "?" end
  else if str_eqb fn (s2l "suite") then
    (* suite argument, suite of the test *)
    match args with
    | [a; b] => bool_str (suite_match a b)
    | _ => s2l "?" end
  else if str_eqb fn (s2l "select") then
    match args with
    | prj :: inc :: exs :: ex :: ar :: sl :: tests =>
        let o := mkselopts prj (fields 2 inc) (fields 2 exs) (fields 2 ex) (fields 2 ar) (slice_of_str sl) in
        match get_tests o (map tdef_of_str tests) with
        | SelOk l => 79 :: join SEP2 (map (fun t => t_project t ++ [58] ++ t_name t) l)
        | SelErr => s2l "ERR"
        end
    | _ => s2l "?" end
  else if str_eqb fn (s2l "glob") then
    (* pattern, string *)
    match args with
    | [pat; x] => bool_str (gmatch pat x)
    | _ => s2l "?" end
  else if str_eqb fn (s2l "jobsopt") then
    (* the -j value -> R (rejected) or the number of jobs *)
    match args with
    | [n] => match parse_jobs (z_of_str n) with None => [82] | Some j => nat_str j end
    | _ => s2l "?" end
  else if str_eqb fn (s2l "workers") then
    (* MESON_TESTTHREADS, MESON_NUM_PROCESSES (U = unset, G = not an integer, else the integer), cpus *)
    match args with
    | [tth; npr; cpus] =>
        let ev (s : str) := match s with [85] => EnvUnset | [71] => EnvGarbage | _ => EnvInt (z_of_str s) end in
        nat_str (determine_worker_count (ev tth) (ev npr) (nat_of_str cpus))
    | _ => s2l "?" end
  else if str_eqb fn (s2l "timeout") then
    match args with
    | [ia; t; m] =>
        let oz (s : str) := match s with [78] => None | _ => Some (z_of_str s) end in
        match eff_timeout (bool_of_str ia) (oz t) (oz m) with
        | None => [78]
        | Some z => Strs.Z_dec z
        end
    | _ => s2l "?" end
  else s2l "?".
