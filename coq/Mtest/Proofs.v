(* Mtest/Proofs.v — statements that combine the scheduler, the classification and
   the command-line glue (mk_cfg). *)
From MV Require Import Base.Strs Mtest.Classify Mtest.Sched Mtest.ClassifyProofs Mtest.SchedProofs.
From Coq Require Import Lia ZArith Arith List Bool.
Import ListNotations.
Open Scope nat_scope.

Lemma bad_cases : forall r, is_bad r = true -> r <> INTERRUPT ->
  r = FAIL \/ r = ERROR \/ r = TIMEOUT \/ r = UNEXPECTEDPASS.
Proof. intros r B N. destruct r; simpl in B; try discriminate; auto. congruence. Qed.

(* exit status of a whole run of the scheduler: non-zero iff some test failed,
   errored, timed out or unexpectedly passed *)
Theorem exit_status_run : forall c ls s, run c (init c) ls = Some s ->
  (exit_status (tally (map snd (ends ls))) <> 0 <->
   exists i r, In (i, r) (ends ls) /\ (r = FAIL \/ r = ERROR \/ r = TIMEOUT \/ r = UNEXPECTEDPASS)).
Proof.
  intros c ls s R. rewrite exit_status_iff. split.
  - intros [r [Hin Hb]]. apply in_map_iff in Hin. destruct Hin as [[i r'] [E Hin]]. simpl in E. subst r'.
    destruct (result_eqb r INTERRUPT) eqn:Er.
    + assert (r = INTERRUPT) by (destruct r; simpl in Er; congruence). subst r.
      destruct (interrupt_needs_real_failure c ls s i R Hin) as [j [r [A [B N]]]].
      exists j, r. split; [assumption | apply bad_cases; assumption].
    + exists i, r. split; [assumption|]. apply bad_cases; [assumption|]. intros ->. discriminate.
  - intros [i [r [Hin H]]]. exists r. split.
    + apply in_map_iff. exists (i, r). auto.
    + destruct H as [H|[H|[H|H]]]; subst r; reflexivity.
Qed.

(* ------------------------------------------------------------------ mk_cfg *)
Lemma repeat_list_length : forall A n (l : list A), length (repeat_list n l) = length l * n.
Proof. induction n; simpl; intros; [lia|]. rewrite app_length, IHn. lia. Qed.

Lemma nth_repeat_list : forall A n (l : list A) i d, i < length l * n ->
  nth i (repeat_list n l) d = nth (i mod length l) l d.
Proof.
  induction n as [|n IH]; simpl; intros l i d H; [lia|].
  destruct (lt_dec i (length l)) as [L|L].
  - rewrite app_nth1 by assumption. rewrite Nat.mod_small by assumption. reflexivity.
  - rewrite app_nth2 by lia. rewrite IH by lia.
    assert (E : i = (i - length l) + 1 * length l) by lia.
    rewrite E at 2. rewrite Nat.mod_add by lia. reflexivity.
Qed.

(* what the command line asked for, in terms of the model configuration *)
Theorem mk_cfg_spec : forall tp rep np mf,
  let c := mk_cfg tp rep np mf in
  nrun c = length tp * rep /\ c_jobs c <= np /\
  forall i, i < nrun c -> par c i = nth (i mod length tp) tp true && (1 <? c_jobs c).
Proof.
  intros tp rep np mf. simpl. unfold nrun, par. simpl. rewrite repeat_list_length, map_length.
  repeat split; [lia|]. intros i Hi.
  rewrite nth_repeat_list by (rewrite map_length; exact Hi). rewrite map_length.
  assert (L : i mod length tp < length tp) by (apply Nat.mod_upper_bound; destruct tp; simpl in *; lia).
  rewrite (nth_indep _ true (true && (1 <? Nat.min np (length tp * rep)))) by (rewrite map_length; exact L).
  rewrite (map_nth (fun p => p && (1 <? Nat.min np (length tp * rep))) tp true). reflexivity.
Qed.

(* a test declared is_parallel:false is a non-parallel runner in every repetition *)
Corollary declared_serial : forall tp rep np mf i, i < length tp * rep ->
  nth (i mod length tp) tp true = false -> par (mk_cfg tp rep np mf) i = false.
Proof.
  intros tp rep np mf i Hi Hd. destruct (mk_cfg_spec tp rep np mf) as [A [_ B]].
  rewrite B by (rewrite A; exact Hi). rewrite Hd. reflexivity.
Qed.

Theorem declared_serial_runs_alone : forall tp rep np mf ls s i,
  run (mk_cfg tp rep np mf) (init (mk_cfg tp rep np mf)) ls = Some s ->
  In i (active ls []) -> nth (i mod length tp) tp true = false -> active ls [] = [i].
Proof.
  intros tp rep np mf ls s i R Hin Hd. apply (serial_isolation _ ls s i R Hin).
  apply declared_serial; [|exact Hd].
  destruct (mk_cfg_spec tp rep np mf) as [A _]. rewrite <- A.
  apply (starts_are_runners _ ls s i R).
  destruct (reach_history _ _ _ R) as [E1 [E2 _]]. rewrite <- E2.
  apply (I_st2 _ _ (inv_reach _ _ _ R)). rewrite E1. exact Hin.
Qed.

Theorem requested_job_bound : forall tp rep np mf ls s,
  run (mk_cfg tp rep np mf) (init (mk_cfg tp rep np mf)) ls = Some s -> length (active ls []) <= np.
Proof.
  intros tp rep np mf ls s R. pose proof (job_bound _ _ _ R) as B.
  destruct (mk_cfg_spec tp rep np mf) as [_ [J _]]. exact (Nat.le_trans _ _ _ B J).
Qed.
