(* Mtest/Proofs.v — statements that combine the scheduler, the classification and
   the command-line glue (mk_cfg). *)
From MV Require Import Base.Strs Mtest.Classify Mtest.Sched Mtest.ClassifyProofs Mtest.SchedProofs.
From Coq Require Import Lia ZArith Arith List Bool.
Import ListNotations.
Open Scope nat_scope.

Lemma bad_cases : forall r, is_bad r = true -> r <> INTERRUPT ->
  r = FAIL \/ r = ERROR \/ r = TIMEOUT \/ r = UNEXPECTEDPASS.
Proof. intros r B N. destruct r; simpl in B; try discriminate; auto. congruence. Qed.

(* exit status of a whole run of the scheduler: non-zero iff some test failed,
   errored, timed out or unexpectedly passed *)
Theorem exit_status_run : forall c ls s, run c (init c) ls = Some s ->
  (exit_status (tally (map snd (ends ls))) <> 0 <->
   exists i r, In (i, r) (ends ls) /\ (r = FAIL \/ r = ERROR \/ r = TIMEOUT \/ r = UNEXPECTEDPASS)).
Proof.
  intros c ls s R. rewrite exit_status_iff. split.
  - intros [r [Hin Hb]]. apply in_map_iff in Hin. destruct Hin as [[i r'] [E Hin]]. simpl in E. subst r'.
    destruct (result_eqb r INTERRUPT) eqn:Er.
    + assert (r = INTERRUPT) by (destruct r; simpl in Er; congruence). subst r.
      destruct (interrupt_needs_real_failure c ls s i R Hin) as [j [r [A [B N]]]].
      exists j, r. split; [assumption | apply bad_cases; assumption].
    + exists i, r. split; [assumption|]. apply bad_cases; [assumption|]. intros ->. discriminate.
  - intros [i [r [Hin H]]]. exists r. split.
    + apply in_map_iff. exists (i, r). auto.
    + destruct H as [H|[H|[H|H]]]; subst r; reflexivity.
Qed.

(* ------------------------------------------------------------------ mk_cfg *)
Lemma repeat_list_length : forall A n (l : list A), length (repeat_list n l) = length l * n.
Proof. induction n; simpl; intros; [lia|]. rewrite app_length, IHn. lia. Qed.

Lemma nth_repeat_list : forall A n (l : list A) i d, i < length l * n ->
  nth i (repeat_list n l) d = nth (i mod length l) l d.
Proof.
  induction n as [|n IH]; simpl; intros l i d H; [lia|].
  destruct (lt_dec i (length l)) as [L|L].
  - rewrite app_nth1 by assumption. rewrite Nat.mod_small by assumption. reflexivity.
  - rewrite app_nth2 by lia. rewrite IH by lia.
    assert (E : i = (i - length l) + 1 * length l) by lia.
    rewrite E at 2. rewrite Nat.mod_add by lia. reflexivity.
Qed.

(* what the command line asked for, in terms of the model configuration *)
Theorem mk_cfg_spec : forall tp rep np mf,
  let c := mk_cfg tp rep np mf in
  nrun c = length tp * rep /\ c_jobs c <= np /\
  forall i, i < nrun c -> par c i = nth (i mod length tp) tp true && (1 <? c_jobs c).
Proof.
  intros tp rep np mf. simpl. unfold nrun, par. simpl. rewrite repeat_list_length, map_length.
  repeat split; [lia|]. intros i Hi.
  rewrite nth_repeat_list by (rewrite map_length; exact Hi). rewrite map_length.
  assert (L : i mod length tp < length tp) by (apply Nat.mod_upper_bound; destruct tp; simpl in *; lia).
  rewrite (nth_indep _ true (true && (1 <? Nat.min np (length tp * rep)))) by (rewrite map_length; exact L).
  rewrite (map_nth (fun p => p && (1 <? Nat.min np (length tp * rep))) tp true). reflexivity.
Qed.

(* a test declared is_parallel:false is a non-parallel runner in every repetition *)
Corollary declared_serial : forall tp rep np mf i, i < length tp * rep ->
  nth (i mod length tp) tp true = false -> par (mk_cfg tp rep np mf) i = false.
Proof.
  intros tp rep np mf i Hi Hd. destruct (mk_cfg_spec tp rep np mf) as [A [_ B]].
  rewrite B by (rewrite A; exact Hi). rewrite Hd. reflexivity.
Qed.

Theorem declared_serial_runs_alone : forall tp rep np mf ls s i,
  run (mk_cfg tp rep np mf) (init (mk_cfg tp rep np mf)) ls = Some s ->
  In i (active ls []) -> nth (i mod length tp) tp true = false -> active ls [] = [i].
Proof.
  intros tp rep np mf ls s i R Hin Hd. apply (serial_isolation _ ls s i R Hin).
  apply declared_serial; [|exact Hd].
  destruct (mk_cfg_spec tp rep np mf) as [A _]. rewrite <- A.
  apply (starts_are_runners _ ls s i R).
  destruct (reach_history _ _ _ R) as [E1 [E2 _]]. rewrite <- E2.
  apply (I_st2 _ _ (inv_reach _ _ _ R)). rewrite E1. exact Hin.
Qed.

Theorem requested_job_bound : forall tp rep np mf ls s,
  run (mk_cfg tp rep np mf) (init (mk_cfg tp rep np mf)) ls = Some s -> length (active ls []) <= np.
Proof.
  intros tp rep np mf ls s R. pose proof (job_bound _ _ _ R) as B.
  destruct (mk_cfg_spec tp rep np mf) as [_ [J _]]. exact (Nat.le_trans _ _ _ B J).
Qed.

(* ------------------------------------------------------------------ the option layer *)
Theorem parse_jobs_rejects : forall n, (n <= 0)%Z -> parse_jobs n = None.
Proof. intros n H. unfold parse_jobs. apply Z.leb_le in H. rewrite H. reflexivity. Qed.

Theorem parse_jobs_accepts : forall n, (1 <= n)%Z ->
  exists j, parse_jobs n = Some j /\ 1 <= j /\ Z.of_nat j = n.
Proof.
  intros n H. unfold parse_jobs. assert (E : (n <=? 0)%Z = false) by (apply Z.leb_gt; lia).
  rewrite E. exists (Z.to_nat n). repeat split; lia.
Qed.

Theorem worker_count_positive : forall a b cpus, 1 <= determine_worker_count a b cpus.
Proof.
  intros a b cpus. unfold determine_worker_count.
  destruct (env_workers b (env_workers a 0) <=? 0)%Z eqn:E; [lia|]. apply Z.leb_gt in E. lia.
Qed.

(* from the initial state: with no runner at all, or with at least one job, never stuck *)
Lemma reachable_never_stuck : forall c, nrun c = 0 \/ 1 <= c_jobs c ->
  forall ls s, run c (init c) ls = Some s -> terminal c s = true \/ exists l s', exec c s l = Some s'.
Proof.
  intros c [Z|J] ls s R; [|apply deadlock_free; assumption].
  pose proof (run_length_bound c ls s R) as B. rewrite Z in B.
  destruct ls as [|l ls]; [|simpl in B; lia]. simpl in R. inversion R. subst.
  left. unfold terminal, init. simpl. rewrite Z. reflexivity.
Qed.

Lemma mk_cfg_jobs : forall tp rep np mf, 1 <= np ->
  nrun (mk_cfg tp rep np mf) = 0 \/ 1 <= c_jobs (mk_cfg tp rep np mf).
Proof.
  intros tp rep np mf H. destruct (mk_cfg_spec tp rep np mf) as [A _]. rewrite A. simpl.
  destruct (length tp * rep); [left; reflexivity | right; lia].
Qed.

(* a non-positive -j is refused before anything runs ... *)
Theorem cli_rejects_nonpositive : forall tp rep n a b cpus mf, (n <= 0)%Z ->
  cli_cfg tp rep (Some n) a b cpus mf = Rejected.
Proof. intros. unfold cli_cfg. rewrite parse_jobs_rejects by assumption. reflexivity. Qed.

(* ... a positive one, or none (whatever the environment variables hold), is accepted ... *)
Theorem cli_accepts : forall tp rep opt a b cpus mf,
  (match opt with Some n => (1 <= n)%Z | None => True end) ->
  exists c, cli_cfg tp rep opt a b cpus mf = Accepted c.
Proof.
  intros tp rep [n|] a b cpus mf H; unfold cli_cfg.
  - destruct (parse_jobs_accepts n H) as [j [E _]]. rewrite E. eauto.
  - eauto.
Qed.

(* ... and the scheduler of every accepted command line never gets stuck *)
Theorem cli_never_stuck : forall tp rep opt a b cpus mf c,
  cli_cfg tp rep opt a b cpus mf = Accepted c ->
  forall ls s, run c (init c) ls = Some s -> terminal c s = true \/ exists l s', exec c s l = Some s'.
Proof.
  intros tp rep opt a b cpus mf c H. apply reachable_never_stuck. unfold cli_cfg in H.
  destruct opt as [n|].
  - unfold parse_jobs in H. destruct (n <=? 0)%Z eqn:E; [discriminate|]. inversion H. subst.
    apply mk_cfg_jobs. apply Z.leb_gt in E. lia.
  - inversion H. subst. apply mk_cfg_jobs. apply worker_count_positive.
Qed.
