(* Graph/QuoteProofs.v — what NinjaBuildElement.write puts on a build line is read
   back by the reference reader as exactly the names that were written (after the
   lexical canonicalisation ninja applies to every path), for ALL name lists whose
   names are non-empty and free of newline, '|' and NUL. *)
From MV Require Import Base.Strs Base.LexFacts Graph.Manifest Graph.Check Graph.LfpFacts Graph.Quote.
From Coq Require Import Lia.
Open Scope N_scope.

Definition mkT (p : str) : btok := TPath [Lit p].

Lemma sscan_app vm a : forall b st,
  sscan vm (a ++ b) st = match sscan vm a st with Ok st' => sscan vm b st' | Err e => Err e end.
Proof.
  induction a as [|c a IH]; intros b st; cbn [app sscan]; [reflexivity|].
  destruct (sstep vm st c); [apply IH | reflexivity].
Qed.

Lemma name_char_ok_spec c : name_char_ok c = true -> c <> c_nl /\ c <> c_pipe /\ c <> 0.
Proof.
  unfold name_char_ok. rewrite Bool.negb_true_iff, !Bool.orb_false_iff, !N.eqb_neq. tauto.
Qed.

(* one quoted character, inside a path *)
Lemma scan_char_path c acc pcs toks :
  name_char_ok c = true ->
  sscan false (nq_char c) (mkS MPath acc pcs toks) = Ok (mkS MPath (c :: acc) pcs toks).
Proof.
  intro Hc. apply name_char_ok_spec in Hc. destruct Hc as [_ [Hp _]].
  unfold nq_char. destruct (nq_special c) eqn:E.
  - cbn [sscan sstep s_mode]. unfold path_char. rewrite N.eqb_refl.
    cbn [sstep s_mode s_acc s_pcs s_toks]. unfold nq_special in E. rewrite E. reflexivity.
  - unfold nq_special in E. apply Bool.orb_false_iff in E. destruct E as [E E3].
    apply Bool.orb_false_iff in E. destruct E as [E1 E2].
    cbn [sscan sstep s_mode]. unfold path_char. rewrite E1, E2, E3.
    apply N.eqb_neq in Hp. rewrite Hp. cbn [s_acc s_pcs s_toks]. reflexivity.
Qed.

Lemma scan_name_path p : forall acc pcs toks,
  forallb name_char_ok p = true ->
  sscan false (ninja_quote_build p) (mkS MPath acc pcs toks) = Ok (mkS MPath (rev p ++ acc) pcs toks).
Proof.
  induction p as [|c p IH]; intros acc pcs toks H; [reflexivity|].
  cbn [forallb] in H. apply Bool.andb_true_iff in H. destruct H as [Hc Hp].
  unfold ninja_quote_build. cbn [map concat]. rewrite sscan_app, (scan_char_path c acc pcs toks Hc).
  fold (ninja_quote_build p). rewrite (IH (c :: acc) pcs toks Hp). cbn [rev]. rewrite <- app_assoc. reflexivity.
Qed.

(* the first character of a name, between tokens *)
Lemma scan_char_idle c toks :
  name_char_ok c = true ->
  sscan false (nq_char c) (mkS MIdle [] [] toks) = Ok (mkS MPath [c] [] toks).
Proof.
  intro Hc. apply name_char_ok_spec in Hc. destruct Hc as [_ [Hp H0]].
  apply N.eqb_neq in Hp. apply N.eqb_neq in H0.
  unfold nq_char. destruct (nq_special c) eqn:E.
  - cbn [sscan sstep s_mode]. unfold idle_char.
    replace (c_dollar =? c_sp) with false by reflexivity.
    replace (c_dollar =? c_cont) with false by reflexivity.
    replace (c_dollar =? c_colon) with false by reflexivity.
    replace (c_dollar =? c_pipe) with false by reflexivity.
    rewrite N.eqb_refl. cbn [orb sstep s_mode s_acc s_pcs s_toks].
    unfold nq_special in E. rewrite E. reflexivity.
  - unfold nq_special in E. apply Bool.orb_false_iff in E. destruct E as [E E3].
    apply Bool.orb_false_iff in E. destruct E as [E1 E2].
    cbn [sscan sstep s_mode]. unfold idle_char, c_cont. rewrite E1, E2, E3, Hp, H0.
    cbn [orb s_toks]. reflexivity.
Qed.

Lemma scan_name_idle p toks :
  name_ok p = true ->
  sscan false (ninja_quote_build p) (mkS MIdle [] [] toks) = Ok (mkS MPath (rev p) [] toks).
Proof.
  destruct p as [|c p]; [discriminate|]. unfold name_ok. cbn [forallb]. intro H.
  apply Bool.andb_true_iff in H. destruct H as [Hc Hp].
  unfold ninja_quote_build. cbn [map concat]. rewrite sscan_app, (scan_char_idle c toks Hc).
  fold (ninja_quote_build p). rewrite (scan_name_path p [c] [] toks Hp). reflexivity.
Qed.

Lemma flush_rev p pcs : p <> [] -> flush_lit (rev p) pcs = Lit p :: pcs.
Proof.
  intro H. unfold flush_lit. destruct (rev p) eqn:E.
  - exfalso. apply H. rewrite <- (rev_involutive p), E. reflexivity.
  - rewrite <- E, rev_involutive. reflexivity.
Qed.

Lemma name_ok_nonempty p : name_ok p = true -> p <> [].
Proof. destruct p; [discriminate | discriminate]. Qed.

(* a list of names followed by a blank or a colon *)
Lemma scan_names_then ps : forall p toks d rest,
  name_ok p = true -> forallb name_ok ps = true -> (d = c_sp \/ d = c_colon) ->
  sscan false (quote_names (p :: ps) ++ d :: rest) (mkS MIdle [] [] toks) =
  sscan false rest (mkS MIdle [] [] ((if d =? c_colon then [TColon] else []) ++
                                      rev (map mkT (p :: ps)) ++ toks)).
Proof.
  induction ps as [|q ps IH]; intros p toks d rest Hp Hps Hd.
  - unfold quote_names. cbn [map join]. rewrite sscan_app, (scan_name_idle p toks Hp).
    cbn [sscan sstep s_mode path_char s_acc s_pcs s_toks].
    assert (Hf := flush_rev p [] (name_ok_nonempty p Hp)).
    destruct Hd as [-> | ->]; cbn; unfold end_path; cbn [s_acc s_pcs s_toks]; rewrite Hf; reflexivity.
  - cbn [forallb] in Hps. apply Bool.andb_true_iff in Hps. destruct Hps as [Hq Hps].
    unfold quote_names. cbn [map]. 
    change (join [c_sp] (ninja_quote_build p :: ninja_quote_build q :: map ninja_quote_build ps))
      with (ninja_quote_build p ++ [c_sp] ++ join [c_sp] (map ninja_quote_build (q :: ps))).
    rewrite <- !app_assoc. rewrite sscan_app, (scan_name_idle p toks Hp).
    cbn [app sscan sstep s_mode path_char s_acc s_pcs s_toks]. cbn.
    unfold end_path. cbn [s_acc s_pcs s_toks]. rewrite (flush_rev p [] (name_ok_nonempty p Hp)).
    fold (quote_names (q :: ps)). rewrite (IH q _ d rest Hq Hps Hd).
    f_equal. f_equal. f_equal. cbn [map rev]. rewrite <- !app_assoc. reflexivity.
Qed.

(* ... and at the end of the line *)
Lemma scan_names_end ps : forall p toks,
  name_ok p = true -> forallb name_ok ps = true ->
  exists st, sscan false (quote_names (p :: ps)) (mkS MIdle [] [] toks) = Ok st /\
             sfinish st = Ok (rev toks ++ map mkT (p :: ps)).
Proof.
  induction ps as [|q ps IH]; intros p toks Hp Hps.
  - unfold quote_names. cbn [map join]. rewrite (scan_name_idle p toks Hp). eexists. split; [reflexivity|].
    unfold sfinish, end_path. cbn [s_mode s_acc s_pcs s_toks].
    rewrite (flush_rev p [] (name_ok_nonempty p Hp)). cbn. reflexivity.
  - cbn [forallb] in Hps. apply Bool.andb_true_iff in Hps. destruct Hps as [Hq Hps].
    unfold quote_names. cbn [map].
    change (join [c_sp] (ninja_quote_build p :: ninja_quote_build q :: map ninja_quote_build ps))
      with (ninja_quote_build p ++ [c_sp] ++ join [c_sp] (map ninja_quote_build (q :: ps))).
    rewrite sscan_app, (scan_name_idle p toks Hp).
    cbn [app sscan sstep s_mode path_char s_acc s_pcs s_toks]. cbn.
    unfold end_path. cbn [s_acc s_pcs s_toks]. rewrite (flush_rev p [] (name_ok_nonempty p Hp)).
    fold (quote_names (q :: ps)). destruct (IH q (TPath (rev [Lit p]) :: toks) Hq Hps) as [st [Hs Hf]].
    exists st. split; [exact Hs|]. rewrite Hf. cbn [rev map app]. rewrite <- app_assoc. reflexivity.
Qed.

(* token level: a list of quoted names is read back as these names *)
Theorem quote_names_roundtrip ps :
  forallb name_ok ps = true ->
  lex_paths (quote_names ps) = Ok (map mkT ps).
Proof.
  intro H. unfold lex_paths. destruct ps as [|p ps]; [reflexivity|].
  cbn [forallb] in H. apply Bool.andb_true_iff in H. destruct H as [Hp Hps].
  destruct (scan_names_end ps p [] Hp Hps) as [st [Hs Hf]]. rewrite Hs, Hf. reflexivity.
Qed.

(* the guard is needed: a name with '|' is read back as something else *)
Theorem quote_names_roundtrip_refuted :
  exists ps, lex_paths (quote_names ps) <> Ok (map mkT ps).
Proof. exists [s2l "a|b"]. vm_compute. discriminate. Qed.

Example name_ok_satisfiable : forallb name_ok [s2l "ma in"; s2l "f$g"; s2l "h:i"; s2l "#x"; [252]] = true.
Proof. reflexivity. Qed.

(* ------------------------------------------------------------------ a whole build line *)
Definition lexf (s : str) (st : sstate) : res (list btok) :=
  match sscan false s st with Ok st' => sfinish st' | Err e => Err e end.
Definition idle (toks : list btok) : sstate := mkS MIdle [] [] toks.

Lemma lexf_app a b st :
  lexf (a ++ b) st = match sscan false a st with Ok st' => lexf b st' | Err e => Err e end.
Proof. unfold lexf. rewrite sscan_app. destruct (sscan false a st); reflexivity. Qed.

Lemma lexf_sp t toks : lexf (c_sp :: t) (idle toks) = lexf t (idle toks).
Proof. reflexivity. Qed.

Lemma lexf_pipe t toks : lexf (c_pipe :: c_sp :: t) (idle toks) = lexf t (idle (TPipe :: toks)).
Proof. reflexivity. Qed.

Lemma lexf_pipe2 t toks : lexf (c_pipe :: c_pipe :: c_sp :: t) (idle toks) = lexf t (idle (TPipe2 :: toks)).
Proof. reflexivity. Qed.

Lemma lexf_nil toks : lexf [] (idle toks) = Ok (rev toks).
Proof. reflexivity. Qed.

Lemma lexf_names_sp ps t toks :
  forallb name_ok ps = true ->
  lexf (quote_names ps ++ c_sp :: t) (idle toks) = lexf t (idle (rev (map mkT ps) ++ toks)).
Proof.
  intro H. destruct ps as [|p ps]; [reflexivity|].
  cbn [forallb] in H. apply Bool.andb_true_iff in H. destruct H as [Hp Hps].
  unfold lexf, idle. rewrite (scan_names_then ps p toks c_sp t Hp Hps (or_introl eq_refl)). reflexivity.
Qed.

Lemma lexf_names_colon ps t toks :
  ps <> [] -> forallb name_ok ps = true ->
  lexf (quote_names ps ++ c_colon :: t) (idle toks) = lexf t (idle (TColon :: rev (map mkT ps) ++ toks)).
Proof.
  intros Hne H. destruct ps as [|p ps]; [contradiction|].
  cbn [forallb] in H. apply Bool.andb_true_iff in H. destruct H as [Hp Hps].
  unfold lexf, idle. rewrite (scan_names_then ps p toks c_colon t Hp Hps (or_intror eq_refl)). reflexivity.
Qed.

Lemma lexf_names_end ps toks :
  forallb name_ok ps = true ->
  lexf (quote_names ps) (idle toks) = Ok (rev toks ++ map mkT ps).
Proof.
  intro H. destruct ps as [|p ps]; [cbn; rewrite app_nil_r; reflexivity|].
  cbn [forallb] in H. apply Bool.andb_true_iff in H. destruct H as [Hp Hps].
  unfold lexf, idle. destruct (scan_names_end ps p toks Hp Hps) as [st [Hs Hf]]. rewrite Hs. exact Hf.
Qed.

(* rule names are identifiers: nothing to quote *)
Lemma is_ident_plain c : is_ident c = true -> nq_special c = false /\ name_char_ok c = true.
Proof.
  unfold is_ident, is_simple_var, is_alnum, is_alpha, is_lower, is_upper, is_digit, nq_special, name_char_ok,
         c_dollar, c_sp, c_colon, c_nl, c_pipe, c_dot.
  intro H. split.
  - rewrite !Bool.orb_false_iff, !N.eqb_neq.
    repeat rewrite Bool.orb_true_iff in H. repeat rewrite Bool.andb_true_iff in H.
    repeat rewrite N.leb_le in H. repeat rewrite N.eqb_eq in H. lia.
  - rewrite Bool.negb_true_iff, !Bool.orb_false_iff, !N.eqb_neq.
    repeat rewrite Bool.orb_true_iff in H. repeat rewrite Bool.andb_true_iff in H.
    repeat rewrite N.leb_le in H. repeat rewrite N.eqb_eq in H. lia.
Qed.

Lemma ident_quote r : forallb is_ident r = true -> ninja_quote_build r = r /\ forallb name_char_ok r = true.
Proof.
  induction r as [|c r IH]; [split; reflexivity|]. cbn [forallb]. intro H.
  apply Bool.andb_true_iff in H. destruct H as [Hc Hr]. destruct (is_ident_plain c Hc) as [H1 H2].
  destruct (IH Hr) as [IH1 IH2]. split.
  - unfold ninja_quote_build in *. cbn [map concat]. unfold nq_char at 1. rewrite H1, IH1. reflexivity.
  - rewrite H2, IH2. reflexivity.
Qed.

Lemma lexf_rule r t toks :
  r <> [] -> forallb is_ident r = true ->
  lexf (r ++ c_sp :: t) (idle toks) = lexf t (idle (mkT r :: toks)).
Proof.
  intros Hne Hi. destruct (ident_quote r Hi) as [Hq Hok].
  assert (Hn : forallb name_ok [r] = true).
  { cbn. destruct r; [contradiction|]. unfold name_ok. rewrite Hok. reflexivity. }
  assert (X := lexf_names_sp [r] t toks Hn). unfold quote_names in X. cbn [map join] in X.
  rewrite Hq in X. exact X.
Qed.

(* optional sections "| deps" and "|| order-only deps" *)
Definition opt_sec (sep : str) (ps : list str) : str :=
  match ps with [] => [] | _ => [c_sp] ++ sep ++ [c_sp] ++ quote_names ps end.
Definition opt_toks (t : btok) (ps : list str) : list btok :=
  match ps with [] => [] | _ => t :: map mkT ps end.

Ltac fin_toks :=
  repeat progress (cbn [rev app]; rewrite ?rev_app_distr, ?rev_involutive, <- ?app_assoc, ?app_nil_r);
  try reflexivity.

Lemma lexf_tail ins deps oos toks :
  forallb name_ok ins = true -> forallb name_ok deps = true -> forallb name_ok oos = true ->
  lexf (quote_names ins ++ opt_sec [c_pipe] deps ++ opt_sec [c_pipe; c_pipe] oos) (idle toks) =
  Ok (rev toks ++ map mkT ins ++ opt_toks TPipe deps ++ opt_toks TPipe2 oos).
Proof.
  intros Hi Hd Ho.
  destruct deps as [|d deps]; destruct oos as [|o oos]; unfold opt_sec, opt_toks; cbn [app].
  - rewrite !app_nil_r. apply lexf_names_end. exact Hi.
  - rewrite (lexf_names_sp ins _ toks Hi), lexf_pipe2, (lexf_names_end (o :: oos) _ Ho). fin_toks.
  - rewrite app_nil_r. rewrite (lexf_names_sp ins _ toks Hi), lexf_pipe, (lexf_names_end (d :: deps) _ Hd). fin_toks.
  - rewrite (lexf_names_sp ins _ toks Hi), lexf_pipe.
    rewrite (lexf_names_sp (d :: deps) _ _ Hd), lexf_pipe2, (lexf_names_end (o :: oos) _ Ho). fin_toks.
Qed.

Definition line_tokens (outs iouts : list str) (rule : str) (ins deps oos : list str) : list btok :=
  map mkT outs ++ opt_toks TPipe iouts ++ [TColon; mkT rule] ++
  map mkT ins ++ opt_toks TPipe deps ++ opt_toks TPipe2 oos.

Lemma build_line_rest_eq outs iouts rule ins deps oos :
  build_line_rest outs iouts rule ins deps oos =
  c_sp :: quote_names outs ++ opt_sec [c_pipe] iouts ++ c_colon :: c_sp :: rule ++ c_sp ::
  (quote_names ins ++ opt_sec [c_pipe] deps ++ opt_sec [c_pipe; c_pipe] oos).
Proof.
  unfold build_line_rest, opt_sec. destruct iouts, deps, oos; cbn [app]; rewrite <- ?app_assoc; cbn [app]; reflexivity.
Qed.

Theorem build_line_tokens outs iouts rule ins deps oos :
  outs <> [] -> rule <> [] -> forallb is_ident rule = true ->
  forallb name_ok outs = true -> forallb name_ok iouts = true -> forallb name_ok ins = true ->
  forallb name_ok deps = true -> forallb name_ok oos = true ->
  lex_paths (build_line_rest outs iouts rule ins deps oos) = Ok (line_tokens outs iouts rule ins deps oos).
Proof.
  intros Hne Hr Hri Ho Hio Hi Hd Hoo. rewrite build_line_rest_eq.
  change (lex_paths ?s) with (lexf s (idle [])). rewrite lexf_sp.
  unfold line_tokens. destruct iouts as [|io iouts]; unfold opt_sec at 1, opt_toks at 1; cbn [app].
  - rewrite (lexf_names_colon outs _ [] Hne Ho), lexf_sp, (lexf_rule rule _ _ Hr Hri).
    rewrite (lexf_tail ins deps oos _ Hi Hd Hoo). fin_toks.
  - rewrite (lexf_names_sp outs _ [] Ho), lexf_pipe.
    rewrite (lexf_names_colon (io :: iouts) _ _ ltac:(discriminate) Hio), lexf_sp, (lexf_rule rule _ _ Hr Hri).
    rewrite (lexf_tail ins deps oos _ Hi Hd Hoo). fin_toks.
Qed.

(* ------------------------------------------------------------------ from tokens to the statement *)
Definition elit (p : str) : estr := [Lit p].

Lemma bs_outs ps : forall rest w,
  build_sections (map mkT ps ++ rest) SOut w =
  build_sections rest SOut (mkRaw (rev (map elit ps) ++ w_outs w) (w_iouts w) (w_rule w) (w_ins w) (w_imps w) (w_oos w) (w_vals w)).
Proof.
  induction ps as [|p ps IH]; intros rest w; [destruct w; reflexivity|].
  cbn [map app build_sections mkT]. rewrite IH. cbn [w_outs w_iouts w_rule w_ins w_imps w_oos w_vals rev].
  rewrite <- app_assoc. reflexivity.
Qed.

Lemma bs_iouts ps : forall rest w,
  build_sections (map mkT ps ++ rest) SIOut w =
  build_sections rest SIOut (mkRaw (w_outs w) (rev (map elit ps) ++ w_iouts w) (w_rule w) (w_ins w) (w_imps w) (w_oos w) (w_vals w)).
Proof.
  induction ps as [|p ps IH]; intros rest w; [destruct w; reflexivity|].
  cbn [map app build_sections mkT]. rewrite IH. cbn [w_outs w_iouts w_rule w_ins w_imps w_oos w_vals rev].
  rewrite <- app_assoc. reflexivity.
Qed.

Lemma bs_ins ps : forall rest w,
  build_sections (map mkT ps ++ rest) SIn w =
  build_sections rest SIn (mkRaw (w_outs w) (w_iouts w) (w_rule w) (rev (map elit ps) ++ w_ins w) (w_imps w) (w_oos w) (w_vals w)).
Proof.
  induction ps as [|p ps IH]; intros rest w; [destruct w; reflexivity|].
  cbn [map app build_sections mkT]. rewrite IH. cbn [w_outs w_iouts w_rule w_ins w_imps w_oos w_vals rev].
  rewrite <- app_assoc. reflexivity.
Qed.

Lemma bs_imps ps : forall rest w,
  build_sections (map mkT ps ++ rest) SImp w =
  build_sections rest SImp (mkRaw (w_outs w) (w_iouts w) (w_rule w) (w_ins w) (rev (map elit ps) ++ w_imps w) (w_oos w) (w_vals w)).
Proof.
  induction ps as [|p ps IH]; intros rest w; [destruct w; reflexivity|].
  cbn [map app build_sections mkT]. rewrite IH. cbn [w_outs w_iouts w_rule w_ins w_imps w_oos w_vals rev].
  rewrite <- app_assoc. reflexivity.
Qed.

Lemma bs_oos ps : forall rest w,
  build_sections (map mkT ps ++ rest) SOo w =
  build_sections rest SOo (mkRaw (w_outs w) (w_iouts w) (w_rule w) (w_ins w) (w_imps w) (rev (map elit ps) ++ w_oos w) (w_vals w)).
Proof.
  induction ps as [|p ps IH]; intros rest w; [destruct w; reflexivity|].
  cbn [map app build_sections mkT]. rewrite IH. cbn [w_outs w_iouts w_rule w_ins w_imps w_oos w_vals rev].
  rewrite <- app_assoc. reflexivity.
Qed.

Theorem line_tokens_sections outs iouts rule ins deps oos :
  build_sections (line_tokens outs iouts rule ins deps oos) SOut raw0 =
  Ok (mkRaw (rev (map elit outs)) (rev (map elit iouts)) (Some [Lit rule]) (rev (map elit ins))
            (rev (map elit deps)) (rev (map elit oos)) []).
Proof.
  unfold line_tokens. rewrite bs_outs. cbn [raw0 w_outs w_iouts w_rule w_ins w_imps w_oos w_vals]. rewrite app_nil_r.
  assert (Tail : forall w, w_ins w = [] -> w_imps w = [] -> w_oos w = [] ->
            build_sections (map mkT ins ++ opt_toks TPipe deps ++ opt_toks TPipe2 oos) SIn w =
            Ok (mkRaw (w_outs w) (w_iouts w) (w_rule w) (rev (map elit ins)) (rev (map elit deps))
                      (rev (map elit oos)) (w_vals w))).
  { intros w H1 H2 H3. rewrite bs_ins. rewrite H1, app_nil_r.
    destruct deps as [|d deps]; destruct oos as [|o oos]; unfold opt_toks; cbn [app].
    - cbn. rewrite H2, H3. reflexivity.
    - cbn [build_sections]. rewrite <- (app_nil_r (map mkT (o :: oos))), bs_oos.
      cbn [build_sections w_outs w_iouts w_rule w_ins w_imps w_oos w_vals]. rewrite H2, H3, app_nil_r. reflexivity.
    - cbn [build_sections]. rewrite bs_imps.
      cbn [build_sections w_outs w_iouts w_rule w_ins w_imps w_oos w_vals]. rewrite H2, H3, app_nil_r. reflexivity.
    - cbn [build_sections]. rewrite bs_imps. cbn [build_sections].
      rewrite <- (app_nil_r (map mkT (o :: oos))), bs_oos.
      cbn [build_sections w_outs w_iouts w_rule w_ins w_imps w_oos w_vals]. rewrite H2, H3, !app_nil_r. reflexivity. }
  destruct iouts as [|io iouts]; unfold opt_toks at 1; cbn [app].
  - cbn [build_sections mkT]. rewrite Tail by reflexivity. reflexivity.
  - cbn [build_sections]. rewrite bs_iouts. cbn [build_sections mkT w_outs w_iouts w_rule w_ins w_imps w_oos w_vals].
    rewrite Tail by reflexivity. cbn [w_outs w_iouts w_rule w_vals]. rewrite app_nil_r. reflexivity.
Qed.

Lemma canon_path_nonempty p : p <> [] -> canon_path p <> [].
Proof.
  destruct p as [|c p]; [contradiction|]. intros _. unfold canon_path.
  destruct (c =? c_slash); [discriminate|].
  destruct (join [c_slash] (rev (fold_left canon_push (split_on c_slash (c :: p) []) []))); discriminate.
Qed.

Lemma lit_text_ok p : forallb name_char_ok p = true -> lit_text p = p.
Proof.
  intro H. unfold lit_text. apply filter_all_true. intros c Hc.
  rewrite forallb_forall in H. specialize (H c Hc). apply name_char_ok_spec in H.
  destruct H as [_ [_ H0]]. apply Bool.negb_true_iff. apply N.eqb_neq. exact H0.
Qed.

Lemma name_ok_chars p : name_ok p = true -> forallb name_char_ok p = true /\ p <> [].
Proof. destruct p; [discriminate|]. unfold name_ok. intro H. split; [exact H | discriminate]. Qed.

Lemma eval_paths_lits e ps :
  forallb name_ok ps = true -> eval_paths e (rev (map elit ps)) = map canon_path ps.
Proof.
  intro H. unfold eval_paths. rewrite rev_involutive, map_map. apply map_ext_in. intros p Hp.
  rewrite forallb_forall in H. destruct (name_ok_chars p (H p Hp)) as [Hc _].
  unfold elit, eval. cbn [map concat eval_piece]. rewrite app_nil_r, (lit_text_ok p Hc). reflexivity.
Qed.

Lemma has_empty_canon ps : forallb name_ok ps = true -> has_empty (map canon_path ps) = false.
Proof.
  induction ps as [|p ps IH]; [reflexivity|]. cbn [forallb]. intro H.
  apply Bool.andb_true_iff in H. destruct H as [Hp Hps]. unfold has_empty in *. cbn [map existsb].
  rewrite (IH Hps). destruct (name_ok_chars p Hp) as [_ Hne].
  destruct (canon_path p) eqn:E; [exfalso; exact (canon_path_nonempty p Hne E) | reflexivity].
Qed.

Lemma has_empty_app a b : has_empty (a ++ b) = has_empty a || has_empty b.
Proof. unfold has_empty. apply existsb_app. Qed.

(* "build.ninja is a valid Ninja manifest": the build line that write assembles from
   representable names is read back as the statement with exactly these (canonicalised)
   names, whatever the bindings of the block and of the file *)
Theorem build_line_roundtrip fenv bvars outs iouts rule ins deps oos :
  outs <> [] -> rule <> [] -> forallb is_ident rule = true ->
  forallb name_ok outs = true -> forallb name_ok iouts = true -> forallb name_ok ins = true ->
  forallb name_ok deps = true -> forallb name_ok oos = true ->
  exists toks,
    classify (s2l "build" ++ build_line_rest outs iouts rule ins deps oos) = LBuild toks /\
    mk_build fenv toks bvars =
    Ok (mkBuild (map canon_path outs) (map canon_path iouts) rule (map canon_path ins)
                (map canon_path deps) (map canon_path oos) [] bvars).
Proof.
  intros Hne Hr Hri Ho Hio Hi Hd Hoo. exists (line_tokens outs iouts rule ins deps oos). split.
  - assert (Hl := build_line_tokens outs iouts rule ins deps oos Hne Hr Hri Ho Hio Hi Hd Hoo).
    rewrite build_line_rest_eq in *.
    change (s2l "build") with [98; 117; 105; 108; 100]%N.
    unfold classify. cbn [app skip_blank N.eqb Pos.eqb c_sp c_hash c_tab].
    cbn [span_ident is_ident is_simple_var is_alnum is_alpha is_lower is_upper is_digit N.leb N.eqb Pos.eqb
         N.compare Pos.compare Pos.compare_cont orb andb c_dot c_sp rev app].
    change (str_eqb [98; 117; 105; 108; 100]%N (s2l "build")) with true. cbn iota.
    rewrite Hl. reflexivity.
  - unfold mk_build. rewrite line_tokens_sections. cbn [w_rule w_outs w_iouts w_ins w_imps w_oos w_vals].
    unfold rule_ident. rewrite Hri. rewrite !eval_paths_lits by assumption.
    cbn [eval_paths rev map b_outs b_iouts b_ins b_imps b_oos b_valids].
    destruct outs as [|o outs]; [contradiction|]. cbn [map].
    rewrite <- (map_cons canon_path o outs).
    rewrite !has_empty_app, !has_empty_canon by assumption. cbn. reflexivity.
Qed.
