(* Graph/GenProofs.v — the graph that the model of meson's edge logic (Graph/Gen.v) generates
   is dependency-complete, for EVERY project of the IR: any number of targets, sources and
   generator inputs, any depth of custom-target chains, declare_dependency nesting and library
   linking.  With Graph/SchedProofs.v: every such graph is schedule independent. *)
From Coq Require Import List NArith Bool Lia Permutation.
From MV Require Import Graph.Sched Graph.SchedProofs Graph.Gen.
Import ListNotations.
Open Scope N_scope.

(* ------------------------------------------------------------------ *)
(* Part 1.  The closure pass, generically.                               *)

Lemma close_from_app acc a b : close_from acc (a ++ b) = close_from (close_from acc a) b.
Proof. revert acc. induction a as [|u a IH]; intro acc; simpl; [reflexivity | apply IH]. Qed.

(* graphs that the pass can produce *)
Inductive built : list step -> Prop :=
| built_nil : built []
| built_snoc G u : built G -> built (G ++ [close_step G u]).

Lemma built_close_from acc us : built acc -> built (close_from acc us).
Proof.
  revert acc. induction us as [|u r IH]; intros acc H; simpl; [exact H|].
  apply IH. constructor. exact H.
Qed.

Lemma close_step_anc acc u i :
  In i (s_anc (close_step acc u)) ->
  exists m, In m acc /\ feeds u m = true /\ (i = s_id m \/ In i (s_anc m)).
Proof.
  unfold close_step. simpl. rewrite nodup_In, in_flat_map.
  intros (m & Hm & Hi). apply filter_In in Hm. destruct Hm as [Hm Hf].
  exists m. repeat split; try assumption. destruct Hi as [Hi|Hi]; [left; symmetry; exact Hi | right; exact Hi].
Qed.

Lemma close_step_anc_intro acc u m :
  In m acc -> feeds u m = true ->
  In (s_id m) (s_anc (close_step acc u)) /\ incl (s_anc m) (s_anc (close_step acc u)).
Proof.
  intros Hm Hf. unfold close_step. simpl. split.
  - rewrite nodup_In, in_flat_map. exists m. split; [apply filter_In; auto | left; reflexivity].
  - intros i Hi. rewrite nodup_In, in_flat_map. exists m. split; [apply filter_In; auto | right; exact Hi].
Qed.

Lemma feeds_intro u m q : In q (s_outs m) -> In q (u_all u) -> feeds u m = true.
Proof.
  intros H1 H2. unfold feeds. apply existsb_exists. exists q. split; [exact H1 | apply memN_In; exact H2].
Qed.

(* identifiers are positions; ancestors have smaller identifiers *)
Lemma built_ids G : built G ->
  (forall s, In s G -> s_id s < N.of_nat (length G)) /\
  (forall s i, In s G -> In i (s_anc s) -> i < s_id s) /\
  NoDup (map s_id G).
Proof.
  induction 1 as [|G u HG IH]; [repeat split; try (intros; contradiction); constructor|].
  destruct IH as (Hid & Hanc & Hnd).
  assert (Hnew : forall i, In i (s_anc (close_step G u)) -> i < N.of_nat (length G)).
  { intros i Hi. apply close_step_anc in Hi. destruct Hi as (m & Hm & _ & [->|Hi]).
    - apply Hid. exact Hm.
    - specialize (Hanc m i Hm Hi). specialize (Hid m Hm). lia. }
  repeat split.
  - intros s Hs. rewrite app_length. simpl. apply in_app_or in Hs. destruct Hs as [Hs|[<-|[]]].
    + specialize (Hid s Hs). lia.
    + simpl. lia.
  - intros s i Hs Hi. apply in_app_or in Hs. destruct Hs as [Hs|[<-|[]]].
    + apply Hanc; assumption.
    + simpl. apply Hnew. exact Hi.
  - rewrite map_app. simpl. eapply Permutation_NoDup; [apply Permutation_cons_append|].
    constructor; [|exact Hnd]. intro Hin. apply in_map_iff in Hin. destruct Hin as (m & Em & Hm).
    specialize (Hid m Hm). lia.
Qed.

(* the ancestor lists are closed *)
Lemma built_closed G : built G ->
  forall s i, In s G -> In i (s_anc s) -> exists m, In m G /\ s_id m = i /\ incl (s_anc m) (s_anc s).
Proof.
  induction 1 as [|G u HG IH]; [intros s i []|].
  intros s i Hs Hi. apply in_app_or in Hs. destruct Hs as [Hs|[<-|[]]].
  - destruct (IH s i Hs Hi) as (m & Hm & E & Hincl). exists m. split; [apply in_or_app; left; exact Hm | auto].
  - pose proof Hi as Hi0. apply close_step_anc in Hi. destruct Hi as (m & Hm & Hf & [->|Hi]).
    + exists m. split; [apply in_or_app; left; exact Hm|]. split; [reflexivity|].
      apply close_step_anc_intro; assumption.
    + destruct (IH m i Hm Hi) as (m' & Hm' & E & Hincl). exists m'.
      split; [apply in_or_app; left; exact Hm'|]. split; [exact E|].
      intros j Hj. apply (proj2 (close_step_anc_intro G u m Hm Hf)). apply Hincl. exact Hj.
Qed.

Lemma all_outs_app a b : all_outs (a ++ b) = all_outs a ++ all_outs b.
Proof. unfold all_outs. apply flat_map_app. Qed.

Lemma close_from_outs acc us : all_outs (close_from acc us) = all_outs acc ++ flat_map u_outs us.
Proof.
  revert acc. induction us as [|u r IH]; intro acc; simpl; [symmetry; apply app_nil_r|].
  rewrite IH, all_outs_app. unfold all_outs at 2. simpl. rewrite app_nil_r, <- app_assoc. reflexivity.
Qed.

(* where the steps of the result come from *)
Lemma close_from_inv us : forall acc,
  incl acc (close_from acc us) /\
  (forall u, In u us -> exists pre, incl acc pre /\ incl pre (close_from acc us) /\
                                   In (close_step pre u) (close_from acc us)) /\
  (forall s, In s (close_from acc us) -> In s acc \/
     exists u pre, In u us /\ incl acc pre /\ incl pre (close_from acc us) /\ s = close_step pre u).
Proof.
  induction us as [|u r IH]; intro acc; simpl.
  - split; [apply incl_refl|]. split; [intros u []|]. intros s Hs. left. exact Hs.
  - destruct (IH (acc ++ [close_step acc u])) as (I1 & I2 & I3).
    assert (Hacc : incl acc (close_from (acc ++ [close_step acc u]) r)).
    { intros x Hx. apply I1. apply in_or_app. left. exact Hx. }
    split; [exact Hacc|]. split.
    + intros u' [<-|Hu'].
      * exists acc. split; [apply incl_refl|]. split; [exact Hacc|].
        apply I1. apply in_or_app. right. left. reflexivity.
      * destruct (I2 u' Hu') as (pre & P1 & P2 & P3). exists pre. split; [|auto].
        intros x Hx. apply P1. apply in_or_app. left. exact Hx.
    + intros s Hs. destruct (I3 s Hs) as [Hin|(u' & pre & Hu' & P1 & P2 & E)].
      * apply in_app_or in Hin. destruct Hin as [Hin|[<-|[]]]; [left; exact Hin|].
        right. exists u, acc. split; [left; reflexivity|]. split; [apply incl_refl|]. split; [exact Hacc | reflexivity].
      * right. exists u', pre. split; [right; exact Hu'|]. split; [|auto].
        intros x Hx. apply P1. apply in_or_app. left. exact Hx.
Qed.

(* ------------------------------------------------------------------ *)
(* Part 2.  Coverage of reads by declared ancestors.                     *)

Section Cover.
  Variable srcs : list path.

  (* r is an output of a declared ancestor of s *)
  Definition cov (G : list step) (s : step) (r : path) : Prop :=
    exists a, In a G /\ In (s_id a) (s_anc s) /\ In r (s_outs a).
  (* r is there once m has run *)
  Definition avail (G : list step) (m : step) (r : path) : Prop := In r (s_outs m) \/ cov G m r.
  Definition step_ok (G : list step) (s : step) : Prop :=
    forall r, In r (s_reads s) -> In r srcs \/ cov G s r.
  (* every read of the statement is a source file, or available after a producer of one of
     the statement's inputs *)
  Definition ucov (G : list step) (u : bunit) : Prop :=
    forall r, In r (u_reads u) -> In r srcs \/
      exists m, In m G /\ (exists q, In q (s_outs m) /\ In q (u_all u)) /\ avail G m r.

  Lemma cov_mono G G' s r : incl G G' -> cov G s r -> cov G' s r.
  Proof. intros H (a & Ha & Hb & Hc). exists a. auto. Qed.
  Lemma avail_mono G G' m r : incl G G' -> avail G m r -> avail G' m r.
  Proof. intros H [A|A]; [left; exact A | right; eapply cov_mono; eassumption]. Qed.
  Lemma step_ok_mono G G' s : incl G G' -> step_ok G s -> step_ok G' s.
  Proof. intros H Hs r Hr. destruct (Hs r Hr) as [A|A]; [left; exact A | right; eapply cov_mono; eassumption]. Qed.
  Lemma ucov_mono G G' u : incl G G' -> ucov G u -> ucov G' u.
  Proof.
    intros H Hu r Hr. destruct (Hu r Hr) as [A|(m & Hm & Hq & Ha)]; [left; exact A|].
    right. exists m. split; [apply H; exact Hm|]. split; [exact Hq | eapply avail_mono; eassumption].
  Qed.

  (* the consumer of an output of m has m, and all of m's ancestors, as ancestors *)
  Lemma consumer G u m r :
    In m G -> (exists q, In q (s_outs m) /\ In q (u_all u)) -> avail G m r -> cov G (close_step G u) r.
  Proof.
    intros Hm (q & Hq1 & Hq2) Ha.
    destruct (close_step_anc_intro G u m Hm (feeds_intro u m q Hq1 Hq2)) as [A B].
    destruct Ha as [Ha|(a & Ha1 & Ha2 & Ha3)].
    - exists m. auto.
    - exists a. split; [exact Ha1|]. split; [apply B; exact Ha2 | exact Ha3].
  Qed.

  Lemma close_step_ok G u : ucov G u -> step_ok G (close_step G u).
  Proof.
    intros Hu r Hr. simpl in Hr. destruct (Hu r Hr) as [A|(m & Hm & Hq & Ha)]; [left; exact A|].
    right. eapply consumer; eassumption.
  Qed.

  (* a batch of statements, each covered by what was there before the batch *)
  Lemma batch_ok G us :
    (forall u, In u us -> ucov G u) ->
    forall s, In s (close_from G us) -> In s G \/ step_ok (close_from G us) s.
  Proof.
    intros Hu s Hs. destruct (close_from_inv us G) as (_ & _ & I3).
    destruct (I3 s Hs) as [A|(u & pre & Hin & P1 & P2 & ->)]; [left; exact A|].
    right. eapply step_ok_mono; [exact P2|]. apply close_step_ok. eapply ucov_mono; [exact P1|]. apply Hu. exact Hin.
  Qed.

  (* the step made for a statement of a batch *)
  Lemma batch_step G us u :
    In u us -> ucov G u ->
    exists pre, incl G pre /\ incl pre (close_from G us) /\ In (close_step pre u) (close_from G us) /\
                step_ok pre (close_step pre u).
  Proof.
    intros Hin Hu. destruct (close_from_inv us G) as (_ & I2 & _).
    destruct (I2 u Hin) as (pre & P1 & P2 & P3). exists pre. repeat split; try assumption.
    apply close_step_ok. eapply ucov_mono; eassumption.
  Qed.

  (* ---------------------------------------------------------------- *)
  (* Part 3.  The table of per-target facts is sound for the graph built so far. *)

  Record entry_ok (G : list step) (ti : tinfo) : Prop := {
    eo_outs : forall o, In o (map go_path (ti_gouts ti)) -> exists m, In m G /\ In o (s_outs m);
    eo_clos : forall r, In r (ti_closure ti) -> In r srcs \/
                exists m, In m G /\ ti_gouts ti <> [] /\ incl (map go_path (ti_gouts ti)) (s_outs m) /\ avail G m r;
    eo_dep : forall f rs, In (f, rs) (ti_dep ti ++ ti_linkrec ti) ->
                exists m, In m G /\ In f (s_outs m) /\ forall o, In o rs -> avail G m o;
    eo_hdr : forall h, In h (ti_genhdrs ti) -> exists m, In m G /\ In h (s_outs m);
    eo_objs : forall o, In o (ti_allobjs ti) -> exists m, In m G /\ In o (s_outs m) }.

  Lemma entry_ok_mono G G' ti : incl G G' -> entry_ok G ti -> entry_ok G' ti.
  Proof.
    intros H [A B C D E]. constructor.
    - intros o Ho. destruct (A o Ho) as (m & Hm & Hom). exists m. auto.
    - intros r Hr. destruct (B r Hr) as [S|(m & Hm & Hne & Hi & Ha)]; [left; exact S|].
      right. exists m. split; [apply H; exact Hm|]. split; [exact Hne|]. split; [exact Hi | eapply avail_mono; eassumption].
    - intros f rs Hfo. destruct (C f rs Hfo) as (m & Hm & Hf & Ha). exists m.
      split; [apply H; exact Hm|]. split; [exact Hf | intros o Ho; eapply avail_mono; [exact H | apply Ha; exact Ho]].
    - intros h Hh. destruct (D h Hh) as (m & Hm & Hhm). exists m. auto.
    - intros o Ho. destruct (E o Ho) as (m & Hm & Hom). exists m. auto.
  Qed.

  Lemma entry_ok_empty G : entry_ok G empty_info.
  Proof. constructor; simpl; intros; contradiction. Qed.

  Definition tbl_ok (G : list step) (tbl : list tinfo) : Prop := forall ti, In ti tbl -> entry_ok G ti.

  Lemma look_ok G tbl t : tbl_ok G tbl -> entry_ok G (look tbl t).
  Proof.
    intro H. unfold look. destruct (nth_in_or_default t tbl empty_info) as [A|A].
    - apply H. exact A.
    - rewrite A. apply entry_ok_empty.
  Qed.

  Lemma outs_of_produced G tbl t o : tbl_ok G tbl -> In o (outs_of tbl t) -> exists m, In m G /\ In o (s_outs m).
  Proof. intros H Ho. apply (eo_outs _ _ (look_ok G tbl t H)). exact Ho. Qed.

  (* a statement that takes all outputs of target t among its inputs reaches t's closure *)
  Lemma closure_ucov G tbl t u r :
    tbl_ok G tbl -> incl (outs_of tbl t) (u_all u) -> In r (closure_of tbl t) ->
    In r srcs \/ exists m, In m G /\ (exists q, In q (s_outs m) /\ In q (u_all u)) /\ avail G m r.
  Proof.
    intros H Hincl Hr. destruct (eo_clos _ _ (look_ok G tbl t H) r Hr) as [S|(m & Hm & Hne & Hi & Ha)]; [left; exact S|].
    right. exists m. split; [exact Hm|]. split; [|exact Ha].
    unfold outs_of in Hincl. destruct (ti_gouts (look tbl t)) as [|o l] eqn:E; [congruence|].
    exists (go_path o). split; [apply Hi; left; reflexivity | apply Hincl; left; reflexivity].
  Qed.
  Lemma closure_reached G tbl t u r :
    tbl_ok G tbl -> incl (outs_of tbl t) (u_all u) -> In r (closure_of tbl t) ->
    In r srcs \/ cov G (close_step G u) r.
  Proof.
    intros H Hincl Hr. destruct (closure_ucov G tbl t u r H Hincl Hr) as [S|(m & Hm & Hq & Ha)]; [left; exact S|].
    right. eapply consumer; eassumption.
  Qed.

  (* ---------------------------------------------------------------- *)
  (* custom targets *)

  Lemma custom_reads_cases tbl c r :
    In r (custom_reads tbl c) ->
    In r (decl_files (DCustom c)) \/
    exists t, In t (custom_refs c) /\ (In r (outs_of tbl t) \/ In r (closure_of tbl t)).
  Proof.
    unfold custom_reads, decl_files, custom_refs. intro H.
    apply in_app_or in H. destruct H as [H|H].
    { apply in_flat_map in H. destruct H as (i & Hi & Hr). destruct i as [p|t]; simpl in Hr.
      - destruct Hr as [E|[]]. subst r. left. apply in_or_app. left. apply in_flat_map. exists (CIFile p). split; [exact Hi | left; reflexivity].
      - right. exists t. split; [|left; exact Hr]. apply in_or_app. left. apply in_flat_map. exists (CITarget t). split; [exact Hi | left; reflexivity]. }
    apply in_app_or in H. destruct H as [H|H].
    { apply in_flat_map in H. destruct H as (a & Ha & Hr). unfold carg_reads in Hr. apply in_app_or in Hr. destruct Hr as [Hr|Hr].
      - left. apply in_or_app. right. apply in_or_app. left. apply in_flat_map. exists a. auto.
      - apply in_flat_map in Hr. destruct Hr as (t & Ht & Hr). right. exists t. split; [|apply in_app_or in Hr; exact Hr].
        apply in_or_app. right. apply in_or_app. left. apply in_flat_map. exists a. auto. }
    apply in_app_or in H. destruct H as [H|H].
    { left. apply in_or_app. right. apply in_or_app. right. apply in_or_app. left. exact H. }
    apply in_flat_map in H. destruct H as (i & Hi & Hr). destruct i as [p|t]; simpl in Hr.
    - destruct Hr as [E|[]]. subst r. left. do 3 (apply in_or_app; right). apply in_flat_map. exists (CIFile p). split; [exact Hi | left; reflexivity].
    - right. exists t. split; [|left; exact Hr]. do 2 (apply in_or_app; right). apply in_flat_map. exists (CITarget t). split; [exact Hi | left; reflexivity].
  Qed.

  (* all outputs of every target a custom target refers to are among its inputs *)
  Lemma custom_refs_inputs tbl c t :
    In t (custom_refs c) -> incl (outs_of tbl t) (u_all (custom_unit tbl c)).
  Proof.
    unfold custom_refs, u_all, custom_unit, custom_ins, custom_imp. simpl. intros H o Ho.
    apply in_app_or in H. destruct H as [H|H].
    { apply in_or_app. left. apply in_flat_map in H. destruct H as (i & Hi & Ht).
      destruct i as [p|t']; simpl in Ht; [contradiction|]. destruct Ht as [->|[]].
      apply in_flat_map. exists (CITarget t). split; [exact Hi | exact Ho]. }
    apply in_or_app. right. apply in_or_app. left.
    apply in_app_or in H. destruct H as [H|H].
    - apply in_or_app. left. apply in_flat_map. exists t. split; [exact H | exact Ho].
    - apply in_or_app. right. apply in_or_app. right. apply in_flat_map. exists t. split; [exact H | exact Ho].
  Qed.

  Lemma custom_ucov G tbl c :
    tbl_ok G tbl -> incl (decl_files (DCustom c)) srcs -> ucov G (custom_unit tbl c).
  Proof.
    intros Ht Hf r Hr. simpl in Hr. destruct (custom_reads_cases tbl c r Hr) as [A|(t & Hin & [Hro|Hrc])].
    - left. apply Hf. exact A.
    - right. destruct (outs_of_produced G tbl t r Ht Hro) as (m & Hm & Hrm). exists m.
      split; [exact Hm|]. split; [|left; exact Hrm]. exists r. split; [exact Hrm|].
      apply (custom_refs_inputs tbl c t Hin). exact Hro.
    - apply (closure_ucov G tbl t _ r Ht (custom_refs_inputs tbl c t Hin) Hrc).
  Qed.

  Lemma custom_entry G tbl c :
    tbl_ok G tbl -> incl (decl_files (DCustom c)) srcs -> decl_ok (DCustom c) = true ->
    entry_ok (G ++ [close_step G (custom_unit tbl c)]) (custom_info tbl c).
  Proof.
    intros Ht Hf Hok. set (s := close_step G (custom_unit tbl c)).
    assert (HinG : incl G (G ++ [s])) by (intros x Hx; apply in_or_app; left; exact Hx).
    assert (Hs : In s (G ++ [s])) by (apply in_or_app; right; left; reflexivity).
    assert (Hne : ct_outs c <> []) by (simpl in Hok; destruct (ct_outs c); [discriminate | discriminate]).
    constructor; simpl.
    - intros o Ho. exists s. split; [exact Hs | exact Ho].
    - intros r Hr. unfold custom_closure in Hr. apply in_app_or in Hr.
      assert (Hcov : In r srcs \/ cov G s r).
      { destruct Hr as [Hr|Hr].
        - apply (close_step_ok G _ (custom_ucov G tbl c Ht Hf)). exact Hr.
        - apply in_flat_map in Hr. destruct Hr as (t & Hin & Hr).
          apply (closure_reached G tbl t _ r Ht); [apply custom_refs_inputs; exact Hin | exact Hr]. }
      destruct Hcov as [A|A]; [left; exact A|]. right. exists s.
      split; [exact Hs|]. split; [exact Hne|]. split; [apply incl_refl|]. right. eapply cov_mono; eassumption.
    - intros f o [].
    - intros h [].
    - intros o [].
  Qed.

  (* ---------------------------------------------------------------- *)
  (* build targets *)

  Section BuildTarget.
    Variable G : list step.
    Variable tbl : list tinfo.
    Variable b : btarget.
    Hypothesis Ht : tbl_ok G tbl.
    Hypothesis Hf : incl (decl_files (DBuild b)) srcs.

    Let U1 := flat_map (genlist_units tbl) (genlists b).
    Let G1 := close_from G U1.
    Let U2 := map (compile_unit tbl b) (cunits tbl b).
    Let G2 := close_from G1 U2.
    Let sl := close_step G2 (link_unit tbl b).
    Let G3 := G2 ++ [sl].
    Let G4 := close_from G3 (shsym_units b).

    Lemma genlists_in g : In g (genlists b) <-> In (BGen g) (eff_srcs b).
    Proof.
      unfold genlists. rewrite in_flat_map. split.
      - intros (s & Hs & Hg). destruct s; simpl in Hg; try contradiction. destruct Hg as [->|[]]. exact Hs.
      - intro H. exists (BGen g). split; [exact H | left; reflexivity].
    Qed.

    Lemma genlist_files_srcs g : In g (genlists b) -> incl (genlist_files g) srcs.
    Proof.
      intros Hg x Hx. apply Hf. simpl. apply in_flat_map. exists (BGen g). split; [apply genlists_in; exact Hg | exact Hx].
    Qed.

    Lemma genitem_reads_cases g it r :
      In r (genitem_reads tbl g it) -> In it (gl_items g) ->
      In r (genlist_files g) \/ exists t, In t (carg_targets (gl_exe g) ++ gl_depends g) /\
                                          (In r (outs_of tbl t) \/ In r (closure_of tbl t)).
    Proof.
      unfold genitem_reads, genlist_files, carg_reads. intros [<-|H] Hit.
      { left. apply in_or_app. right. apply in_map. exact Hit. }
      apply in_app_or in H. destruct H as [H|H].
      - apply in_app_or in H. destruct H as [H|H]; [left; apply in_or_app; left; exact H|].
        right. apply in_flat_map in H. destruct H as (t & Hin & Hr). exists t.
        split; [apply in_or_app; left; exact Hin | apply in_app_or in Hr; exact Hr].
      - right. apply in_flat_map in H. destruct H as (t & Hin & Hr). exists t.
        split; [apply in_or_app; right; exact Hin | left; exact Hr].
    Qed.

    Lemma genlist_refs_inputs g it t :
      In t (carg_targets (gl_exe g) ++ gl_depends g) -> incl (outs_of tbl t) (u_all (genitem_unit tbl g it)).
    Proof.
      intros H o Ho. unfold u_all, genitem_unit, genlist_imp. simpl. right.
      apply in_or_app. left. apply in_or_app. right.
      apply in_app_or in H. destruct H as [H|H].
      - apply in_or_app. right. apply in_flat_map. exists t. auto.
      - apply in_or_app. left. apply in_flat_map. exists t. auto.
    Qed.

    Lemma genitem_ucov G' g it :
      incl G G' -> In g (genlists b) -> In it (gl_items g) -> ucov G' (genitem_unit tbl g it).
    Proof.
      intros HG Hg Hit. eapply ucov_mono; [exact HG|]. intros r Hr. simpl in Hr.
      destruct (genitem_reads_cases g it r Hr Hit) as [A|(t & Hin & [Hro|Hrc])].
      - left. apply (genlist_files_srcs g Hg). exact A.
      - right. destruct (outs_of_produced G tbl t r Ht Hro) as (m & Hm & Hrm). exists m.
        split; [exact Hm|]. split; [|left; exact Hrm]. exists r. split; [exact Hrm|].
        apply (genlist_refs_inputs g it t Hin). exact Hro.
      - apply (closure_ucov G tbl t _ r Ht (genlist_refs_inputs g it t Hin) Hrc).
    Qed.

    Lemma U1_ucov u : In u U1 -> ucov G u.
    Proof.
      unfold U1. intro H. apply in_flat_map in H. destruct H as (g & Hg & Hu).
      unfold genlist_units in Hu. apply in_map_iff in Hu. destruct Hu as (it & <- & Hit).
      apply genitem_ucov; [apply incl_refl | exact Hg | exact Hit].
    Qed.

    Lemma G_G1 : incl G G1.
    Proof. apply (close_from_inv U1 G). Qed.
    Lemma G1_G2 : incl G1 G2.
    Proof. apply (close_from_inv U2 G1). Qed.
    Lemma G2_G3 : incl G2 G3.
    Proof. intros x Hx. apply in_or_app. left. exact Hx. Qed.
    Lemma G3_G4 : incl G3 G4.
    Proof. apply (close_from_inv (shsym_units b) G3). Qed.

    (* F1: the rule of a generator item is in G1 and reaches the item's closure *)
    Lemma genitem_made g it :
      In g (genlists b) -> In it (gl_items g) ->
      exists s, In s G1 /\ s_outs s = map go_path (gi_outs it) /\
                forall r, In r (genitem_closure tbl g it) -> In r srcs \/ avail G1 s r.
    Proof.
      intros Hg Hit.
      assert (Hu : In (genitem_unit tbl g it) U1).
      { unfold U1. apply in_flat_map. exists g. split; [exact Hg|]. unfold genlist_units. apply in_map. exact Hit. }
      destruct (batch_step G U1 _ Hu (U1_ucov _ Hu)) as (pre & P1 & P2 & P3 & P4).
      exists (close_step pre (genitem_unit tbl g it)). split; [exact P3|]. split; [reflexivity|].
      intros r Hr. unfold genitem_closure in Hr. apply in_app_or in Hr. destruct Hr as [Hr|Hr].
      - destruct (P4 r Hr) as [A|A]; [left; exact A|]. right. right. eapply cov_mono; eassumption.
      - apply in_flat_map in Hr. destruct Hr as (t & Hin & Hr).
        assert (Htp : tbl_ok pre tbl) by (intros ti Hti; eapply entry_ok_mono; [exact P1 | apply Ht; exact Hti]).
        destruct (closure_reached pre tbl t (genitem_unit tbl g it) r Htp (genlist_refs_inputs g it t Hin) Hr) as [A|A];
          [left; exact A|]. right. right. eapply cov_mono; eassumption.
    Qed.

    (* the outputs of the target's generated sources exist in G1 *)
    Lemma bsrc_gouts_produced s o :
      In s (eff_srcs b) -> In o (bsrc_gouts tbl s) -> exists m, In m G1 /\ In (go_path o) (s_outs m).
    Proof.
      intros Hs Ho. destruct s as [src obj|t objs|g]; simpl in Ho; [contradiction| |].
      - destruct (outs_of_produced G tbl t (go_path o) Ht) as (m & Hm & Hom); [unfold outs_of; apply in_map; exact Ho|].
        exists m. split; [apply G_G1; exact Hm | exact Hom].
      - apply in_flat_map in Ho. destruct Ho as (it & Hit & Ho).
        destruct (genitem_made g it (proj2 (genlists_in g) Hs) Hit) as (s & Hs1 & Hs2 & _).
        exists s. split; [exact Hs1|]. rewrite Hs2. apply in_map. exact Ho.
    Qed.

    Lemma generated_headers_produced G' h :
      incl G1 G' -> In h (generated_headers tbl b) -> exists m, In m G' /\ In h (s_outs m).
    Proof.
      intros HG H. unfold generated_headers in H. apply in_app_or in H. destruct H as [H|H].
      - unfold own_genlist_headers in H. apply in_flat_map in H. destruct H as (g & Hg & H).
        apply in_flat_map in H. destruct H as (it & Hit & H). apply in_map_iff in H. destruct H as (o & <- & Ho).
        apply filter_In in Ho. destruct Ho as [Ho _].
        destruct (genitem_made g it Hg Hit) as (s & Hs1 & Hs2 & _).
        exists s. split; [apply HG; exact Hs1|]. rewrite Hs2. apply in_map. exact Ho.
      - apply in_flat_map in H. destruct H as (t & _ & H).
        destruct (eo_hdr _ _ (look_ok G tbl t Ht) h H) as (m & Hm & Hhm).
        exists m. split; [apply HG; apply G_G1; exact Hm | exact Hhm].
    Qed.

    Lemma header_deps_produced h : In h (header_deps tbl b) -> exists m, In m G1 /\ In h (s_outs m).
    Proof.
      unfold header_deps. intro H. apply in_app_or in H. destruct H as [H|H].
      - apply generated_headers_produced; [apply incl_refl | exact H].
      - apply in_map_iff in H. destruct H as (o & <- & Ho). apply filter_In in Ho. destruct Ho as [Ho _].
        apply in_flat_map in Ho. destruct Ho as (s & Hs & Ho). eapply bsrc_gouts_produced; eassumption.
    Qed.

    Lemma dedup_src_in seen l c : In c (dedup_src seen l) -> In c l.
    Proof.
      revert seen. induction l as [|x r IH]; intros seen H; simpl in *; [contradiction|].
      destruct (memN (cu_src x) seen); [right; eapply IH; exact H|].
      destruct H as [->|H]; [left; reflexivity | right; eapply IH; exact H].
    Qed.

    Lemma in_combine_fst {A B} (l : list A) (l' : list B) x : In x (combine l l') -> In (fst x) l.
    Proof. destruct x as [a c]. intro H. eapply in_combine_l. exact H. Qed.

    (* the three origins of a compilation *)
    Lemma cunits_cases c :
      In c (cunits tbl b) ->
      (In (cu_src c) srcs /\ cu_clos c = []) \/
      (exists t objs, In (BCustom t objs) (eff_srcs b) /\ In (cu_src c) (outs_of tbl t) /\ cu_clos c = closure_of tbl t) \/
      (exists g it, In g (genlists b) /\ In it (gl_items g) /\
                    In (cu_src c) (map go_path (gi_outs it)) /\ cu_clos c = genitem_closure tbl g it).
    Proof.
      unfold cunits. intro H. apply in_app_or in H. destruct H as [H|H]; apply dedup_src_in in H;
        apply in_flat_map in H; destruct H as (s & Hs & Hc).
      - destruct s as [src obj|t objs|g]; simpl in Hc; [contradiction| |].
        + right. left. apply in_map_iff in Hc. destruct Hc as (so & <- & Hso). exists t, objs.
          split; [exact Hs|]. split; [|reflexivity]. simpl. apply in_combine_fst in Hso.
          unfold src_paths in Hso. apply in_map_iff in Hso. destruct Hso as (o & <- & Ho). apply filter_In in Ho.
          unfold outs_of. apply in_map. apply Ho.
        + right. right. apply in_flat_map in Hc. destruct Hc as (it & Hit & Hc).
          apply in_map_iff in Hc. destruct Hc as (so & <- & Hso). exists g, it.
          split; [apply genlists_in; exact Hs|]. split; [exact Hit|]. split; [|reflexivity]. simpl.
          apply in_combine_fst in Hso. unfold src_paths in Hso. apply in_map_iff in Hso.
          destruct Hso as (o & <- & Ho). apply filter_In in Ho. apply in_map. apply Ho.
      - destruct s as [src obj|t objs|g]; simpl in Hc; try contradiction. destruct Hc as [<-|[]].
        left. simpl. split; [|reflexivity]. apply Hf. simpl. apply in_flat_map. exists (BFile src obj).
        split; [exact Hs | left; reflexivity].
    Qed.

    Lemma compile_ucov c : In c (cunits tbl b) -> ucov G1 (compile_unit tbl b c).
    Proof.
      intros Hc r Hr. simpl in Hr. unfold compile_reads in Hr.
      assert (Hin_src : In (cu_src c) (u_all (compile_unit tbl b c))) by (unfold u_all; simpl; left; reflexivity).
      destruct Hr as [<-|Hr].
      { (* the source itself *)
        destruct (cunits_cases c Hc) as [[A _]|[(t & objs & _ & Ho & _)|(g & it & Hg & Hit & Ho & _)]].
        - left. exact A.
        - right. destruct (outs_of_produced G tbl t _ Ht Ho) as (m & Hm & Hom). exists m.
          split; [apply G_G1; exact Hm|]. split; [exists (cu_src c); auto | left; exact Hom].
        - right. destruct (genitem_made g it Hg Hit) as (s & Hs1 & Hs2 & _). exists s.
          split; [exact Hs1|]. rewrite <- Hs2 in Ho. split; [exists (cu_src c); auto | left; exact Ho]. }
      apply in_app_or in Hr. destruct Hr as [Hr|Hr].
      { (* a header dependency: produced in G1, and an order-only input *)
        right. destruct (header_deps_produced r Hr) as (m & Hm & Hrm). exists m.
        split; [exact Hm|]. split; [|left; exact Hrm]. exists r. split; [exact Hrm|].
        unfold u_all. simpl. right. exact Hr. }
      (* what the generated source may refer to *)
      destruct (cunits_cases c Hc) as [[_ E]|[(t & objs & _ & Ho & E)|(g & it & Hg & Hit & Ho & E)]]; rewrite E in Hr.
      - contradiction.
      - destruct (eo_clos _ _ (look_ok G tbl t Ht) r Hr) as [S|(m & Hm & Hne & Hi & Ha)]; [left; exact S|].
        right. exists m. split; [apply G_G1; exact Hm|]. split.
        + exists (cu_src c). split; [apply Hi; exact Ho | exact Hin_src].
        + eapply avail_mono; [apply G_G1 | exact Ha].
      - destruct (genitem_made g it Hg Hit) as (s & Hs1 & Hs2 & Hs3).
        destruct (Hs3 r Hr) as [S|Ha]; [left; exact S|]. right. exists s.
        split; [exact Hs1|]. split; [|exact Ha]. exists (cu_src c). rewrite Hs2. auto.
    Qed.

    Lemma U2_ucov u : In u U2 -> ucov G1 u.
    Proof.
      unfold U2. intro H. apply in_map_iff in H. destruct H as (c & <- & Hc). apply compile_ucov. exact Hc.
    Qed.

    (* F2: every object exists in G2 *)
    Lemma object_made c : In c (cunits tbl b) -> exists s, In s G2 /\ In (cu_obj c) (s_outs s).
    Proof.
      intro Hc. assert (Hu : In (compile_unit tbl b c) U2) by (unfold U2; apply in_map; exact Hc).
      destruct (batch_step G1 U2 _ Hu (U2_ucov _ Hu)) as (pre & _ & _ & P3 & _).
      exists (close_step pre (compile_unit tbl b c)). split; [exact P3 | left; reflexivity].
    Qed.

    Lemma link_closure_ok ts f rs :
      In (f, rs) (link_closure tbl ts) -> exists m, In m G /\ In f (s_outs m) /\ forall o, In o rs -> avail G m o.
    Proof.
      unfold link_closure. intro H. apply in_flat_map in H. destruct H as (t & _ & H).
      apply (eo_dep _ _ (look_ok G tbl t Ht)). exact H.
    Qed.

    Lemma G_G2 : incl G G2.
    Proof. intros x Hx. apply G1_G2. apply G_G1. exact Hx. Qed.

    (* what the link may open from the libraries: available after a producer of an implicit input *)
    Lemma link_uses_ucov r :
      In r (link_uses tbl b) ->
      exists m, In m G2 /\ (exists q, In q (s_outs m) /\ In q (u_all (link_unit tbl b))) /\ avail G2 m r.
    Proof.
      unfold link_uses. destruct (is_static b) eqn:Es; [intros []|]. intro Hr.
      apply in_flat_map in Hr. destruct Hr as ([f rs] & Hfo & Hr). simpl in Hr.
      destruct (link_closure_ok _ f rs Hfo) as (m & Hm & Hfm & Ha). exists m.
      split; [apply G_G2; exact Hm|]. split.
      - exists f. split; [exact Hfm|]. unfold u_all. simpl. apply in_or_app. right. apply in_or_app. left.
        unfold link_imp. rewrite Es. apply (in_map fst _ (f, rs)). exact Hfo.
      - eapply avail_mono; [apply G_G2 | apply Ha; exact Hr].
    Qed.

    (* every object handed to the link or archive step exists in G2: compiled for this target,
       or extracted from an earlier target *)
    Lemma link_objs_produced o : In o (link_objs tbl b) -> exists m, In m G2 /\ In o (s_outs m).
    Proof.
      unfold link_objs. intro H. apply in_app_or in H. destruct H as [H|H].
      - apply in_map_iff in H. destruct H as (c & <- & Hc). apply object_made. exact Hc.
      - assert (Hold : exists t, In o (allobjs_of tbl t)).
        { unfold bundled_objs in H. apply in_app_or in H. destruct H as [H|H].
          - destruct (is_static b); [|contradiction]. apply in_flat_map in H. destruct H as (t & _ & H). exists t. exact H.
          - apply in_flat_map in H. destruct H as (t & _ & H). exists t. exact H. }
        destruct Hold as (t & Hobj). destruct (eo_objs _ _ (look_ok G tbl t Ht) o Hobj) as (m & Hm & Hom).
        exists m. split; [apply G_G2; exact Hm | exact Hom].
    Qed.

    Lemma object_ucov o :
      In o (link_objs tbl b) ->
      exists m, In m G2 /\ (exists q, In q (s_outs m) /\ In q (u_all (link_unit tbl b))) /\ avail G2 m o.
    Proof.
      intro Ho. destruct (link_objs_produced o Ho) as (s & Hs & Hos). exists s. split; [exact Hs|]. split; [|left; exact Hos].
      exists o. split; [exact Hos|]. unfold u_all. simpl. apply in_or_app. left. exact Ho.
    Qed.

    Lemma link_ucov : ucov G2 (link_unit tbl b).
    Proof.
      intros r Hr. simpl in Hr. unfold link_reads in Hr. apply in_app_or in Hr. destruct Hr as [Hr|Hr].
      - right. apply object_ucov. exact Hr.
      - right. apply link_uses_ucov. exact Hr.
    Qed.

    Lemma sl_in_G3 : In sl G3.
    Proof. unfold G3. apply in_or_app. right. left. reflexivity. Qed.

    (* after the link step: the target file, its objects, and what the link could open *)
    Lemma after_link r :
      r = bt_out b \/ In r (link_objs tbl b) \/ In r (link_uses tbl b) -> avail G3 sl r.
    Proof.
      intros [->|[H|H]].
      - left. left. reflexivity.
      - right. destruct (object_ucov r H) as (m & Hm & Hq & Ha).
        eapply cov_mono; [apply G2_G3|]. eapply consumer; eassumption.
      - right. destruct (link_uses_ucov r H) as (m & Hm & Hq & Ha).
        eapply cov_mono; [apply G2_G3|]. eapply consumer; eassumption.
    Qed.

    Lemma shsym_ucov u : In u (shsym_units b) -> ucov G3 u.
    Proof.
      unfold shsym_units. destruct (is_shared b); [|intros []]. intros [<-|[]] r Hr. simpl in Hr.
      destruct Hr as [<-|[]]. right. exists sl. split; [apply sl_in_G3|].
      split; [|left; left; reflexivity]. exists (bt_out b). split; [left; reflexivity|].
      unfold u_all. simpl. left. reflexivity.
    Qed.

    (* all steps added for the target are covered *)
    Lemma build_steps_ok s : In s G4 -> In s G \/ step_ok G4 s.
    Proof.
      intro Hs.
      destruct (batch_ok G3 (shsym_units b) shsym_ucov s Hs) as [Hs3|A]; [|right; exact A].
      unfold G3 in Hs3. apply in_app_or in Hs3. destruct Hs3 as [Hs2|[<-|[]]].
      - destruct (batch_ok G1 U2 U2_ucov s Hs2) as [Hs1|A].
        + destruct (batch_ok G U1 U1_ucov s Hs1) as [Hs0|A]; [left; exact Hs0|].
          right. eapply step_ok_mono; [|exact A]. intros x Hx. apply G3_G4. apply G2_G3. apply G1_G2. exact Hx.
        + right. eapply step_ok_mono; [|exact A]. intros x Hx. apply G3_G4. apply G2_G3. exact Hx.
      - right. eapply step_ok_mono; [|apply close_step_ok; exact link_ucov].
        intros x Hx. apply G3_G4. apply G2_G3. exact Hx.
    Qed.

    Lemma G_G4 : incl G G4.
    Proof. intros x Hx. apply G3_G4. apply G2_G3. apply G1_G2. apply G_G1. exact Hx. Qed.

    (* the dependency file of the target: the target file itself, or for a shared library its
       symbol file; once its producer has run, everything that is available after the link is *)
    Lemma dep_file_ok :
      exists m, In m G4 /\ In (if is_shared b then bt_sym b else bt_out b) (s_outs m) /\
                forall r, avail G3 sl r -> avail G4 m r.
    Proof.
      destruct (is_shared b) eqn:Es.
      - assert (Hu : In (mkUnit [bt_sym b] [bt_out b] [] [] [bt_out b]) (shsym_units b)).
        { unfold shsym_units. rewrite Es. left. reflexivity. }
        destruct (batch_step G3 (shsym_units b) _ Hu (shsym_ucov _ Hu)) as (pre & P1 & P2 & P3 & P4).
        exists (close_step pre (mkUnit [bt_sym b] [bt_out b] [] [] [bt_out b])).
        split; [exact P3|]. split; [left; reflexivity|]. intros r Hr. right.
        eapply cov_mono; [exact P2|]. apply (consumer pre _ sl r).
        + apply P1. apply sl_in_G3.
        + exists (bt_out b). split; [left; reflexivity | unfold u_all; simpl; left; reflexivity].
        + eapply avail_mono; [exact P1 | exact Hr].
      - exists sl. split; [apply G3_G4; apply sl_in_G3|]. split; [left; reflexivity|].
        intros r Hr. eapply avail_mono; [apply G3_G4 | exact Hr].
    Qed.

    Lemma build_entry : entry_ok G4 (build_info tbl b).
    Proof.
      constructor; simpl.
      - intros o [<-|[]]. exists sl. split; [apply G3_G4; apply sl_in_G3 | left; reflexivity].
      - intros r Hr. right. exists sl. split; [apply G3_G4; apply sl_in_G3|]. split; [discriminate|].
        split; [apply incl_refl|]. eapply avail_mono; [apply G3_G4|]. apply after_link. right. right. exact Hr.
      - intros f rs [E|H].
        + inversion E; subst. destruct dep_file_ok as (m & Hm & Hfm & Ha). exists m.
          split; [exact Hm|]. split; [exact Hfm|]. intros o Ho. apply Ha. apply after_link.
          destruct Ho as [<-|Ho]; [left; reflexivity|]. right.
          destruct (is_static b); [left; exact Ho | right; exact Ho].
        + destruct (is_static b); [|contradiction]. unfold dependencies_recurse in H.
          assert (Hold : exists m, In m G /\ In f (s_outs m) /\ forall o, In o rs -> avail G m o).
          { apply in_app_or in H. destruct H as [H|H].
            - eapply link_closure_ok. exact H.
            - apply in_flat_map in H. destruct H as (t & _ & H).
              apply (eo_dep _ _ (look_ok G tbl t Ht)). apply in_or_app. right. exact H. }
          destruct Hold as (m & Hm & Hfm & Ha). exists m. split; [apply G_G4; exact Hm|].
          split; [exact Hfm | intros o Ho; eapply avail_mono; [apply G_G4 | apply Ha; exact Ho]].
      - intros h Hh. destruct (is_lib b); [|contradiction].
        apply generated_headers_produced; [|exact Hh]. intros x Hx. apply G3_G4. apply G2_G3. apply G1_G2. exact Hx.
      - intros o Ho. destruct (link_objs_produced o Ho) as (m & Hm & Hom). exists m.
        split; [apply G3_G4; apply G2_G3; exact Hm | exact Hom].
    Qed.

    Lemma build_units_close : close_from G (build_units tbl b) = G4.
    Proof.
      unfold build_units. rewrite !close_from_app. reflexivity.
    Qed.
  End BuildTarget.

  (* ---------------------------------------------------------------- *)
  (* one declaration, then the whole walk *)

  Lemma decl_step G tbl d :
    tbl_ok G tbl -> incl (decl_files d) srcs -> decl_ok d = true ->
    let G' := close_from G (decl_units tbl d) in
    incl G G' /\ (forall s, In s G' -> In s G \/ step_ok G' s) /\ entry_ok G' (decl_info tbl d).
  Proof.
    intros Ht Hf Hok. destruct d as [c|b]; simpl.
    - split; [intros x Hx; apply in_or_app; left; exact Hx|]. split.
      + intros s Hs. apply in_app_or in Hs. destruct Hs as [Hs|[<-|[]]]; [left; exact Hs|]. right.
        eapply step_ok_mono; [|apply close_step_ok; apply custom_ucov; eassumption].
        intros x Hx. apply in_or_app. left. exact Hx.
      + apply custom_entry; assumption.
    - rewrite (build_units_close G tbl b). split; [apply G_G4|]. split.
      + intros s Hs. eapply build_steps_ok; eassumption.
      + apply build_entry; assumption.
  Qed.

  Lemma walk_ok ds : forall tbl G,
    tbl_ok G tbl -> (forall s, In s G -> step_ok G s) ->
    forallb decl_ok ds = true -> incl (flat_map decl_files ds) srcs ->
    forall s, In s (close_from G (walk tbl ds)) -> step_ok (close_from G (walk tbl ds)) s.
  Proof.
    induction ds as [|d r IH]; intros tbl G Ht HG Hok Hf; simpl.
    - exact HG.
    - simpl in Hok. apply andb_true_iff in Hok. destruct Hok as [Hd Hr].
      simpl in Hf. rewrite close_from_app.
      destruct (decl_step G tbl d Ht (fun x Hx => Hf x (in_or_app _ _ x (or_introl Hx))) Hd) as (I1 & I2 & I3).
      apply IH.
      + intros ti Hti. apply in_app_or in Hti. destruct Hti as [Hti|[<-|[]]].
        * eapply entry_ok_mono; [exact I1 | apply Ht; exact Hti].
        * exact I3.
      + intros s Hs. destruct (I2 s Hs) as [A|A]; [|exact A]. eapply step_ok_mono; [exact I1 | apply HG; exact A].
      + exact Hr.
      + intros x Hx. apply Hf. apply in_or_app. right. exact Hx.
  Qed.
End Cover.

(* ------------------------------------------------------------------ *)
(* Part 4.  The theorems.                                                *)

Theorem graph_of_WF : forall p, valid_project p = true -> WF (graph_of p) (sources p).
Proof.
  intros p Hv. unfold valid_project in Hv. apply andb_true_iff in Hv. destruct Hv as [Hv Hsrc].
  apply andb_true_iff in Hv. destruct Hv as [Hok Hnd].
  assert (HB : built (graph_of p)) by (apply built_close_from; constructor).
  destruct (built_ids _ HB) as (Hid & Hanc & Hids).
  assert (Houts : all_outs (graph_of p) = produced p).
  { unfold graph_of, produced. rewrite close_from_outs. reflexivity. }
  constructor.
  - exact Hids.
  - rewrite Houts. apply nodupb_NoDup. exact Hnd.
  - intros x Hx. rewrite Houts. rewrite forallb_forall in Hsrc. specialize (Hsrc x Hx).
    apply negb_true_iff, memN_false in Hsrc. exact Hsrc.
  - intros s Hs Hself. specialize (Hanc s (s_id s) Hs Hself). lia.
  - intros s i Hs Hi. apply (built_closed _ HB s i Hs Hi).
  - intros s r Hs Hr.
    assert (Hok' : step_ok (sources p) (graph_of p) s).
    { unfold graph_of, units_of. apply (walk_ok (sources p) p [] []).
      - intros ti [].
      - intros x [].
      - exact Hok.
      - apply incl_refl.
      - exact Hs. }
    destruct (Hok' r Hr) as [A|(a & Ha & Hb & Hc)]; [left; exact A|]. right. exists a. auto.
Qed.

(* the generated graph passes the verified completeness checker *)
Theorem graph_of_well_formed : forall p, valid_project p = true -> well_formed (graph_of p) (sources p) = true.
Proof. intros p Hv. apply well_formed_complete. apply graph_of_WF. exact Hv. Qed.

(* ... hence any two schedules consistent with the edges that meson declares build the same
   thing, and in every such schedule every step finds every file it reads *)
Corollary generated_graph_schedule_independent :
  forall p, valid_project p = true ->
  forall (fn : sid -> list (option content) -> list content),
  (forall s l, In s (graph_of p) -> length (fn (s_id s) l) = length (s_outs s)) ->
  forall fs0 sigma tau,
  Permutation sigma (graph_of p) -> topological sigma = true ->
  Permutation tau (graph_of p) -> topological tau = true ->
  forall x, exec fn sigma fs0 x = exec fn tau fs0 x.
Proof.
  intros p Hv fn Hlen fs0 sigma tau. apply (schedule_independence fn (graph_of p) (sources p)); [|exact Hlen].
  apply graph_of_WF. exact Hv.
Qed.

Corollary generated_graph_every_schedule_succeeds :
  forall p, valid_project p = true ->
  forall (fn : sid -> list (option content) -> list content),
  (forall s l, In s (graph_of p) -> length (fn (s_id s) l) = length (s_outs s)) ->
  forall fs0, (forall x, In x (sources p) -> fs0 x <> None) ->
  forall order, Permutation order (graph_of p) -> topological order = true ->
  all_succeed fn order fs0.
Proof.
  intros p Hv fn Hlen fs0 Hsrc order. apply (every_schedule_succeeds fn (graph_of p) (sources p)); try assumption.
  apply graph_of_WF. exact Hv.
Qed.

(* ------------------------------------------------------------------ *)
(* Part 5.  The hypothesis is satisfiable, and the read assumption cannot be widened to the
   generated headers of linked libraries.                                *)

(* hdr = custom_target(output gen.h, command [prog]); lib = static_library('l', 'lib.c', hdr);
   exe = executable('e', 'main.c', link_with : lib).  Paths: 1 prog, 2 lib.c, 3 main.c;
   10 gen.h, 11 lib.c.o, 12 libl.a, 13 main.c.o, 14 e (15, 16: unused symbol-file names). *)
Definition boundary_project : project :=
  [ DCustom (mkCT [mkGout 10 KHeader] [] [AProg (Some 1)] [] []);
    DBuild (mkBT StaticLib 12 15 [BFile 2 11; BCustom 0%nat []] [] [] [] []);
    DBuild (mkBT Exe 14 16 [BFile 3 13] [1%nat] [] [] []) ].

Example boundary_project_valid : valid_project boundary_project = true /\ in_fragment boundary_project = true.
Proof. vm_compute. split; reflexivity. Qed.

Definition add_read (g : list step) (i : sid) (r : path) : list step :=
  map (fun s => if N.eqb (s_id s) i then mkStep (s_id s) (r :: s_reads s) (s_outs s) (s_anc s) else s) g.

(* Step 3 is the compilation of main.c for e.  Were it to open gen.h — a generated header that
   is among the sources of the library e links with, but is not declared for e — the graph
   would not be complete: link_with orders the LINK of e after the library, not e's
   compilations after the library's generated headers (documented: docs/markdown/FAQ.md, "How
   do I tell Meson that my sources use generated headers?": link_with "adds a link-time
   dependency ... the sources of the targets have no compile-time dependencies"). *)
Theorem link_with_is_link_time_only :
  In 3 (map s_id (graph_of boundary_project)) /\
  well_formed (graph_of boundary_project) (sources boundary_project) = true /\
  well_formed (add_read (graph_of boundary_project) 3 10) (sources boundary_project) = false.
Proof. vm_compute. repeat split; try reflexivity. right. right. right. left. reflexivity. Qed.
