(* Extraction of the Graph (C04) model.  Only the ExtrOcamlBasic directives are used. *)
From Coq Require Extraction.
From Coq Require Import ExtrOcamlBasic.
From MV Require Import Graph.Entry.
Extraction "../extract/C04/model.ml" Graph.Entry.run.
