From Coq Require Extraction.
From Coq Require Import ExtrOcamlBasic.
From MV Require Import Graph.SchedEntry.
Extraction "../extract/C05/model.ml" Graph.SchedEntry.run.
