(* Graph/Sched.v — build steps, schedules and the dependency-completeness checker (C05).
   A build graph is a list of steps; each step has an identifier, the paths it reads,
   the paths it writes and the identifiers of its declared (transitive) ancestors — the
   steps that the manifest's explicit, implicit and order-only edges order before it.
   What a step computes is a function of the CONTENT of the paths it reads (the step model
   that the harness validates by hermetic replay).  Definitions only. *)
From Coq Require Import List NArith Bool.
Import ListNotations.
Open Scope N_scope.

Definition path := N.
Definition content := N.
Definition sid := N.

Record step := mkStep { s_id : sid; s_reads : list path; s_outs : list path; s_anc : list sid }.

Definition fs := path -> option content.

Fixpoint assoc (p : path) (l : list (path * content)) : option content :=
  match l with
  | [] => None
  | (q, c) :: r => if N.eqb p q then Some c else assoc p r
  end.

Section Exec.
  (* what each step computes from the contents of its reads *)
  Variable fn : sid -> list (option content) -> list content.

  Definition results (s : step) (st : fs) : list (path * content) :=
    combine (s_outs s) (fn (s_id s) (map st (s_reads s))).

  Definition run (s : step) (st : fs) : fs :=
    fun p => match assoc p (results s st) with Some c => Some c | None => st p end.

  Fixpoint exec (order : list step) (st : fs) : fs :=
    match order with
    | [] => st
    | s :: r => exec r (run s st)
    end.

  (* the step finds every file it reads *)
  Definition reads_present (s : step) (st : fs) : Prop :=
    forall p, In p (s_reads s) -> st p <> None.

  Fixpoint all_succeed (order : list step) (st : fs) : Prop :=
    match order with
    | [] => True
    | s :: r => reads_present s st /\ all_succeed r (run s st)
    end.
End Exec.

(* ------------------------------------------------------------------ *)
(* Boolean checkers (extracted; run by the harness on observed data).    *)

Definition memN (x : N) (l : list N) : bool := existsb (N.eqb x) l.

Definition find_step (g : list step) (i : sid) : option step :=
  find (fun s => N.eqb (s_id s) i) g.

(* outputs of the declared ancestors of s *)
Definition anc_outs (g : list step) (s : step) : list path :=
  flat_map (fun i => match find_step g i with Some m => s_outs m | None => [] end) (s_anc s).

(* every read is a source or the output of a declared ancestor *)
Definition step_complete (g : list step) (sources : list path) (s : step) : bool :=
  forallb (fun p => memN p sources || memN p (anc_outs g s)) (s_reads s).
Definition complete (g : list step) (sources : list path) : bool :=
  forallb (step_complete g sources) g.

Fixpoint nodupb (l : list N) : bool :=
  match l with
  | [] => true
  | x :: r => negb (memN x r) && nodupb r
  end.

(* every path has at most one producer, no source is produced, identifiers are unique *)
Definition all_outs (g : list step) : list path := flat_map s_outs g.
Definition unique_producers (g : list step) (sources : list path) : bool :=
  nodupb (all_outs g) && forallb (fun p => negb (memN p (all_outs g))) sources &&
  nodupb (map s_id g).

(* declared ancestors are closed (transitive), exist, and never include the step itself *)
Definition anc_closed (g : list step) : bool :=
  forallb (fun s =>
    negb (memN (s_id s) (s_anc s)) &&
    forallb (fun i => match find_step g i with
                      | Some m => forallb (fun j => memN j (s_anc s)) (s_anc m)
                      | None => false
                      end) (s_anc s)) g.

Definition well_formed (g : list step) (sources : list path) : bool :=
  unique_producers g sources && anc_closed g && complete g sources.

(* [order] runs every ancestor of a step before the step *)
Fixpoint topo_from (done : list sid) (order : list step) : bool :=
  match order with
  | [] => true
  | s :: r => forallb (fun i => memN i done) (s_anc s) && topo_from (s_id s :: done) r
  end.
Definition topological (order : list step) : bool := topo_from [] order.
