(* Graph/Ending.v — which targets generate_ending puts behind the aggregate
   statements (mesonbuild/backend/ninjabackend.py:4209-4230):
     all               <- get_build_by_default_targets()   (backends.py:1492-1493)
     meson-test-prereq <- get_testlike_targets()           (backends.py:1495-1513)
   and which targets a test "runs or depends on" according to the test
   serialisation that `meson test` reads (create_test_serialisation,
   backends.py:1277-1280, 1318-1325).  Objects are abstracted to what the two
   functions distinguish by isinstance.  No proofs in this file. *)
From MV Require Import Base.Strs Graph.Manifest.
Open Scope N_scope.

Inductive obj : Type :=
| OTarget (id : str)          (* build.BuildTarget or build.CustomTarget *)
| OIndex (id : str)           (* build.CustomTargetIndex of the custom target id *)
| OLocal (inner : obj)        (* build.LocalProgram(program): find_program() of an overridden program *)
| OOther.                     (* ExternalProgram, File, str *)

Record test := mkTest { t_exe : obj; t_args : list obj; t_depends : list obj }.

(* the isinstance chain of get_testlike_targets on one object (:1498-1502, :1504-1507, :1510-1513) *)
Definition yield_obj (o : obj) : list str :=
  match o with
  | OIndex id => [id]
  | OTarget id => [id]
  | _ => []
  end.

(* [fixed = true]: after pending/C04-test-prereq-local-program.diff a LocalProgram is
   replaced by the program it wraps, as create_test_serialisation does *)
Definition unwrap (fixed : bool) (o : obj) : obj :=
  match o with
  | OLocal inner => if fixed then inner else o
  | _ => o
  end.

Definition testlike_of (fixed : bool) (t : test) : list str :=
  yield_obj (unwrap fixed (t_exe t)) ++
  concat (map (fun a => yield_obj (unwrap fixed a)) (t_args t)) ++
  concat (map yield_obj (t_depends t)).

Definition testlike_targets (fixed : bool) (ts : list test) : list str :=
  concat (map (testlike_of fixed) ts).

(* create_test_serialisation: depends = set(t.depends) + exe + args, LocalProgram unwrapped
   (:1277-1279, :1318-1325); the ids it records (:1367) *)
Definition serial_depends (t : test) : list str :=
  concat (map yield_obj (t_depends t)) ++
  yield_obj (unwrap true (t_exe t)) ++
  concat (map (fun a => yield_obj (unwrap true a)) (t_args t)).

(* generate_ending, aggregate part: a target is (id, first output path, build_by_default) *)
Record tgt := mkTgt { g_id : str; g_first : str; g_bbd : bool }.

Fixpoint first_of (ts : list tgt) (id : str) : list str :=
  match ts with
  | [] => []
  | t :: r => if str_eqb (g_id t) id then [g_first t] else first_of r id
  end.

Definition ending_all (ts : list tgt) : build :=
  mkBuild [s2l "all"] [] phony (map g_first (filter g_bbd ts)) [] [] [] [].
Definition ending_test_prereq (fixed : bool) (ts : list tgt) (tests : list test) : build :=
  mkBuild [s2l "meson-test-prereq"] [] phony
          (concat (map (first_of ts) (testlike_targets fixed tests))) [] [] [] [].
