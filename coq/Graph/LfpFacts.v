(* Graph/LfpFacts.v — list facts and the theory of [lfp] (Graph/Check.v): for a
   monotone operator the bounded iteration returns the least pre-fixpoint. *)
From MV Require Import Base.Strs Base.LexFacts Graph.Manifest Graph.Check.
From Coq Require Import Lia.
Close Scope N_scope.
Open Scope nat_scope.

(* ------------------------------------------------------------------ membership *)
Lemma str_mem_In x l : str_mem x l = true <-> In x l.
Proof.
  induction l as [|y l IH]; cbn [str_mem In].
  - split; [discriminate | tauto].
  - rewrite Bool.orb_true_iff, IH, str_eqb_eq. split; intros [H|H]; auto.
Qed.

Lemma str_mem_false x l : str_mem x l = false <-> ~ In x l.
Proof.
  rewrite <- str_mem_In. destruct (str_mem x l); split; intro H.
  - discriminate.
  - exfalso. apply H. reflexivity.
  - intro H'. discriminate.
  - reflexivity.
Qed.

Lemma dups_nil l : dups l = [] <-> NoDup l.
Proof.
  induction l as [|x l IH]; cbn [dups].
  - split; [constructor | reflexivity].
  - destruct (str_mem x l) eqn:E.
    + split; [discriminate|]. intro H. inversion H as [|? ? Hn _]; subst.
      apply str_mem_In in E. contradiction.
    + rewrite IH. apply str_mem_false in E. split.
      * intro H. constructor; assumption.
      * intro H. inversion H; assumption.
Qed.

Lemma In_dups x l : In x (dups l) -> In x l.
Proof.
  induction l as [|y l IH]; cbn [dups]; [tauto|].
  destruct (str_mem y l); cbn [In]; intros H; [destruct H|]; auto.
Qed.

Lemma filter_nil {A} (f : A -> bool) l : filter f l = [] <-> forall x, In x l -> f x = false.
Proof.
  induction l as [|y l IH]; cbn [filter].
  - split; [intros _ x [] | reflexivity].
  - destruct (f y) eqn:E.
    + split; [discriminate|]. intro H. rewrite (H y (or_introl eq_refl)) in E. discriminate.
    + rewrite IH. split.
      * intros H x [->|Hx]; auto.
      * intros H x Hx. apply H. right. exact Hx.
Qed.

Lemma map_nil {A B} (f : A -> B) l : map f l = [] <-> l = [].
Proof. destruct l; cbn; split; congruence. Qed.

Lemma concat_nil {A} (ls : list (list A)) : concat ls = [] <-> forall l, In l ls -> l = [].
Proof.
  induction ls as [|l ls IH]; cbn [concat].
  - split; [intros _ l [] | reflexivity].
  - split.
    + intros H. apply app_eq_nil in H. destruct H as [H1 H2]. intros l' [<-|Hl]; [assumption|].
      apply IH; assumption.
    + intros H. rewrite (H l (or_introl eq_refl)). cbn. apply IH. intros l' Hl. apply H. right. exact Hl.
Qed.

Lemma app_nil_iff {A} (a b : list A) : a ++ b = [] <-> a = [] /\ b = [].
Proof. split; [apply app_eq_nil | intros [-> ->]; reflexivity]. Qed.

(* ------------------------------------------------------------------ filters of one list *)
Lemma filter_length_le {A} (f h : A -> bool) l :
  (forall x, In x l -> f x = true -> h x = true) ->
  length (filter f l) <= length (filter h l).
Proof.
  induction l as [|y l IH]; intros H; cbn [filter]; [lia|].
  assert (IH' := IH (fun x Hx => H x (or_intror Hx))).
  destruct (f y) eqn:Ef.
  - rewrite (H y (or_introl eq_refl) Ef). cbn [length]. lia.
  - destruct (h y); cbn [length]; lia.
Qed.

Lemma filter_length_eq {A} (f h : A -> bool) l :
  (forall x, In x l -> f x = true -> h x = true) ->
  length (filter h l) <= length (filter f l) ->
  filter h l = filter f l.
Proof.
  induction l as [|y l IH]; intros H Hl; cbn [filter] in *; [reflexivity|].
  assert (H' : forall x, In x l -> f x = true -> h x = true).
  { intros x Hx. apply H. right. exact Hx. }
  assert (Hle := filter_length_le f h l H').
  destruct (f y) eqn:Ef.
  - assert (Eh : h y = true) by (apply H; [left; reflexivity | exact Ef]).
    rewrite Eh in *. cbn [length] in Hl. f_equal. apply IH; [exact H' | lia].
  - destruct (h y) eqn:Eh; cbn [length] in Hl.
    + exfalso. lia.
    + apply IH; [exact H' | lia].
Qed.

Lemma filter_length {A} (f : A -> bool) l : length (filter f l) <= length l.
Proof. induction l as [|y l IH]; cbn [filter]; [lia|]. destruct (f y); cbn [length]; lia. Qed.

Lemma filter_full {A} (f : A -> bool) l : length l <= length (filter f l) -> filter f l = l.
Proof.
  induction l as [|y l IH]; cbn [filter]; [reflexivity|]. intro H.
  assert (Hl := filter_length f l).
  destruct (f y); cbn [length] in H; [f_equal; apply IH; lia | exfalso; lia].
Qed.

Lemma filter_all_true {A} (f : A -> bool) l : (forall x, In x l -> f x = true) -> filter f l = l.
Proof.
  induction l as [|y l IH]; intros H; cbn [filter]; [reflexivity|].
  rewrite (H y (or_introl eq_refl)). f_equal. apply IH. intros x Hx. apply H. right. exact Hx.
Qed.

(* ------------------------------------------------------------------ the least fixpoint *)
Section LfpFacts.
  Variable g : list str -> str -> bool.
  Variable U : list str.
  Hypothesis g_mono : forall X Y x, incl X Y -> g X x = true -> g Y x = true.

  Lemma lstep_In X x : In x (lstep g U X) <-> In x U /\ g X x = true.
  Proof. unfold lstep. apply filter_In. Qed.

  Lemma lstep_mono X Y : incl X Y -> incl (lstep g U X) (lstep g U Y).
  Proof.
    intros H x Hx. apply lstep_In in Hx. apply lstep_In. destruct Hx as [Hu Hg].
    split; [exact Hu | exact (g_mono X Y x H Hg)].
  Qed.

  (* the states the iteration goes through *)
  Definition linv (X : list str) : Prop :=
    (exists f, X = filter f U) /\ incl X (lstep g U X).

  Lemma linv_nil : linv [].
  Proof.
    split.
    - exists (fun _ => false). induction U as [|y l IH]; cbn [filter]; [reflexivity | exact IH].
    - intros x [].
  Qed.

  Lemma linv_step X : linv X -> linv (lstep g U X).
  Proof.
    intros [_ Hi]. split.
    - exists (g X). reflexivity.
    - apply lstep_mono. exact Hi.
  Qed.

  Lemma linv_stop X :
    linv X -> length (lstep g U X) <= length X -> lstep g U X = X.
  Proof.
    intros [[f ->] Hi] Hl. unfold lstep in *.
    apply filter_length_eq; [|exact Hl].
    intros x Hx Hf. assert (Hin : In x (filter f U)) by (apply filter_In; auto).
    apply Hi in Hin. apply filter_In in Hin. tauto.
  Qed.

  Lemma lfp_go_fix fuel : forall X,
    linv X -> length U <= fuel + length X ->
    lstep g U (lfp_go g U fuel X) = lfp_go g U fuel X.
  Proof.
    induction fuel as [|fuel IH]; intros X HX Hl; cbn [lfp_go].
    - destruct HX as [[f ->] Hi]. cbn in Hl.
      rewrite (filter_full f U Hl) in *. unfold lstep in *.
      apply filter_all_true. intros x Hx. apply Hi in Hx. apply filter_In in Hx. tauto.
    - destruct (Nat.leb (length (lstep g U X)) (length X)) eqn:E.
      + apply Nat.leb_le in E. apply linv_stop; assumption.
      + apply Nat.leb_gt in E. apply IH; [apply linv_step; exact HX | lia].
  Qed.

  Lemma lfp_go_ind (P : str -> Prop) :
    (forall X, (forall x, In x X -> P x) -> forall x, In x (lstep g U X) -> P x) ->
    forall fuel X, (forall x, In x X -> P x) -> forall x, In x (lfp_go g U fuel X) -> P x.
  Proof.
    intros Hs. induction fuel as [|fuel IH]; intros X HX x; cbn [lfp_go]; [apply HX|].
    destruct (Nat.leb (length (lstep g U X)) (length X)); [apply HX|].
    apply IH. apply Hs. exact HX.
  Qed.

  (* induction principle: lfp is below every set closed under the operator *)
  Theorem lfp_least (P : str -> Prop) :
    (forall X, (forall x, In x X -> P x) -> forall x, In x U -> g X x = true -> P x) ->
    forall x, In x (lfp g U) -> P x.
  Proof.
    intros Hs. unfold lfp. apply lfp_go_ind.
    - intros X HX x Hx. apply lstep_In in Hx. destruct Hx. apply (Hs X); assumption.
    - intros x [].
  Qed.

  (* lfp is closed under the operator *)
  Theorem lfp_closed x : In x U -> g (lfp g U) x = true -> In x (lfp g U).
  Proof.
    intros Hu Hg.
    assert (H : lstep g U (lfp g U) = lfp g U).
    { unfold lfp. apply lfp_go_fix; [apply linv_nil | cbn; lia]. }
    rewrite <- H. apply lstep_In. split; assumption.
  Qed.

  Theorem lfp_sub x : In x (lfp g U) -> In x U.
  Proof. intro H. revert x H. apply (lfp_least (fun x => In x U)). intros; assumption. Qed.
End LfpFacts.
