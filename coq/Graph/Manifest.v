(* Graph/Manifest.v — reference reading of a Ninja manifest (build.ninja).

   This file is SELF-CONTAINED (it needs Base.Strs only) and is shared by C04
   (well-formedness), C05 (schedules) and C15 (introspection): it provides

     parse_manifest : str -> res manifest        the grammar + scoping rules
     edge_binding   : manifest -> build -> str -> str      ninja's Edge::GetBinding
     edge_command   : manifest -> build -> str             ... of "command"
     canon_path     : str -> str                            ninja's CanonicalizePath

   It is a REFERENCE SEMANTICS written from the Ninja manual
   (https://ninja-build.org/manual.html, "Ninja file reference": lexical syntax,
   variables, scoping, build statements) and the behaviour of ninja 1.11's
   lexer/manifest parser; there is no ninja binary in the sandbox, so this
   reading is trusted (DESIGN 2.6).  No proofs in this file.

   Grammar accepted (everything meson emits, and a bit more):
     - comment lines  [ ]*#...            - blank lines
     - NAME = VALUE                       top-level binding, evaluated at once
     - rule NAME / indented bindings      values kept unevaluated
     - pool NAME / indented depth = N
     - build OUT.. [| IOUT..]: RULE IN.. [| IMP..] [|| OO..] [|@ VAL..]
         followed by indented bindings (evaluated at once in the FILE scope)
     - default PATH..
     - "$\n" + indentation is a line continuation outside comments (white space
       between tokens, nothing inside a path or value; it ends a name)
     - $-escapes in paths and values:  $$  $space  $:  $name  ${name}
   Rejected (Err): include / subninja (a closed manifest has none), a tab as
   indentation, a bad $-escape (also "${}"), a missing ':' / rule name / '=', an
   indented line that follows nothing, an empty path, a rule binding that is not
   one of ninja's rule variables.

   Implementation notes.  [split_lines] cuts the text into logical lines and
   replaces every "$\n" + indentation outside comments by the marker code point 0
   ([c_cont]); the marker is white space between tokens, is carried inside
   literals (and dropped by [lit_text] when a literal is evaluated), and is no
   identifier character, so a continuation cannot glue a keyword, a variable name
   or a rule name together - as in ninja's lexer.  [classify] decides what a
   logical line is, [sscan] is the eval-string scanner shared by paths
   ([lex_paths]) and values ([lex_value]), [prun] folds the lines into the AST.
   Every path is passed through [canon_path] (ninja's lexical CanonicalizePath).

   Scoping (manual, "Evaluation and scoping"):
     - top-level bindings are expanded immediately with the bindings seen so far;
     - the bindings of a build block are expanded immediately in the file scope;
     - the paths of a build statement are expanded in the scope of the build
       block (block bindings shadow file bindings);
     - rule bindings are expanded when an edge needs them, in the scope
       [$in/$out; block bindings; rule bindings; file bindings (final values)].
*)
From MV Require Import Base.Strs.
Open Scope N_scope.

(* ------------------------------------------------------------------ results *)
Inductive res (A : Type) : Type :=
| Ok (a : A)
| Err (e : str).
Arguments Ok {A} a.
Arguments Err {A} e.

(* ------------------------------------------------------------------ eval strings *)
Inductive piece : Type :=
| Lit (s : str)
| Var (v : str).
Definition estr := list piece.

Definition env := list (str * str).       (* newest binding first *)

Fixpoint lookup (e : env) (k : str) : str :=
  match e with
  | [] => []
  | (k', v) :: r => if str_eqb k k' then v else lookup r k
  end.

(* A continuation inside a path or value is kept in the literal as the marker
   code point 0 (see c_cont below) so that it still ends names; it contributes no text. *)
Definition lit_text (s : str) : str := filter (fun c => negb (c =? 0)) s.

Definition eval_piece (e : env) (p : piece) : str :=
  match p with Lit s => lit_text s | Var v => lookup e v end.
Definition eval (e : env) (s : estr) : str := concat (map (eval_piece e) s).

(* ------------------------------------------------------------------ characters *)
Definition c_nl : char := 10.
Definition c_sp : char := 32.
Definition c_tab : char := 9.
Definition c_dollar : char := 36.
Definition c_colon : char := 58.
Definition c_pipe : char := 124.
Definition c_at : char := 64.
Definition c_hash : char := 35.
Definition c_eq : char := 61.
Definition c_lbrace : char := 123.
Definition c_rbrace : char := 125.
Definition c_slash : char := 47.
Definition c_dot : char := 46.
(* "$\n" + indentation is replaced by this marker (NUL never occurs in a manifest:
   ninja treats it as end of input).  It counts as white space between tokens and
   is skipped inside paths and values, but it ends an identifier or keyword. *)
Definition c_cont : char := 0.

(* $name : [a-zA-Z0-9_-]+      ${name} and identifiers : [a-zA-Z0-9_.-]+ *)
Definition is_simple_var (c : char) : bool := is_alnum c || (c =? 95) || (c =? 45).
Definition is_ident (c : char) : bool := is_simple_var c || (c =? c_dot).

(* ------------------------------------------------------------------ physical -> logical lines *)
(* LS: at line start, only blanks so far;  LN: inside a line;  LD: a '$' is
   pending;  LK: skipping the indentation that follows "$\n";  LC: in a comment *)
Inductive lmode := LS | LN | LD | LK | LC.

Fixpoint split_lines_go (cs : str) (m : lmode) (cur : str) (acc : list str) : list str :=
  match cs with
  | [] =>
      let cur' := match m with LD => c_dollar :: cur | _ => cur end in
      rev (rev cur' :: acc)
  | c :: r =>
      let normal (c : char) :=
        if c =? c_nl then split_lines_go r LS [] (rev cur :: acc)
        else if c =? c_dollar then split_lines_go r LD cur acc
        else split_lines_go r LN (c :: cur) acc in
      match m with
      | LS => if c =? c_sp then split_lines_go r LS (c :: cur) acc
              else if c =? c_hash then split_lines_go r LC (c :: cur) acc
              else normal c
      | LN => normal c
      | LK => if c =? c_sp then split_lines_go r LK cur acc else normal c
      | LD => if c =? c_nl then split_lines_go r LK (c_cont :: cur) acc
              else split_lines_go r LN (c :: c_dollar :: cur) acc
      | LC => if c =? c_nl then split_lines_go r LS [] (rev cur :: acc)
              else split_lines_go r LC (c :: cur) acc
      end
  end.
Definition split_lines (s : str) : list str := split_lines_go s LS [] [].

(* ------------------------------------------------------------------ eval-string scanner *)
Inductive btok : Type :=
| TPath (e : estr)
| TColon
| TPipe
| TPipe2
| TPipeAt.

(* MIdle: between tokens; MPath: inside a path/value (acc = literal run, reversed);
   MDollar: after '$'; MVarS: inside $name; MVarB: inside ${name}; MPipe: after '|' *)
Inductive smode := MIdle | MPath | MDollar | MVarS | MVarB | MPipe.

Record sstate := mkS { s_mode : smode; s_acc : str; s_pcs : list piece; s_toks : list btok }.

Definition flush_lit (acc : str) (pcs : list piece) : list piece :=
  match acc with [] => pcs | _ => Lit (rev acc) :: pcs end.
Definition end_path (st : sstate) : list btok :=
  TPath (rev (flush_lit (s_acc st) (s_pcs st))) :: s_toks st.

(* [vm] = value mode: blank, ':' and '|' are ordinary characters *)
Definition path_char (vm : bool) (st : sstate) (c : char) : res sstate :=
  if c =? c_dollar then Ok (mkS MDollar (s_acc st) (s_pcs st) (s_toks st))
  else if vm then Ok (mkS MPath (c :: s_acc st) (s_pcs st) (s_toks st))
  else if c =? c_sp then Ok (mkS MIdle [] [] (end_path st))
  else if c =? c_colon then Ok (mkS MIdle [] [] (TColon :: end_path st))
  else if c =? c_pipe then Ok (mkS MPipe [] [] (end_path st))
  else Ok (mkS MPath (c :: s_acc st) (s_pcs st) (s_toks st)).

Definition idle_char (st : sstate) (c : char) : res sstate :=
  if (c =? c_sp) || (c =? c_cont) then Ok st
  else if c =? c_colon then Ok (mkS MIdle [] [] (TColon :: s_toks st))
  else if c =? c_pipe then Ok (mkS MPipe [] [] (s_toks st))
  else if c =? c_dollar then Ok (mkS MDollar [] [] (s_toks st))
  else Ok (mkS MPath [c] [] (s_toks st)).

Definition sstep (vm : bool) (st : sstate) (c : char) : res sstate :=
  match s_mode st with
  | MIdle => idle_char st c
  | MPath => path_char vm st c
  | MPipe =>
      if c =? c_pipe then Ok (mkS MIdle [] [] (TPipe2 :: s_toks st))
      else if c =? c_at then Ok (mkS MIdle [] [] (TPipeAt :: s_toks st))
      else idle_char (mkS MIdle [] [] (TPipe :: s_toks st)) c
  | MDollar =>
      if (c =? c_dollar) || (c =? c_sp) || (c =? c_colon)
      then Ok (mkS MPath (c :: s_acc st) (s_pcs st) (s_toks st))
      else if c =? c_lbrace then Ok (mkS MVarB [] (flush_lit (s_acc st) (s_pcs st)) (s_toks st))
      else if is_simple_var c then Ok (mkS MVarS [c] (flush_lit (s_acc st) (s_pcs st)) (s_toks st))
      else Err (s2l "bad $-escape")
  | MVarS =>
      if is_simple_var c then Ok (mkS MVarS (c :: s_acc st) (s_pcs st) (s_toks st))
      else path_char vm (mkS MPath [] (Var (rev (s_acc st)) :: s_pcs st) (s_toks st)) c
  | MVarB =>
      if c =? c_rbrace then
        match s_acc st with
        | [] => Err (s2l "bad ${} reference")               (* a name is at least one character *)
        | _ => Ok (mkS MPath [] (Var (rev (s_acc st)) :: s_pcs st) (s_toks st))
        end
      else if is_ident c then Ok (mkS MVarB (c :: s_acc st) (s_pcs st) (s_toks st))
      else Err (s2l "bad ${} reference")
  end.

Fixpoint sscan (vm : bool) (cs : str) (st : sstate) : res sstate :=
  match cs with
  | [] => Ok st
  | c :: r => match sstep vm st c with Ok st' => sscan vm r st' | Err e => Err e end
  end.

Definition sfinish (st : sstate) : res (list btok) :=
  match s_mode st with
  | MIdle => Ok (rev (s_toks st))
  | MPath => Ok (rev (end_path st))
  | MVarS => Ok (rev (TPath (rev (Var (rev (s_acc st)) :: s_pcs st)) :: s_toks st))
  | MPipe => Ok (rev (TPipe :: s_toks st))
  | MDollar => Err (s2l "dangling $")
  | MVarB => Err (s2l "unterminated ${")
  end.

(* the tokens of a build / default line (after the keyword) *)
Definition lex_paths (s : str) : res (list btok) :=
  match sscan false s (mkS MIdle [] [] []) with
  | Ok st => sfinish st
  | Err e => Err e
  end.

(* the value of a binding (after '=' and the blanks that follow it) *)
Definition lex_value (s : str) : res estr :=
  match sscan true s (mkS MPath [] [] []) with
  | Ok st =>
      match sfinish st with
      | Ok [TPath e] => Ok e
      | Ok _ => Ok []
      | Err e => Err e
      end
  | Err e => Err e
  end.

(* ------------------------------------------------------------------ paths *)
Fixpoint split_on (sep : char) (s : str) (cur : str) : list str :=
  match s with
  | [] => [rev cur]
  | c :: r => if c =? sep then rev cur :: split_on sep r [] else split_on sep r (c :: cur)
  end.

Definition dotdot : str := [c_dot; c_dot].

(* the component stack is reversed; ".." entries survive only at the bottom *)
Definition canon_push (st : list str) (c : str) : list str :=
  match c with
  | [] => st
  | _ =>
      if str_eqb c [c_dot] then st
      else if str_eqb c dotdot then
        match st with
        | [] => [dotdot]
        | t :: r => if str_eqb t dotdot then dotdot :: st else r
        end
      else c :: st
  end.

(* ninja's CanonicalizePath: purely lexical; "" stays "" (rejected by the parser) *)
Definition canon_path (p : str) : str :=
  match p with
  | [] => []
  | c0 :: _ =>
      let abs := c0 =? c_slash in
      let body := join [c_slash] (rev (fold_left canon_push (split_on c_slash p []) [])) in
      if abs then c_slash :: body
      else match body with [] => [c_dot] | _ => body end
  end.

(* ------------------------------------------------------------------ AST *)
Record rule := mkRule { r_name : str; r_vars : list (str * estr) }.      (* newest first *)

Record build := mkBuild {
  b_outs : list str;  b_iouts : list str;       (* explicit / implicit outputs *)
  b_rule : str;
  b_ins : list str;  b_imps : list str;  b_oos : list str;  b_valids : list str;
  b_vars : env }.                                 (* block bindings, newest first *)

Record manifest := mkManifest {
  m_vars : env;                                   (* file scope, final, newest first *)
  m_pools : list (str * env);
  m_rules : list rule;                            (* in file order *)
  m_builds : list build;                          (* in file order *)
  m_defaults : list str }.

Definition phony : str := s2l "phony".

(* ------------------------------------------------------------------ line classification *)
Fixpoint skip_sp (s : str) : str :=
  match s with c :: r => if (c =? c_sp) || (c =? c_cont) then skip_sp r else s | [] => [] end.

(* indentation proper: blanks only (a continuation is no indentation) *)
Fixpoint skip_blank (s : str) : str :=
  match s with c :: r => if c =? c_sp then skip_blank r else s | [] => [] end.

Fixpoint span_ident (s : str) (acc : str) : str * str :=
  match s with
  | c :: r => if is_ident c then span_ident r (c :: acc) else (rev acc, s)
  | [] => (rev acc, [])
  end.

Inductive line : Type :=
| LBlank
| LIndented (key : str) (val : estr)
| LBind (key : str) (val : estr)
| LRule (name : str)
| LPool (name : str)
| LBuild (toks : list btok)
| LDefault (toks : list btok)
| LBad (e : str).

Definition parse_binding (s : str) : res (str * estr) :=
  let '(k, r) := span_ident s [] in
  match k with
  | [] => Err (s2l "expected a name")
  | _ =>
      match skip_sp r with
      | c :: r' =>
          if c =? c_eq then
            match lex_value (skip_sp r') with Ok v => Ok (k, v) | Err e => Err e end
          else Err (s2l "expected =")
      | [] => Err (s2l "expected =")
      end
  end.

Definition name_only (s : str) : res str :=
  let '(k, r) := span_ident (skip_sp s) [] in
  match k, skip_sp r with
  | _ :: _, [] => Ok k
  | _, _ => Err (s2l "expected a name")
  end.

Definition classify (l : str) : line :=
  let body := skip_blank l in
  match body with
  | [] => LBlank
  | c :: _ =>
      if c =? c_hash then LBlank
      else if c =? c_tab then LBad (s2l "tabs are not allowed")
      else
        match l with
        | c0 :: _ =>
            if c0 =? c_sp then
              match parse_binding body with Ok (k, v) => LIndented k v | Err e => LBad e end
            else
              let '(w, r) := span_ident l [] in
              if str_eqb w (s2l "build") then
                match lex_paths r with Ok t => LBuild t | Err e => LBad e end
              else if str_eqb w (s2l "default") then
                match lex_paths r with Ok t => LDefault t | Err e => LBad e end
              else if str_eqb w (s2l "rule") then
                match name_only r with Ok n => LRule n | Err e => LBad e end
              else if str_eqb w (s2l "pool") then
                match name_only r with Ok n => LPool n | Err e => LBad e end
              else if str_eqb w (s2l "include") || str_eqb w (s2l "subninja") then
                LBad (s2l "include/subninja: not a closed manifest")
              else
                match parse_binding l with Ok (k, v) => LBind k v | Err e => LBad e end
        | [] => LBlank
        end
  end.

(* ------------------------------------------------------------------ build line structure *)
(* sections of a build line, in the order the grammar allows them *)
Inductive bsec := SOut | SIOut | SRule | SIn | SImp | SOo | SVal.

Record braw := mkRaw {
  w_outs : list estr; w_iouts : list estr; w_rule : option estr;
  w_ins : list estr; w_imps : list estr; w_oos : list estr; w_vals : list estr }.

Definition raw0 := mkRaw [] [] None [] [] [] [].

Fixpoint build_sections (toks : list btok) (sec : bsec) (w : braw) : res braw :=
  match toks with
  | [] => match sec with
          | SOut | SIOut | SRule => Err (s2l "expected ':' and a rule name")
          | _ => Ok w
          end
  | t :: r =>
      match t, sec with
      | TPath e, SOut => build_sections r SOut (mkRaw (e :: w_outs w) (w_iouts w) (w_rule w) (w_ins w) (w_imps w) (w_oos w) (w_vals w))
      | TPath e, SIOut => build_sections r SIOut (mkRaw (w_outs w) (e :: w_iouts w) (w_rule w) (w_ins w) (w_imps w) (w_oos w) (w_vals w))
      | TPath e, SRule => build_sections r SIn (mkRaw (w_outs w) (w_iouts w) (Some e) (w_ins w) (w_imps w) (w_oos w) (w_vals w))
      | TPath e, SIn => build_sections r SIn (mkRaw (w_outs w) (w_iouts w) (w_rule w) (e :: w_ins w) (w_imps w) (w_oos w) (w_vals w))
      | TPath e, SImp => build_sections r SImp (mkRaw (w_outs w) (w_iouts w) (w_rule w) (w_ins w) (e :: w_imps w) (w_oos w) (w_vals w))
      | TPath e, SOo => build_sections r SOo (mkRaw (w_outs w) (w_iouts w) (w_rule w) (w_ins w) (w_imps w) (e :: w_oos w) (w_vals w))
      | TPath e, SVal => build_sections r SVal (mkRaw (w_outs w) (w_iouts w) (w_rule w) (w_ins w) (w_imps w) (w_oos w) (e :: w_vals w))
      | TPipe, SOut => build_sections r SIOut w
      | TColon, SOut | TColon, SIOut => build_sections r SRule w
      | TPipe, SIn => build_sections r SImp w
      | TPipe2, SIn | TPipe2, SImp => build_sections r SOo w
      | TPipeAt, SIn | TPipeAt, SImp | TPipeAt, SOo => build_sections r SVal w
      | _, _ => Err (s2l "unexpected token in build line")
      end
  end.

Definition rule_ident (e : estr) : res str :=
  match e with
  | [Lit s] => if forallb is_ident s then Ok s else Err (s2l "bad rule name")
  | _ => Err (s2l "bad rule name")
  end.

Definition eval_paths (e : env) (l : list estr) : list str :=
  map (fun p => canon_path (eval e p)) (rev l).

Definition has_empty (l : list str) : bool := existsb (fun p => match p with [] => true | _ => false end) l.

Definition mk_build (fenv : env) (toks : list btok) (bvars : env) : res build :=
  match build_sections toks SOut raw0 with
  | Err e => Err e
  | Ok w =>
      match w_rule w with
      | None => Err (s2l "expected a rule name")
      | Some re =>
          match rule_ident re with
          | Err e => Err e
          | Ok rn =>
              let e := bvars ++ fenv in
              let b := mkBuild (eval_paths e (w_outs w)) (eval_paths e (w_iouts w)) rn
                               (eval_paths e (w_ins w)) (eval_paths e (w_imps w))
                               (eval_paths e (w_oos w)) (eval_paths e (w_vals w)) bvars in
              match b_outs b with
              | [] => Err (s2l "expected an output path")
              | _ =>
                  if has_empty (b_outs b ++ b_iouts b ++ b_ins b ++ b_imps b ++ b_oos b ++ b_valids b)
                  then Err (s2l "empty path") else Ok b
              end
          end
      end
  end.

Fixpoint only_paths (toks : list btok) : res (list estr) :=
  match toks with
  | [] => Ok []
  | TPath e :: r => match only_paths r with Ok l => Ok (e :: l) | Err e => Err e end
  | _ :: _ => Err (s2l "unexpected token in default line")
  end.

(* ------------------------------------------------------------------ the parser proper *)
Inductive pending : Type :=
| PNone
| PRule (name : str) (vars : list (str * estr))
| PPool (name : str) (vars : env)
| PBuild (toks : list btok) (vars : env).

Record pstate := mkP {
  p_vars : env; p_pools : list (str * env); p_rules : list rule;     (* rules/builds reversed *)
  p_builds : list build; p_defaults : list str; p_cur : pending }.

Definition rule_keys : list str :=
  map s2l ["command"; "depfile"; "dyndep"; "description"; "deps"; "generator"; "pool";
           "restat"; "rspfile"; "rspfile_content"; "msvc_deps_prefix"]%string.

Definition close_pending (st : pstate) : res pstate :=
  match p_cur st with
  | PNone => Ok st
  | PRule n vs =>
      Ok (mkP (p_vars st) (p_pools st) (mkRule n vs :: p_rules st) (p_builds st) (p_defaults st) PNone)
  | PPool n vs =>
      Ok (mkP (p_vars st) ((n, vs) :: p_pools st) (p_rules st) (p_builds st) (p_defaults st) PNone)
  | PBuild toks vs =>
      match mk_build (p_vars st) toks vs with
      | Ok b => Ok (mkP (p_vars st) (p_pools st) (p_rules st) (b :: p_builds st) (p_defaults st) PNone)
      | Err e => Err e
      end
  end.

Definition set_cur (st : pstate) (c : pending) : pstate :=
  mkP (p_vars st) (p_pools st) (p_rules st) (p_builds st) (p_defaults st) c.

Definition pstep (st : pstate) (l : line) : res pstate :=
  match l with
  | LBlank => Ok st
  | LBad e => Err e
  | LIndented k v =>
      match p_cur st with
      | PNone => Err (s2l "unexpected indent")
      | PRule n vs =>
          if str_mem k rule_keys then Ok (set_cur st (PRule n ((k, v) :: vs)))
          else Err (s2l "unexpected variable in a rule")
      | PPool n vs => Ok (set_cur st (PPool n ((k, eval (p_vars st) v) :: vs)))
      | PBuild t vs => Ok (set_cur st (PBuild t ((k, eval (p_vars st) v) :: vs)))
      end
  | _ =>
      match close_pending st with
      | Err e => Err e
      | Ok st =>
          match l with
          | LBind k v =>
              Ok (mkP ((k, eval (p_vars st) v) :: p_vars st) (p_pools st) (p_rules st)
                      (p_builds st) (p_defaults st) PNone)
          | LRule n => Ok (set_cur st (PRule n []))
          | LPool n => Ok (set_cur st (PPool n []))
          | LBuild t => Ok (set_cur st (PBuild t []))
          | LDefault t =>
              match only_paths t with
              | Err e => Err e
              | Ok [] => Err (s2l "expected a target name")
              | Ok ps =>
                  let ds := map (fun p => canon_path (eval (p_vars st) p)) ps in
                  if has_empty ds then Err (s2l "empty path")
                  else Ok (mkP (p_vars st) (p_pools st) (p_rules st) (p_builds st)
                               (p_defaults st ++ ds) PNone)
              end
          | _ => Ok st
          end
      end
  end.

Fixpoint prun (ls : list str) (st : pstate) : res pstate :=
  match ls with
  | [] => close_pending st
  | l :: r => match pstep st (classify l) with Ok st' => prun r st' | Err e => Err e end
  end.

Definition parse_manifest (text : str) : res manifest :=
  match prun (split_lines text) (mkP [] [] [] [] [] PNone) with
  | Err e => Err e
  | Ok st => Ok (mkManifest (p_vars st) (rev (p_pools st)) (rev (p_rules st))
                            (rev (p_builds st)) (p_defaults st))
  end.

(* ------------------------------------------------------------------ edge scope *)
Fixpoint find_rule (rs : list rule) (n : str) : option rule :=
  match rs with
  | [] => None
  | r :: t => if str_eqb (r_name r) n then Some r else find_rule t n
  end.

Fixpoint rlookup (vs : list (str * estr)) (k : str) : option estr :=
  match vs with
  | [] => None
  | (k', v) :: r => if str_eqb k k' then Some v else rlookup r k
  end.

Fixpoint env_has (e : env) (k : str) : bool :=
  match e with [] => false | (k', _) :: r => str_eqb k k' || env_has r k end.

(* ninja shell-escapes the paths it substitutes for $in / $out (POSIX flavour) *)
Definition shell_safe (c : char) : bool :=
  is_alnum c || (c =? 95) || (c =? 43) || (c =? 45) || (c =? 46) || (c =? 47).
Definition shell_escape (p : str) : str :=
  if forallb shell_safe p then p
  else 39 :: concat (map (fun c => if c =? 39 then [39; 92; 39; 39] else [c]) p) ++ [39].

(* Edge::GetBinding.  A rule binding that refers to itself (directly or not) is a
   fatal error in ninja; here the fuel runs out and the reference expands to "". *)
Fixpoint edge_binding_fuel (fuel : nat) (m : manifest) (b : build) (k : str) : str :=
  match fuel with
  | O => []
  | S f =>
      if str_eqb k (s2l "in") then join [c_sp] (map shell_escape (b_ins b))
      else if str_eqb k (s2l "in_newline") then join [c_nl] (map shell_escape (b_ins b))
      else if str_eqb k (s2l "out") then join [c_sp] (map shell_escape (b_outs b))
      else if env_has (b_vars b) k then lookup (b_vars b) k
      else
        match (match find_rule (m_rules m) (b_rule b) with
               | Some r => rlookup (r_vars r) k | None => None end) with
        | Some e =>
            concat (map (fun p => match p with
                                  | Lit s => lit_text s
                                  | Var v => edge_binding_fuel f m b v end) e)
        | None => lookup (m_vars m) k
        end
  end.

Definition edge_binding (m : manifest) (b : build) (k : str) : str :=
  edge_binding_fuel 16%nat m b k.
Definition edge_command (m : manifest) (b : build) : str := edge_binding m b (s2l "command").
