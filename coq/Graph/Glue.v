(* Graph/Glue.v — three small pieces of the statement emitter whose references must
   name something another statement produces.  Paths are lists of components.
     (1) run targets and aliases: the statement of a run target is called
         build_run_target_name (ninjabackend.py:1349-1354: "<subproject>@@<name>"), a
         dependency on it is referred to through get_paths_for_dep_outputs
         (backends.py:1571-1586): join(get_target_dir, get_outputs()[0]) = <name>;
         [fixed = true]: pending/C04-run-target-dep-in-subproject.diff.
     (2) compiler.preprocess(): the outputs are exposed as CustomTargetIndex with the
         path relpath(private_dir, SUBDIR) (interpreter/compiler.py:930) and consumed as
         join(get_target_dir(target), path) (backends.py:447-448); the headers of depends:
         are File(True, dep.subdir, o) (build.py:3288-3292).  The target directory is
         "meson-out" with --layout=flat (backends.py get_target_dir).
         [fixed = true]: pending/C04-preprocess-flat-layout.diff.
     (3) dyndeps: a target gets a depscan statement producing <priv>/depscan.json iff
         should_use_dyndeps_for_target (:1238); the depaccumulate statement reads its own
         json, that of the linked targets that use dyndeps and that of the Fortran
         targets it takes extracted objects from (:1261-1281).
   No proofs in this file. *)
From MV Require Import Base.Strs Graph.Manifest.
Open Scope N_scope.

(* ------------------------------------------------------------------ (1) run targets *)
Record rtarget := mkRT { rt_sub : str; rt_name : str }.

Definition run_target_name (t : rtarget) : str :=
  match rt_sub t with [] => rt_name t | s => s ++ s2l "@@" ++ rt_name t end.

Definition run_dep_ref (fixed : bool) (d : rtarget) : str :=
  if fixed then run_target_name d else rt_name d.

(* ------------------------------------------------------------------ (2) preprocess *)
Definition path := list str.

Definition target_dir (flat : bool) (subdir : path) : path :=
  if flat then [s2l "meson-out"] else subdir.

(* os.path.relpath of two normalised relative paths *)
Fixpoint relpath (target start : path) : path :=
  match target, start with
  | a :: t, b :: s => if str_eqb a b then relpath t s else repeat dotdot (length start) ++ target
  | _, _ => repeat dotdot (length start) ++ target
  end.

(* ninja's lexical canonicalisation on components *)
Definition norm (p : path) : path := rev (fold_left canon_push p []).

Definition pp_private (flat : bool) (subdir : path) (name : str) : path :=
  target_dir flat subdir ++ [name ++ s2l ".p"].

(* what the statement of the preprocessor target produces *)
Definition pp_produced (flat : bool) (subdir : path) (name o : str) : path :=
  pp_private flat subdir name ++ [o].

(* what a target using the preprocessed source reads *)
Definition pp_consumed (fixed flat : bool) (subdir : path) (name o : str) : path :=
  let rel := relpath (pp_private flat subdir name) (if fixed then target_dir flat subdir else subdir) in
  norm (target_dir flat subdir ++ rel ++ [o]).

(* a header of depends: — produced in the target directory of its target *)
Definition hdr_produced (flat : bool) (depsubdir : path) (o : str) : path := target_dir flat depsubdir ++ [o].
Definition hdr_ref (fixed flat : bool) (depsubdir : path) (o : str) : path :=
  (if fixed then target_dir flat depsubdir else depsubdir) ++ [o].

Definition plain_comp (c : str) : bool :=
  match c with [] => false | _ => negb (str_eqb c [c_dot]) && negb (str_eqb c dotdot) end.

(* ------------------------------------------------------------------ (3) dyndeps *)
Record dtarget := mkDT { d_id : str; d_dyndeps : bool; d_fortran : bool }.

Definition depscan_json (t : dtarget) : str := d_id t ++ s2l ".p/depscan.json".

Definition depaccumulate_inputs (self : dtarget) (linked extracted : list dtarget) : list str :=
  depscan_json self :: map depscan_json (filter d_dyndeps linked) ++ map depscan_json (filter d_fortran extracted).

Definition produced_jsons (ts : list dtarget) : list str := map depscan_json (filter d_dyndeps ts).

(* 'fortran' in target.compilers makes should_use_dyndeps_for_target true (:1212-1213) *)
Definition dyndep_consistent (ts : list dtarget) : bool :=
  forallb (fun t => negb (d_fortran t) || d_dyndeps t) ts.
