(* Graph/Quote.v — ninja_quote for names on a build line
   (mesonbuild/backend/ninjabackend.py:112-128, is_build_line=True) and the build
   line NinjaBuildElement.write assembles (:383-400), as far as C04 needs them: to
   show that the reader gets back the names that were written.  No proofs here. *)
From MV Require Import Base.Strs Graph.Manifest.
Open Scope N_scope.

(* NINJA_QUOTE_BUILD_PAT = [$ :\n]; a newline raises before (:116-122) *)
Definition nq_special (c : char) : bool := (c =? c_dollar) || (c =? c_sp) || (c =? c_colon).
Definition nq_char (c : char) : str := if nq_special c then [c_dollar; c] else [c].
Definition ninja_quote_build (s : str) : str := concat (map nq_char s).

(* names the quoting can carry: not empty, no newline (rejected at :116), no '|'
   (rejected after pending/C04-pipe-in-path.diff), no NUL (end of input for ninja) *)
Definition name_char_ok (c : char) : bool := negb ((c =? c_nl) || (c =? c_pipe) || (c =? 0)).
Definition name_ok (p : str) : bool :=
  match p with [] => false | _ => forallb name_char_ok p end.

(* ' '.join(ninja_quote(i, True) for i in names) *)
Definition quote_names (ps : list str) : str := join [c_sp] (map ninja_quote_build ps).

(* the text after the keyword "build" (:394-400; sets are passed sorted) *)
Definition build_line_rest (outs iouts : list str) (rule : str) (ins deps oos : list str) : str :=
  [c_sp] ++ quote_names outs ++
  (match iouts with [] => [] | _ => [c_sp; c_pipe; c_sp] ++ quote_names iouts end) ++
  [c_colon; c_sp] ++ rule ++ [c_sp] ++ quote_names ins ++
  (match deps with [] => [] | _ => [c_sp; c_pipe; c_sp] ++ quote_names deps end) ++
  (match oos with [] => [] | _ => [c_sp; c_pipe; c_pipe; c_sp] ++ quote_names oos end).
