(* Graph/SchedEntry.v — entry points for the C05 correspondence: the harness encodes the
   observed build graph as numbers and asks the verified checkers for their verdict.
   Encoding (all numbers decimal): a number list is "n,n,n"; a step is
   "id;reads;outs;ancestors"; steps are separated by "|". *)
From MV Require Import Base.Strs Graph.Sched Graph.Gen Graph.GenEntry.
Open Scope N_scope.

(* [split_on] comes from Graph/GenEntry.v *)
Definition nums (s : str) : list N :=
  match s with
  | [] => []
  | _ => map digits_val (split_on 44 s [])
  end.
Definition parse_step (s : str) : step :=
  match split_on 59 s [] with
  | [i; r; o; a] => mkStep (digits_val i) (nums r) (nums o) (nums a)
  | _ => mkStep 0 [] [] []
  end.
Definition parse_graph (s : str) : list step :=
  match s with
  | [] => []
  | _ => map parse_step (split_on 124 s [])
  end.

(* the first violated condition, for the replay (0 = none) *)
Definition diagnose (g : list step) (sources : list path) : N :=
  if negb (nodupb (map s_id g)) then 1
  else if negb (nodupb (all_outs g)) then 2
  else if negb (forallb (fun p => negb (memN p (all_outs g))) sources) then 3
  else if negb (anc_closed g) then 4
  else if negb (complete g sources) then 5
  else 0.

(* the first step with a read that is neither a source nor an output of a declared ancestor *)
Definition first_incomplete (g : list step) (sources : list path) : str :=
  match find (fun s => negb (step_complete g sources s)) g with
  | Some s =>
      N_dec (s_id s) ++ 58 ::
      join [44] (map N_dec (filter (fun p => negb (memN p sources || memN p (anc_outs g s))) (s_reads s)))
  | None => []
  end.

(* entry "gen": the project IR of Graph/Gen.v (wire format in Graph/GenEntry.v) -> the
   statements and declared ancestors that the model of meson's edge logic gives it *)
Definition run (fn : str) (args : list str) : str :=
  if str_eqb fn (s2l "gen") then run_gen args else
  match args with
  | [gs; srcs] =>
      let g := parse_graph gs in
      let sources := nums srcs in
      if str_eqb fn (s2l "wf") then
        bool_str (well_formed g sources) ++ 58 :: N_dec (diagnose g sources) ++ 58 :: first_incomplete g sources
      else if str_eqb fn (s2l "topo") then
        (* srcs is unused; gs is the order to check *)
        bool_str (topological g)
      else s2l "?"
  | _ => s2l "?"
  end.
