(* Graph/NoCycle.v — for the (finite) graph of a manifest, "well-founded" and "no path
   depends on itself" are the same thing, so Spec.Acyclic is exactly the absence of
   cycles.  The direction proved here (no cycle -> well-founded) goes through the
   checker: at its fixpoint every path that is not orderable has a dependency that is
   not orderable either; following these for |outputs|+1 steps must repeat a path. *)
From MV Require Import Base.Strs Base.LexFacts Graph.Manifest Graph.Check Graph.Spec Graph.LfpFacts Graph.Proofs.
From Coq Require Import Lia Relations Wellfounded.
Close Scope N_scope.
Open Scope nat_scope.

Definition str_dec : forall a b : str, {a = b} + {a <> b} := list_eq_dec N.eq_dec.

Lemma forallb_false_exists {A} (f : A -> bool) l : forallb f l = false -> exists x, In x l /\ f x = false.
Proof.
  induction l as [|y l IH]; cbn [forallb]; [discriminate|].
  destruct (f y) eqn:E; cbn.
  - intro H. destruct (IH H) as [x [Hx Hf]]. exists x. split; [right; exact Hx | exact Hf].
  - intros _. exists y. split; [left; reflexivity | exact E].
Qed.

(* at the fixpoint, a produced path that is not orderable has such a dependency *)
Lemma stuck_step bs p :
  In p (outs_all bs) -> ~ In p (orderable bs) ->
  exists q, dep_of bs q p /\ In q (outs_all bs) /\ ~ In q (orderable bs).
Proof.
  intros Hp Hn.
  destruct (g_done bs (outs_all bs) (orderable bs) p) eqn:E.
  - exfalso. apply Hn. unfold orderable in *. apply lfp_closed; [apply g_done_mono | exact Hp | exact E].
  - unfold g_done in E. apply Bool.negb_false_iff in E. apply str_mem_In in E.
    unfold blocked in E. apply In_outs_all in E. destruct E as [b [Hb Hpo]].
    apply filter_In in Hb. destruct Hb as [Hb Hr]. apply Bool.negb_true_iff in Hr.
    unfold ready in Hr. apply forallb_false_exists in Hr. destruct Hr as [q [Hq Hf]].
    apply Bool.orb_false_iff in Hf. destruct Hf as [H1 H2].
    apply Bool.negb_false_iff in H1. apply str_mem_In in H1. apply str_mem_false in H2.
    exists q. split; [exists b; tauto | tauto].
Qed.

(* descending chains: each element is a direct dependency of the next one *)
Inductive chain (bs : list build) : list str -> Prop :=
| chain_one x : chain bs [x]
| chain_cons y x l : dep_of bs y x -> chain bs (x :: l) -> chain bs (y :: x :: l).

Lemma long_chain bs p n :
  In p (outs_all bs) -> ~ In p (orderable bs) ->
  exists l, length l = S n /\ chain bs l /\
            (forall x, In x l -> In x (outs_all bs)).
Proof.
  intros Hp Hn.
  assert (H : exists y l, length (y :: l) = S n /\ chain bs (y :: l) /\
                          (forall x, In x (y :: l) -> In x (outs_all bs)) /\ ~ In y (orderable bs)).
  { induction n as [|n IH].
    - exists p, []. repeat split; [constructor | intros x [<-|[]]; exact Hp | exact Hn].
    - destruct IH as [y [l [Hl [Hc [Ha Hy]]]]].
      destruct (stuck_step bs y (Ha y (or_introl eq_refl)) Hy) as [q [Hd [Hq Hnq]]].
      exists q, (y :: l). repeat split.
      + cbn [length] in *. lia.
      + constructor; assumption.
      + intros x [<-|Hx]; [exact Hq | apply Ha; exact Hx].
      + exact Hnq. }
  destruct H as [y [l [Hl [Hc [Ha _]]]]]. exists (y :: l). tauto.
Qed.

Lemma not_NoDup_split (l : list str) :
  ~ NoDup l -> exists x l1 l2 l3, l = l1 ++ x :: l2 ++ x :: l3.
Proof.
  induction l as [|a l IH]; intro H.
  - exfalso. apply H. constructor.
  - destruct (in_dec str_dec a l) as [Hin|Hnin].
    + apply in_split in Hin. destruct Hin as [l2 [l3 ->]]. exists a, [], l2, l3. reflexivity.
    + assert (Hn : ~ NoDup l) by (intro Hd; apply H; constructor; assumption).
      destruct (IH Hn) as [x [l1 [l2 [l3 ->]]]]. exists x, (a :: l1), l2, l3. reflexivity.
Qed.

Lemma chain_tail bs a l : l <> [] -> chain bs (a :: l) -> chain bs l.
Proof. intros Hne H. inversion H; subst; [contradiction | assumption]. Qed.

Lemma chain_suffix bs l1 : forall l2, l2 <> [] -> chain bs (l1 ++ l2) -> chain bs l2.
Proof.
  induction l1 as [|a l1 IH]; intros l2 Hne H; [exact H|].
  cbn [app] in H. apply IH; [exact Hne|]. apply (chain_tail bs a); [|exact H].
  intro E. apply app_eq_nil in E. destruct E as [_ E]. contradiction.
Qed.

Lemma chain_reaches bs m : forall y x r, chain bs (y :: m ++ x :: r) -> clos_trans str (dep_of bs) y x.
Proof.
  induction m as [|z m IH]; intros y x r H; cbn [app] in H.
  - inversion H; subst. apply t_step. assumption.
  - inversion H as [|? ? ? Hd Hc]; subst. apply t_trans with z; [apply t_step; exact Hd|].
    exact (IH z x r Hc).
Qed.

Theorem no_cycle_acyclic bs :
  (forall p, ~ clos_trans str (dep_of bs) p p) -> Acyclic bs.
Proof.
  intro Hnc. apply cyclic_paths_nil. destruct (cyclic_paths bs) as [|p rest] eqn:E; [reflexivity|]. exfalso.
  assert (Hp : In p (cyclic_paths bs)) by (rewrite E; left; reflexivity).
  unfold cyclic_paths in Hp. apply filter_In in Hp. destruct Hp as [Hpo Hn].
  apply Bool.negb_true_iff in Hn. apply str_mem_false in Hn.
  destruct (long_chain bs p (length (outs_all bs)) Hpo Hn) as [l [Hl [Hc Ha]]].
  assert (Hnd : ~ NoDup l).
  { intro Hd. assert (X := NoDup_incl_length Hd Ha). lia. }
  destruct (not_NoDup_split l Hnd) as [x [l1 [l2 [l3 ->]]]].
  assert (Hc' : chain bs (x :: l2 ++ x :: l3)) by (apply (chain_suffix bs l1); [discriminate | exact Hc]).
  exact (Hnc x (chain_reaches bs l2 x x l3 Hc')).
Qed.

Theorem acyclic_iff_no_cycle bs :
  Acyclic bs <-> forall p, ~ clos_trans str (dep_of bs) p p.
Proof. split; [apply acyclic_no_cycle | apply no_cycle_acyclic]. Qed.
