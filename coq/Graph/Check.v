(* Graph/Check.v — the executable judge of C04: is a parsed manifest well-formed
   and closed?  Every sub-check returns the list of OFFENDERS (so that a failure
   names the offending statement / path); [check] concatenates them and the
   manifest passes iff the list is empty.  The declarative meaning is
   Graph/Spec.v; soundness and completeness are proved in Graph/Proofs.v.
   No proofs in this file. *)
From MV Require Import Base.Strs Graph.Manifest.
Open Scope N_scope.

(* ------------------------------------------------------------------ the graph of a manifest *)
Definition outs_of (b : build) : list str := b_outs b ++ b_iouts b.
(* explicit, implicit and order-only inputs: the edges of the dependency graph *)
Definition deps_of (b : build) : list str := b_ins b ++ b_imps b ++ b_oos b.
(* ... plus validations: everything that has to exist or be produced *)
Definition ins_of (b : build) : list str := deps_of b ++ b_valids b.

Definition outs_all (bs : list build) : list str := concat (map outs_of bs).
Definition ins_all (bs : list build) : list str := concat (map ins_of bs).
Definition all_outs (m : manifest) : list str := outs_all (m_builds m).
Definition all_ins (m : manifest) : list str := ins_all (m_builds m).

Definition rule_names (m : manifest) : list str := map r_name (m_rules m).

(* elements that occur again further right *)
Fixpoint dups (l : list str) : list str :=
  match l with
  | [] => []
  | x :: r => if str_mem x r then x :: dups r else dups r
  end.

(* ------------------------------------------------------------------ least fixpoints over a finite universe *)
(* S_{k+1} = filter (g S_k) U, from S_0 = [], until the length stops growing.
   For a monotone g this is the least S with  g S x = true -> x in S  (x in U);
   |U| rounds always suffice. *)
Section Lfp.
  Variable g : list str -> str -> bool.
  Variable U : list str.
  Definition lstep (X : list str) : list str := filter (g X) U.
  Fixpoint lfp_go (fuel : nat) (X : list str) : list str :=
    match fuel with
    | O => X
    | S f =>
        let X' := lstep X in
        if Nat.leb (length X') (length X) then X else lfp_go f X'
    end.
  Definition lfp : list str := lfp_go (length U) [].
End Lfp.

(* ------------------------------------------------------------------ acyclicity by peeling *)
(* a statement is ready when each of its inputs is a leaf (not produced) or done *)
Definition ready (ao done : list str) (b : build) : bool :=
  forallb (fun q => negb (str_mem q ao) || str_mem q done) (deps_of b).
(* outputs of statements that are not ready *)
Definition blocked (bs : list build) (ao done : list str) : list str :=
  outs_all (filter (fun b => negb (ready ao done b)) bs).
Definition g_done (bs : list build) (ao : list str) (done : list str) : str -> bool :=
  let bl := blocked bs ao done in fun p => negb (str_mem p bl).
(* the produced paths that can be put in dependency order *)
Definition orderable (bs : list build) : list str :=
  let ao := outs_all bs in lfp (g_done bs ao) ao.
Definition cyclic_paths (bs : list build) : list str :=
  let d := orderable bs in filter (fun p => negb (str_mem p d)) (outs_all bs).

(* ------------------------------------------------------------------ reachability *)
Definition g_reach (bs : list build) (root : str) (R : list str) : str -> bool :=
  let act := filter (fun b => existsb (fun o => str_mem o R) (outs_of b)) bs in
  let front := root :: concat (map (fun b => outs_of b ++ deps_of b) act) in
  fun p => str_mem p front.
Definition reach_set (bs : list build) (root : str) : list str :=
  lfp (g_reach bs root) (root :: outs_all bs ++ ins_all bs).

(* ------------------------------------------------------------------ offenders *)
Inductive cerr : Type :=
| EDupRule (r : str)                 (* rule defined twice, or a rule named phony *)
| EUndefRule (out r : str)           (* statement producing [out] uses undefined rule [r] *)
| EDupOutput (p : str)               (* [p] is produced twice *)
| ECycle (p : str)                   (* [p] is on, or depends on, a dependency cycle *)
| EMissing (out q : str)             (* input [q] of the statement producing [out] neither exists nor is produced *)
| EBadDefault (d : str)              (* default target that is no path of the graph *)
| EUnreach (root p : str).           (* [p] must be, and is not, reachable from [root] *)

Definition first_out (b : build) : str := match b_outs b with o :: _ => o | [] => [] end.

Definition chk_rules (m : manifest) : list cerr :=
  map EDupRule (dups (rule_names m) ++ (if str_mem phony (rule_names m) then [phony] else [])).

Definition rule_ok (m : manifest) (b : build) : bool :=
  str_eqb (b_rule b) phony || str_mem (b_rule b) (rule_names m).
Definition chk_defined (m : manifest) : list cerr :=
  map (fun b => EUndefRule (first_out b) (b_rule b))
      (filter (fun b => negb (rule_ok m b)) (m_builds m)).

Definition chk_unique (m : manifest) : list cerr := map EDupOutput (dups (all_outs m)).

Definition chk_acyclic (m : manifest) : list cerr := map ECycle (cyclic_paths (m_builds m)).

Definition missing_of (ao files : list str) (b : build) : list str :=
  filter (fun q => negb (str_mem q files || str_mem q ao)) (ins_of b).
Definition chk_closed (m : manifest) (files : list str) : list cerr :=
  let ao := all_outs m in
  concat (map (fun b => map (EMissing (first_out b)) (missing_of ao files b)) (m_builds m)).

Definition chk_defaults (m : manifest) : list cerr :=
  let ps := all_outs m ++ all_ins m in
  map EBadDefault (filter (fun d => negb (str_mem d ps)) (m_defaults m)).

Definition chk_reach (m : manifest) (root : str) (need : list str) : list cerr :=
  match need with
  | [] => []
  | _ => let R := reach_set (m_builds m) root in
         map (EUnreach root) (filter (fun p => negb (str_mem p R)) need)
  end.

Definition root_all : str := s2l "all".
Definition root_test : str := s2l "meson-test-prereq".

(* [files]: the paths that exist after configuration; [need_all]/[need_test]:
   outputs of the build-by-default targets / of the targets tests run or depend on *)
Definition check (m : manifest) (files need_all need_test : list str) : list cerr :=
  chk_rules m ++ chk_defined m ++ chk_unique m ++ chk_acyclic m ++ chk_closed m files ++
  chk_defaults m ++ chk_reach m root_all need_all ++ chk_reach m root_test need_test.
