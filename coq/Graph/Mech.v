(* Graph/Mech.v — the uniqueness MECHANISM of the ninja backend as a state machine:
   NinjaBuild.add_rule / add_build, NinjaBuildElement.check_outputs and write
   (mesonbuild/backend/ninjabackend.py:316-502), and the reserved target names
   (mesonbuild/coredata.py:484-505, mesonbuild/interpreter/interpreter.py:3431-3446).
   Abstract level: a statement is its lists of names; the textual rendering of the
   build line (ninja_quote, the backslash->slash replacement at :406, response
   files) is not modelled here.  No proofs in this file. *)
From MV Require Import Base.Strs Graph.Manifest.
Open Scope N_scope.

(* ------------------------------------------------------------------ elements *)
Record elem := mkElem {
  e_outs : list str;  e_iouts : list str;     (* outfilenames / implicit_outfilenames *)
  e_rule : str;                               (* rulename *)
  e_ins : list str;                           (* infilenames *)
  e_deps : list str;  e_oos : list str;       (* deps / orderdeps (Python sets) *)
  e_err : bool;                               (* output_errors is non-empty  (:336,:448) *)
  e_bound : bool }.                           (* the .rule attribute was set by add_build (:489) *)

Record nbuild := mkNB {
  n_all : list str;                           (* the shared all_outputs set (:335, :568) *)
  n_rules : list str;                         (* ruledict keys, insertion order (:454) *)
  n_elems : list elem }.                      (* build_elements, NEWEST FIRST *)

Definition nb0 : nbuild := mkNB [] [] [].

Inductive op : Type :=
| OpRule (name : str)
| OpBuild (outs iouts : list str) (rule : str) (ins deps oos : list str).

Inductive mres (A : Type) : Type :=
| MOk (a : A)
| MMesonErr             (* MesonException *)
| MPyErr.               (* an internal Python error escapes (AttributeError) *)
Arguments MOk {A} a.
Arguments MMesonErr {A}.
Arguments MPyErr {A}.

(* check_outputs (:445-449):
     for n in self.outfilenames:
         if n in self.all_outputs: self.output_errors = ...
         self.all_outputs.add(n)
   [names] is the list the loop runs over. *)
Fixpoint check_outputs (names : list str) (all : list str) (err : bool) : list str * bool :=
  match names with
  | [] => (all, err)
  | n :: r =>
      if str_mem n all then check_outputs r all true
      else check_outputs r (n :: all) err
  end.

(* Which names the loop covers.  [fixed = false] is the code as it stands
   (explicit outputs only); [fixed = true] is the code after
   pending/C04-implicit-outputs-unchecked.diff (explicit + implicit outputs).
   Throughout this file [fixed = true] means: both pending C04 patches applied. *)
Definition checked_names (fixed : bool) (outs iouts : list str) : list str :=
  if fixed then outs ++ iouts else outs.

(* add_rule (:463-467) and add_build (:482-491) *)
Definition apply_op (fixed : bool) (st : nbuild) (o : op) : mres nbuild :=
  match o with
  | OpRule name =>
      if str_mem name (n_rules st) then MMesonErr                      (* :464-465 *)
      else MOk (mkNB (n_all st) (n_rules st ++ [name]) (n_elems st))
  | OpBuild outs iouts rule ins deps oos =>
      let '(all', err) := check_outputs (checked_names fixed outs iouts) (n_all st) false in   (* :483 *)
      let bound := negb (str_eqb rule phony) && str_mem rule (n_rules st) in   (* :486-489 *)
      MOk (mkNB all' (n_rules st)
                (mkElem outs iouts rule ins deps oos err bound :: n_elems st))  (* :484 *)
  end.

Fixpoint run_ops (fixed : bool) (st : nbuild) (ops : list op) : mres nbuild :=
  match ops with
  | [] => MOk st
  | o :: r =>
      match apply_op fixed st o with
      | MOk st' => run_ops fixed st' r
      | MMesonErr => MMesonErr
      | MPyErr => MPyErr
      end
  end.

Definition has_nl (s : str) : bool := memb c_nl s.
Definition has_pipe (s : str) : bool := memb c_pipe s.
Definition elem_names (e : elem) : list str :=
  e_outs e ++ e_iouts e ++ e_ins e ++ e_deps e ++ e_oos e.

(* ninja_quote(name, is_build_line=True) (:115-128) raises MesonException for a
   newline; after pending/C04-pipe-in-path.diff also for '|', which the Ninja
   lexer cannot represent inside a path ([fixed = true]). *)
Definition unquotable (fixed : bool) (s : str) : bool := has_nl s || (fixed && has_pipe s).

(* write (:493-502).  First loop: count_rule_references -> _should_use_rspfile
   (:362-371) reads self.rule, which does not exist when add_build found no rule:
   AttributeError.  Then the referenced rules are written, then every element:
   output_errors raises MesonException (:381-382), as does a name ninja_quote
   rejects.  Result: the names of the rules written and the statements in file
   order. *)
Definition elems_in_order (st : nbuild) : list elem := rev (n_elems st).

Definition write (fixed : bool) (st : nbuild) : mres (list str * list elem) :=
  let es := elems_in_order st in
  if existsb (fun e => negb (str_eqb (e_rule e) phony) && negb (e_bound e)) es then MPyErr
  else if existsb (fun e => e_err e || existsb (unquotable fixed) (elem_names e)) es then MMesonErr
  else MOk (filter (fun r => negb (str_eqb r phony) && existsb (fun e => str_eqb (e_rule e) r) es)
                   (n_rules st), es).      (* :373-378: a phony statement counts no reference *)

Definition run_and_write (fixed : bool) (ops : list op) : mres (list str * list elem) :=
  match run_ops fixed nb0 ops with
  | MOk st => write fixed st
  | MMesonErr => MMesonErr
  | MPyErr => MPyErr
  end.

(* ------------------------------------------------------------------ reserved names *)
(* coredata.py:484-505 *)
Definition forbidden_target_names : list str :=
  map s2l ["clean"; "clean-ctlist"; "clean-gcno"; "clean-gcda"; "coverage"; "coverage-text";
           "coverage-xml"; "coverage-html"; "phony"; "PHONY"; "all"; "test"; "benchmark";
           "install"; "uninstall"; "build.ninja"; "scan-build"; "reconfigure"; "dist";
           "distcheck"]%string.

(* interpreter.py:3431-3446; true = the name is rejected (InvalidArguments) *)
Definition name_rejected (name : str) (in_root : bool) : bool :=
  if prefixb (s2l "meson-internal__") name then true               (* :3432 *)
  else if prefixb (s2l "meson-") name && negb (memb c_dot name) then true   (* :3435 *)
  else if str_mem name forbidden_target_names then in_root         (* :3438-3444 *)
  else false.

(* the outputs the ninja backend itself produces in the root of the build
   directory, whatever the project: generate_phony (PHONY), generate_tests
   (test, benchmark), generate_install, generate_dist, generate_utils
   (uninstall), generate_ending (all, meson-*-prereq, clean, clean-ctlist,
   build.ninja, meson-implicit-outs, reconfigure), generate_coverage_rules /
   generate_gcov_clean, generate_scanbuild; every create_phony_target adds
   meson-internal__<name> *)
Definition backend_root_outputs : list str :=
  map s2l ["PHONY"; "test"; "benchmark"; "install"; "dist"; "uninstall"; "all";
           "meson-test-prereq"; "meson-benchmark-prereq"; "clean"; "clean-ctlist";
           "build.ninja"; "meson-implicit-outs"; "reconfigure";
           "clean-gcno"; "clean-gcda"; "coverage"; "coverage-xml"; "coverage-text";
           "coverage-html"; "scan-build"]%string.

(* ------------------------------------------------------------------ canonical rendering helpers *)
(* insertion sort by code point (Python sorted()), dropping duplicates (sets) *)
Fixpoint sinsert (x : str) (l : list str) : list str :=
  match l with
  | [] => [x]
  | y :: r => match str_cmp x y with
              | Lt => x :: l
              | Eq => l
              | Gt => y :: sinsert x r
              end
  end.
Definition ssort (l : list str) : list str := fold_right sinsert [] l.
