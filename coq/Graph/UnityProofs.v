(* Graph/UnityProofs.v — extract_all_objects of a unity target: when it names objects
   that are never compiled (known finding C04-unity-extracted-objects). *)
From MV Require Import Base.Strs Base.LexFacts Graph.Manifest Graph.Check Graph.LfpFacts Graph.Unity.
From Coq Require Import Lia.
Close Scope N_scope.
Open Scope nat_scope.

(* the code as it stands lists an object no statement produces: a source listed twice ... *)
Theorem extracted_are_compiled_refuted :
  exists srcs size, 2 <= size /\ exists o, In o (extracted_objects srcs size) /\ ~ In o (compiled_objects srcs size).
Proof.
  exists [(s2l "a.c", true); (s2l "a.c", true); (s2l "b.c", true)], 2. split; [lia|].
  exists (UUnity 1). split; [vm_compute; tauto|]. vm_compute. intros [H|[]]. discriminate.
Qed.

(* ... or an assembly source next to C sources *)
Theorem extracted_are_compiled_refuted_asm :
  exists srcs size, 2 <= size /\ NoDup (map fst srcs) /\
    exists o, In o (extracted_objects srcs size) /\ ~ In o (compiled_objects srcs size).
Proof.
  exists [(s2l "a.c", true); (s2l "b.c", true); (s2l "c.S", false)], 2. split; [lia|]. split.
  - cbn. repeat constructor; cbn; intuition discriminate.
  - exists (UUnity 1). split; [vm_compute; tauto|]. vm_compute. intros [H|[H|[]]]; discriminate.
Qed.

Lemma udedup_nodup l : forall seen,
  NoDup (map fst l) -> (forall x, In x (map fst l) -> ~ In x seen) -> udedup l seen = l.
Proof.
  induction l as [|[n c] l IH]; intros seen Hn Hs; [reflexivity|]. cbn [udedup map fst] in *.
  inversion Hn as [|? ? Hx Hn']; subst.
  assert (E : str_mem n seen = false) by (apply str_mem_false; apply Hs; left; reflexivity).
  rewrite E. f_equal. apply IH; [exact Hn'|].
  intros x Hx' [<-|Hin]; [contradiction | exact (Hs x (or_intror Hx') Hin)].
Qed.

(* the strongest true statement: with no duplicates and only sources that can join a
   unity file, the two sides name the same objects *)
Theorem extracted_are_compiled_partial srcs size :
  NoDup (map fst srcs) -> forallb snd srcs = true ->
  extracted_objects srcs size = compiled_objects srcs size.
Proof.
  intros Hn Hc. unfold compiled_objects, extracted_objects.
  rewrite (udedup_nodup srcs [] Hn) by (intros x _ []).
  assert (Hf : filter snd srcs = srcs).
  { apply filter_all_true. rewrite forallb_forall in Hc. exact Hc. }
  rewrite Hf.
  replace (filter (fun s : str * bool => negb (snd s)) srcs) with (@nil usrc).
  - cbn [map]. rewrite app_nil_r. reflexivity.
  - symmetry. apply filter_nil. rewrite forallb_forall in Hc. intros x Hx. rewrite (Hc x Hx). reflexivity.
Qed.

Example extracted_guard_satisfiable :
  NoDup (map fst [(s2l "a.c", true); (s2l "b.c", true); (s2l "c.c", true)]) /\
  forallb snd [(s2l "a.c", true); (s2l "b.c", true); (s2l "c.c", true)] = true.
Proof. split; [cbn; repeat constructor; cbn; intuition discriminate | reflexivity]. Qed.

(* with the repair the extracted objects are exactly the compiled ones, for every source
   list (repeats, assembly) and every unity_size *)
Theorem extracted_fixed_are_compiled srcs size o :
  In o (extracted_objects_fixed srcs size) <-> In o (compiled_objects srcs size).
Proof. unfold extracted_objects_fixed, compiled_objects. cbv zeta. rewrite !in_app_iff. tauto. Qed.
