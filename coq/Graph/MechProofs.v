(* Graph/MechProofs.v — the uniqueness mechanism: for EVERY sequence of add_rule /
   add_build, if write does not raise then the names check_outputs covers are
   pairwise distinct over the whole manifest, every statement uses a rule that is
   written, and no rule is written twice. *)
From MV Require Import Base.Strs Base.LexFacts Graph.Manifest Graph.Check Graph.Spec Graph.LfpFacts
                       Graph.Proofs Graph.Mech.
From Coq Require Import Lia.
Close Scope N_scope.
Open Scope nat_scope.

(* ------------------------------------------------------------------ lists *)
Lemma NoDup_app_intro {A} (a b : list A) :
  NoDup a -> NoDup b -> (forall x, In x a -> ~ In x b) -> NoDup (a ++ b).
Proof.
  induction a as [|x a IH]; intros Ha Hb Hd; cbn [app]; [exact Hb|].
  inversion Ha as [|? ? Hx Ha']; subst. constructor.
  - intro H. apply in_app_or in H. destruct H as [H|H]; [contradiction|].
    exact (Hd x (or_introl eq_refl) H).
  - apply IH; [exact Ha' | exact Hb | intros y Hy; apply Hd; right; exact Hy].
Qed.

Lemma NoDup_filter' {A} (f : A -> bool) l : NoDup l -> NoDup (filter f l).
Proof.
  induction 1 as [|x l Hx Hl IH]; cbn [filter]; [constructor|].
  destruct (f x); [constructor; [|exact IH] | exact IH].
  intro H. apply filter_In in H. tauto.
Qed.

(* ------------------------------------------------------------------ check_outputs *)
Lemma check_outputs_spec names : forall all err all' err',
  check_outputs names all err = (all', err') ->
  incl all all' /\ incl names all' /\ (forall x, In x all' -> In x all \/ In x names) /\
  (err' = false -> err = false /\ NoDup names /\ forall n, In n names -> ~ In n all).
Proof.
  induction names as [|n names IH]; intros all err all' err' H; cbn [check_outputs] in H.
  - inversion H; subst. repeat split.
    + apply incl_refl.
    + intros x [].
    + intros x Hx. left. exact Hx.
    + assumption.
    + constructor.
    + intros n [].
  - destruct (str_mem n all) eqn:E.
    + apply IH in H. destruct H as [H1 [H2 [H3 H4]]]. apply str_mem_In in E. repeat split.
      * exact H1.
      * intros x [<-|Hx]; [apply H1; exact E | apply H2; exact Hx].
      * intros x Hx. destruct (H3 x Hx); [left | right; right]; assumption.
      * destruct (H4 H) as [Hf _]. discriminate.
      * destruct (H4 H) as [Hf _]. discriminate.
      * destruct (H4 H) as [Hf _]. discriminate.
    + apply IH in H. destruct H as [H1 [H2 [H3 H4]]]. apply str_mem_false in E. repeat split.
      * intros x Hx. apply H1. right. exact Hx.
      * intros x [<-|Hx]; [apply H1; left; reflexivity | apply H2; exact Hx].
      * intros x Hx. destruct (H3 x Hx) as [[<-|Hx']|Hx']; [right; left; reflexivity | left; exact Hx' | right; right; exact Hx'].
      * apply H4. assumption.
      * destruct (H4 H) as [_ [Hn Hd]]. constructor; [|exact Hn].
        intro Hin. exact (Hd n Hin (or_introl eq_refl)).
      * destruct (H4 H) as [_ [Hn Hd]]. intros x [<-|Hx]; [exact E|].
        intro Hin. exact (Hd x Hx (or_intror Hin)).
Qed.

(* ------------------------------------------------------------------ the invariant *)
Definition cn (fixed : bool) (e : elem) : list str := checked_names fixed (e_outs e) (e_iouts e).
Definition good (e : elem) : bool := negb (e_err e).

Record minv (fixed : bool) (st : nbuild) : Prop := mkMinv {
  mi_all : forall e n, In e (n_elems st) -> In n (cn fixed e) -> In n (n_all st);
  mi_nodup : NoDup (concat (map (cn fixed) (filter good (elems_in_order st))));
  mi_rules : NoDup (n_rules st);
  mi_bound : forall e, In e (n_elems st) -> e_bound e = true ->
                       e_rule e <> phony /\ In (e_rule e) (n_rules st) }.

Lemma minv_nb0 fixed : minv fixed nb0.
Proof. constructor; cbn; try constructor; intros; contradiction. Qed.

Lemma In_good_names fixed l n :
  In n (concat (map (cn fixed) (filter good l))) -> exists e, In e l /\ In n (cn fixed e).
Proof.
  intro H. apply in_concat in H. destruct H as [x [Hx Hn]]. apply in_map_iff in Hx.
  destruct Hx as [e [<- He]]. apply filter_In in He. exists e. tauto.
Qed.

Lemma minv_step fixed st o st' : minv fixed st -> apply_op fixed st o = MOk st' -> minv fixed st'.
Proof.
  intros [Ha Hn Hr Hb] H. destruct o as [name | outs iouts rule ins deps oos]; cbn [apply_op] in H.
  - destruct (str_mem name (n_rules st)) eqn:E; [discriminate|]. inversion H; subst; clear H.
    apply str_mem_false in E. constructor; cbn.
    + exact Ha.
    + exact Hn.
    + apply NoDup_app_intro; [exact Hr | constructor; [intros [] | constructor] |].
      intros x Hx [<-|[]]. contradiction.
    + intros e He Hbd. destruct (Hb e He Hbd). split; [assumption | apply in_or_app; left; assumption].
  - destruct (check_outputs (checked_names fixed outs iouts) (n_all st) false) as [all' err] eqn:Ec.
    inversion H; subst; clear H. apply check_outputs_spec in Ec. destruct Ec as [H1 [H2 [H3 H4]]].
    constructor; cbn [n_all n_elems n_rules].
    + intros e n [<-|He] Hin; [apply H2; exact Hin | apply H1; apply (Ha e n He Hin)].
    + unfold elems_in_order in *. cbn [n_elems rev]. rewrite filter_app, map_app, concat_app.
      apply NoDup_app_intro; [exact Hn | |].
      * cbn [filter]. unfold good at 1. cbn [e_err]. destruct err; cbn; [constructor|].
        rewrite app_nil_r. unfold cn. cbn [e_outs e_iouts]. apply H4. reflexivity.
      * intros x Hx. cbn [filter]. unfold good at 1. cbn [e_err]. destruct err; cbn; [tauto|].
        rewrite app_nil_r. unfold cn at 1. cbn [e_outs e_iouts]. intro Hx'.
        destruct (H4 eq_refl) as [_ [_ Hd]]. apply (Hd x Hx').
        apply In_good_names in Hx. destruct Hx as [e [He Hin]]. apply in_rev in He. exact (Ha e x He Hin).
    + exact Hr.
    + intros e [<-|He] Hbd; [|exact (Hb e He Hbd)]. cbn [e_bound e_rule] in *.
      apply Bool.andb_true_iff in Hbd. destruct Hbd as [Hp Hm]. split.
      * intro E. rewrite E in Hp. rewrite str_eqb_refl in Hp. discriminate.
      * apply str_mem_In. exact Hm.
Qed.

Lemma minv_run fixed ops : forall st st', minv fixed st -> run_ops fixed st ops = MOk st' -> minv fixed st'.
Proof.
  induction ops as [|o ops IH]; intros st st' Hi H; cbn [run_ops] in H.
  - inversion H; subst. exact Hi.
  - destruct (apply_op fixed st o) as [st1| |] eqn:E; try discriminate.
    apply (IH st1 st'); [exact (minv_step fixed st o st1 Hi E) | exact H].
Qed.

(* ------------------------------------------------------------------ write *)
Lemma write_ok fixed st rs es :
  write fixed st = MOk (rs, es) ->
  es = elems_in_order st /\
  rs = filter (fun r => negb (str_eqb r phony) && existsb (fun e => str_eqb (e_rule e) r) es) (n_rules st) /\
  (forall e, In e es -> e_rule e = phony \/ e_bound e = true) /\
  (forall e, In e es -> e_err e = false /\ forall n, In n (elem_names e) -> unquotable fixed n = false).
Proof.
  unfold write. intros H.
  destruct (existsb (fun e => negb (str_eqb (e_rule e) phony) && negb (e_bound e)) (elems_in_order st)) eqn:E1; [discriminate|].
  destruct (existsb (fun e => e_err e || existsb (unquotable fixed) (elem_names e)) (elems_in_order st)) eqn:E2; [discriminate|].
  inversion H; subst; clear H. repeat split.
  - intros e He. destruct (str_eqb (e_rule e) phony) eqn:Ep; [left; apply str_eqb_eq; exact Ep|]. right.
    destruct (e_bound e) eqn:Eb; [reflexivity|]. exfalso.
    assert (X : existsb (fun e => negb (str_eqb (e_rule e) phony) && negb (e_bound e)) (elems_in_order st) = true).
    { apply existsb_exists. exists e. split; [exact He|]. rewrite Ep, Eb. reflexivity. }
    congruence.
  - destruct (e_err e) eqn:Ee; [|reflexivity]. exfalso.
    assert (X : existsb (fun e => e_err e || existsb (unquotable fixed) (elem_names e)) (elems_in_order st) = true).
    { apply existsb_exists. exists e. split; [exact H|]. rewrite Ee. reflexivity. }
    congruence.
  - intros n Hn. destruct (unquotable fixed n) eqn:Eu; [|reflexivity]. exfalso.
    assert (X : existsb (fun e => e_err e || existsb (unquotable fixed) (elem_names e)) (elems_in_order st) = true).
    { apply existsb_exists. exists e. split; [exact H|]. apply Bool.orb_true_iff. right.
      apply existsb_exists. exists n. split; assumption. }
    congruence.
Qed.

Lemma run_and_write_ok fixed ops rs es :
  run_and_write fixed ops = MOk (rs, es) ->
  exists st, minv fixed st /\ write fixed st = MOk (rs, es).
Proof.
  unfold run_and_write. destruct (run_ops fixed nb0 ops) as [st| |] eqn:E; try discriminate.
  intro H. exists st. split; [|exact H]. exact (minv_run fixed ops nb0 st (minv_nb0 fixed) E).
Qed.

Lemma filter_good_all l : (forall e, In e l -> e_err e = false) -> filter good l = l.
Proof. intro H. apply filter_all_true. intros e He. unfold good. rewrite (H e He). reflexivity. Qed.

(* the names check_outputs covers are produced once in whatever write lets through *)
Theorem mech_checked_names_unique fixed ops rs es :
  run_and_write fixed ops = MOk (rs, es) -> NoDup (concat (map (cn fixed) es)).
Proof.
  intro H. apply run_and_write_ok in H. destruct H as [st [Hi Hw]].
  apply write_ok in Hw. destruct Hw as [-> [_ [_ He]]].
  rewrite <- (filter_good_all (elems_in_order st)); [apply (mi_nodup fixed st Hi)|].
  intros e Hin. apply (He e Hin).
Qed.

(* after the fix: explicit AND implicit outputs *)
Theorem mech_outputs_unique ops rs es :
  run_and_write true ops = MOk (rs, es) ->
  NoDup (concat (map (fun e => e_outs e ++ e_iouts e) es)).
Proof. exact (mech_checked_names_unique true ops rs es). Qed.

(* the code as it stands: explicit outputs only ... *)
Theorem mech_explicit_outputs_unique_partial ops rs es :
  run_and_write false ops = MOk (rs, es) -> NoDup (concat (map e_outs es)).
Proof. exact (mech_checked_names_unique false ops rs es). Qed.

(* ... and all outputs under the guard "no statement has implicit outputs" *)
Definition no_implicit (ops : list op) : bool :=
  forallb (fun o => match o with OpBuild _ (_ :: _) _ _ _ _ => false | _ => true end) ops.

Lemma run_ops_no_implicit fixed ops : forall st st',
  no_implicit ops = true -> (forall e, In e (n_elems st) -> e_iouts e = []) ->
  run_ops fixed st ops = MOk st' -> forall e, In e (n_elems st') -> e_iouts e = [].
Proof.
  induction ops as [|o ops IH]; intros st st' Hn Hs H; cbn [run_ops] in H.
  - inversion H; subst. exact Hs.
  - cbn [no_implicit forallb] in Hn. apply Bool.andb_true_iff in Hn. destruct Hn as [Ho Hn].
    destruct (apply_op fixed st o) as [st1| |] eqn:E; try discriminate.
    apply (IH st1 st' Hn); [|exact H].
    destruct o as [name | outs iouts rule ins deps oos]; cbn [apply_op] in E.
    + destruct (str_mem name (n_rules st)); [discriminate|]. inversion E; subst. exact Hs.
    + destruct (check_outputs (checked_names fixed outs iouts) (n_all st) false) as [all' err].
      inversion E; subst. cbn [n_elems]. intros e [<-|He]; [|exact (Hs e He)].
      cbn [e_iouts]. destruct iouts; [reflexivity | discriminate].
Qed.

Theorem mech_outputs_unique_partial ops rs es :
  no_implicit ops = true ->
  run_and_write false ops = MOk (rs, es) ->
  NoDup (concat (map (fun e => e_outs e ++ e_iouts e) es)).
Proof.
  intros Hn H. assert (Hu := mech_explicit_outputs_unique_partial ops rs es H).
  unfold run_and_write in H. destruct (run_ops false nb0 ops) as [st| |] eqn:E; try discriminate.
  apply write_ok in H. destruct H as [-> _].
  assert (Hi : forall e, In e (elems_in_order st) -> e_iouts e = []).
  { intros e He. apply in_rev in He.
    exact (run_ops_no_implicit false ops nb0 st Hn (fun e (H : In e []) => match H with end) E e He). }
  revert Hu Hi. generalize (elems_in_order st). intros l Hu Hi.
  replace (map (fun e => e_outs e ++ e_iouts e) l) with (map e_outs l); [exact Hu|].
  apply map_ext_in. intros e He. rewrite (Hi e He), app_nil_r. reflexivity.
Qed.

Example no_implicit_satisfiable :
  no_implicit [OpRule (s2l "R"); OpBuild [s2l "a"] [] (s2l "R") [s2l "x"] [] []] = true /\
  exists rs es, run_and_write false [OpRule (s2l "R"); OpBuild [s2l "a"] [] (s2l "R") [s2l "x"] [] []] = MOk (rs, es).
Proof. split; [reflexivity | eexists; eexists; vm_compute; reflexivity]. Qed.

(* the code as it stands does NOT keep implicit outputs apart (DESIGN 4 (j)) *)
Definition witness_j : list op :=
  [OpRule (s2l "R");
   OpBuild [s2l "a"] [s2l "i"] (s2l "R") [s2l "x"] [] [];
   OpBuild [s2l "b"] [s2l "i"] (s2l "R") [s2l "x"] [] []].

Theorem mech_outputs_unique_refuted :
  exists ops rs es, run_and_write false ops = MOk (rs, es) /\
                    ~ NoDup (concat (map (fun e => e_outs e ++ e_iouts e) es)).
Proof.
  exists witness_j. eexists. eexists. split; [vm_compute; reflexivity|].
  cbn. intro H. inversion H as [|? ? _ H1]; subst. inversion H1 as [|? ? Hn _]; subst.
  apply Hn. right. left. reflexivity.
Qed.

(* every statement written uses a rule that is written, no rule is written twice *)
Theorem mech_rules_defined fixed ops rs es :
  run_and_write fixed ops = MOk (rs, es) ->
  NoDup rs /\ ~ In phony rs /\ forall e, In e es -> e_rule e = phony \/ In (e_rule e) rs.
Proof.
  intro H. apply run_and_write_ok in H. destruct H as [st [Hi Hw]].
  apply write_ok in Hw. destruct Hw as [Hes [-> [Hb _]]]. repeat split.
  - apply NoDup_filter'. exact (mi_rules fixed st Hi).
  - intro Hp. apply filter_In in Hp. destruct Hp as [_ Hp]. rewrite str_eqb_refl in Hp. discriminate.
  - intros e He. destruct (Hb e He) as [Hp|Hbd]; [left; exact Hp|]. right.
    assert (Hin : In e (n_elems st)) by (subst es; apply in_rev; exact He).
    destruct (mi_bound fixed st Hi e Hin Hbd) as [Hnp Hr].
    apply filter_In. split; [exact Hr|]. apply Bool.andb_true_iff. split.
    + apply Bool.negb_true_iff. destruct (str_eqb (e_rule e) phony) eqn:E; [|reflexivity].
      apply str_eqb_eq in E. contradiction.
    + apply existsb_exists. exists e. split; [exact He | apply str_eqb_refl].
Qed.

(* after the fix no name that the Ninja lexer cannot represent is written *)
Theorem mech_names_representable ops rs es :
  run_and_write true ops = MOk (rs, es) ->
  forall e n, In e es -> In n (elem_names e) -> has_pipe n = false /\ has_nl n = false.
Proof.
  intros H e n He Hn. apply run_and_write_ok in H. destruct H as [st [_ Hw]].
  apply write_ok in Hw. destruct Hw as [_ [_ [_ Hq]]]. destruct (Hq e He) as [_ Hu].
  specialize (Hu n Hn). unfold unquotable in Hu. cbn in Hu. apply Bool.orb_false_iff in Hu. tauto.
Qed.

(* ------------------------------------------------------------------ bridge to the judge *)
Definition elem_to_build (e : elem) : build :=
  mkBuild (e_outs e) (e_iouts e) (e_rule e) (e_ins e) (e_deps e) (e_oos e) [] [].
Definition mech_manifest (rs : list str) (es : list elem) : manifest :=
  mkManifest [] [] (map (fun n => mkRule n []) rs) (map elem_to_build es) [].

Theorem mech_written_manifest ops rs es :
  run_and_write true ops = MOk (rs, es) ->
  let m := mech_manifest rs es in
  chk_rules m = [] /\ chk_defined m = [] /\ chk_unique m = [].
Proof.
  intros H m.
  assert (Hn : rule_names m = rs).
  { unfold m, mech_manifest, rule_names. cbn [m_rules]. rewrite map_map. cbn [r_name]. apply map_id. }
  destruct (mech_rules_defined true ops rs es H) as [H1 [H2 H3]].
  rewrite chk_rules_nil, chk_defined_nil, chk_unique_nil, Hn. repeat split; try assumption.
  - intros b Hb. unfold m, mech_manifest in Hb. cbn [m_builds] in Hb. apply in_map_iff in Hb.
    destruct Hb as [e [<- He]]. cbn [elem_to_build b_rule]. exact (H3 e He).
  - unfold all_outs, outs_all, m, mech_manifest. cbn [m_builds]. rewrite map_map.
    exact (mech_outputs_unique ops rs es H).
Qed.

(* ------------------------------------------------------------------ reserved names *)
Lemma backend_outputs_rejected :
  forallb (fun r => name_rejected r true) backend_root_outputs = true.
Proof. vm_compute. reflexivity. Qed.

(* a target name accepted in the root directory is none of the backend's own
   outputs (nor one of its meson-internal__ aliases) *)
Theorem accepted_name_not_reserved n :
  name_rejected n true = false ->
  ~ In n backend_root_outputs /\ prefixb (s2l "meson-internal__") n = false.
Proof.
  intro H. split.
  - intro Hin. assert (X := backend_outputs_rejected). rewrite forallb_forall in X.
    rewrite (X n Hin) in H. discriminate.
  - unfold name_rejected in H. destruct (prefixb (s2l "meson-internal__") n); [discriminate | reflexivity].
Qed.

Example accepted_name_exists : name_rejected (s2l "foo") true = false /\ name_rejected (s2l "test") false = false.
Proof. split; vm_compute; reflexivity. Qed.

(* ------------------------------------------------------------------ collisions in the op sequence itself *)
Definition op_outputs (o : op) : list str :=
  match o with OpRule _ => [] | OpBuild outs iouts _ _ _ _ => outs ++ iouts end.
Definition e_all_outs (e : elem) : list str := e_outs e ++ e_iouts e.

Lemma run_ops_outputs fixed ops : forall st st',
  run_ops fixed st ops = MOk st' ->
  concat (map e_all_outs (elems_in_order st')) =
  concat (map e_all_outs (elems_in_order st)) ++ concat (map op_outputs ops).
Proof.
  induction ops as [|o ops IH]; intros st st' H; cbn [run_ops] in H.
  - inversion H; subst. cbn. rewrite app_nil_r. reflexivity.
  - destruct (apply_op fixed st o) as [st1| |] eqn:E; try discriminate.
    rewrite (IH st1 st' H). cbn [map concat]. rewrite app_assoc. f_equal.
    destruct o as [name | outs iouts rule ins deps oos]; cbn [apply_op] in E.
    + destruct (str_mem name (n_rules st)); [discriminate|]. inversion E; subst.
      unfold elems_in_order. cbn [n_elems op_outputs]. rewrite app_nil_r. reflexivity.
    + destruct (check_outputs (checked_names fixed outs iouts) (n_all st) false) as [all' err].
      inversion E; subst. unfold elems_in_order. cbn [n_elems rev op_outputs].
      rewrite map_app, concat_app. cbn. rewrite app_nil_r. reflexivity.
Qed.

(* "two targets whose outputs would collide are rejected": whenever two statements
   of the op sequence (or one statement twice) name the same explicit or implicit
   output, write raises instead of producing a manifest *)
Theorem mech_collision_rejected ops rs es :
  run_and_write true ops = MOk (rs, es) -> NoDup (concat (map op_outputs ops)).
Proof.
  intro H. assert (Hu := mech_outputs_unique ops rs es H).
  unfold run_and_write in H. destruct (run_ops true nb0 ops) as [st| |] eqn:E; try discriminate.
  apply write_ok in H. destruct H as [-> _].
  assert (X := run_ops_outputs true ops nb0 st E). unfold elems_in_order at 2 in X. cbn in X.
  unfold e_all_outs in X. rewrite X in Hu. exact Hu.
Qed.
