(* Graph/Proofs.v — the judge is sound and complete:
     check m files need_all need_test = []  <->  WellFormed m files need_all need_test
   and every offender it reports is a genuine one. *)
From MV Require Import Base.Strs Base.LexFacts Graph.Manifest Graph.Check Graph.Spec Graph.LfpFacts.
From Coq Require Import Lia Relations Wellfounded.
Close Scope N_scope.
Open Scope nat_scope.

(* ------------------------------------------------------------------ the graph *)
Lemma In_outs_all bs p : In p (outs_all bs) <-> exists b, In b bs /\ In p (outs_of b).
Proof.
  unfold outs_all. rewrite in_concat. split.
  - intros [l [Hl Hp]]. apply in_map_iff in Hl. destruct Hl as [b [<- Hb]]. exists b. tauto.
  - intros [b [Hb Hp]]. exists (outs_of b). split; [apply in_map; exact Hb | exact Hp].
Qed.

Lemma In_ins_all bs p : In p (ins_all bs) <-> exists b, In b bs /\ In p (ins_of b).
Proof.
  unfold ins_all. rewrite in_concat. split.
  - intros [l [Hl Hp]]. apply in_map_iff in Hl. destruct Hl as [b [<- Hb]]. exists b. tauto.
  - intros [b [Hb Hp]]. exists (ins_of b). split; [apply in_map; exact Hb | exact Hp].
Qed.

Lemma deps_in_ins b q : In q (deps_of b) -> In q (ins_of b).
Proof. unfold ins_of. intro H. apply in_or_app. left. exact H. Qed.

(* ------------------------------------------------------------------ acyclicity *)
Lemma ready_spec ao done b :
  ready ao done b = true <-> forall q, In q (deps_of b) -> ~ In q ao \/ In q done.
Proof.
  unfold ready. rewrite forallb_forall. split; intros H q Hq; specialize (H q Hq).
  - apply Bool.orb_true_iff in H. destruct H as [H|H].
    + left. apply Bool.negb_true_iff in H. apply str_mem_false in H. exact H.
    + right. apply str_mem_In. exact H.
  - apply Bool.orb_true_iff. destruct H as [H|H].
    + left. apply Bool.negb_true_iff. apply str_mem_false. exact H.
    + right. apply str_mem_In. exact H.
Qed.

Lemma g_done_spec bs ao done p :
  g_done bs ao done p = true <->
  forall b, In b bs -> In p (outs_of b) -> ready ao done b = true.
Proof.
  unfold g_done, blocked. rewrite Bool.negb_true_iff, str_mem_false, In_outs_all. split.
  - intros H b Hb Hp. destruct (ready ao done b) eqn:E; [reflexivity|]. exfalso. apply H.
    exists b. split; [|exact Hp]. apply filter_In. split; [exact Hb|]. rewrite E. reflexivity.
  - intros H [b [Hb Hp]]. apply filter_In in Hb. destruct Hb as [Hb Hr].
    rewrite (H b Hb Hp) in Hr. discriminate.
Qed.

Lemma g_done_mono bs ao X Y x : incl X Y -> g_done bs ao X x = true -> g_done bs ao Y x = true.
Proof.
  intros Hi. rewrite !g_done_spec. intros H b Hb Hp. specialize (H b Hb Hp).
  rewrite ready_spec in *. intros q Hq. destruct (H q Hq) as [Hn|Hd]; [left; exact Hn | right; apply Hi; exact Hd].
Qed.

Lemma not_produced_acc bs q : ~ In q (outs_all bs) -> Acc (dep_of bs) q.
Proof.
  intros Hn. constructor. intros r [b [Hb [Hq _]]]. exfalso. apply Hn. apply In_outs_all. exists b. tauto.
Qed.

Lemma orderable_acc bs p : In p (orderable bs) -> Acc (dep_of bs) p.
Proof.
  unfold orderable. revert p.
  apply (lfp_least (g_done bs (outs_all bs)) (outs_all bs) (fun p => Acc (dep_of bs) p)).
  intros X HX p Hp Hg. constructor. intros q [b [Hb [Hpo Hq]]].
  rewrite g_done_spec in Hg. specialize (Hg b Hb Hpo). rewrite ready_spec in Hg.
  destruct (Hg q Hq) as [Hn|Hd]; [apply not_produced_acc; exact Hn | apply HX; exact Hd].
Qed.

Lemma acc_orderable bs p : Acc (dep_of bs) p -> In p (outs_all bs) -> In p (orderable bs).
Proof.
  induction 1 as [p _ IH]. intros Hp. unfold orderable.
  apply lfp_closed; [apply g_done_mono | exact Hp |].
  apply g_done_spec. intros b Hb Hpo. apply ready_spec. intros q Hq.
  destruct (str_mem q (outs_all bs)) eqn:E.
  - right. apply str_mem_In in E. apply IH; [|exact E]. exists b. tauto.
  - left. apply str_mem_false. exact E.
Qed.

Theorem cyclic_paths_nil bs : cyclic_paths bs = [] <-> Acyclic bs.
Proof.
  unfold cyclic_paths, Acyclic. rewrite filter_nil. split.
  - intros H p. destruct (str_mem p (outs_all bs)) eqn:E.
    + apply str_mem_In in E. specialize (H p E). apply Bool.negb_false_iff in H.
      apply str_mem_In in H. apply orderable_acc. exact H.
    + apply not_produced_acc. apply str_mem_false. exact E.
  - intros H p Hp. apply Bool.negb_false_iff. apply str_mem_In. apply acc_orderable; [apply H | exact Hp].
Qed.

(* a reported path really is not well-founded: it lies on or above a cycle *)
Theorem cyclic_paths_sound bs p : In p (cyclic_paths bs) -> ~ Acc (dep_of bs) p.
Proof.
  unfold cyclic_paths. intros H Ha. apply filter_In in H. destruct H as [Hp Hn].
  apply Bool.negb_true_iff in Hn. apply str_mem_false in Hn. apply Hn. apply acc_orderable; assumption.
Qed.

(* well-founded => no path depends on itself through any chain of statements *)
Theorem acyclic_no_cycle bs : Acyclic bs -> forall p, ~ clos_trans str (dep_of bs) p p.
Proof.
  intros H p. assert (Hw := wf_clos_trans _ _ H). induction (Hw p) as [p _ IH].
  intros Hc. exact (IH p Hc Hc).
Qed.

(* ------------------------------------------------------------------ reachability *)
Lemma g_reach_spec bs root R p :
  g_reach bs root R p = true <->
  p = root \/ exists b o, In b bs /\ In o (outs_of b) /\ In o R /\ In p (outs_of b ++ deps_of b).
Proof.
  unfold g_reach. rewrite str_mem_In. cbn [In]. split.
  - intros [H|H]; [left; symmetry; exact H|]. right.
    apply in_concat in H. destruct H as [l [Hl Hp]]. apply in_map_iff in Hl.
    destruct Hl as [b [<- Hb]]. apply filter_In in Hb. destruct Hb as [Hb He].
    apply existsb_exists in He. destruct He as [o [Ho Hm]]. apply str_mem_In in Hm.
    exists b, o. tauto.
  - intros [->|[b [o [Hb [Ho [Hr Hp]]]]]]; [left; reflexivity|]. right.
    apply in_concat. exists (outs_of b ++ deps_of b). split; [|exact Hp].
    apply in_map_iff. exists b. split; [reflexivity|]. apply filter_In. split; [exact Hb|].
    apply existsb_exists. exists o. split; [exact Ho | apply str_mem_In; exact Hr].
Qed.

Lemma g_reach_mono bs root X Y x : incl X Y -> g_reach bs root X x = true -> g_reach bs root Y x = true.
Proof.
  intros Hi. rewrite !g_reach_spec. intros [H|[b [o [Hb [Ho [Hr Hp]]]]]]; [left; exact H|].
  right. exists b, o. repeat split; try assumption. apply Hi. exact Hr.
Qed.

Theorem reach_set_spec bs root p : In p (reach_set bs root) <-> Reach bs root p.
Proof.
  unfold reach_set. split.
  - revert p. apply (lfp_least (g_reach bs root) _ (fun p => Reach bs root p)).
    intros X HX p _ Hg. apply g_reach_spec in Hg. destruct Hg as [->|[b [o [Hb [Ho [Hr Hp]]]]]].
    + constructor.
    + apply (Reach_step bs root b o p Hb Ho (HX o Hr) Hp).
  - induction 1 as [|b o p Hb Ho _ IH Hp].
    + apply lfp_closed; [apply g_reach_mono | left; reflexivity | apply g_reach_spec; left; reflexivity].
    + apply lfp_closed; [apply g_reach_mono | | apply g_reach_spec; right; exists b, o; tauto].
      right. apply in_or_app. apply in_app_or in Hp. destruct Hp as [Hp|Hp].
      * left. apply In_outs_all. exists b. tauto.
      * right. apply In_ins_all. exists b. split; [exact Hb | apply deps_in_ins; exact Hp].
Qed.

(* ------------------------------------------------------------------ the sub-checks *)
Lemma chk_rules_nil m : chk_rules m = [] <-> NoDup (rule_names m) /\ ~ In phony (rule_names m).
Proof.
  unfold chk_rules. rewrite map_nil, app_nil_iff, dups_nil.
  destruct (str_mem phony (rule_names m)) eqn:E.
  - apply str_mem_In in E. split; [intros [_ H]; discriminate | tauto].
  - apply str_mem_false in E. tauto.
Qed.

Lemma rule_ok_spec m b : rule_ok m b = true <-> b_rule b = phony \/ In (b_rule b) (rule_names m).
Proof. unfold rule_ok. rewrite Bool.orb_true_iff, str_eqb_eq, str_mem_In. tauto. Qed.

Lemma chk_defined_nil m :
  chk_defined m = [] <-> forall b, In b (m_builds m) -> b_rule b = phony \/ In (b_rule b) (rule_names m).
Proof.
  unfold chk_defined. rewrite map_nil, filter_nil. split; intros H b Hb; specialize (H b Hb).
  - apply Bool.negb_false_iff in H. apply rule_ok_spec. exact H.
  - apply Bool.negb_false_iff. apply rule_ok_spec. exact H.
Qed.

Lemma chk_unique_nil m : chk_unique m = [] <-> NoDup (all_outs m).
Proof. unfold chk_unique. rewrite map_nil. apply dups_nil. Qed.

Lemma chk_acyclic_nil m : chk_acyclic m = [] <-> Acyclic (m_builds m).
Proof. unfold chk_acyclic. rewrite map_nil. apply cyclic_paths_nil. Qed.

Lemma chk_closed_nil m files :
  chk_closed m files = [] <->
  forall b q, In b (m_builds m) -> In q (ins_of b) -> In q files \/ In q (all_outs m).
Proof.
  unfold chk_closed. rewrite concat_nil. split.
  - intros H b q Hb Hq.
    assert (Hm : map (EMissing (first_out b)) (missing_of (all_outs m) files b) = []).
    { apply H. apply in_map_iff. exists b. split; [reflexivity | exact Hb]. }
    apply map_nil in Hm. unfold missing_of in Hm. rewrite filter_nil in Hm. specialize (Hm q Hq).
    apply Bool.negb_false_iff in Hm. apply Bool.orb_true_iff in Hm. rewrite !str_mem_In in Hm. exact Hm.
  - intros H l Hl. apply in_map_iff in Hl. destruct Hl as [b [<- Hb]]. apply map_nil.
    unfold missing_of. apply filter_nil. intros q Hq. apply Bool.negb_false_iff.
    apply Bool.orb_true_iff. rewrite !str_mem_In. exact (H b q Hb Hq).
Qed.

Lemma chk_defaults_nil m :
  chk_defaults m = [] <-> forall d, In d (m_defaults m) -> In d (all_outs m ++ all_ins m).
Proof.
  unfold chk_defaults. rewrite map_nil, filter_nil. split; intros H d Hd; specialize (H d Hd).
  - apply Bool.negb_false_iff in H. apply str_mem_In. exact H.
  - apply Bool.negb_false_iff. apply str_mem_In. exact H.
Qed.

Lemma chk_reach_nil m root need :
  chk_reach m root need = [] <-> forall p, In p need -> Reach (m_builds m) root p.
Proof.
  unfold chk_reach. destruct need as [|n0 need'].
  - split; [intros _ p [] | reflexivity].
  - remember (n0 :: need') as need. rewrite map_nil, filter_nil.
    split; intros H p Hp; specialize (H p Hp).
    + apply Bool.negb_false_iff in H. apply str_mem_In in H. apply reach_set_spec. exact H.
    + apply Bool.negb_false_iff. apply str_mem_In. apply reach_set_spec. exact H.
Qed.

(* ------------------------------------------------------------------ the judge *)
Theorem check_sound_complete m files need_all need_test :
  check m files need_all need_test = [] <-> WellFormed m files need_all need_test.
Proof.
  unfold check. rewrite !app_nil_iff.
  rewrite chk_rules_nil, chk_defined_nil, chk_unique_nil, chk_acyclic_nil, chk_closed_nil,
          chk_defaults_nil, !chk_reach_nil.
  split.
  - intros [H1 [H2 [H3 [H4 [H5 [H6 [H7 H8]]]]]]]. constructor; assumption.
  - intros [H1 H2 H3 H4 H5 H6 H7 H8]. tauto.
Qed.

(* ------------------------------------------------------------------ offenders are genuine *)
Theorem check_offender_genuine m files need_all need_test e :
  In e (check m files need_all need_test) ->
  match e with
  | EDupRule r => (In r (rule_names m) /\ ~ NoDup (rule_names m)) \/ (r = phony /\ In phony (rule_names m))
  | EUndefRule o r => exists b, In b (m_builds m) /\ first_out b = o /\ b_rule b = r /\
                                r <> phony /\ ~ In r (rule_names m)
  | EDupOutput p => In p (all_outs m) /\ ~ NoDup (all_outs m)
  | ECycle p => In p (all_outs m) /\ ~ Acc (dep_of (m_builds m)) p
  | EMissing o q => exists b, In b (m_builds m) /\ first_out b = o /\ In q (ins_of b) /\
                              ~ In q files /\ ~ In q (all_outs m)
  | EBadDefault d => In d (m_defaults m) /\ ~ In d (all_outs m ++ all_ins m)
  | EUnreach root p => (root = root_all /\ In p need_all \/ root = root_test /\ In p need_test) /\
                       ~ Reach (m_builds m) root p
  end.
Proof.
  unfold check. rewrite !in_app_iff. intros [H|[H|[H|[H|[H|[H|[H|H]]]]]]].
  - unfold chk_rules in H. apply in_map_iff in H. destruct H as [r [<- Hr]]. apply in_app_or in Hr.
    destruct Hr as [Hr|Hr].
    + left. split; [apply In_dups; exact Hr|]. intro Hn. apply dups_nil in Hn. rewrite Hn in Hr. destruct Hr.
    + right. destruct (str_mem phony (rule_names m)) eqn:E; [|destruct Hr].
      destruct Hr as [<-|[]]. split; [reflexivity | apply str_mem_In; exact E].
  - unfold chk_defined in H. apply in_map_iff in H. destruct H as [b [<- Hb]]. apply filter_In in Hb.
    destruct Hb as [Hb Hr]. exists b. repeat split; try assumption.
    + intro E. apply Bool.negb_true_iff in Hr. assert (rule_ok m b = true) by (apply rule_ok_spec; left; exact E). congruence.
    + intro E. apply Bool.negb_true_iff in Hr. assert (rule_ok m b = true) by (apply rule_ok_spec; right; exact E). congruence.
  - unfold chk_unique in H. apply in_map_iff in H. destruct H as [p [<- Hp]]. split; [apply In_dups; exact Hp|].
    intro Hn. apply dups_nil in Hn. rewrite Hn in Hp. destruct Hp.
  - unfold chk_acyclic in H. apply in_map_iff in H. destruct H as [p [<- Hp]]. split.
    + unfold cyclic_paths in Hp. apply filter_In in Hp. tauto.
    + apply cyclic_paths_sound. exact Hp.
  - unfold chk_closed in H. apply in_concat in H. destruct H as [l [Hl He]]. apply in_map_iff in Hl.
    destruct Hl as [b [<- Hb]]. apply in_map_iff in He. destruct He as [q [<- Hq]].
    unfold missing_of in Hq. apply filter_In in Hq. destruct Hq as [Hq Hn].
    apply Bool.negb_true_iff in Hn. apply Bool.orb_false_iff in Hn. destruct Hn as [Hf Ho].
    apply str_mem_false in Hf. apply str_mem_false in Ho. exists b. tauto.
  - unfold chk_defaults in H. apply in_map_iff in H. destruct H as [d [<- Hd]]. apply filter_In in Hd.
    destruct Hd as [Hd Hn]. apply Bool.negb_true_iff in Hn. apply str_mem_false in Hn. tauto.
  - unfold chk_reach in H. destruct need_all as [|n0 na]; [destruct H|]. remember (n0 :: na) as need.
    apply in_map_iff in H. destruct H as [p [<- Hp]]. apply filter_In in Hp. destruct Hp as [Hp Hn].
    apply Bool.negb_true_iff in Hn. apply str_mem_false in Hn. split; [left; tauto|].
    intro Hr. apply Hn. apply reach_set_spec. exact Hr.
  - unfold chk_reach in H. destruct need_test as [|n0 na]; [destruct H|]. remember (n0 :: na) as need.
    apply in_map_iff in H. destruct H as [p [<- Hp]]. apply filter_In in Hp. destruct Hp as [Hp Hn].
    apply Bool.negb_true_iff in Hn. apply str_mem_false in Hn. split; [right; tauto|].
    intro Hr. apply Hn. apply reach_set_spec. exact Hr.
Qed.
