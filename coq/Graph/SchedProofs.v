(* Graph/SchedProofs.v — schedule independence (C05): for a graph that passes the
   dependency-completeness check, every topological order of its steps yields the same
   final file system, and in every such order each step finds all the files it reads. *)
From Coq Require Import List NArith Bool Lia Permutation.
From MV Require Import Graph.Sched.
Import ListNotations.
Open Scope N_scope.

(* ------------------------------------------------------------------ *)
(* boolean checkers, reflected                                          *)

Lemma memN_In x l : memN x l = true <-> In x l.
Proof.
  unfold memN. rewrite existsb_exists. split.
  - intros (y & Hy & E). apply N.eqb_eq in E. subst. exact Hy.
  - intro H. exists x. split; [exact H | apply N.eqb_refl].
Qed.
Lemma memN_false x l : memN x l = false <-> ~ In x l.
Proof. rewrite <- memN_In. destruct (memN x l); split; congruence. Qed.

Lemma nodupb_NoDup l : nodupb l = true <-> NoDup l.
Proof.
  induction l as [|x r IH]; simpl; [split; [constructor | reflexivity]|].
  rewrite andb_true_iff, negb_true_iff, memN_false, IH. split.
  - intros [A B]. constructor; assumption.
  - intro H. inversion H; subst. auto.
Qed.

Lemma assoc_None p l : assoc p l = None <-> ~ In p (map fst l).
Proof.
  induction l as [|[q c] r IH]; simpl; [tauto|].
  destruct (N.eqb p q) eqn:E.
  - apply N.eqb_eq in E. subst. split; [discriminate | intro H; exfalso; apply H; auto].
  - apply N.eqb_neq in E. rewrite IH. split; [intros H [A|A]; [congruence | auto] | intros H A; apply H; auto].
Qed.

Lemma fst_combine {A B} (l : list A) (m : list B) : length l = length m -> map fst (combine l m) = l.
Proof.
  revert m; induction l as [|x r IH]; intros [|y m] H; simpl in *; try discriminate; [reflexivity|].
  f_equal. apply IH. lia.
Qed.
Lemma fst_combine_incl {A B} (l : list A) (m : list B) x : In x (map fst (combine l m)) -> In x l.
Proof.
  revert m; induction l as [|y r IH]; intros [|z m] H; simpl in *; try contradiction.
  destruct H as [H|H]; [auto | right; eapply IH; exact H].
Qed.

Lemma find_step_In g i s : find_step g i = Some s -> In s g /\ s_id s = i.
Proof.
  unfold find_step. intro H. apply find_some in H. destruct H as [A B]. apply N.eqb_eq in B. auto.
Qed.
Lemma find_step_unique g s : NoDup (map s_id g) -> In s g -> find_step g (s_id s) = Some s.
Proof.
  unfold find_step. induction g as [|x r IH]; intros ND Hin; [contradiction|].
  simpl in *. inversion ND as [|? ? Hx ND']; subst.
  destruct Hin as [->|Hin]; [rewrite N.eqb_refl; reflexivity|].
  destruct (N.eqb (s_id x) (s_id s)) eqn:E.
  - apply N.eqb_eq in E. exfalso. apply Hx. rewrite E. apply in_map. exact Hin.
  - apply IH; assumption.
Qed.

(* ------------------------------------------------------------------ *)
(* The declarative reading of [well_formed].                            *)

Record WF (g : list step) (sources : list path) : Prop := {
  wf_ids : NoDup (map s_id g);
  wf_outs : NoDup (all_outs g);
  wf_src : forall p, In p sources -> ~ In p (all_outs g);
  wf_self : forall s, In s g -> ~ In (s_id s) (s_anc s);
  wf_anc : forall s i, In s g -> In i (s_anc s) ->
           exists m, In m g /\ s_id m = i /\ incl (s_anc m) (s_anc s);
  wf_complete : forall s p, In s g -> In p (s_reads s) ->
           In p sources \/ exists m, In m g /\ In (s_id m) (s_anc s) /\ In p (s_outs m) }.

Lemma in_anc_outs g s p :
  In p (anc_outs g s) <-> exists i m, In i (s_anc s) /\ find_step g i = Some m /\ In p (s_outs m).
Proof.
  unfold anc_outs. rewrite in_flat_map. split.
  - intros (i & Hi & Hp). destruct (find_step g i) as [m|] eqn:F; [|contradiction]. exists i, m. auto.
  - intros (i & m & Hi & F & Hp). exists i. split; [exact Hi|]. rewrite F. exact Hp.
Qed.

Theorem well_formed_sound g sources : well_formed g sources = true -> WF g sources.
Proof.
  unfold well_formed, unique_producers, anc_closed, complete.
  rewrite !andb_true_iff, !nodupb_NoDup, !forallb_forall.
  intros [[[[Ho Hs] Hi] Ha] Hc]. constructor.
  - exact Hi.
  - exact Ho.
  - intros p Hp. specialize (Hs p Hp). apply negb_true_iff, memN_false in Hs. exact Hs.
  - intros s Hin. specialize (Ha s Hin). apply andb_true_iff in Ha. destruct Ha as [A _].
    apply negb_true_iff, memN_false in A. exact A.
  - intros s i Hin Hi'. specialize (Ha s Hin). apply andb_true_iff in Ha. destruct Ha as [_ A].
    rewrite forallb_forall in A. specialize (A i Hi').
    destruct (find_step g i) as [m|] eqn:F; [|discriminate].
    apply find_step_In in F. destruct F as [Fm Fi]. exists m. repeat split; try assumption.
    rewrite forallb_forall in A. intros j Hj. apply memN_In. apply A. exact Hj.
  - intros s p Hin Hp. specialize (Hc s Hin). unfold step_complete in Hc.
    rewrite forallb_forall in Hc. specialize (Hc p Hp). apply orb_true_iff in Hc.
    destruct Hc as [Hc|Hc]; [left; apply memN_In; exact Hc|]. right.
    apply memN_In, in_anc_outs in Hc. destruct Hc as (i & m & Hi' & F & Hpm).
    apply find_step_In in F. destruct F as [Fm Fi]. exists m. subst i. auto.
Qed.

(* the checker is also complete: a graph with the declarative property passes *)
Theorem well_formed_complete g sources : WF g sources -> well_formed g sources = true.
Proof.
  intros [Hi Ho Hs Hself Ha Hc].
  unfold well_formed, unique_producers, anc_closed, complete.
  rewrite !andb_true_iff, !nodupb_NoDup, !forallb_forall. repeat split; try assumption.
  - intros p Hp. apply negb_true_iff, memN_false. apply Hs. exact Hp.
  - intros s Hin. apply andb_true_iff. split.
    + apply negb_true_iff, memN_false. apply Hself. exact Hin.
    + apply forallb_forall. intros i Hi'. destruct (Ha s i Hin Hi') as (m & Hm & Hmi & Hincl).
      subst i. rewrite (find_step_unique g m Hi Hm). apply forallb_forall. intros j Hj.
      apply memN_In. apply Hincl. exact Hj.
  - intros s Hin. unfold step_complete. apply forallb_forall. intros p Hp.
    apply orb_true_iff. destruct (Hc s p Hin Hp) as [H|(m & Hm & Hma & Hpm)].
    + left. apply memN_In. exact H.
    + right. apply memN_In, in_anc_outs. exists (s_id m), m. repeat split; try assumption.
      apply find_step_unique; assumption.
Qed.

(* one producer per path *)
Lemma NoDup_app_parts {A} (l1 l2 : list A) :
  NoDup (l1 ++ l2) -> NoDup l2 /\ (forall x, In x l1 -> ~ In x l2).
Proof.
  induction l1 as [|y l IH]; simpl; intro H; [split; [exact H | intros x []]|].
  inversion H as [|? ? Hy Hnd]; subst. destruct (IH Hnd) as [HA HB]. split; [exact HA|].
  intros x [->|Hx]; [intro Hx2; apply Hy; apply in_or_app; right; exact Hx2 | apply HB; exact Hx].
Qed.

Lemma unique_producer g a b p :
  NoDup (all_outs g) -> In a g -> In b g -> In p (s_outs a) -> In p (s_outs b) -> a = b.
Proof.
  unfold all_outs. induction g as [|x r IH]; intros ND Ha Hb Hpa Hpb; [contradiction|].
  simpl in ND. apply NoDup_app_parts in ND. destruct ND as [ND' Hx].
  destruct Ha as [->|Ha], Hb as [->|Hb]; try reflexivity.
  - exfalso. apply (Hx p Hpa). apply in_flat_map. exists b. auto.
  - exfalso. apply (Hx p Hpb). apply in_flat_map. exists a. auto.
  - apply IH; assumption.
Qed.

(* ------------------------------------------------------------------ *)
(* Execution.                                                           *)

Section Sched.
  Variable fn : sid -> list (option content) -> list content.
  Variable g : list step.
  Variable sources : list path.
  Hypothesis HWF : WF g sources.
  (* a step produces one content per declared output *)
  Hypothesis fn_len : forall s l, In s g -> length (fn (s_id s) l) = length (s_outs s).
  Variable fs0 : fs.

  Definition topo (order : list step) : Prop := topological order = true.

  (* a state is CONSISTENT when untouched paths hold their initial content and every
     output holds what its producer computes from the state itself *)
  Definition consistent_on (ss : list step) (st : fs) : Prop :=
    forall s p, In s ss -> In p (s_outs s) -> st p = assoc p (results fn s st).
  Definition untouched_outside (ss : list step) (st : fs) : Prop :=
    forall p, ~ In p (flat_map s_outs ss) -> st p = fs0 p.

  Lemma results_keys s st p c : In s g -> assoc p (results fn s st) = Some c -> In p (s_outs s).
  Proof.
    intros Hs H. unfold results in H.
    destruct (assoc p (combine (s_outs s) (fn (s_id s) (map st (s_reads s))))) eqn:E; [|discriminate].
    assert (N : assoc p (combine (s_outs s) (fn (s_id s) (map st (s_reads s)))) <> None) by congruence.
    rewrite assoc_None in N. apply Decidable.not_not in N.
    - eapply fst_combine_incl. exact N.
    - unfold Decidable.decidable. destruct (in_dec N.eq_dec p (map fst (combine (s_outs s) (fn (s_id s) (map st (s_reads s)))))); auto.
  Qed.
  Lemma results_total s st p : In s g -> In p (s_outs s) -> assoc p (results fn s st) <> None.
  Proof.
    intros Hs Hp. rewrite assoc_None. unfold results. rewrite fst_combine; [auto|].
    symmetry. apply fn_len. exact Hs.
  Qed.
  Lemma run_outside s st p : In s g -> ~ In p (s_outs s) -> run fn s st p = st p.
  Proof.
    intros Hs Hp. unfold run. destruct (assoc p (results fn s st)) eqn:E; [|reflexivity].
    exfalso. apply Hp. eapply results_keys; eassumption.
  Qed.
  Lemma run_inside s st p : In s g -> In p (s_outs s) -> run fn s st p = assoc p (results fn s st).
  Proof.
    intros Hs Hp. unfold run. destruct (assoc p (results fn s st)) eqn:E; [reflexivity|].
    exfalso. eapply results_total; eassumption.
  Qed.

  Lemma results_ext s st st' : (forall p, In p (s_reads s) -> st p = st' p) -> results fn s st = results fn s st'.
  Proof. intro H. unfold results. f_equal. f_equal. apply map_ext_in. exact H. Qed.

  Lemma topo_from_spec done order :
    topo_from done order = true ->
    forall pre s post, order = pre ++ s :: post ->
      forall i, In i (s_anc s) -> In i done \/ In i (map s_id pre).
  Proof.
    revert done. induction order as [|x r IH]; intros done H pre s post E i Hi.
    - destruct pre; discriminate.
    - simpl in H. apply andb_true_iff in H. destruct H as [H1 H2].
      destruct pre as [|y pre]; simpl in E; inversion E; subst.
      + left. rewrite forallb_forall in H1. apply memN_In. apply H1. exact Hi.
      + destruct (IH _ H2 pre s post eq_refl i Hi) as [[A|A]|A]; simpl; auto.
  Qed.

  (* One step preserves the invariant: after executing a prefix [done] of a topological
     order of (a permutation of) g and then [s], the state is consistent on done ++ [s]
     and untouched elsewhere. *)
  Lemma step_preserves done s rest st :
    topo (done ++ s :: rest) -> Permutation (done ++ s :: rest) g ->
    consistent_on done st -> untouched_outside done st ->
    consistent_on (done ++ [s]) (run fn s st) /\ untouched_outside (done ++ [s]) (run fn s st).
  Proof.
    intros Ht Hp Hc Hu.
    assert (Hin : forall x, In x (done ++ s :: rest) -> In x g).
    { intros x Hx. eapply Permutation_in; eassumption. }
    assert (Hs : In s g) by (apply Hin; apply in_or_app; right; left; reflexivity).
    assert (NDo : NoDup (map s_id (done ++ s :: rest))).
    { eapply Permutation_NoDup; [apply Permutation_map, Permutation_sym; exact Hp | apply (wf_ids _ _ HWF)]. }
    split.
    - intros m p Hm Hpm. apply in_app_or in Hm. destruct Hm as [Hm|[<-|[]]].
      + (* an earlier step keeps its outputs, and its reads are not written by s *)
        assert (Hmg : In m g) by (apply Hin; apply in_or_app; left; exact Hm).
        assert (Hne : m <> s).
        { intro E. subst m. rewrite map_app in NDo. simpl in NDo.
          apply NoDup_remove_2 in NDo. apply NDo.
          apply in_or_app. left. apply in_map. exact Hm. }
        rewrite run_outside; [| exact Hs |].
        2:{ intro Hps. apply Hne. eapply (unique_producer g); try eassumption. apply (wf_outs _ _ HWF). }
        rewrite (Hc m p Hm Hpm). f_equal. apply results_ext. intros r Hr.
        symmetry. apply run_outside; [exact Hs|]. intro Hrs.
        destruct (wf_complete _ _ HWF m r Hmg Hr) as [Hsrc|(a & Hag & Haa & Hra)].
        * apply (wf_src _ _ HWF r Hsrc). unfold all_outs. apply in_flat_map. exists s. auto.
        * assert (a = s) by (eapply (unique_producer g); try eassumption; apply (wf_outs _ _ HWF)). subst a.
          (* s is an ancestor of m, yet m ran before s *)
          apply in_split in Hm. destruct Hm as (d1 & d2 & ->).
          unfold topo in Ht.
          pose proof (topo_from_spec [] _ Ht d1 m (d2 ++ s :: rest)) as T.
          rewrite <- app_assoc in T. simpl in T. specialize (T eq_refl (s_id s) Haa).
          destruct T as [[]|T].
          rewrite map_app in NDo. simpl in NDo.
          apply NoDup_remove_2 in NDo. apply NDo. apply in_or_app. left.
          rewrite map_app. apply in_or_app. left. exact T.
      + (* s itself: what it wrote was computed from reads that it does not write *)
        rewrite run_inside by assumption. f_equal. apply results_ext. intros r Hr.
        symmetry. apply run_outside; [exact Hs|]. intro Hrs.
        destruct (wf_complete _ _ HWF s r Hs Hr) as [Hsrc|(a & Hag & Haa & Hra)].
        * apply (wf_src _ _ HWF r Hsrc). unfold all_outs. apply in_flat_map. exists s. auto.
        * assert (a = s) by (eapply (unique_producer g); try eassumption; apply (wf_outs _ _ HWF)). subst a.
          apply (wf_self _ _ HWF s Hs). exact Haa.
    - intros p Hp'. rewrite flat_map_app in Hp'. simpl in Hp'. rewrite app_nil_r in Hp'.
      rewrite run_outside; [| exact Hs | intro A; apply Hp'; apply in_or_app; right; exact A].
      apply Hu. intro A. apply Hp'. apply in_or_app. left. exact A.
  Qed.

  Lemma exec_invariant : forall rest done st,
    topo (done ++ rest) -> Permutation (done ++ rest) g ->
    consistent_on done st -> untouched_outside done st ->
    consistent_on (done ++ rest) (exec fn rest st) /\
    untouched_outside (done ++ rest) (exec fn rest st).
  Proof.
    induction rest as [|s rest IH]; intros done st Ht Hp Hc Hu.
    - rewrite app_nil_r. simpl. auto.
    - simpl exec. destruct (step_preserves done s rest st Ht Hp Hc Hu) as [A B].
      replace (done ++ s :: rest) with ((done ++ [s]) ++ rest) in * by (rewrite <- app_assoc; reflexivity).
      apply IH; assumption.
  Qed.

  Definition consistent (st : fs) : Prop := consistent_on g st /\ untouched_outside g st.

  Lemma perm_flat_map (l l' : list step) p : Permutation l l' -> In p (flat_map s_outs l) -> In p (flat_map s_outs l').
  Proof.
    intros HP H. apply in_flat_map in H. destruct H as (s & Hs & Hp). apply in_flat_map. exists s. split; [|exact Hp].
    eapply Permutation_in; eassumption.
  Qed.

  (* (1) the final state of any topological order is consistent *)
  Theorem exec_consistent order :
    Permutation order g -> topo order -> consistent (exec fn order fs0).
  Proof.
    intros HP Ht.
    destruct (exec_invariant order [] fs0 Ht HP) as [A B].
    - intros s p [].
    - intros p _. reflexivity.
    - simpl in *. split.
      + intros s p Hs Hp. apply A; [eapply Permutation_in; [apply Permutation_sym; exact HP | exact Hs] | exact Hp].
      + intros p Hp. apply B. intro H. apply Hp. eapply perm_flat_map; eassumption.
  Qed.

  (* (2) two consistent states are equal: by induction along any topological order *)
  Lemma consistent_unique_prefix order V W :
    Permutation order g -> topo order -> consistent V -> consistent W ->
    forall pre post, order = pre ++ post ->
    forall s p, In s pre -> In p (s_outs s) -> V p = W p.
  Proof.
    intros HP Ht [Vc Vu] [Wc Wu].
    induction pre as [|x pre IH] using rev_ind; intros post E s p Hs Hp; [contradiction|].
    apply in_app_or in Hs. destruct Hs as [Hs|[<-|[]]].
    - apply (IH ([x] ++ post) ltac:(rewrite E, <- app_assoc; reflexivity) s p Hs Hp).
    - assert (Hxg : In x g) by (eapply Permutation_in; [exact HP | rewrite E; apply in_or_app; left; apply in_or_app; right; left; reflexivity]).
      rewrite (Vc x p Hxg Hp), (Wc x p Hxg Hp). f_equal. apply results_ext. intros r Hr.
      destruct (wf_complete _ _ HWF x r Hxg Hr) as [Hsrc|(a & Hag & Haa & Hra)].
      + rewrite Vu, Wu; [reflexivity | |]; apply (wf_src _ _ HWF r Hsrc).
      + (* a declared ancestor ran earlier *)
        rewrite <- app_assoc in E. simpl in E.
        unfold topo in Ht. pose proof (topo_from_spec [] _ Ht pre x post E (s_id a) Haa) as T.
        destruct T as [[]|T]. apply in_map_iff in T. destruct T as (a' & Ea & Ha').
        assert (Ha'g : In a' g) by (eapply Permutation_in; [exact HP | rewrite E; apply in_or_app; left; exact Ha']).
        assert (a' = a).
        { pose proof (find_step_unique g a' (wf_ids _ _ HWF) Ha'g) as F1.
          pose proof (find_step_unique g a (wf_ids _ _ HWF) Hag) as F2. rewrite Ea in F1. congruence. }
        subst a'. apply (IH ([x] ++ post) ltac:(rewrite E; reflexivity) a r Ha' Hra).
  Qed.

  Theorem consistent_unique order V W :
    Permutation order g -> topo order -> consistent V -> consistent W -> forall p, V p = W p.
  Proof.
    intros HP Ht HV HW p.
    destruct (in_dec N.eq_dec p (flat_map s_outs g)) as [Hin|Hout].
    - apply in_flat_map in Hin. destruct Hin as (s & Hs & Hp).
      apply (consistent_unique_prefix order V W HP Ht HV HW order [] (eq_sym (app_nil_r order)) s p); [|exact Hp].
      eapply Permutation_in; [apply Permutation_sym; exact HP | exact Hs].
    - destruct HV as [_ Vu], HW as [_ Wu]. rewrite Vu, Wu; auto.
  Qed.

  (* Schedule independence: any two valid schedules build the same thing. *)
  Theorem schedule_independence sigma tau :
    Permutation sigma g -> topo sigma -> Permutation tau g -> topo tau ->
    forall p, exec fn sigma fs0 p = exec fn tau fs0 p.
  Proof.
    intros Ps Ts Pt Tt. apply (consistent_unique sigma); try assumption; apply exec_consistent; assumption.
  Qed.

  (* No step ever lacks an input, provided the sources exist. *)
  Hypothesis sources_exist : forall p, In p sources -> fs0 p <> None.

  Lemma succeed_invariant : forall rest done st,
    topo (done ++ rest) -> Permutation (done ++ rest) g ->
    consistent_on done st -> untouched_outside done st ->
    all_succeed fn rest st.
  Proof.
    induction rest as [|s rest IH]; intros done st Ht Hp Hc Hu; [exact I|].
    assert (Hin : forall x, In x (done ++ s :: rest) -> In x g) by (intros x Hx; eapply Permutation_in; eassumption).
    assert (Hs : In s g) by (apply Hin; apply in_or_app; right; left; reflexivity).
    simpl. split.
    - intros r Hr. destruct (wf_complete _ _ HWF s r Hs Hr) as [Hsrc|(a & Hag & Haa & Hra)].
      + rewrite Hu; [apply sources_exist; exact Hsrc|].
        intro A. apply (wf_src _ _ HWF r Hsrc). unfold all_outs. apply in_flat_map in A.
        destruct A as (m & Hm & Hrm). apply in_flat_map. exists m. split; [apply Hin; apply in_or_app; left; exact Hm | exact Hrm].
      + unfold topo in Ht. pose proof (topo_from_spec [] _ Ht done s rest eq_refl (s_id a) Haa) as T.
        destruct T as [[]|T]. apply in_map_iff in T. destruct T as (a' & Ea & Ha').
        assert (Ha'g : In a' g) by (apply Hin; apply in_or_app; left; exact Ha').
        assert (a' = a).
        { pose proof (find_step_unique g a' (wf_ids _ _ HWF) Ha'g) as F1.
          pose proof (find_step_unique g a (wf_ids _ _ HWF) Hag) as F2. rewrite Ea in F1. congruence. }
        subst a'. rewrite (Hc a r Ha' Hra). apply results_total; assumption.
    - destruct (step_preserves done s rest st Ht Hp Hc Hu) as [A B].
      replace (done ++ s :: rest) with ((done ++ [s]) ++ rest) in * by (rewrite <- app_assoc; reflexivity).
      apply (IH (done ++ [s])); assumption.
  Qed.

  (* In every valid schedule each step finds all the files it reads. *)
  Theorem every_schedule_succeeds order :
    Permutation order g -> topo order -> all_succeed fn order fs0.
  Proof.
    intros HP Ht. apply (succeed_invariant order []); simpl; try assumption.
    - intros s p [].
    - intros p _. reflexivity.
  Qed.
End Sched.
