(* Graph/Unity.v — which objects a unity target is compiled to, and which objects
   extract_all_objects() (both_libraries, objects: lib.extract_all_objects()) believes
   it has.  One language; a source is (name, can it join a unity file).
     compile side: generate_target (ninjabackend.py:1066-1073, 1153-1177): sources are
       kept in dicts keyed by path (duplicates collapse), a source for which
       get_target_source_can_unity (:883-895) is false (assembly, LLVM IR) keeps its own
       object, the rest is chunked by generate_unity_files (backends.py:460-499):
       one file per unity_size sources;
     extract side: _determine_ext_objs (backends.py:947-963): every source of the list,
       duplicates included, is counted into the chunks.
   No proofs in this file. *)
From MV Require Import Base.Strs Graph.Manifest.
Open Scope nat_scope.

Inductive uobj : Type :=
| UUnity (i : nat)            (* <target>-unity<i>.c.o *)
| USep (src : str).           (* <src>.o *)

Definition usrc := (str * bool)%type.

Fixpoint udedup (l : list usrc) (seen : list str) : list usrc :=
  match l with
  | [] => []
  | (n, c) :: r => if str_mem n seen then udedup r seen else (n, c) :: udedup r (n :: seen)
  end.

(* number of unity files for n sources: a new file is started whenever the current one
   holds unity_size sources (backends.py:481-494) *)
Definition chunks (n size : nat) : nat := (n + size - 1) / size.

Definition compiled_objects (srcs : list usrc) (size : nat) : list uobj :=
  let d := udedup srcs [] in
  map UUnity (seq 0 (chunks (length (filter snd d)) size)) ++
  map (fun s => USep (fst s)) (filter (fun s => negb (snd s)) d).

(* backends.py:950-963, the code as it stands *)
Definition extracted_objects (srcs : list usrc) (size : nat) : list uobj :=
  map UUnity (seq 0 (chunks (length srcs) size)).

(* after pending/C04-unity-extracted-objects.diff: the list is de-duplicated
   (dict.fromkeys), assembly / LLVM IR sources keep their own object, the rest is chunked *)
Definition extracted_objects_fixed (srcs : list usrc) (size : nat) : list uobj :=
  let d := udedup srcs [] in
  map (fun s => USep (fst s)) (filter (fun s => negb (snd s)) d) ++
  map UUnity (seq 0 (chunks (length (filter snd d)) size)).
