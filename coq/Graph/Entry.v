(* Graph/Entry.v — entry points of the Graph area (C04; reused by C05 and C15).
   Every entry takes strings and returns ONE canonical string.  Separators are the
   code points 1 (fields), 2 (list items), 3 (statements), 4 (sections); they never
   occur in data.

     parse    [text]                       -> rules 4 statements 4 defaults   | ERR:<message>
                 statement = outs 1 iouts 1 rule 1 ins 1 implicit 1 order-only 1 validations
     inputs   [text]                       -> the input paths no statement produces (2-separated)
     check    [text; files; all; test]     -> OK | offenders (3-separated: kind 1 a 1 b)
     command  [text; out]                  -> the expanded command of the statement producing out
     binding  [text; out; name]            -> Edge::GetBinding(name) of that statement
     canon    [path]                       -> CanonicalizePath
     mech / mech_asis  [op; op; ...]       -> the mechanism model (fixed / as the code stands):
                 op = R 1 name | B 1 outs 1 iouts 1 rule 1 ins 1 deps 1 orderdeps
                 result = what [parse] returns for the text NinjaBuild.write produces, or EXC:<class>
     rejected [name; T|F]                  -> T if validate_forbidden_targets rejects name (in_root)
     reserved []                           -> the backend's own root outputs (2-separated)
     testlike / testlike_asis [test; ...]  -> ids get_testlike_targets yields (2-separated), fixed / as is
                 test = exe 1 args 1 depends (2-separated objects); object = T:id | I:id | L:object | O
     serialdeps [test]                     -> ids create_test_serialisation records for the test
     buildline [op]                        -> the build line NinjaBuildElement.write assembles for a B op
     quote     [name]                      -> ninja_quote(name, is_build_line=True)
     runname   [subproject; name]          -> build_run_target_name
     relpath   [target; start]             -> os.path.relpath of two normalised relative paths ("." for empty)
     unity     [unity_size; src; ...]      -> objects compiled 1 objects extract_all_objects lists (as is) 1 (after the repair);
                 src = name 1 T|F (can join a unity file); objects 2-separated, sorted: U<i> | S<name>
     ppsrc     [T|F flat; subdir; name; o] -> where a user of compiler.preprocess() output o reads it 1 where it is produced
*)
From MV Require Import Base.Strs Graph.Manifest Graph.Check Graph.Mech Graph.Ending Graph.Quote Graph.Glue Graph.Unity.
Open Scope N_scope.

Definition S1 : str := [1].
Definition S2 : str := [2].
Definition S3 : str := [3].
Definition S4 : str := [4].

Definition nonempty (s : str) : bool := match s with [] => false | _ => true end.
Definition split_list (s : str) : list str := filter nonempty (split_on 2 s []).

Definition render_build (b : build) : str :=
  join S1 [join S2 (b_outs b); join S2 (b_iouts b); b_rule b; join S2 (b_ins b);
           join S2 (b_imps b); join S2 (b_oos b); join S2 (b_valids b)].

Definition render_manifest (m : manifest) : str :=
  join S4 [join S2 (rule_names m); join S3 (map render_build (m_builds m)); join S2 (m_defaults m)].

Definition render_parse (r : res manifest) : str :=
  match r with
  | Ok m => render_manifest m
  | Err e => s2l "ERR:" ++ e
  end.

Definition render_err (e : cerr) : str :=
  match e with
  | EDupRule r => join S1 [s2l "duplicate-rule"; r; []]
  | EUndefRule o r => join S1 [s2l "undefined-rule"; o; r]
  | EDupOutput p => join S1 [s2l "duplicate-output"; p; []]
  | ECycle p => join S1 [s2l "cycle"; p; []]
  | EMissing o q => join S1 [s2l "missing-input"; o; q]
  | EBadDefault d => join S1 [s2l "bad-default"; d; []]
  | EUnreach r p => join S1 [s2l "unreachable"; r; p]
  end.

Definition render_check (l : list cerr) : str :=
  match l with [] => s2l "OK" | _ => join S3 (map render_err l) end.

Fixpoint dedup (l : list str) (seen : list str) : list str :=
  match l with
  | [] => []
  | x :: r => if str_mem x seen then dedup r seen else x :: dedup r (x :: seen)
  end.

Definition leaf_inputs (m : manifest) : list str :=
  let ao := all_outs m in dedup (filter (fun q => negb (str_mem q ao)) (all_ins m)) [].

Fixpoint find_build (bs : list build) (out : str) : option build :=
  match bs with
  | [] => None
  | b :: r => if str_mem out (outs_of b) then Some b else find_build r out
  end.

(* ---- mechanism ops on the wire *)
Definition clean_name (s : str) : str := canon_path s.
Definition names_out (l : list str) : list str := map clean_name (filter nonempty l).

Definition elem_build (e : elem) : build :=
  mkBuild (names_out (e_outs e)) (names_out (e_iouts e)) (e_rule e) (names_out (e_ins e))
          (names_out (ssort (e_deps e))) (names_out (ssort (e_oos e))) [] [].

Definition render_mech (r : mres (list str * list elem)) : str :=
  match r with
  | MOk (rs, es) => render_manifest (mkManifest [] [] (map (fun n => mkRule n []) rs) (map elem_build es) [])
  | MMesonErr => s2l "EXC:MesonException"
  | MPyErr => s2l "EXC:AttributeError"
  end.

Definition nth_field (l : list str) (n : nat) : str := nth n l [].

Definition parse_op (s : str) : option op :=
  let f := split_on 1 s [] in
  if str_eqb (nth_field f 0) (s2l "R") then Some (OpRule (nth_field f 1))
  else if str_eqb (nth_field f 0) (s2l "B") then
    Some (OpBuild (split_list (nth_field f 1)) (split_list (nth_field f 2)) (nth_field f 3)
                  (split_list (nth_field f 4)) (split_list (nth_field f 5)) (split_list (nth_field f 6)))
  else None.

Fixpoint parse_ops (l : list str) : option (list op) :=
  match l with
  | [] => Some []
  | s :: r => match parse_op s, parse_ops r with
              | Some o, Some os => Some (o :: os)
              | _, _ => None
              end
  end.

Definition run_mech (fixed : bool) (args : list str) : str :=
  match parse_ops args with
  | Some ops => render_mech (run_and_write fixed ops)
  | None => s2l "?"
  end.

(* ---- tests on the wire *)
Fixpoint parse_obj (fuel : nat) (s : str) : obj :=
  match fuel with
  | O => OOther
  | S f =>
      match s with
      | c1 :: c2 :: r =>
          if c2 =? 58 then
            if c1 =? 84 then OTarget r
            else if c1 =? 73 then OIndex r
            else if c1 =? 76 then OLocal (parse_obj f r)
            else OOther
          else OOther
      | _ => OOther
      end
  end.

Definition parse_test (s : str) : test :=
  let f := split_on 1 s [] in
  mkTest (parse_obj 4 (nth_field f 0)) (map (parse_obj 4) (split_list (nth_field f 1)))
         (map (parse_obj 4) (split_list (nth_field f 2))).

(* ---- unity objects on the wire *)
Definition parse_usrc (s : str) : usrc :=
  let f := split_on 1 s [] in (nth_field f 0, str_eqb (nth_field f 1) (s2l "T")).
Definition render_uobj (o : uobj) : str :=
  match o with UUnity i => 85 :: N_dec (N.of_nat i) | USep n => 83 :: n end.
Definition render_uobjs (l : list uobj) : str := join S2 (ssort (map render_uobj l)).

Definition run (fn : str) (args : list str) : str :=
  if str_eqb fn (s2l "parse") then
    match args with [t] => render_parse (parse_manifest t) | _ => s2l "?" end
  else if str_eqb fn (s2l "inputs") then
    match args with
    | [t] => match parse_manifest t with
             | Ok m => join S2 (leaf_inputs m)
             | Err e => s2l "ERR:" ++ e end
    | _ => s2l "?" end
  else if str_eqb fn (s2l "check") then
    match args with
    | [t; files; na; nt] =>
        match parse_manifest t with
        | Ok m => render_check (check m (split_list files) (split_list na) (split_list nt))
        | Err e => s2l "ERR:" ++ e end
    | _ => s2l "?" end
  else if str_eqb fn (s2l "command") then
    match args with
    | [t; o] => match parse_manifest t with
                | Ok m => match find_build (m_builds m) o with
                          | Some b => edge_command m b
                          | None => s2l "?" end
                | Err e => s2l "ERR:" ++ e end
    | _ => s2l "?" end
  else if str_eqb fn (s2l "binding") then
    match args with
    | [t; o; k] => match parse_manifest t with
                   | Ok m => match find_build (m_builds m) o with
                             | Some b => edge_binding m b k
                             | None => s2l "?" end
                   | Err e => s2l "ERR:" ++ e end
    | _ => s2l "?" end
  else if str_eqb fn (s2l "canon") then
    match args with [p] => canon_path p | _ => s2l "?" end
  else if str_eqb fn (s2l "mech") then run_mech true args
  else if str_eqb fn (s2l "mech_asis") then run_mech false args
  else if str_eqb fn (s2l "rejected") then
    match args with
    | [n; r] => bool_str (name_rejected n (str_eqb r (s2l "T")))
    | _ => s2l "?" end
  else if str_eqb fn (s2l "buildline") then
    match args with
    | [o] => match parse_op o with
             | Some (OpBuild outs iouts rule ins deps oos) =>
                 s2l "build" ++ build_line_rest outs iouts rule ins (ssort deps) (ssort oos)
             | _ => s2l "?" end
    | _ => s2l "?" end
  else if str_eqb fn (s2l "quote") then
    match args with [n] => ninja_quote_build n | _ => s2l "?" end
  else if str_eqb fn (s2l "unity") then
    match args with
    | sz :: srcs =>
        let size := N.to_nat (digits_val sz) in
        let l := map parse_usrc srcs in
        join S1 [render_uobjs (compiled_objects l size); render_uobjs (extracted_objects l size);
                 render_uobjs (extracted_objects_fixed l size)]
    | _ => s2l "?" end
  else if str_eqb fn (s2l "runname") then
    match args with [sp; n] => run_target_name (mkRT sp n) | _ => s2l "?" end
  else if str_eqb fn (s2l "relpath") then
    match args with
    | [t; st] => let comps x := filter nonempty (split_on 47 x []) in
                 match relpath (comps t) (comps st) with [] => [46] | r => join [47] r end
    | _ => s2l "?" end
  else if str_eqb fn (s2l "ppsrc") then
    match args with
    | [fl; sd; n; o] => let flat := str_eqb fl (s2l "T") in
                        let sub := filter nonempty (split_on 47 sd []) in
                        join S1 [join [47] (pp_consumed true flat sub n o); join [47] (pp_produced flat sub n o)]
    | _ => s2l "?" end
  else if str_eqb fn (s2l "reserved") then join S2 backend_root_outputs
  else if str_eqb fn (s2l "testlike") then join S2 (testlike_targets true (map parse_test args))
  else if str_eqb fn (s2l "testlike_asis") then join S2 (testlike_targets false (map parse_test args))
  else if str_eqb fn (s2l "serialdeps") then
    match args with [t] => join S2 (serial_depends (parse_test t)) | _ => s2l "?" end
  else s2l "?".
