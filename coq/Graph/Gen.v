(* Graph/Gen.v — which edges does a build statement get?  (C05, model; no proofs here.)

   A small project IR (what harness/check_C05.py's gen_project produces) and
   [graph_of : project -> list step], a transcription of the places in
   mesonbuild/backend/ninjabackend.py, backends.py and build.py that decide which explicit,
   implicit and order-only inputs each generated build statement gets.

   Paths are abstract numbers.  The IR carries, for every file that meson would create, the
   path the harness resolved for it (object files, generator outputs, library files): NAMING
   is not modelled here (output uniqueness is C04's subject); [valid_project] asks for these
   names to be pairwise distinct and distinct from the source files.  Targets refer to EARLIER
   declarations only, by position in the project (a meson variable must be assigned before it
   is used), so a single forward pass with a table of per-target facts replaces meson's
   recursion over target objects.

   TRUSTED ASSUMPTION (the read behaviour of tools; it is part of the statement of the
   theorems of GenProofs.v and of the trusted base in the manifest).  The definitions marked
   ASSUMED below say which build-time-generated files a step MAY open:
     - a custom command opens its inputs, the files and targets of its command line (the tool;
       when the tool is a built executable, also the libraries it was linked with), its
       depend_files and the outputs of its depends;
     - a generator rule opens its input, the generator's executable (likewise) and the outputs
       of the generator's depends;
     - a compilation of a source of target T opens that source; every generated file that is
       not itself a source and that is DECLARED for T — a custom-target output or generator
       output among T's sources or among the sources of T's declare_dependency tree at any
       depth (build.py add_deps) — ; the generator-made headers of the libraries T links at
       any depth (ninjabackend.py get_generated_headers); and, when the source is itself
       generated, anything its generating command could open, transitively (a generated source
       may include what its generator was given);
     - a link opens its objects and the libraries it links (get_dependencies); opening a static
       library opens its objects (meson makes thin archives), opening a shared library or
       running an executable may open what ITS link could open, transitively;
       a static archive opens its objects; the symbol extractor opens the shared library.
   Reads of files that exist before the build starts (source tree, configure-time outputs,
   system headers) are not listed beyond the declared ones: such a file is available in every
   schedule.  A library linked with link_with does NOT make the generated headers among ITS
   sources available to the compilations of the target that links it (docs/markdown/FAQ.md
   lines 474-507 say so: a link-time dependency only); a compilation that opens such a header
   without declaring it is outside the assumption (GenProofs.v shows the boundary is sharp). *)
From Coq Require Import List NArith Bool.
From MV Require Import Graph.Sched.
Import ListNotations.
Open Scope N_scope.

(* ------------------------------------------------------------------ *)
(* The project IR.                                                       *)

Definition tref := nat.                       (* position of an earlier declaration *)

(* compilers.is_source / compilers.is_header of the file name; KOther = neither *)
Inductive fkind := KSource | KHeader | KOther.
Inductive tkind := Exe | StaticLib | SharedLib.

Record gout := mkGout { go_path : path; go_kind : fkind }.

(* an element of command: (build.py flatten_command) *)
Inductive carg :=
| AStr                                        (* a plain string *)
| AFile (p : path)                            (* a File *)
| AProg (p : option path)                     (* a found program; Some = absolute path known *)
| ATarget (t : tref).                         (* a build target or custom target *)

(* an element of input: / depends: of a custom target *)
Inductive cinput := CIFile (p : path) | CITarget (t : tref).

Record ctarget := mkCT {
  ct_outs : list gout;
  ct_inputs : list cinput;
  ct_command : list carg;
  ct_depends : list cinput;
  ct_depend_files : list path }.

(* generator(exe, depends:).process(files): one rule per input file; outputs go to the
   private directory of the target that uses the list *)
Record genitem := mkGI { gi_in : path; gi_outs : list gout; gi_objs : list path }.
Record genlist := mkGL { gl_exe : carg; gl_depends : list tref; gl_items : list genitem }.

Inductive bsrc :=
| BFile (src obj : path)                      (* a preexisting source file and its object *)
| BCustom (t : tref) (objs : list path)       (* a custom target; objects of its source outputs *)
| BGen (g : genlist).

(* declare_dependency(sources:, link_with:, link_whole:, dependencies:); include_directories
   and arguments do not influence edges *)
Inductive dep := Dep (srcs : list bsrc) (lw lwh : list tref) (sub : list dep).

Record btarget := mkBT {
  bt_kind : tkind;
  bt_out : path;                              (* get_target_filename *)
  bt_sym : path;                              (* shared library: get_target_shsym_filename *)
  bt_srcs : list bsrc;
  bt_lw : list tref;
  bt_lwh : list tref;
  bt_objects : list tref;                     (* objects: t.extract_all_objects(recursive : true) *)
  bt_deps : list dep }.

Inductive decl := DCustom (c : ctarget) | DBuild (b : btarget).
Definition project := list decl.

(* ------------------------------------------------------------------ *)
(* Build statements before closure: outputs, the three kinds of inputs, and the ASSUMED
   reads.                                                                *)

Record bunit := mkUnit {
  u_outs : list path;
  u_ins : list path;                          (* explicit *)
  u_imp : list path;                          (* implicit,   after |  *)
  u_oo : list path;                           (* order-only, after || *)
  u_reads : list path }.
Definition u_all (u : bunit) : list path := u_ins u ++ u_imp u ++ u_oo u.

(* per-target facts that later declarations look up *)
Record tinfo := mkInfo {
  ti_gouts : list gout;                       (* Target.get_outputs(), in the target's directory *)
  ti_static : bool;                           (* isinstance(t, StaticLibrary) *)
  ti_dep : list (path * list path);           (* [(get_dependency_filename t, ASSUMED: what opening the library opens)],
                                                 [] for custom targets *)
  ti_genhdrs : list path;                     (* get_generated_headers(t) for libraries *)
  ti_linkrec : list (path * list path);       (* what t.get_dependencies_recurse adds, as ti_dep pairs *)
  ti_allobjs : list path;                     (* the objects t.extract_all_objects(recursive=True) stands for *)
  ti_closure : list path }.                   (* ASSUMED: what the command making t's outputs could open, transitively *)
Definition empty_info : tinfo := mkInfo [] false [] [] [] [] [].
Definition look (tbl : list tinfo) (t : tref) : tinfo := nth t tbl empty_info.
Definition outs_of (tbl : list tinfo) (t : tref) : list path := map go_path (ti_gouts (look tbl t)).

(* ------------------------------------------------------------------ *)
(* custom targets                                                        *)

(* backends.py:1540-1569 get_custom_target_sources: a file gives its path, a build target its
   filename, a custom target all its outputs *)
Definition cinput_paths (tbl : list tinfo) (i : cinput) : list path :=
  match i with CIFile p => [p] | CITarget t => outs_of tbl t end.

(* build.py:2920-2946 flatten_command: File -> depend_files; program with an absolute
   path -> depend_files; BuildTarget/CustomTarget -> dependencies *)
Definition carg_files (a : carg) : list path :=
  match a with AFile p => [p] | AProg (Some p) => [p] | _ => [] end.
Definition carg_targets (a : carg) : list tref :=
  match a with ATarget t => [t] | _ => [] end.

(* build.py:3074-3089: depends: entries that are files or programs go to depend_files, targets
   to extra_depends *)
Definition cinput_files (i : cinput) : list path := match i with CIFile p => [p] | _ => [] end.
Definition cinput_targets (i : cinput) : list tref := match i with CITarget t => [t] | _ => [] end.

(* ninjabackend.py:1312-1327 generate_custom_target:
     srcs = eval_custom_target_command -> get_custom_target_sources        (explicit)
     deps  = get_paths_for_dep_outputs(target.get_dependencies())   :1315  (implicit)
     deps += get_target_depend_files(target)                        :1316
     deps += get_paths_for_dep_outputs(target.extra_depends)        :1317
   with depend_files = kwarg + command Files/programs (build.py:3050-3055) + depends files *)
Definition custom_ins (tbl : list tinfo) (c : ctarget) : list path :=
  flat_map (cinput_paths tbl) (ct_inputs c).
Definition custom_imp (tbl : list tinfo) (c : ctarget) : list path :=
  flat_map (outs_of tbl) (flat_map carg_targets (ct_command c))
  ++ (ct_depend_files c ++ flat_map carg_files (ct_command c) ++ flat_map cinput_files (ct_depends c))
  ++ flat_map (outs_of tbl) (flat_map cinput_targets (ct_depends c)).

(* ASSUMED: what a file generated by the command of target t may refer to; for a built
   executable, what running it may open besides itself *)
Definition closure_of (tbl : list tinfo) (t : tref) : list path := ti_closure (look tbl t).

(* ASSUMED: a custom command opens its inputs, its tool and command-line files/targets (and
   what running them opens), its depend_files and the outputs of its depends *)
Definition carg_reads (tbl : list tinfo) (a : carg) : list path :=
  carg_files a ++ flat_map (fun t => outs_of tbl t ++ closure_of tbl t) (carg_targets a).
Definition custom_reads (tbl : list tinfo) (c : ctarget) : list path :=
  flat_map (cinput_paths tbl) (ct_inputs c)
  ++ flat_map (carg_reads tbl) (ct_command c)
  ++ ct_depend_files c
  ++ flat_map (cinput_paths tbl) (ct_depends c).

(* the targets a custom target refers to *)
Definition custom_refs (c : ctarget) : list tref :=
  flat_map cinput_targets (ct_inputs c) ++ flat_map carg_targets (ct_command c)
  ++ flat_map cinput_targets (ct_depends c).

(* ASSUMED: what a file generated by this command may refer to *)
Definition custom_closure (tbl : list tinfo) (c : ctarget) : list path :=
  custom_reads tbl c ++ flat_map (closure_of tbl) (custom_refs c).

Definition custom_unit (tbl : list tinfo) (c : ctarget) : bunit :=
  mkUnit (map go_path (ct_outs c)) (custom_ins tbl c) (custom_imp tbl c) [] (custom_reads tbl c).

Definition custom_info (tbl : list tinfo) (c : ctarget) : tinfo :=
  mkInfo (ct_outs c) false [] [] [] [] (custom_closure tbl c).

(* ------------------------------------------------------------------ *)
(* build targets                                                         *)

(* build.py:1554-1583 add_deps: an internal dependency contributes its sources
   (process_sourcelist), its libraries (link_targets.extend) and whole_libraries, then the
   dependencies of the dependency (self.add_deps(dep.ext_deps)) *)
Fixpoint dep_srcs (d : dep) : list bsrc :=
  match d with Dep s _ _ sub => s ++ flat_map dep_srcs sub end.
Fixpoint dep_lw (d : dep) : list tref :=
  match d with Dep _ l _ sub => l ++ flat_map dep_lw sub end.
Fixpoint dep_lwh (d : dep) : list tref :=
  match d with Dep _ _ l sub => l ++ flat_map dep_lwh sub end.
Definition eff_srcs (b : btarget) : list bsrc := bt_srcs b ++ flat_map dep_srcs (bt_deps b).
Definition eff_lw (b : btarget) : list tref := bt_lw b ++ flat_map dep_lw (bt_deps b).
Definition eff_lwh (b : btarget) : list tref := bt_lwh b ++ flat_map dep_lwh (bt_deps b).

Definition is_source (o : gout) : bool := match go_kind o with KSource => true | _ => false end.
Definition is_header (o : gout) : bool := match go_kind o with KHeader => true | _ => false end.

Definition genlists (b : btarget) : list genlist :=
  flat_map (fun s => match s with BGen g => [g] | _ => [] end) (eff_srcs b).

(* ninjabackend.py:2881-2926 generate_genlist_for_target, one statement per input file:
     dependencies  = get_target_depend_files(genlist)                :2889  (the generator's
                     executable when it is a file or a program with an absolute path,
                     build.py:2153-2164)
     dependencies += get_paths_for_dep_outputs(generator.depends)    :2890
     dependencies += get_paths_for_dep_outputs(genlist.extra_depends):2891  (the executable
                     when it is a target, build.py:2158)
     NinjaBuildElement(outfilespriv, rulename, infilename); add_dep(dependencies) :2925-2926 *)
Definition genlist_imp (tbl : list tinfo) (g : genlist) : list path :=
  carg_files (gl_exe g)
  ++ flat_map (outs_of tbl) (gl_depends g)
  ++ flat_map (outs_of tbl) (carg_targets (gl_exe g)).
(* ASSUMED: a generator rule opens its input, the executable and the outputs of depends *)
Definition genitem_reads (tbl : list tinfo) (g : genlist) (it : genitem) : list path :=
  gi_in it :: carg_reads tbl (gl_exe g) ++ flat_map (outs_of tbl) (gl_depends g).
Definition genitem_unit (tbl : list tinfo) (g : genlist) (it : genitem) : bunit :=
  mkUnit (map go_path (gi_outs it)) [gi_in it] (genlist_imp tbl g) [] (genitem_reads tbl g it).
Definition genlist_units (tbl : list tinfo) (g : genlist) : list bunit :=
  map (genitem_unit tbl g) (gl_items g).
(* ASSUMED: what a file made by this rule may refer to *)
Definition genitem_closure (tbl : list tinfo) (g : genlist) (it : genitem) : list path :=
  genitem_reads tbl g it ++ flat_map (closure_of tbl) (carg_targets (gl_exe g) ++ gl_depends g).

(* ninjabackend.py:839-861 get_generated_headers: the is_header outputs of the target's
   generator lists (custom targets are skipped, :846-847), then the same of every static or
   shared library in link_targets and link_whole_targets, recursively (:855-857) *)
Definition own_genlist_headers (b : btarget) : list path :=
  flat_map (fun g => flat_map (fun it => map go_path (filter is_header (gi_outs it))) (gl_items g)) (genlists b).
Definition generated_headers (tbl : list tinfo) (b : btarget) : list path :=
  own_genlist_headers b ++ flat_map (fun t => ti_genhdrs (look tbl t)) (eff_lw b ++ eff_lwh b).

(* all outputs of the target's generated sources (get_target_generated_sources, :863-874) *)
Definition bsrc_gouts (tbl : list tinfo) (s : bsrc) : list gout :=
  match s with
  | BFile _ _ => []
  | BCustom t _ => ti_gouts (look tbl t)
  | BGen g => flat_map gi_outs (gl_items g)
  end.
(* generate_target :1050-1053 and :1071-1089: header_deps starts with get_generated_headers;
   every generated output that is not a source (nor object/library, outside the fragment) is
   appended — "Assume anything not specifically a source file is a header" *)
Definition header_deps (tbl : list tinfo) (b : btarget) : list path :=
  generated_headers tbl b
  ++ map go_path (filter (fun o => negb (is_source o)) (flat_map (bsrc_gouts tbl) (eff_srcs b))).

(* a compilation: source, object, and (ASSUMED) what the source may refer to when generated *)
Record cunit := mkCU { cu_src : path; cu_obj : path; cu_clos : list path }.

Definition src_paths (l : list gout) : list path := map go_path (filter is_source l).
(* generated sources that are compiled (:1071-1078, then :1098-1107), in dict order *)
Definition gen_cunits (tbl : list tinfo) (s : bsrc) : list cunit :=
  match s with
  | BFile _ _ => []
  | BCustom t objs =>
      map (fun so => mkCU (fst so) (snd so) (closure_of tbl t))
          (combine (src_paths (ti_gouts (look tbl t))) objs)
  | BGen g =>
      flat_map (fun it => map (fun so => mkCU (fst so) (snd so) (genitem_closure tbl g it))
                              (combine (src_paths (gi_outs it)) (gi_objs it))) (gl_items g)
  end.
(* preexisting sources (:1158-1174) *)
Definition file_cunits (s : bsrc) : list cunit :=
  match s with BFile src obj => [mkCU src obj []] | _ => [] end.
(* both are dicts keyed by the source path (:869-874, :877-885): one compilation per path *)
Fixpoint dedup_src (seen : list path) (l : list cunit) : list cunit :=
  match l with
  | [] => []
  | c :: r => if memN (cu_src c) seen then dedup_src seen r else c :: dedup_src (cu_src c :: seen) r
  end.
Definition cunits (tbl : list tinfo) (b : btarget) : list cunit :=
  dedup_src [] (flat_map (gen_cunits tbl) (eff_srcs b)) ++ dedup_src [] (flat_map file_cunits (eff_srcs b)).

(* generate_single_compile :3253-3371, called with order_deps=header_deps for generated
   sources (:1104) and for preexisting ones (:1169-1170): element(rel_obj, rule, rel_src);
   add_header_deps with an empty list; extra_deps = the target's depend_files (none in the
   fragment); element.add_orderdep(order_deps) :3371 *)
(* ASSUMED reads of a compilation: see the head of the file *)
Definition compile_reads (tbl : list tinfo) (b : btarget) (c : cunit) : list path :=
  cu_src c :: header_deps tbl b ++ cu_clos c.
Definition compile_unit (tbl : list tinfo) (b : btarget) (c : cunit) : bunit :=
  mkUnit [cu_obj c] [cu_src c] [] (header_deps tbl b) (compile_reads tbl b c).

(* build.py:1479-1492 get_dependencies: every link_with and link_whole target, and for the
   static ones what get_dependencies_recurse adds *)
Definition link_closure (tbl : list tinfo) (ts : list tref) : list (path * list path) :=
  flat_map (fun t => ti_dep (look tbl t) ++ ti_linkrec (look tbl t)) ts.
Definition get_dependencies (tbl : list tinfo) (b : btarget) : list (path * list path) :=
  link_closure tbl (eff_lw b ++ eff_lwh b).
(* build.py:1494-1531 get_dependencies_recurse of a static library (nothing is installed in
   the fragment, so include_internals stays true): each link_targets entry is added and, when
   static, recursed into; link_whole_targets entries are only recursed into *)
Definition dependencies_recurse (tbl : list tinfo) (b : btarget) : list (path * list path) :=
  link_closure tbl (eff_lw b) ++ flat_map (fun t => ti_linkrec (look tbl t)) (eff_lwh b).

Definition is_static (b : btarget) : bool := match bt_kind b with StaticLib => true | _ => false end.
Definition is_shared (b : btarget) : bool := match bt_kind b with SharedLib => true | _ => false end.
Definition is_lib (b : btarget) : bool := is_static b || is_shared b.

(* Objects that are not compiled for this target but handed to its link or archive step:
   - build.py:2470-2518: a STATIC library that link_whole's another static library bundles it,
     self.objects.append(t.extract_all_objects()) (StaticLibrary.link_whole /
     _bundle_static_library; the same happens for whole libraries that arrive through a
     declare_dependency) — the library stays in link_whole_targets as well;
   - objects: t.extract_all_objects(recursive : true).
   backends.py:569-598 _flatten_object_list (called from generate_target :1117-1118): an
   ExtractedObjects with recursive=True contributes the flattening of the extracted target's
   own objects list and then _determine_ext_objs: one object per source (and generated source)
   of the extracted target, in that target's private directory. *)
Definition allobjs_of (tbl : list tinfo) (t : tref) : list path := ti_allobjs (look tbl t).
Definition bundled_objs (tbl : list tinfo) (b : btarget) : list path :=
  (if is_static b then flat_map (allobjs_of tbl) (eff_lwh b) else [])
  ++ flat_map (allobjs_of tbl) (bt_objects b).
Definition link_objs (tbl : list tinfo) (b : btarget) : list path :=
  map cu_obj (cunits tbl b) ++ bundled_objs tbl b.

(* generate_link :3837-3990: NinjaBuildElement(outname, linker_rule, obj_list) :3969;
   dependencies = [] for a static library (:3911-3915), target.get_dependencies() otherwise
   (:3919); dep_targets = get_dependency_filename(t) for each (:3966; the .symbols file of a
   shared library, :4005-4016); elem.add_dep(all_deps) :3971 *)
Definition link_imp (tbl : list tinfo) (b : btarget) : list path :=
  if is_static b then [] else map fst (get_dependencies tbl b).
(* ASSUMED: a link opens its objects and what opening the libraries it links opens; an
   archiver opens its objects *)
Definition link_uses (tbl : list tinfo) (b : btarget) : list path :=
  if is_static b then [] else flat_map snd (get_dependencies tbl b).
Definition link_reads (tbl : list tinfo) (b : btarget) : list path :=
  link_objs tbl b ++ link_uses tbl b.
Definition link_unit (tbl : list tinfo) (b : btarget) : bunit :=
  mkUnit [bt_out b] (link_objs tbl b) (link_imp tbl b) [] (link_reads tbl b).

(* generate_shsym :3619-3636: NinjaBuildElement(symname, 'SHSYM', target_file) *)
Definition shsym_units (b : btarget) : list bunit :=
  if is_shared b then [mkUnit [bt_sym b] [bt_out b] [] [] [bt_out b]] else [].

(* generate_target :979-1203: generator rules first (:1002), then the compilations, the link
   (:1203) — the symbol file statement (:1196-1197) is written before the link; order among
   statements is immaterial for Ninja *)
Definition build_units (tbl : list tinfo) (b : btarget) : list bunit :=
  flat_map (genlist_units tbl) (genlists b)
  ++ map (compile_unit tbl b) (cunits tbl b)
  ++ [link_unit tbl b]
  ++ shsym_units b.

Definition build_info (tbl : list tinfo) (b : btarget) : tinfo :=
  mkInfo [mkGout (bt_out b) KOther]
         (is_static b)
         [((if is_shared b then bt_sym b else bt_out b),
           (* ASSUMED: a static library is a thin archive (opening it opens its objects); a
              shared library or executable may pull in what its own link opened *)
           bt_out b :: (if is_static b then link_objs tbl b else link_uses tbl b))]
         (if is_lib b then generated_headers tbl b else [])
         (if is_static b then dependencies_recurse tbl b else [])
         (link_objs tbl b)
         (link_uses tbl b).

(* ------------------------------------------------------------------ *)
(* the whole project                                                     *)

Definition decl_units (tbl : list tinfo) (d : decl) : list bunit :=
  match d with DCustom c => [custom_unit tbl c] | DBuild b => build_units tbl b end.
Definition decl_info (tbl : list tinfo) (d : decl) : tinfo :=
  match d with DCustom c => custom_info tbl c | DBuild b => build_info tbl b end.

Fixpoint walk (tbl : list tinfo) (ds : list decl) : list bunit :=
  match ds with
  | [] => []
  | d :: r => decl_units tbl d ++ walk (tbl ++ [decl_info tbl d]) r
  end.
Definition units_of (p : project) : list bunit := walk [] p.

(* Ninja's reading of the statements: the declared ancestors of a statement are the producers
   of its explicit, implicit and order-only inputs, and their ancestors.  Statements arrive
   producers-first (targets refer to earlier declarations), so one pass closes the relation. *)
Definition feeds (u : bunit) (m : step) : bool :=
  existsb (fun o => memN o (u_all u)) (s_outs m).
Definition close_step (acc : list step) (u : bunit) : step :=
  mkStep (N.of_nat (length acc)) (u_reads u) (u_outs u)
         (nodup N.eq_dec (flat_map (fun m => s_id m :: s_anc m) (filter (feeds u) acc))).
Fixpoint close_from (acc : list step) (us : list bunit) : list step :=
  match us with
  | [] => acc
  | u :: r => close_from (acc ++ [close_step acc u]) r
  end.

Definition graph_of (p : project) : list step := close_from [] (units_of p).

(* the ASSUMED reads of a step of the generated graph *)
Definition reads_of (p : project) (s : step) : list path :=
  match find_step (graph_of p) (s_id s) with Some m => s_reads m | None => [] end.

(* ------------------------------------------------------------------ *)
(* source files, and the side conditions                                 *)

Definition genlist_files (g : genlist) : list path :=
  carg_files (gl_exe g) ++ map gi_in (gl_items g).
Definition bsrc_files (s : bsrc) : list path :=
  match s with BFile src _ => [src] | BCustom _ _ => [] | BGen g => genlist_files g end.
Definition decl_files (d : decl) : list path :=
  match d with
  | DCustom c => flat_map cinput_files (ct_inputs c) ++ flat_map carg_files (ct_command c)
                 ++ ct_depend_files c ++ flat_map cinput_files (ct_depends c)
  | DBuild b => flat_map bsrc_files (eff_srcs b)
  end.
(* the files of the source tree (and configure-time outputs) that the project mentions *)
Definition sources (p : project) : list path := flat_map decl_files p.

Definition produced (p : project) : list path := flat_map u_outs (units_of p).

Definition decl_ok (d : decl) : bool :=
  match d with
  | DCustom c => match ct_outs c with [] => false | _ => true end     (* output: is mandatory *)
  | DBuild _ => true
  end.

(* every file that the build creates has one name, and no source file is among them *)
Definition valid_project (p : project) : bool :=
  forallb decl_ok p && nodupb (produced p) && forallb (fun s => negb (memN s (produced p))) (sources p).

(* ------------------------------------------------------------------ *)
(* The fragment in which the transcription above is claimed FAITHFUL (checked by the harness
   for every project it compares; the theorems do not need it): references resolve to earlier
   declarations of the right sort; sources of build targets that are custom targets have one
   object per source output; link_with names libraries, link_whole static libraries, objects:
   build targets; tools that are targets are executables or custom targets.                                                        *)
Inductive sort := SCustom | SBuild (k : tkind).
Definition decl_sort (d : decl) : sort := match d with DCustom _ => SCustom | DBuild b => SBuild (bt_kind b) end.
Definition sort_at (pre : list decl) (t : tref) : option sort := option_map decl_sort (nth_error pre t).
Definition is_some {A} (o : option A) : bool := match o with Some _ => true | None => false end.
Definition is_libsort (o : option sort) : bool :=
  match o with Some (SBuild StaticLib) | Some (SBuild SharedLib) => true | _ => false end.
Definition is_staticsort (o : option sort) : bool :=
  match o with Some (SBuild StaticLib) => true | _ => false end.
Definition is_buildsort (o : option sort) : bool :=
  match o with Some (SBuild _) => true | _ => false end.
Definition is_customsort (o : option sort) : bool := match o with Some SCustom => true | _ => false end.
Definition is_toolsort (o : option sort) : bool :=
  match o with Some SCustom | Some (SBuild Exe) => true | _ => false end.

Definition bsrc_in_fragment (pre : list decl) (tbl : list tinfo) (s : bsrc) : bool :=
  match s with
  | BFile _ _ => true
  | BCustom t objs => is_customsort (sort_at pre t)
                      && Nat.eqb (length objs) (length (src_paths (ti_gouts (look tbl t))))
  | BGen g => forallb (fun t => is_toolsort (sort_at pre t)) (carg_targets (gl_exe g))
              && forallb (fun t => is_some (sort_at pre t)) (gl_depends g)
              && forallb (fun it => Nat.eqb (length (gi_objs it)) (length (src_paths (gi_outs it)))) (gl_items g)
  end.
Definition decl_in_fragment (pre : list decl) (tbl : list tinfo) (d : decl) : bool :=
  match d with
  | DCustom c => forallb (fun t => is_some (sort_at pre t)) (custom_refs c)
  | DBuild b => forallb (bsrc_in_fragment pre tbl) (eff_srcs b)
                && forallb (fun t => is_libsort (sort_at pre t)) (eff_lw b)
                && forallb (fun t => is_staticsort (sort_at pre t)) (eff_lwh b)
                && forallb (fun t => is_buildsort (sort_at pre t)) (bt_objects b)
  end.
Fixpoint in_fragment_from (pre : list decl) (tbl : list tinfo) (ds : list decl) : bool :=
  match ds with
  | [] => true
  | d :: r => decl_in_fragment pre tbl d && in_fragment_from (pre ++ [d]) (tbl ++ [decl_info tbl d]) r
  end.
Definition in_fragment (p : project) : bool := in_fragment_from [] [] p.
