(* Graph/Spec.v — what C04 says about a manifest, declaratively.
   "build.ninja is a valid Ninja manifest in which every build statement uses a
    defined rule, no path is produced by two statements, the dependency graph is
    acyclic, and every explicit, implicit or order-only input either exists after
    configuration or is the output of another statement.  Every target that is
    built by default, and every target a test runs or depends on, is reachable
    from `all` respectively `meson-test-prereq`." *)
From MV Require Import Base.Strs Graph.Manifest Graph.Check.
From Coq Require Import Relations Wellfounded.

(* [p] depends directly on [q]: some statement produces p and reads q *)
Definition dep (bs : list build) (p q : str) : Prop :=
  exists b, In b bs /\ In p (outs_of b) /\ In q (deps_of b).

(* "q is a direct dependency of p", the relation along which builds descend *)
Definition dep_of (bs : list build) (q p : str) : Prop := dep bs p q.

(* acyclic: no infinite descending chain of dependencies.  For the finite graph of
   a manifest this is the absence of cycles ([acyclic_no_cycle] in Proofs.v gives
   the direction that does not need finiteness). *)
Definition Acyclic (bs : list build) : Prop := well_founded (dep_of bs).

(* what building [root] brings up to date: the statement producing a reached path
   runs, so all its outputs are made and all its inputs are reached *)
Inductive Reach (bs : list build) (root : str) : str -> Prop :=
| Reach_root : Reach bs root root
| Reach_step : forall b o p,
    In b bs -> In o (outs_of b) -> Reach bs root o ->
    In p (outs_of b ++ deps_of b) -> Reach bs root p.

Record WellFormed (m : manifest) (files need_all need_test : list str) : Prop := mkWF {
  (* a valid manifest: no rule is defined twice, phony is built in *)
  wf_rules_unique : NoDup (rule_names m) /\ ~ In phony (rule_names m);
  (* every build statement uses a defined rule *)
  wf_rules_defined : forall b, In b (m_builds m) -> b_rule b = phony \/ In (b_rule b) (rule_names m);
  (* no path is produced by two statements (explicit and implicit outputs) *)
  wf_unique : NoDup (all_outs m);
  (* the dependency graph is acyclic *)
  wf_acyclic : Acyclic (m_builds m);
  (* every explicit, implicit or order-only input (and validation) exists or is produced *)
  wf_closed : forall b q, In b (m_builds m) -> In q (ins_of b) -> In q files \/ In q (all_outs m);
  (* a valid manifest: default targets are paths of the graph *)
  wf_defaults : forall d, In d (m_defaults m) -> In d (all_outs m ++ all_ins m);
  (* built-by-default targets are reachable from all, test targets from meson-test-prereq *)
  wf_reach_all : forall p, In p need_all -> Reach (m_builds m) root_all p;
  wf_reach_test : forall p, In p need_test -> Reach (m_builds m) root_test p }.
