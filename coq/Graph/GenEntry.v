(* Graph/GenEntry.v — wire format of the project IR of Graph/Gen.v and the canonical rendering
   of the model's graph, for the C05 correspondence (dispatched from Graph/SchedEntry.run).

   The IR arrives as ONE list of decimal numbers separated by commas; lists are preceded by
   their length, sums by a tag:
     project  = list decl            decl    = 0 ctarget | 1 btarget
     ctarget  = list gout, list cinput (input:), list carg (command:), list cinput (depends:),
                list path (depend_files:)
     gout     = path kind            kind    = 0 source | 1 header | 2 other
     cinput   = 0 path | 1 tref      carg    = 0 | 1 path (File) | 2 path (program, absolute)
                                               | 3 (program, no absolute path) | 4 tref
     btarget  = kind(0 exe,1 static,2 shared) out sym, list bsrc, list tref (link_with),
                list tref (link_whole), list tref (objects: extract_all_objects), list dep
     bsrc     = 0 src obj | 1 tref, list obj | 2 genlist
     genlist  = carg (exe), list tref (depends), list genitem
     genitem  = input, list gout, list obj
     dep      = list bsrc, list tref, list tref, list dep
   The answer is  V:F:W#stmt|stmt|...  with V = valid_project, F = in_fragment, W = the verdict
   of the verified checker on the model's own graph (T/F each), and per statement
     outs;explicit;implicit;order-only;reads;ancestors
   where ancestors are given by the FIRST output of each ancestor statement, and every list is
   comma separated, in the model's order (the harness compares them as sets). *)
From MV Require Import Base.Strs Graph.Sched Graph.Gen.
Open Scope N_scope.

Definition P (A : Type) := list N -> option (A * list N).
Definition ret {A} (x : A) : P A := fun t => Some (x, t).
Definition bind {A B} (p : P A) (f : A -> P B) : P B :=
  fun t => match p t with Some (x, r) => f x r | None => None end.
Definition pfail {A} : P A := fun _ => None.
Notation "x <- p ;; q" := (bind p (fun x => q)) (at level 61, p at next level, right associativity).

Definition p_num : P N := fun t => match t with x :: r => Some (x, r) | [] => None end.
Definition p_nat : P nat := x <- p_num ;; ret (N.to_nat x).
Fixpoint p_rep {A} (n : nat) (p : P A) : P (list A) :=
  match n with
  | O => ret []
  | S k => x <- p ;; xs <- p_rep k p ;; ret (x :: xs)
  end.
Definition p_list {A} (p : P A) : P (list A) :=
  fun t => match t with n :: r => if (N.of_nat (length r)) <? n then None else p_rep (N.to_nat n) p r | [] => None end.

Definition fkind_of (k : N) : fkind := if k =? 0 then KSource else if k =? 1 then KHeader else KOther.
Definition tkind_of (k : N) : tkind := if k =? 0 then Exe else if k =? 1 then StaticLib else SharedLib.
Definition p_gout : P gout := p <- p_num ;; k <- p_num ;; ret (mkGout p (fkind_of k)).
Definition p_carg : P carg :=
  tag <- p_num ;;
  if tag =? 0 then ret AStr
  else if tag =? 1 then p <- p_num ;; ret (AFile p)
  else if tag =? 2 then p <- p_num ;; ret (AProg (Some p))
  else if tag =? 3 then ret (AProg None)
  else if tag =? 4 then t <- p_nat ;; ret (ATarget t)
  else pfail.
Definition p_cinput : P cinput :=
  tag <- p_num ;;
  if tag =? 0 then p <- p_num ;; ret (CIFile p)
  else if tag =? 1 then t <- p_nat ;; ret (CITarget t)
  else pfail.
Definition p_ct : P ctarget :=
  o <- p_list p_gout ;; i <- p_list p_cinput ;; c <- p_list p_carg ;;
  d <- p_list p_cinput ;; f <- p_list p_num ;; ret (mkCT o i c d f).
Definition p_genitem : P genitem :=
  i <- p_num ;; o <- p_list p_gout ;; b <- p_list p_num ;; ret (mkGI i o b).
Definition p_genlist : P genlist :=
  e <- p_carg ;; d <- p_list p_nat ;; i <- p_list p_genitem ;; ret (mkGL e d i).
Definition p_bsrc : P bsrc :=
  tag <- p_num ;;
  if tag =? 0 then s <- p_num ;; o <- p_num ;; ret (BFile s o)
  else if tag =? 1 then t <- p_nat ;; o <- p_list p_num ;; ret (BCustom t o)
  else if tag =? 2 then g <- p_genlist ;; ret (BGen g)
  else pfail.
Fixpoint p_dep (fuel : nat) : P dep :=
  match fuel with
  | O => pfail
  | S f => s <- p_list p_bsrc ;; l <- p_list p_nat ;; w <- p_list p_nat ;;
           sub <- p_list (p_dep f) ;; ret (Dep s l w sub)
  end.
Definition p_bt (fuel : nat) : P btarget :=
  k <- p_num ;; o <- p_num ;; y <- p_num ;; s <- p_list p_bsrc ;;
  l <- p_list p_nat ;; w <- p_list p_nat ;; x <- p_list p_nat ;; d <- p_list (p_dep fuel) ;;
  ret (mkBT (tkind_of k) o y s l w x d).
Definition p_decl (fuel : nat) : P decl :=
  tag <- p_num ;;
  if tag =? 0 then c <- p_ct ;; ret (DCustom c)
  else if tag =? 1 then b <- p_bt fuel ;; ret (DBuild b)
  else pfail.

Fixpoint split_on (sep : char) (s : str) (cur : str) : list str :=
  match s with
  | [] => [rev cur]
  | c :: r => if c =? sep then rev cur :: split_on sep r [] else split_on sep r (c :: cur)
  end.
Definition tokens (s : str) : list N :=
  match s with [] => [] | _ => map digits_val (split_on 44 s []) end.

Definition parse_project (s : str) : option project :=
  let t := tokens s in
  match p_list (p_decl (length t)) t with
  | Some (p, []) => Some p
  | _ => None
  end.

Definition nlist (l : list N) : str := join [44] (map N_dec l).
Definition first_out (g : list step) (i : sid) : N :=
  match find_step g i with Some m => hd 0 (s_outs m) | None => 0 end.
Definition render_stmt (g : list step) (us : bunit * step) : str :=
  let (u, s) := us in
  join [59] [nlist (u_outs u); nlist (u_ins u); nlist (u_imp u); nlist (u_oo u);
             nlist (u_reads u); nlist (map (first_out g) (s_anc s))].
Definition render_project (p : project) : str :=
  let g := graph_of p in
  bool_str (valid_project p) ++ 58 :: bool_str (in_fragment p) ++ 58 ::
  bool_str (well_formed g (sources p)) ++ 35 ::
  join [124] (map (render_stmt g) (combine (units_of p) g)).

Definition run_gen (args : list str) : str :=
  match args with
  | [ir] => match parse_project ir with Some p => render_project p | None => s2l "ERR:parse" end
  | _ => s2l "?"
  end.
