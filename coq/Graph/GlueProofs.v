(* Graph/GlueProofs.v — the references of Graph/Glue.v name what is produced. *)
From MV Require Import Base.Strs Base.LexFacts Graph.Manifest Graph.Check Graph.LfpFacts Graph.Glue.
From Coq Require Import Lia.
Close Scope N_scope.
Open Scope nat_scope.

(* ------------------------------------------------------------------ (1) run targets *)
Theorem run_dep_named fixed_ok : forall d, fixed_ok = true -> run_dep_ref fixed_ok d = run_target_name d.
Proof. intros d ->. reflexivity. Qed.

Theorem run_dep_named_refuted : exists d, run_dep_ref false d <> run_target_name d.
Proof. exists (mkRT (s2l "sub") (s2l "srt")). vm_compute. discriminate. Qed.

Theorem run_dep_named_partial d : rt_sub d = [] -> run_dep_ref false d = run_target_name d.
Proof. unfold run_dep_ref, run_target_name. intros ->. reflexivity. Qed.

(* ------------------------------------------------------------------ (2) preprocess *)
Lemma relpath_app d : forall r, relpath (d ++ r) d = r.
Proof.
  induction d as [|a d IH]; intro r; cbn [app relpath].
  - destruct r; reflexivity.
  - rewrite str_eqb_refl. apply IH.
Qed.

Lemma canon_push_plain st c : plain_comp c = true -> canon_push st c = c :: st.
Proof.
  unfold plain_comp, canon_push. destruct c as [|x c]; [discriminate|]. intro H.
  apply Bool.andb_true_iff in H. destruct H as [H1 H2].
  apply Bool.negb_true_iff in H1. apply Bool.negb_true_iff in H2. rewrite H1, H2. reflexivity.
Qed.

Lemma fold_push_plain p : forall st, forallb plain_comp p = true -> fold_left canon_push p st = rev p ++ st.
Proof.
  induction p as [|c p IH]; intros st H; [reflexivity|]. cbn [forallb] in H.
  apply Bool.andb_true_iff in H. destruct H as [Hc Hp]. cbn [fold_left rev].
  rewrite (canon_push_plain st c Hc), (IH _ Hp), <- app_assoc. reflexivity.
Qed.

Lemma norm_plain p : forallb plain_comp p = true -> norm p = p.
Proof. intro H. unfold norm. rewrite (fold_push_plain p [] H), app_nil_r. apply rev_involutive. Qed.

Lemma plain_meson_out : plain_comp (s2l "meson-out") = true.
Proof. reflexivity. Qed.

Lemma target_dir_plain flat subdir : forallb plain_comp subdir = true -> forallb plain_comp (target_dir flat subdir) = true.
Proof. destruct flat; cbn; [reflexivity | tauto]. Qed.

(* with the fix a preprocessed source is read where it is produced, whatever the layout
   and however deep the subdir *)
Theorem pp_consumed_is_produced flat subdir name o :
  forallb plain_comp subdir = true -> plain_comp (name ++ s2l ".p") = true -> plain_comp o = true ->
  pp_consumed true flat subdir name o = pp_produced flat subdir name o.
Proof.
  intros Hs Hn Ho. unfold pp_consumed, pp_produced, pp_private. rewrite relpath_app.
  rewrite norm_plain; [rewrite <- app_assoc; reflexivity|].
  rewrite !forallb_app, (target_dir_plain flat subdir Hs). cbn [forallb]. rewrite Hn, Ho. reflexivity.
Qed.

(* the code as it stands doubles the directory in the root with --layout=flat ... *)
Theorem pp_consumed_is_produced_refuted :
  exists flat subdir name o, forallb plain_comp subdir = true /\
    pp_consumed false flat subdir name o <> pp_produced flat subdir name o.
Proof.
  exists true, [], (s2l "preprocessor_0"), (s2l "foo.c.c"). split; [reflexivity|]. vm_compute. discriminate.
Qed.

(* ... and is right with the default layout *)
Theorem pp_consumed_is_produced_partial subdir name o :
  forallb plain_comp subdir = true -> plain_comp (name ++ s2l ".p") = true -> plain_comp o = true ->
  pp_consumed false false subdir name o = pp_produced false subdir name o.
Proof. intros Hs Hn Ho. exact (pp_consumed_is_produced false subdir name o Hs Hn Ho). Qed.

Theorem hdr_ref_is_produced flat depsubdir o : hdr_ref true flat depsubdir o = hdr_produced flat depsubdir o.
Proof. reflexivity. Qed.

Theorem hdr_ref_is_produced_refuted : exists flat depsubdir o, hdr_ref false flat depsubdir o <> hdr_produced flat depsubdir o.
Proof. exists true, [], (s2l "foo.h"). vm_compute. discriminate. Qed.

Theorem hdr_ref_is_produced_partial depsubdir o : hdr_ref false false depsubdir o = hdr_produced false depsubdir o.
Proof. reflexivity. Qed.

(* ------------------------------------------------------------------ (3) dyndeps *)
Theorem depaccumulate_inputs_produced ts self linked extracted :
  dyndep_consistent ts = true -> d_dyndeps self = true ->
  In self ts -> incl linked ts -> incl extracted ts ->
  forall q, In q (depaccumulate_inputs self linked extracted) -> In q (produced_jsons ts).
Proof.
  intros Hc Hs Hin Hl He q Hq. unfold dyndep_consistent in Hc. rewrite forallb_forall in Hc.
  unfold depaccumulate_inputs in Hq. unfold produced_jsons.
  destruct Hq as [<-|Hq].
  - apply in_map. apply filter_In. split; assumption.
  - apply in_app_or in Hq. destruct Hq as [Hq|Hq]; apply in_map_iff in Hq; destruct Hq as [t [<- Ht]];
      apply filter_In in Ht; destruct Ht as [Ht Hf]; apply in_map; apply filter_In.
    + split; [apply Hl; exact Ht | exact Hf].
    + split; [apply He; exact Ht|]. specialize (Hc t (He t Ht)). rewrite Hf in Hc. exact Hc.
Qed.
