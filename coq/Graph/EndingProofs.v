(* Graph/EndingProofs.v — the aggregate statements cover what they must. *)
From MV Require Import Base.Strs Base.LexFacts Graph.Manifest Graph.Check Graph.Spec Graph.Ending.
Close Scope N_scope.
Open Scope nat_scope.

Lemma In_testlike fixed ts t id :
  In t ts -> In id (testlike_of fixed t) -> In id (testlike_targets fixed ts).
Proof.
  intros Ht Hid. unfold testlike_targets. apply in_concat. exists (testlike_of fixed t).
  split; [apply in_map; exact Ht | exact Hid].
Qed.

(* with the fix, every target the test serialisation records as a dependency of a
   test (what `meson test` believes the test runs or depends on) is one of
   get_testlike_targets(), i.e. is listed behind meson-test-prereq *)
Theorem testlike_covers_serialisation ts t id :
  In t ts -> In id (serial_depends t) -> In id (testlike_targets true ts).
Proof.
  intros Ht Hid. apply (In_testlike true ts t id Ht). unfold serial_depends in Hid. unfold testlike_of.
  apply in_app_or in Hid. destruct Hid as [H|H].
  - apply in_or_app. right. apply in_or_app. right. exact H.
  - apply in_app_or in H. destruct H as [H|H].
    + apply in_or_app. left. exact H.
    + apply in_or_app. right. apply in_or_app. left. exact H.
Qed.

(* the code as it stands misses programs found through meson.override_find_program *)
Theorem testlike_covers_serialisation_refuted :
  exists ts t id, In t ts /\ In id (serial_depends t) /\ ~ In id (testlike_targets false ts).
Proof.
  exists [mkTest (OLocal (OTarget (s2l "dummy"))) [] []], (mkTest (OLocal (OTarget (s2l "dummy"))) [] []), (s2l "dummy").
  split; [left; reflexivity|]. split; [left; reflexivity|]. cbn. intros [].
Qed.

Definition is_local (o : obj) : bool := match o with OLocal _ => true | _ => false end.
Definition no_local_program (ts : list test) : bool :=
  forallb (fun t => negb (is_local (t_exe t)) && forallb (fun a => negb (is_local a)) (t_args t)) ts.

Lemma unwrap_not_local fixed o : is_local o = false -> unwrap fixed o = o.
Proof. destruct o; cbn; try reflexivity. discriminate. Qed.

Theorem testlike_covers_serialisation_partial ts t id :
  no_local_program ts = true ->
  In t ts -> In id (serial_depends t) -> In id (testlike_targets false ts).
Proof.
  intros Hn Ht Hid. unfold no_local_program in Hn. rewrite forallb_forall in Hn. specialize (Hn t Ht).
  apply Bool.andb_true_iff in Hn. destruct Hn as [He Ha]. apply Bool.negb_true_iff in He.
  rewrite forallb_forall in Ha.
  apply (In_testlike false ts t id Ht). unfold serial_depends in Hid. unfold testlike_of.
  rewrite (unwrap_not_local true _ He) in Hid. rewrite (unwrap_not_local false _ He).
  assert (Hm : forall fx, map (fun a => yield_obj (unwrap fx a)) (t_args t) = map yield_obj (t_args t)).
  { intro fx. apply map_ext_in. intros a Hin. rewrite unwrap_not_local; [reflexivity|].
    apply Bool.negb_true_iff. exact (Ha a Hin). }
  rewrite Hm in Hid. rewrite Hm.
  apply in_app_or in Hid. destruct Hid as [H|H].
  - apply in_or_app. right. apply in_or_app. right. exact H.
  - apply in_app_or in H. destruct H as [H|H].
    + apply in_or_app. left. exact H.
    + apply in_or_app. right. apply in_or_app. left. exact H.
Qed.

Example no_local_program_satisfiable :
  no_local_program [mkTest (OTarget (s2l "exe")) [OIndex (s2l "gen"); OOther] [OTarget (s2l "lib")]] = true.
Proof. reflexivity. Qed.

(* a manifest that contains the aggregate statements reaches the first output of
   every build-by-default target from all, and of every target a test runs or
   depends on from meson-test-prereq *)
Theorem ending_all_reaches bs ts t :
  In (ending_all ts) bs -> In t ts -> g_bbd t = true -> Reach bs root_all (g_first t).
Proof.
  intros Hb Ht Hd. apply (Reach_step bs root_all (ending_all ts) root_all (g_first t) Hb).
  - left. reflexivity.
  - constructor.
  - apply in_or_app. right. unfold deps_of. cbn [ending_all b_ins]. apply in_or_app. left.
    apply in_map. apply filter_In. split; assumption.
Qed.

Theorem ending_test_prereq_reaches bs ts tests t id p :
  In (ending_test_prereq true ts tests) bs ->
  In t tests -> In id (serial_depends t) -> In p (first_of ts id) ->
  Reach bs root_test p.
Proof.
  intros Hb Ht Hid Hp.
  apply (Reach_step bs root_test (ending_test_prereq true ts tests) root_test p Hb).
  - left. reflexivity.
  - constructor.
  - apply in_or_app. right. unfold deps_of. cbn [ending_test_prereq b_ins]. apply in_or_app. left.
    apply in_concat. exists (first_of ts id). split; [|exact Hp]. apply in_map.
    exact (testlike_covers_serialisation tests t id Ht Hid).
Qed.
