(* Format/Entry.v — entry points for the C16 correspondence (mirrored by
   harness/impl/c16.py and harness/check_C16.py).  Every result is one canonical string. *)
From MV Require Import Base.Strs Syntax.Lexer Syntax.Parser Syntax.Yield Syntax.Same Format.Model.
Open Scope N_scope.

Definition flag (s : str) (i : nat) : bool := match nth_error s i with Some c => c =? 84 | None => false end.
Definition r_enode (r : res enode) : str :=
  match r with
  | Ok e => s2l "OK:" ++ render e
  | Err _ => s2l "ERR"
  | Fuel => s2l "FUEL"
  end.
Definition map_res {A B} (f : A -> B) (r : res A) : res B :=
  match r with Ok a => Ok (f a) | Err p => Err p | Fuel => Fuel end.
(* erase the 'commented bracket' flags *)
Fixpoint unflag (n : enode) : enode :=
  match n with
  | ENode t ks => ENode (norm_tag t) (map unflag ks)
  | _ => n
  end.
(* an operand / value / argument that is missing (mparser's EmptyNode) *)
Fixpoint has_empty (n : enode) : bool :=
  match n with
  | EEmpty => true
  | ENode _ ks => existsb has_empty ks
  | _ => false
  end.
Definition nat_of_str (s : str) : nat := N.to_nat (digits_val s).
Definition r_cmp (c : comparison) : str := match c with Lt => [60] | Eq => [61] | Gt => [62] end.

(* does  [f]'body'  lex as exactly one (f)string token whose body is [body]? *)
Definition lexes_plain (f : bool) (body : str) : bool :=
  let txt := (if f then [c_f] else []) ++ c_sq :: body ++ [c_sq] in
  match lex txt with
  | LOk [t] => kind_beq (tk t) (if f then KFStr else KStr) && str_eqb (lit_body t) body
  | _ => false
  end.

(* env for fsubst: args k1 v1 k2 v2 ... *)
Fixpoint env_of (l : list str) (k : str) : option str :=
  match l with
  | a :: v :: r => if str_eqb a k then Some v else env_of r k
  | _ => None
  end.

Definition run (fn : str) (args : list str) : str :=
  if str_eqb fn (s2l "strict") then
    match args with [code] => r_enode (parse_strict code) | _ => s2l "?" end
  else if str_eqb fn (s2l "strictu") then
    match args with [code] => r_enode (map_res (fun b => prog [] b) (parse code)) | _ => s2l "?" end
  else if str_eqb fn (s2l "canon") then
    match args with
    | [fl; code] => r_enode (map_res (fun b => norm (flag fl 0) (prog [] b)) (parse code))
    | _ => s2l "?" end
  else if str_eqb fn (s2l "same") then
    match args with
    | [fl; a; b] =>
        match parse a, parse b with
        | Ok x, Ok y => bool_str (same_program (flag fl 0) x y)
        | Fuel, _ | _, Fuel => s2l "FUEL"
        | _, _ => s2l "ERR"
        end
    | _ => s2l "?" end
  else if str_eqb fn (s2l "comments") then
    match args with
    | [code] => match comments code with
                | Some cs => s2l "OK:" ++ concat (map (fun c => c ++ [1]) cs)
                | None => s2l "ERR" end
    | _ => s2l "?" end
  else if str_eqb fn (s2l "decode") then
    match args with [raw] => decode raw | _ => s2l "?" end
  else if str_eqb fn (s2l "simplify") then
    (* flags: simplify, sort(unused), is_fstring, is_multiline *)
    match args with
    | [fl; body] =>
        let '(f, m) := simplify_string (mkCfg (flag fl 0) (flag fl 1)) (flag fl 2) (flag fl 3) body in
        bool_str f ++ bool_str m
    | _ => s2l "?" end
  else if str_eqb fn (s2l "lexes") then
    match args with [fl; body] => bool_str (lexes_plain (flag fl 0) body) | _ => s2l "?" end
  else if str_eqb fn (s2l "fmt") then
    (* flags: simplify, sort ; rounds ; code *)
    match args with
    | [fl; k; code] =>
        r_enode (map_res (fun e => unflag (rounds (mkCfg (flag fl 0) (flag fl 1)) (nat_of_str k) e)) (parse_strict code))
    | _ => s2l "?" end
  else if str_eqb fn (s2l "keycmp") then
    match args with [a; b] => r_cmp (key_cmp (pathname_key a) (pathname_key b)) | _ => s2l "?" end
  else if str_eqb fn (s2l "fsubst") then
    match args with
    | v :: env => match fsubst_ (env_of env) 0 v with Some r => s2l "OK:" ++ r | None => s2l "ERR" end
    | _ => s2l "?" end
  else if str_eqb fn (s2l "commas") then
    (* flags: no_single_comma_function, is_multiline, is_function_arguments, last comma has trivia *)
    match args with
    | [fl; na; nc] => N_dec (N.of_nat (comma_rule (flag fl 0) (nat_of_str na) (nat_of_str nc) (flag fl 1) (flag fl 2) (flag fl 3)))
    | _ => s2l "?" end
  else if str_eqb fn (s2l "has_empty") then
    match args with
    | [code] => match parse code with Ok b => bool_str (has_empty (prog [] b)) | _ => s2l "-" end
    | _ => s2l "?" end
  else if str_eqb fn (s2l "order_error") then
    match args with
    | [code] => match parse code with Ok b => bool_str (negb (order_ok_block b)) | _ => s2l "-" end
    | _ => s2l "?" end
  else s2l "?".
