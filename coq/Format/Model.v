(* Format/Model.v — executable model of what `meson format` does to the PROGRAM
   (mesonbuild/mformat.py): the parts of TrimWhitespaces that change nodes rather than
   whitespace.  The whitespace-moving passes (TrimWhitespaces' trivia surgery,
   ArgumentFormatter, ComputeLineLengths) are not modelled; the number of rounds of
   Formatter.format's loop (mformat.py:988-995) is an input.
   This file models the behaviour AFTER the fix pending/C16-multiline-backslash.diff
   (the guard of the triple-quote simplification also excludes a backslash);
   [simplify_guard_shipped] is the guard as shipped in b8a063f.
   No proofs in this file. *)
From MV Require Import Base.Strs Syntax.Lexer Syntax.Parser Syntax.Same.
Open Scope N_scope.

(* the two FormatterConfig options that touch the program *)
Record cfg := mkCfg { c_simplify : bool; c_sort : bool }.

(* mformat.py:370  `not any(x in node.value for x in ['\n', "'"])`  as shipped ... *)
Definition simplify_guard_shipped (body : str) : bool := negb (has c_nl body || has c_sq body).
(* ... and with the fix: ['\n', "'", '\\'] *)
Definition simplify_guard (body : str) : bool :=
  negb (has c_nl body || has c_sq body || has c_bs body).

(* TrimWhitespaces.visit_StringNode, mformat.py:366-377.  RawPrinter prints '''value''' for a
   multiline node and 'raw_value' otherwise (printer.py:294-302): the text between the
   quotes never changes, only the two flags do.  Returns (is_fstring, is_multiline). *)
Definition simplify_with (guard : str -> bool) (c : cfg) (f multi : bool) (body : str) : bool * bool :=
  if c_simplify c then
    let multi' := if multi && guard body then false else multi in     (* :370-372 *)
    let value := str_value multi' body in                             (* node.value = node.escape() *)
    let f' := if f && negb (has c_at value) then false else f in      (* :374-375 *)
    (f', multi')
  else (f, multi).
Definition simplify_string := simplify_with simplify_guard.

(* ---------------------------------------------------------------- pathname_sort_key
   utils/universal.py:2828-2839.  re.split('([0-9]+)', x) alternates text / digit run
   (always starting and ending with a text, possibly empty); convert() lower-cases a text
   and int()s a digit run.  ASCII only: other scripts' digits / case are out of the model. *)
Inductive chunk := CText (s : str) | CNum (n : N).
Definition lower (c : char) : char := if is_upper c then c + 32 else c.

Fixpoint chunk_text (acc : str) (s : str) : list chunk :=
  match s with
  | [] => [CText (rev acc)]
  | c :: r => if is_digit c then CText (rev acc) :: chunk_num (digit_val c) r
              else chunk_text (lower c :: acc) r
  end
with chunk_num (n : N) (s : str) : list chunk :=
  match s with
  | [] => [CNum n; CText []]
  | c :: r => if is_digit c then chunk_num (n * 10 + digit_val c) r
              else CNum n :: chunk_text [lower c] r
  end.
Definition alphanum_key (x : str) : list chunk := chunk_text [] x.

Fixpoint split_on (sep : char) (acc : str) (s : str) : list str :=
  match s with
  | [] => [rev acc]
  | c :: r => if c =? sep then rev acc :: split_on sep [] r else split_on sep (c :: acc) r
  end.
(* (key.count('/') <= idx, alphanum_key(x)): the flag is true exactly for the last part *)
Fixpoint key_parts (l : list str) : list (bool * list chunk) :=
  match l with
  | [] => []
  | [x] => [(true, alphanum_key x)]
  | x :: r => (false, alphanum_key x) :: key_parts r
  end.
Definition pathname_key (s : str) : list (bool * list chunk) := key_parts (split_on 47 [] s).

Definition chunk_cmp (a b : chunk) : comparison :=
  match a, b with
  | CText x, CText y => str_cmp x y
  | CNum x, CNum y => N.compare x y
  | CText _, CNum _ => Lt      (* cannot happen at equal positions: texts and numbers alternate *)
  | CNum _, CText _ => Gt
  end.
Definition bool_cmp (a b : bool) : comparison :=
  match a, b with false, true => Lt | true, false => Gt | _, _ => Eq end.
Definition part_cmp (a b : bool * list chunk) : comparison :=
  match bool_cmp (fst a) (fst b) with
  | Eq => lex_cmp chunk_cmp (snd a) (snd b)
  | c => c
  end.
Definition key_cmp (a b : list (bool * list chunk)) : comparison := lex_cmp part_cmp a b.

(* TrimWhitespaces.sort_arguments, mformat.py:319-327: a StringNode sorts by its raw_value;
   for anything else `getattr(node, 'value', '')` looks at the ArgumentNode (sic), so the key
   is that of ''.  list.sort is stable; keyword arguments are kept apart (printed last). *)
Definition sort_key (n : enode) : list (bool * list chunk) :=
  match n with
  | EStr _ _ body => pathname_key body
  | _ => pathname_key []
  end.
Definition before_key (a b : enode) : bool :=
  match key_cmp (sort_key a) (sort_key b) with Lt => true | _ => false end.
Definition sort_args (ks : list enode) : list enode :=
  isort_by before_key (filter (fun k => negb (is_kw k)) ks) ++ filter is_kw ks.

(* TrimWhitespaces.visit_FunctionNode for files(), after the fix pending/C16-files-flatten.diff:
     while the only argument is an array whose '[' carries no comment / continuation:
         files([...]) -> files(...)
     then, with sort_files, sort the (positional) arguments.
   [flat_ok] reads the flag the parser put on the '['. *)
Definition flat_ok (n : enode) : bool :=
  match n with ENode (TArray false) _ => true | _ => false end.
Fixpoint funwrap (n : enode) : list enode :=
  match n with
  | ENode (TArray _) kids =>
      match kids with
      | [m] => if flat_ok m then funwrap m else kids
      | _ => kids
      end
  | _ => [n]
  end.
Definition fpeel (ks : list enode) : list enode :=
  match ks with
  | [m] => if flat_ok m then funwrap m else ks
  | _ => ks
  end.

(* One visit of TrimWhitespaces, seen from the program.  visit_FunctionNode flattens and
   sorts before it visits the arguments; visiting the arguments first gives the same tree,
   because a visit changes neither the sort keys (the text between the quotes, being a
   string at all) nor the array structure and the flags the flattening looks at. *)
Fixpoint round (c : cfg) (n : enode) : enode :=
  match n with
  | EEmpty | EAtom _ _ => n
  | EStr f m b => let '(f', m') := simplify_string c f m b in EStr f' m' b
  | ENode t kids =>
      let kids' := map (round c) kids in
      if is_files t then
        let p := fpeel kids' in
        ENode t (if c_sort c then sort_args p else p)
      else ENode t kids'
  end.

(* visit_ArrayNode, mformat.py:404-405: an array without positional arguments hands the
   trivia of its '[' over to its ArgumentNode, so from the next round on its '[' is bare *)
Fixpoint settle (n : enode) : enode :=
  match n with
  | ENode t kids =>
      let kids' := map settle kids in
      match t with
      | TArray true => ENode (TArray (negb (forallb is_kw kids))) kids'
      | _ => ENode t kids'
      end
  | _ => n
  end.

(* Formatter.format's loop, mformat.py:988-995, run k times *)
Fixpoint rounds (c : cfg) (k : nat) (n : enode) : enode :=
  match k with
  | O => n
  | S k' => rounds c k' (settle (round c n))
  end.

(* The same visit AS SHIPPED in b8a063f (mformat.py:457-468): sort first, then remove one
   bracket level.  Kept only to state what the fix repairs (Format/Proofs.v). *)
Definition flattenable (ks : list enode) : bool :=
  match ks with
  | [ENode (TArray false) _] => true
  | _ => false
  end.
Fixpoint round_shipped (c : cfg) (n : enode) : enode :=
  match n with
  | EEmpty | EAtom _ _ => n
  | EStr f m b => let '(f', m') := simplify_with simplify_guard_shipped c f m b in EStr f' m' b
  | ENode t kids =>
      let kids' := map (round_shipped c) kids in
      if is_files t then
        if flattenable kids then
          match kids' with
          | [ENode _ inner] => ENode t inner
          | _ => ENode t kids'
          end
        else ENode t (if c_sort c then sort_args kids' else kids')
      else ENode t kids'
  end.

(* ---------------------------------------------------------------- ArgumentFormatter: the commas
   ArgumentFormatter.visit_ArgumentNode (mformat.py, "arguments_count ... node.commas"):
   nargs = positional + keyword arguments, ncommas = len(node.commas); [multiline] = node.is_multiline,
   [is_fn] = the list belongs to a function / method call, [loud] = the last comma carries trivia.
   RawPrinter prints a comma only after an argument (FullAstVisitor.visit_ArgumentNode). *)
Definition comma_rule (no_single : bool) (nargs ncommas : nat) (multiline is_fn loud : bool) : nat :=
  let trailing := negb (Nat.eqb ncommas 0) && Nat.eqb ncommas nargs in
  if multiline then
    let need := if Nat.eqb nargs 1 && is_fn then negb no_single else true in
    if need && negb trailing then S ncommas
    else if trailing && negb need then (ncommas - 1)%nat
    else ncommas
  else if trailing && negb loud then (ncommas - 1)%nat else ncommas.
Definition printed_commas (nargs ncommas : nat) : nat := Nat.min nargs ncommas.
