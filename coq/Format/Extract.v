(* Extraction of the C16 model.  Only the ExtrOcamlBasic directives are used. *)
From Coq Require Extraction.
From Coq Require Import ExtrOcamlBasic.
From MV Require Import Format.Entry.
Extraction "../extract/C16/model.ml" Format.Entry.run.
