(* Format/Proofs.v — the program-level rewrites of `meson format` (Format/Model.v) keep the
   program: every round, for every configuration, yields a tree that is [Same] as its input;
   the literal simplification keeps the meaning of every literal and its output lexes as
   one string token.  The guard of the simplification as SHIPPED in b8a063f is refuted. *)
From MV Require Import Base.Strs Base.LexFacts Syntax.Lexer Syntax.Parser Syntax.Same Syntax.SameFacts Syntax.SameOrder Format.Model.
From Coq Require Import Lia Permutation.
Open Scope N_scope.
Local Arguments N.eqb : simpl never.

(* ------------------------------------------------------------------ the literal rewrite *)
Lemma guard_parts b : simplify_guard b = true ->
  has c_nl b = false /\ has c_sq b = false /\ has c_bs b = false.
Proof.
  unfold simplify_guard. intro H. apply negb_true_iff in H.
  apply orb_false_iff in H. destruct H as [H12 H3]. apply orb_false_iff in H12. tauto.
Qed.

(* the value of the literal is untouched by the simplification *)
Lemma simplify_value c f m b :
  let '(f', m') := simplify_string c f m b in str_value m' b = str_value m b.
Proof.
  unfold simplify_string, simplify_with. destruct (c_simplify c); [|reflexivity].
  destruct m; cbn [andb]; [|reflexivity].
  destruct (simplify_guard b) eqn:G; [|reflexivity].
  cbn [str_value]. apply decode_no_bs. apply (guard_parts b G).
Qed.

Lemma simplify_flag c f m b :
  let '(f', m') := simplify_string c f m b in
  f' && has c_at (str_value m' b) = f && has c_at (str_value m b).
Proof.
  pose proof (simplify_value c f m b) as Hv.
  unfold simplify_string, simplify_with in *. destruct (c_simplify c); [|reflexivity].
  set (m' := if m && simplify_guard b then false else m) in *.
  rewrite Hv. destruct f; cbn [andb negb]; [|reflexivity].
  destruct (has c_at (str_value m b)); reflexivity.
Qed.

(* Clause "a triple-quoted or f-string rewritten to a plain one only when that denotes the
   same string": for every configuration and every literal. *)
Theorem simplify_sound c f m b :
  let '(f', m') := simplify_string c f m b in
  forall env, str_meaning env f' m' b = str_meaning env f m b.
Proof.
  pose proof (simplify_value c f m b) as Hv. pose proof (simplify_flag c f m b) as Hf.
  destruct (simplify_string c f m b) as [f' m']. apply same_str_meaning; assumption.
Qed.

(* ... and what it prints is lexed back as exactly that literal *)
Theorem simplified_lexes b rest :
  simplify_guard b = true -> (b = [] -> starts_sq rest = false) ->
  first_match (c_sq :: b ++ c_sq :: rest) = Some (RK KStr, S (S (length b))) /\
  first_match (c_f :: c_sq :: b ++ c_sq :: rest) = Some (RK KFStr, S (S (S (length b)))).
Proof.
  intros G Hr. destruct (guard_parts b G) as [_ [Hq Hb]].
  split; [apply plain_literal_lexes | apply plain_fliteral_lexes]; assumption.
Qed.

(* The guard as shipped (no test for a backslash) is NOT sound: a body it accepts whose
   plain form denotes another string, and one whose plain form is not even a token. *)
Definition w_escape : str := [97; 92; 110; 98].     (* a\nb *)
Definition w_trailing : str := [120; 92].           (* x\  *)
Theorem shipped_guard_refuted :
  (simplify_guard_shipped w_escape = true /\
   str_value false w_escape <> str_value true w_escape) /\
  (simplify_guard_shipped w_trailing = true /\
   m_str (c_sq :: w_trailing ++ [c_sq]) = None).
Proof. split; split; try reflexivity. vm_compute. discriminate. Qed.

(* the strongest true guard for the shipped test: the body has no backslash *)
Theorem shipped_guard_partial c f m b :
  has c_bs b = false ->
  let '(f', m') := simplify_with simplify_guard_shipped c f m b in
  forall env, str_meaning env f' m' b = str_meaning env f m b.
Proof.
  intro Hb.
  assert (E : simplify_guard_shipped b = simplify_guard b).
  { unfold simplify_guard_shipped, simplify_guard. rewrite Hb, orb_false_r. reflexivity. }
  assert (E2 : simplify_with simplify_guard_shipped c f m b = simplify_string c f m b).
  { unfold simplify_string, simplify_with. rewrite E. reflexivity. }
  rewrite E2. apply simplify_sound.
Qed.
Example shipped_guard_partial_nonvacuous :
  has c_bs (s2l "abc") = false /\
  simplify_with simplify_guard_shipped (mkCfg true false) true true (s2l "abc") = (false, false).
Proof. split; reflexivity. Qed.

(* ------------------------------------------------------------------ one round keeps the program *)
Lemma flat_ok_inv m : flat_ok m = true -> exists ks, m = ENode (TArray false) ks.
Proof.
  destruct m as [| | |t ks]; try discriminate. destruct t as [|c| | | | | | | | | | | | | | | | | | |]; try discriminate.
  destruct c; try discriminate. eauto.
Qed.

Lemma Same_funwrap sort : forall m, is_array m = true ->
  Same sort (ENode (TFunc files_name) (funwrap m)) (ENode (TFunc files_name) [m]).
Proof.
  induction m as [| | | t ks IH] using enode_ind'; intro Ha; try discriminate.
  destruct t; try discriminate.
  cbn [funwrap].
  destruct ks as [|m' [|m'' r]].
  - apply Same_sym, Same_flatten.
  - destruct (flat_ok m') eqn:E.
    + inversion IH as [|? ? Hm' _]; subst.
      destruct (flat_ok_inv m' E) as [ks' ->].
      eapply Same_trans; [apply (Hm' eq_refl)|]. apply Same_sym, Same_flatten.
    + apply Same_sym, Same_flatten.
  - apply Same_sym, Same_flatten.
Qed.

Lemma Same_fpeel sort ks : Same sort (ENode (TFunc files_name) (fpeel ks)) (ENode (TFunc files_name) ks).
Proof.
  unfold fpeel. destruct ks as [|m [|m' r]]; try apply Same_refl.
  destruct (flat_ok m) eqn:E; [|apply Same_refl].
  destruct (flat_ok_inv m E) as [ks' ->]. apply Same_funwrap. reflexivity.
Qed.

Lemma sort_args_perm ks : Permutation (sort_args ks) ks.
Proof.
  unfold sort_args. eapply perm_trans; [|apply (filter_split_perm is_kw)].
  apply Permutation_app_tail, isort_by_perm.
Qed.

Lemma Forall_Forall2_map (R : enode -> enode -> Prop) (g : enode -> enode) ks :
  Forall (fun k => R (g k) k) ks -> Forall2 R (map g ks) ks.
Proof. induction 1; constructor; assumption. Qed.

Theorem round_same c : forall n, Same (c_sort c) (round c n) n.
Proof.
  induction n as [| k s | f m b | t ks IH] using enode_ind'; try apply Same_refl.
  - cbn [round].
    pose proof (simplify_value c f m b) as Hv. pose proof (simplify_flag c f m b) as Hf.
    destruct (simplify_string c f m b) as [f' m']. apply Same_str; assumption.
  - cbn [round].
    assert (Hk : Same (c_sort c) (ENode t (map (round c) ks)) (ENode t ks)).
    { apply (Same_kids _ t []). apply Forall_Forall2_map. exact IH. }
    destruct (is_files t) eqn:Ef; [|exact Hk].
    apply is_files_eq in Ef. subst t.
    eapply Same_trans; [|exact Hk].
    eapply Same_trans; [|apply Same_fpeel].
    destruct (c_sort c) eqn:Es; [|apply Same_refl].
    apply Same_sorted; [reflexivity | apply sort_args_perm].
Qed.

Theorem settle_same sort : forall n, Same sort (settle n) n.
Proof.
  induction n as [| k s | f m b | t ks IH] using enode_ind'; try apply Same_refl.
  cbn [settle].
  assert (Hk : Same sort (ENode t (map settle ks)) (ENode t ks)).
  { apply (Same_kids _ t []). apply Forall_Forall2_map. exact IH. }
  destruct t; try exact Hk. destruct commented; [|exact Hk].
  eapply Same_trans; [apply Same_layout | exact Hk].
Qed.

(* Clause "the formatted text parses to the same program", for the modelled part of the
   formatter: every configuration, every number of rounds, every tree. *)
Theorem rounds_same c : forall k n, Same (c_sort c) (rounds c k n) n.
Proof.
  induction k as [|k IH]; intro n; [apply Same_refl|].
  cbn [rounds]. eapply Same_trans; [apply IH|].
  eapply Same_trans; [apply settle_same | apply round_same].
Qed.

(* The rewritten tree has the same NORMAL FORM, i.e. the boolean acceptance test accepts it
   (either setting of sort_files). *)
Theorem rounds_norm c k n : norm (c_sort c) (rounds c k n) = norm (c_sort c) n.
Proof. apply norm_complete_any, rounds_same. Qed.

(* ... and the relation is preserved and reflected by the rewrites: two files are the same
   program iff their (modelled) formatted versions are. *)
Theorem rounds_reflect c k a b :
  (norm (c_sort c) (rounds c k a) = norm (c_sort c) (rounds c k b) <-> norm (c_sort c) a = norm (c_sort c) b).
Proof. rewrite !rounds_norm. tauto. Qed.

(* sorting keeps the multiset of files() arguments, hence of the flattened items *)
Theorem sort_keeps_items ks : Permutation (flat_map flat (sort_args ks)) (flat_map flat ks).
Proof. apply flat_map_perm, sort_args_perm. Qed.

(* ------------------------------------------------------------------ a second visit changes nothing *)
(* "Formatting the result again changes nothing", for the modelled part: one visit of
   TrimWhitespaces brings the program to a fixpoint of the visit (with the shipped order -
   sort, then remove ONE bracket level - it did not: pending/C16-files-flatten). *)

Lemma simplify_idem c f m b :
  let '(f', m') := simplify_string c f m b in simplify_string c f' m' b = (f', m').
Proof.
  unfold simplify_string, simplify_with. destruct (c_simplify c); [|reflexivity].
  destruct (simplify_guard b) eqn:G; destruct m; cbn [andb];
    match goal with |- context [has c_at ?v] => destruct (has c_at v) eqn:Ev end;
    destruct f; cbn [andb negb]; rewrite ?G; cbn [andb negb]; rewrite ?Ev; reflexivity.
Qed.

Definition stable c (n : enode) : Prop := round c n = n.

Lemma stable_array c fl ks : stable c (ENode (TArray fl) ks) <-> Forall (stable c) ks.
Proof.
  unfold stable. cbn [round is_files]. split.
  - intro H. injection H as H. clear fl.
    induction ks as [|x r IH]; [constructor|]. cbn [map] in H. injection H as Hx Hr.
    constructor; [exact Hx | apply IH; exact Hr].
  - intro H. f_equal. induction H as [|x r Hx _ IH]; [reflexivity|]. cbn [map]. rewrite Hx, IH. reflexivity.
Qed.

Lemma funwrap_stable c : forall m, is_array m = true -> stable c m -> Forall (stable c) (funwrap m).
Proof.
  induction m as [| | | t ks IH] using enode_ind'; intros Ha Hs; try discriminate.
  destruct t; try discriminate.
  apply stable_array in Hs. cbn [funwrap].
  destruct ks as [|m' [|m'' r]]; try exact Hs.
  destruct (flat_ok m') eqn:E; [|exact Hs].
  inversion IH as [|? ? Hm' _]; subst. inversion Hs as [|? ? Hsm _]; subst.
  destruct (flat_ok_inv m' E) as [ks' ->]. apply Hm'; [reflexivity | exact Hsm].
Qed.

Lemma fpeel_stable c ks : Forall (stable c) ks -> Forall (stable c) (fpeel ks).
Proof.
  intro H. unfold fpeel. destruct ks as [|m [|m' r]]; try exact H.
  destruct (flat_ok m) eqn:E; [|exact H].
  inversion H as [|? ? Hm _]; subst. destruct (flat_ok_inv m E) as [ks' ->].
  apply funwrap_stable; [reflexivity | exact Hm].
Qed.

(* the result of the flattening loop cannot be flattened further *)
Definition peeled (ks : list enode) : Prop := fpeel ks = ks.
Lemma funwrap_peeled : forall m, is_array m = true -> peeled (funwrap m).
Proof.
  induction m as [| | | t ks IH] using enode_ind'; intro Ha; try discriminate.
  destruct t; try discriminate. cbn [funwrap].
  destruct ks as [|m' [|m'' r]]; try reflexivity.
  destruct (flat_ok m') eqn:E.
  - inversion IH as [|? ? Hm' _]; subst. destruct (flat_ok_inv m' E) as [ks' ->]. apply Hm'. reflexivity.
  - unfold peeled, fpeel. rewrite E. reflexivity.
Qed.
Lemma fpeel_peeled ks : peeled (fpeel ks).
Proof.
  unfold fpeel. destruct ks as [|m [|m' r]]; try reflexivity.
  destruct (flat_ok m) eqn:E.
  - destruct (flat_ok_inv m E) as [ks' ->]. apply funwrap_peeled. reflexivity.
  - unfold peeled, fpeel. rewrite E. reflexivity.
Qed.

Lemma sort_args_peeled ks : peeled ks -> peeled (sort_args ks).
Proof.
  intro H. pose proof (Permutation_length (sort_args_perm ks)) as Hl.
  destruct ks as [|m [|m' r]].
  - reflexivity.
  - unfold sort_args. cbn [filter]. destruct (is_kw m); exact H.
  - unfold peeled, fpeel. destruct (sort_args (m :: m' :: r)) as [|a [|b l]]; try discriminate; reflexivity.
Qed.

(* the sort order is asymmetric, so inserting into a sorted list keeps it sorted and sorting a
   sorted list is the identity *)
Lemma bool_cmp_antisym a b : bool_cmp b a = CompOpp (bool_cmp a b).
Proof. destruct a, b; reflexivity. Qed.
Lemma chunk_cmp_antisym a b : chunk_cmp b a = CompOpp (chunk_cmp a b).
Proof. destruct a, b; simpl; try reflexivity; [apply str_cmp_antisym | apply Ncmp_antisym]. Qed.
Lemma part_cmp_antisym a b : part_cmp b a = CompOpp (part_cmp a b).
Proof.
  unfold part_cmp. rewrite (bool_cmp_antisym (fst a) (fst b)).
  destruct (bool_cmp (fst a) (fst b)); simpl; try reflexivity.
  apply lex_antisym. apply chunk_cmp_antisym.
Qed.
Lemma key_cmp_antisym a b : key_cmp b a = CompOpp (key_cmp a b).
Proof. apply lex_antisym. apply part_cmp_antisym. Qed.
Lemma before_key_asym a b : before_key a b = true -> before_key b a = false.
Proof.
  unfold before_key. rewrite (key_cmp_antisym (sort_key a) (sort_key b)).
  destruct (key_cmp (sort_key a) (sort_key b)); simpl; congruence.
Qed.

Inductive sorted_by (before : enode -> enode -> bool) : list enode -> Prop :=
| sorted_nil : sorted_by before []
| sorted_one x : sorted_by before [x]
| sorted_cons x y r : before y x = false -> sorted_by before (y :: r) -> sorted_by before (x :: y :: r).

Lemma insert_sorted before (Hasym : forall a b, before a b = true -> before b a = false) x :
  forall l, sorted_by before l -> sorted_by before (insert_by before x l).
Proof.
  induction 1 as [| y | y z r Hyz Hs IH]; cbn [insert_by].
  - constructor.
  - destruct (before y x) eqn:E; constructor; try constructor; auto.
  - destruct (before y x) eqn:E.
    + cbn [insert_by] in IH. destruct (before z x) eqn:E2.
      * constructor; assumption.
      * constructor; [apply Hasym; exact E | exact IH].
    + constructor; [exact E | constructor; assumption].
Qed.
Lemma isort_sorted before (Hasym : forall a b, before a b = true -> before b a = false) :
  forall l, sorted_by before (isort_by before l).
Proof. induction l as [|x r IH]; cbn [isort_by]; [constructor | apply insert_sorted; assumption]. Qed.
Lemma isort_of_sorted before : forall l, sorted_by before l -> isort_by before l = l.
Proof.
  induction 1 as [| y | y z r Hyz Hs IH]; try reflexivity.
  cbn [isort_by] in *. rewrite IH. cbn [insert_by]. rewrite Hyz. reflexivity.
Qed.

Lemma filter_all (f : enode -> bool) l : Forall (fun x => f x = true) l -> filter f l = l.
Proof. induction 1 as [|x r Hx _ IH]; simpl; [reflexivity|]. rewrite Hx, IH. reflexivity. Qed.
Lemma filter_none (f : enode -> bool) l : Forall (fun x => f x = false) l -> filter f l = [].
Proof. induction 1 as [|x r Hx _ IH]; simpl; [reflexivity|]. rewrite Hx. exact IH. Qed.
Lemma Forall_filter_true (f : enode -> bool) l : Forall (fun x => f x = true) (filter f l).
Proof. induction l as [|x r IH]; simpl; [constructor|]. destruct (f x) eqn:E; [constructor|]; assumption. Qed.

Lemma sort_args_idem ks : sort_args (sort_args ks) = sort_args ks.
Proof.
  unfold sort_args at 1.
  set (pos := filter (fun k => negb (is_kw k)) ks). set (kws := filter is_kw ks).
  assert (Hp : Forall (fun x => negb (is_kw x) = true) (isort_by before_key pos)).
  { eapply Permutation_Forall; [apply Permutation_sym, isort_by_perm|].
    apply (Forall_filter_true (fun k => negb (is_kw k))). }
  assert (Hk : Forall (fun x => is_kw x = true) kws) by apply Forall_filter_true.
  unfold sort_args. fold pos kws. rewrite !filter_app.
  rewrite (filter_all (fun k => negb (is_kw k)) _ Hp).
  rewrite (filter_none (fun k => negb (is_kw k)) kws)
    by (eapply Forall_impl; [|exact Hk]; cbv beta; intros a Ha; rewrite Ha; reflexivity).
  rewrite (filter_none is_kw (isort_by before_key pos))
    by (eapply Forall_impl; [|exact Hp]; cbv beta; intros a Ha; destruct (is_kw a); [discriminate | reflexivity]).
  rewrite (filter_all is_kw kws Hk), app_nil_r. cbn [app].
  rewrite (isort_of_sorted before_key _ (isort_sorted before_key before_key_asym pos)). reflexivity.
Qed.

Lemma sort_args_stable c ks : Forall (stable c) ks -> Forall (stable c) (sort_args ks).
Proof. intro H. eapply Permutation_Forall; [apply Permutation_sym, sort_args_perm | exact H]. Qed.

Lemma map_stable c ks : Forall (stable c) ks -> map (round c) ks = ks.
Proof. induction 1 as [|x r Hx _ IH]; [reflexivity|]. cbn [map]. rewrite Hx, IH. reflexivity. Qed.

Theorem round_idem c : forall n, round c (round c n) = round c n.
Proof.
  induction n as [| k s | f m b | t ks IH] using enode_ind'; try reflexivity.
  - cbn [round]. pose proof (simplify_idem c f m b) as H.
    destruct (simplify_string c f m b) as [f' m']. cbn [round]. rewrite H. reflexivity.
  - cbn [round].
    assert (HK : Forall (stable c) (map (round c) ks)).
    { induction IH as [|x r Hx _ IHr]; constructor; assumption. }
    destruct (is_files t) eqn:Ef.
    + set (p := fpeel (map (round c) ks)).
      assert (Hp : Forall (stable c) p) by (apply fpeel_stable; exact HK).
      assert (Hpp : peeled p) by apply fpeel_peeled.
      destruct (c_sort c) eqn:Es; cbn [round]; rewrite Ef, Es.
      * rewrite (map_stable c _ (sort_args_stable c p Hp)).
        rewrite (sort_args_peeled p Hpp), sort_args_idem. reflexivity.
      * rewrite (map_stable c p Hp), Hpp. reflexivity.
    + cbn [round]. rewrite Ef, (map_stable c _ HK). reflexivity.
Qed.

(* "files() arguments sorted when sort_files is on": the positional arguments come out in
   non-descending pathname_sort_key order, keyword arguments after them *)
Theorem sort_args_sorted ks :
  exists pos kws, sort_args ks = pos ++ kws /\ sorted_by before_key pos /\
                  Forall (fun k => is_kw k = false) pos /\ Forall (fun k => is_kw k = true) kws.
Proof.
  exists (isort_by before_key (filter (fun k => negb (is_kw k)) ks)), (filter is_kw ks).
  split; [reflexivity|]. split; [apply isort_sorted, before_key_asym|]. split.
  - eapply Permutation_Forall; [apply Permutation_sym, isort_by_perm|].
    eapply Forall_impl; [|apply (Forall_filter_true (fun k => negb (is_kw k)))].
    cbv beta. intros a Ha. destruct (is_kw a); [discriminate | reflexivity].
  - apply Forall_filter_true.
Qed.

(* the visit as shipped is not idempotent on the program: files([['a']]) needs two visits,
   and with sort_files files(['b', 'a']) is sorted only by the second *)
Definition lit (s : str) : enode := EStr false false s.
Definition w_nested : enode :=
  ENode (TFunc files_name) [ENode (TArray false) [ENode (TArray false) [lit [97]]]].
Definition w_unsorted : enode :=
  ENode (TFunc files_name) [ENode (TArray false) [lit [98]; lit [97]]].
Theorem shipped_visit_not_idempotent :
  round_shipped (mkCfg true false) (round_shipped (mkCfg true false) w_nested)
    <> round_shipped (mkCfg true false) w_nested /\
  round_shipped (mkCfg true true) (round_shipped (mkCfg true true) w_unsorted)
    <> round_shipped (mkCfg true true) w_unsorted.
Proof. split; vm_compute; discriminate. Qed.

(* ------------------------------------------------------------------ ArgumentFormatter's commas *)
(* "redundant commas": whatever the flags, the commas that separate the arguments stay and at most
   one trailing comma is printed - an argument list that parsed still parses, with the same
   arguments (same_program does not look at commas at all: C16_trivia_ignored). *)
Theorem comma_rule_safe ns nargs ncommas ml fn loud :
  (nargs - 1 <= ncommas <= nargs)%nat ->
  (nargs - 1 <= printed_commas nargs (comma_rule ns nargs ncommas ml fn loud) <= nargs)%nat.
Proof.
  intros H. unfold printed_commas, comma_rule.
  destruct (Nat.eqb_spec ncommas 0), (Nat.eqb_spec ncommas nargs), (Nat.eqb_spec nargs 1);
    destruct ml, fn, ns, loud; cbn [andb negb]; lia.
Qed.
(* what is printed is a fixpoint of the rule (same flags): the comma handling is idempotent *)
Theorem comma_rule_idem ns nargs ncommas ml fn loud :
  (nargs - 1 <= ncommas <= nargs)%nat ->
  printed_commas nargs (comma_rule ns nargs (printed_commas nargs (comma_rule ns nargs ncommas ml fn loud)) ml fn loud)
  = printed_commas nargs (comma_rule ns nargs ncommas ml fn loud).
Proof.
  intros H. unfold printed_commas, comma_rule.
  destruct (Nat.eqb_spec ncommas 0), (Nat.eqb_spec ncommas nargs), (Nat.eqb_spec nargs 1);
    destruct ml, fn, ns, loud; cbn [andb negb];
    repeat match goal with
           | |- context [Nat.eqb ?a ?b] => destruct (Nat.eqb_spec a b); cbn [andb negb]
           end; lia.
Qed.
