(* Format/FilesTrivia.v — files() sorting and flattening WITH the trivia (whitespace, comments)
   the formatter keeps on its nodes: model of TrimWhitespaces.sort_arguments and of the
   files([...]) -> files(...) step (mformat.py visit_FunctionNode, after fix 2e71ded), and proofs
   that no comment is lost: sorting permutes the arguments together with the trivia attached to
   them and leaves the commas' trivia in place; flattening keeps the comment text in order.
   An ArgumentNode holds: arguments (each with the trivia up to its comma), the commas (each
   with the trivia that follows it) and its own trailing trivia; FullAstVisitor prints
   arg, comma, arg, comma, ..., own trivia. *)
From MV Require Import Base.Strs Syntax.Lexer Syntax.Same Syntax.SameFacts Format.Model Format.Proofs.
From Coq Require Import Lia Permutation.
Open Scope N_scope.

Record arg := mkArg { a_node : enode; a_ws : str }.
Record arglist := mkAL { al_items : list arg; al_commas : list str; al_tail : str }.

(* the trivia in print order (FullAstVisitor.visit_ArgumentNode, visitor.py) *)
Fixpoint weave (items : list arg) (commas : list str) : list str :=
  match items with
  | [] => []
  | a :: r => a_ws a :: match commas with
                        | c :: cs => c :: weave r cs
                        | [] => weave r []
                        end
  end.
Definition trivia (al : arglist) : list str := weave (al_items al) (al_commas al) ++ [al_tail al].

(* ---------------------------------------------------------------- sort_arguments *)
Fixpoint insert_a (x : arg) (l : list arg) : list arg :=
  match l with
  | [] => [x]
  | y :: r => if before_key (a_node y) (a_node x) then y :: insert_a x r else x :: l
  end.
Fixpoint isort_a (l : list arg) : list arg :=
  match l with [] => [] | x :: r => insert_a x (isort_a r) end.
(* node.arguments.sort(key=...): the argument nodes move, with the trivia they carry; the
   comma nodes and the ArgumentNode's own trivia stay where they are *)
Definition sort_al (al : arglist) : arglist := mkAL (isort_a (al_items al)) (al_commas al) (al_tail al).

Lemma insert_a_perm x : forall l, Permutation (insert_a x l) (x :: l).
Proof.
  induction l as [|y r IH]; simpl; [apply Permutation_refl|].
  destruct (before_key (a_node y) (a_node x)).
  - eapply perm_trans; [apply perm_skip, IH | apply perm_swap].
  - apply Permutation_refl.
Qed.
Lemma isort_a_perm : forall l, Permutation (isort_a l) l.
Proof.
  induction l as [|x r IH]; simpl; [apply perm_nil|].
  eapply perm_trans; [apply insert_a_perm | apply perm_skip, IH].
Qed.

(* the model on bare nodes (Format/Model.v sort_args, used by the program-level theorems) is
   this sort with the trivia forgotten *)
Lemma insert_a_nodes x : forall l, map a_node (insert_a x l) = insert_by before_key (a_node x) (map a_node l).
Proof.
  induction l as [|y r IH]; simpl; [reflexivity|].
  destruct (before_key (a_node y) (a_node x)); simpl; [rewrite IH|]; reflexivity.
Qed.
Theorem sort_al_nodes al : map a_node (al_items (sort_al al)) = isort_by before_key (map a_node (al_items al)).
Proof.
  unfold sort_al. cbn [al_items]. induction (al_items al) as [|x r IH]; simpl; [reflexivity|].
  rewrite insert_a_nodes, IH. reflexivity.
Qed.

(* every argument keeps the trivia attached to it; the multiset of arguments is unchanged *)
Theorem sort_al_keeps_arguments al : Permutation (al_items (sort_al al)) (al_items al).
Proof. apply isort_a_perm. Qed.
Theorem sort_al_keeps_commas al : al_commas (sort_al al) = al_commas al /\ al_tail (sort_al al) = al_tail al.
Proof. split; reflexivity. Qed.

Lemma weave_perm : forall items commas,
  Permutation (weave items commas) (map a_ws items ++ firstn (length items) commas).
Proof.
  induction items as [|a r IH]; intros commas; simpl; [apply perm_nil|].
  apply perm_skip. destruct commas as [|c cs].
  - specialize (IH []). rewrite firstn_nil in *. exact IH.
  - eapply perm_trans; [apply perm_skip, IH|]. apply Permutation_middle.
Qed.

(* no trivia (hence no comment) is lost or duplicated by sorting *)
Theorem sort_al_keeps_trivia al : Permutation (trivia (sort_al al)) (trivia al).
Proof.
  unfold trivia, sort_al. cbn [al_items al_commas al_tail].
  apply Permutation_app_tail.
  eapply perm_trans; [apply weave_perm|]. eapply perm_trans; [|apply Permutation_sym, weave_perm].
  rewrite (Permutation_length (isort_a_perm (al_items al))).
  apply Permutation_app_tail, Permutation_map, isort_a_perm.
Qed.

(* ---------------------------------------------------------------- files([...]) -> files(...) *)
(* files( <lpar trivia> [ <lb trivia> inner ] <rb trivia> <array node trivia> , <comma trivia> <outer trivia> ) *)
Record files_call := mkFC {
  fc_lpar : str; fc_lb : str; fc_inner : arglist; fc_rb : str; fc_arr : str;
  fc_commas : list str; fc_tail : str }.
Definition fc_trivia (fc : files_call) : list str :=
  fc_lpar fc :: fc_lb fc :: trivia (fc_inner fc) ++ fc_rb fc :: fc_arr fc :: fc_commas fc ++ [fc_tail fc].

Definition blank (s : str) : bool := forallb is_space s.      (* s.strip() == '' *)

(* after the fix: what followed the ']' follows the last argument *)
Definition flatten_fixed (fc : files_call) : option (str * arglist) :=
  if negb (blank (fc_lb fc)) then None            (* a comment / continuation after '[': keep the brackets *)
  else
    let inner := fc_inner fc in
    let trailing := fc_rb fc ++ fc_arr fc ++ concat (fc_commas fc) ++ fc_tail fc in
    Some (fc_lpar fc,
          mkAL (al_items inner) (al_commas inner)
               (if blank trailing then al_tail inner else al_tail inner ++ trailing)).
(* as shipped in b8a063f: node.args = arg.args, nothing else *)
Definition flatten_shipped (fc : files_call) : option (str * arglist) :=
  if negb (blank (fc_lb fc)) then None else Some (fc_lpar fc, fc_inner fc).

(* what is not blank in the trivia: the comments (and continuation backslashes), in order *)
Definition visible (s : str) : str := filter (fun c => negb (is_space c)) s.
Lemma visible_app a b : visible (a ++ b) = visible a ++ visible b.
Proof. apply filter_app. Qed.
Lemma visible_blank s : blank s = true -> visible s = [].
Proof.
  unfold blank, visible. induction s as [|c r IH]; simpl; [reflexivity|].
  intro H. apply andb_true_iff in H. destruct H as [Hc Hr]. rewrite Hc. simpl. apply IH, Hr.
Qed.
Lemma visible_concat_app l1 l2 : visible (concat (l1 ++ l2)) = visible (concat l1) ++ visible (concat l2).
Proof. rewrite concat_app. apply visible_app. Qed.

Theorem flatten_keeps_comments fc lp al :
  flatten_fixed fc = Some (lp, al) ->
  visible (concat (lp :: trivia al)) = visible (concat (fc_trivia fc)).
Proof.
  unfold flatten_fixed. destruct (blank (fc_lb fc)) eqn:Hb; [|discriminate]. cbn [negb].
  intro H. injection H as <- <-.
  unfold fc_trivia, trivia. cbn [al_items al_commas al_tail concat].
  set (W := weave (al_items (fc_inner fc)) (al_commas (fc_inner fc))).
  set (T := fc_rb fc ++ fc_arr fc ++ concat (fc_commas fc) ++ fc_tail fc).
  rewrite !visible_app, (visible_blank _ Hb). cbn [app].
  rewrite !visible_concat_app. cbn [concat]. rewrite !app_nil_r.
  f_equal. rewrite <- app_assoc. f_equal.
  assert (HT : fc_rb fc ++ fc_arr fc ++ concat (fc_commas fc ++ [fc_tail fc]) = T).
  { unfold T. rewrite concat_app. cbn [concat]. rewrite app_nil_r. reflexivity. }
  rewrite HT.
  destruct (blank T) eqn:HbT.
  - rewrite (visible_blank T HbT), app_nil_r. reflexivity.
  - apply visible_app.
Qed.

(* the shipped step loses the comment after the ']' *)
Definition w_comment_after_bracket : files_call :=
  mkFC [] [] (mkAL [mkArg (EStr false false [97]) []] [] []) (s2l " # c") [] [] [].
Theorem flatten_shipped_loses_comment :
  exists lp al, flatten_shipped w_comment_after_bracket = Some (lp, al) /\
                visible (concat (lp :: trivia al)) <> visible (concat (fc_trivia w_comment_after_bracket)).
Proof. eexists. eexists. split; [reflexivity|]. vm_compute. discriminate. Qed.
