(* Determ/Model.v — the writers of configure-time text whose inputs are Python sets
   (or dicts with set-like construction), each taking the ITERATION ORDER of the set as an
   explicit list parameter (C06).  A Python set is a duplicate-free collection whose
   iteration order is an arbitrary permutation depending on hashes (PYTHONHASHSEED, object
   addresses); the determinism theorems quantify over that permutation.
   Model only, no proofs. *)
From MV Require Import Base.Strs.
Open Scope N_scope.

(* ------------------------------------------------------------------------ Python sorted() *)
(* list.sort / sorted() is a STABLE sort that only ever asks `x < y`.  For a strict weak
   order the result of a stable sort is unique, so insertion sort is a faithful model:
   x (which came first) is placed before the first y that is not smaller than x. *)
Section PySorted.
  Context {A : Type} (lt : A -> A -> bool).
  Fixpoint ins (x : A) (l : list A) : list A :=
    match l with
    | [] => [x]
    | y :: r => if lt y x then y :: ins x r else x :: y :: r
    end.
  Definition py_sorted (l : list A) : list A := fold_right ins [] l.
End PySorted.

Definition str_ltb (a b : str) : bool :=
  match str_cmp a b with Lt => true | _ => false end.

(* sorted(<iterable of str>) *)
Definition sorted_strs (l : list str) : list str := py_sorted str_ltb l.

(* ------------------------------------------------------------------------ unique_list / OrderedSet *)
(* universal.py:2319-2320   unique_list(x) = list(dict.fromkeys(x)) : first occurrence wins *)
Fixpoint unique_acc (seen : list str) (l : list str) : list str :=
  match l with
  | [] => []
  | x :: r => if str_mem x seen then unique_acc seen r else x :: unique_acc (x :: seen) r
  end.
Definition unique_list (l : list str) : list str := unique_acc [] l.

(* universal.py:2323-2374  OrderedSet: an OrderedDict of keys.  The state is the key list. *)
Definition oset := list str.
Definition oset_add (v : str) (s : oset) : oset := if str_mem v s then s else s ++ [v].
Fixpoint oset_discard (v : str) (s : oset) : oset :=
  match s with
  | [] => []
  | x :: r => if str_eqb v x then r else x :: oset_discard v r
  end.
Definition oset_update (it : list str) (s : oset) : oset := fold_left (fun s v => oset_add v s) it s.
(* difference(set_): type(self)(e for e in self if e not in set_) — only asks membership *)
Definition oset_difference (s : oset) (other : list str) : oset :=
  filter (fun e => negb (str_mem e other)) s.
(* difference_update(iterable): for item in iterable: self.discard(item) *)
Definition oset_difference_update (it : list str) (s : oset) : oset :=
  fold_left (fun s v => oset_discard v s) it s.
Definition oset_move_to_end (v : str) (s : oset) : option oset :=
  if str_mem v s then Some (oset_discard v s ++ [v]) else None.      (* KeyError otherwise *)
Definition oset_pop (s : oset) : option (str * oset) :=
  match rev s with [] => None | x :: r => Some (x, rev r) end.

(* ------------------------------------------------------------------------ ninja build statement *)
(* ninjabackend.py:112-128  ninja_quote(text, is_build_line=True): '\n' is an error; '$', ' '
   and ':' are prefixed with '$' *)
Definition has_nl (s : str) : bool := memb 10 s.
Fixpoint nq_build (s : str) : str :=
  match s with
  | [] => []
  | c :: r => if (c =? 36) || (c =? 32) || (c =? 58) then 36 :: c :: nq_build r else c :: nq_build r
  end.

Inductive wres := WOk (s : str) | WErr (cls : str).

Definition bslash_to_slash (s : str) : str := map (fun c => if c =? 92 then 47 else c) s.

(* ninjabackend.py:380-415  NinjaBuildElement.write, first (build) line, POSIX host, no
   response file.  deps / orderdeps are the ITERATION ORDERS of the two sets. *)
Definition ninja_build_line (outs implicit_outs : list str) (rule : str) (ins : list str)
                            (deps orderdeps : list str) : wres :=
  if existsb has_nl (outs ++ implicit_outs ++ ins ++ deps ++ orderdeps) then WErr (s2l "MesonException")
  else
    let sp := [32] in
    let q := map nq_build in
    let line := s2l "build " ++ join sp (q outs)
                ++ (match implicit_outs with [] => [] | _ => s2l " | " ++ join sp (q implicit_outs) end)
                ++ s2l ": " ++ rule ++ sp ++ join sp (q ins)
                ++ (match deps with [] => [] | _ => s2l " | " ++ join sp (q (sorted_strs deps)) end)
                ++ (match orderdeps with [] => [] | _ => s2l " || " ++ join sp (q (sorted_strs orderdeps)) end)
                ++ [10] in
    WOk (bslash_to_slash line).

(* ------------------------------------------------------------------------ exe-wrapper digest pre-image *)
(* utils/core.py:83-89  EnvironmentVariables.hash: for key in sorted(myenv.keys()):
   update(key); update(b','); update(myenv[key]); update(b';').  env is the dict in ITS
   iteration order (the order in which the variables were first set). *)
Fixpoint assoc_get (k : str) (l : list (str * str)) : str :=
  match l with
  | [] => []
  | (k', v) :: r => if str_eqb k k' then v else assoc_get k r
  end.
Definition env_hash_preimage (env : list (str * str)) : str :=
  concat (map (fun k => k ++ [44] ++ assoc_get k env ++ [59]) (sorted_strs (map fst env))).

(* backends.py:813-821: digest = sha1(env pre-image, str(cmd_args), str(workdir), str(capture),
   str(feed)); the file name is a function of the pre-image only *)
Definition exe_digest_preimage (env : list (str * str)) (cmd workdir capture feed : str) : str :=
  env_hash_preimage env ++ cmd ++ workdir ++ capture ++ feed.

(* ------------------------------------------------------------------------ option keys *)
(* options.py:113-235  OptionKey(name, subproject, machine); MachineChoice.BUILD = 0, HOST = 1 *)
Record okey := mkkey { ksub : option str; kmach : N; kname : str }.

Definition HOST : N := 1.
Definition okey_eqb (a b : okey) : bool :=
  (match ksub a, ksub b with
   | None, None => true | Some x, Some y => str_eqb x y | _, _ => false end)
  && (kmach a =? kmach b) && str_eqb (kname a) (kname b).

(* options.py:195-202  __lt__:
     if self.subproject is None: return other.subproject is not None
     elif other.subproject is None: return False
     return self._to_tuple() < other._to_tuple()       (subproject, machine, name)
   NOTE: two keys without subproject are never `<` one another, so sorted() leaves their
   relative order alone. *)
Definition okey_lt (a b : okey) : bool :=
  match ksub a, ksub b with
  | None, None => false
  | None, Some _ => true
  | Some _, None => false
  | Some x, Some y =>
      match str_cmp x y with
      | Lt => true | Gt => false
      | Eq => match N.compare (kmach a) (kmach b) with
              | Lt => true | Gt => false
              | Eq => str_ltb (kname a) (kname b)
              end
      end
  end.

(* options.py:225-231 __str__ *)
Definition okey_str (k : okey) : str :=
  let out := if kmach k =? 0 then s2l "build." ++ kname k else kname k in
  match ksub k with None => out | Some s => s ++ [58] ++ out end.

Fixpoint okey_mem (k : okey) (l : list okey) : bool :=
  match l with [] => false | x :: r => okey_eqb k x || okey_mem k r end.

(* ------------------------------------------------------------------------ base options -> intro-buildoptions.json *)
(* The option store is a dict OptionKey -> option object; only the key order matters here. *)
Definition store := list okey.

(* options.py:885-899 add_system_option_internal (native build, nothing pending):
     if key in self.options: return
     if key.subproject: self.add_system_option_internal(key.evolve(subproject=None), valobj)
     else: self.options[key] = valobj                                             *)
Definition add_system_option (k : okey) (st : store) : store :=
  if okey_mem k st then st
  else match ksub k with
       | Some s =>
           if negb (str_eqb s [])                                  (* `if key.subproject:` — '' is falsy *)
           then let g := mkkey None (kmach k) (kname k) in
                if okey_mem g st then st else st ++ [g]
           else st ++ [k]
       | None => st ++ [k]
       end.

Inductive sres := SOk (st : store) | SErr (cls : str).

(* coredata.py:435-441, body of the loop for one key of comp.base_options; `table` is the key
   set of options.COMPILER_BASE_OPTIONS (names) *)
Definition register_one (table : list str) (sub : str) (name : str) (st : store) : sres :=
  let skey := mkkey (if str_eqb sub [] then None else Some sub) HOST name in
  if okey_mem skey st then SOk st                                (* `if skey not in self.optstore` *)
  else if str_mem name table then SOk (add_system_option skey st)
  else SErr (s2l "KeyError").                                    (* COMPILER_BASE_OPTIONS[key] *)

Fixpoint register_in_order (table : list str) (sub : str) (order : list str) (st : store) : sres :=
  match order with
  | [] => SOk st
  | n :: r => match register_one table sub n st with
              | SOk st' => register_in_order table sub r st'
              | e => e
              end
  end.

(* The loop as found in the pinned tree:  `for key in comp.base_options:` — the set is
   consumed in its iteration order. *)
Definition register_base_asfound (table : list str) (sub : str) (iter_order : list str) (st : store) : sres :=
  register_in_order table sub iter_order st.

(* The loop after pending/C06-base-options-order.diff:
   `for key in sorted(comp.base_options, key=str):` — str(OptionKey(name)) = name. *)
Definition register_base (table : list str) (sub : str) (iter_order : list str) (st : store) : sres :=
  register_in_order table sub (sorted_strs iter_order) st.

(* options.py:1208-1211 is_base_option *)
Definition is_base_option (table : list str) (k : okey) : bool :=
  prefixb (s2l "b_") (kname k) && str_mem (kname k) table.

(* mintro.py:239-241,272: add_keys({k: v for k, v in optstore.items() if is_base_option(k)}, 'base')
   -> for key, opt in sorted(opts.items()): optdict['name'] = str(key) *)
Definition intro_base_section (table : list str) (st : store) : list str :=
  map okey_str (py_sorted okey_lt (filter (is_base_option table) st)).

Definition base_writer (table : list str) (sub : str) (iter_order : list str) (st : store) : option (list str) :=
  match register_base table sub iter_order st with
  | SOk st' => Some (intro_base_section table st')
  | SErr _ => None
  end.

Definition base_writer_asfound (table : list str) (sub : str) (iter_order : list str) (st : store) : option (list str) :=
  match register_base_asfound table sub iter_order st with
  | SOk st' => Some (intro_base_section table st')
  | SErr _ => None
  end.

(* ------------------------------------------------------------------------ test serialisation: depends *)
(* backends.py:1318-1325, 1367 : depends = set(t.depends); depends.add(exe); depends.add(a)…;
   [x.get_id() for x in depends].
   As found the container is a set (iteration order arbitrary: targets hash by address);
   after pending/C06-test-depends-order.diff it is an OrderedSet, i.e. first-insertion order. *)
Definition test_depends_asfound (iter_order : list str) : list str := iter_order.
Definition test_depends (inserted : list str) : list str := oset_update inserted [].

(* ------------------------------------------------------------------------ intro-targets.json: dependency names *)
(* dependencies/base.py:141-142: self._id = uuid.uuid4().int; self.name = f'dep{self._id}'
   mintro.py:190: 'dependencies': [d.name for d in target.external_deps].
   A dependency is named (Some name) or anonymous (None); `nonce` gives the uuid drawn for the
   i-th anonymous one in this run. *)
Fixpoint dep_names (deps : list (option str)) (nonce : list N) : list str :=
  match deps with
  | [] => []
  | Some n :: r => n :: dep_names r nonce
  | None :: r =>
      match nonce with
      | [] => (s2l "dep" ++ N_dec 0) :: dep_names r []
      | u :: us => (s2l "dep" ++ N_dec u) :: dep_names r us
      end
  end.
Definition all_named (deps : list (option str)) : bool :=
  forallb (fun d => match d with Some _ => true | None => false end) deps.

(* ------------------------------------------------------------------------ a sequence of build statements *)
(* ninjabackend.py:493-497 NinjaBuild.write: the elements are written in list order *)
Record nelem := mknelem { e_outs : list str; e_imp : list str; e_rule : str; e_ins : list str;
                          e_deps : list str; e_odeps : list str }.
Definition nelem_line (e : nelem) : wres :=
  ninja_build_line (e_outs e) (e_imp e) (e_rule e) (e_ins e) (e_deps e) (e_odeps e).
Definition ninja_statements (es : list nelem) : list wres := map nelem_line es.
