(* Determ/DepFileProofs.v — get_all_dependencies returns exactly the sorted set of successors of
   the nodes reachable from the target, whatever the iteration order of every deps set. *)
From Coq Require Import Permutation Sorted Relations.
From MV Require Import Base.Strs Base.LexFacts Determ.Model Determ.Proofs Determ.DepFile.
Open Scope N_scope.

Definition sdec := list_eq_dec N.eq_dec.

Section Graph.
  Variable df : depfile.
  Definition succ (n x : str) : Prop := exists ds, df_get n df = Some ds /\ In x ds.
  Definition reach : str -> str -> Prop := clos_refl_trans_1n str succ.

  Lemma reach_step a b c : reach a b -> succ b c -> reach a c.
  Proof.
    intros H S. apply clos_rt_rt1n. apply clos_rt1n_rt in H.
    eapply rt_trans; [exact H|]. now apply rt_step.
  Qed.

  (* what one call promises *)
  Definition call_ok (name : str) (V R V' : list str) : Prop :=
    incl V V' /\ In name V'
    /\ (forall n, In n V' -> ~ In n V -> reach name n)
    /\ (forall n, In n V' -> ~ In n V -> forall x, succ n x -> In x V')
    /\ (forall x, In x R <-> exists n, In n V' /\ ~ In n V /\ succ n x).

  Lemma loop_ok (rec : str -> list str -> option (list str * list str)) :
    (forall d v r v', rec d v = Some (r, v') -> call_ok d v r v') ->
    forall l acc v acc' v', gad_loop rec l acc v = Some (acc', v') ->
      incl v v'
      /\ (forall d, In d l -> In d v')
      /\ (forall n, In n v' -> ~ In n v -> exists d, In d l /\ reach d n)
      /\ (forall n, In n v' -> ~ In n v -> forall x, succ n x -> In x v')
      /\ (forall x, In x acc' <-> In x acc \/ exists n, In n v' /\ ~ In n v /\ succ n x).
  Proof.
    intros Hrec. induction l as [|d r IH]; intros acc v acc' v' H; cbn in H.
    - inversion H; subst. split; [apply incl_refl|]. split; [intros d []|].
      split; [intros n H1 H2; tauto|]. split; [intros n H1 H2; tauto|].
      intro x. split; [tauto|]. intros [?|(n & H1 & H2 & _)]; tauto.
    - destruct (rec d v) as [[res v1]|] eqn:E; [|discriminate].
      destruct (Hrec _ _ _ _ E) as (A1 & A2 & A3 & A4 & A5).
      destruct (IH _ _ _ _ H) as (B1 & B2 & B3 & B4 & B5).
      split; [eapply incl_tran; eauto|]. split; [|split; [|split]].
      + intros d' [<-|Hd]; auto.
      + intros n Hn Hnv. destruct (in_dec sdec n v1) as [I|I].
        * exists d. split; [now left|]. now apply A3.
        * destruct (B3 n Hn I) as (d' & Hd' & Hr). exists d'. split; [now right|exact Hr].
      + intros n Hn Hnv x Hs. destruct (in_dec sdec n v1) as [I|I].
        * apply B1. eapply A4; eauto.
        * eapply B4; eauto.
      + intro x. rewrite B5, in_app_iff, A5. split.
        * intros [[Ha|(n & N1 & N2 & N3)]|(n & N1 & N2 & N3)]; [now left| |].
          -- right. exists n. split; [now apply B1|tauto].
          -- right. exists n. split; [exact N1|]. split; [|exact N3]. intro; apply N2; now apply A1.
        * intros [Ha|(n & N1 & N2 & N3)]; [tauto|].
          destruct (in_dec sdec n v1) as [I|I].
          -- left. right. exists n. tauto.
          -- right. exists n. tauto.
  Qed.

  Lemma gad_ok fuel : forall name V R V', gad fuel df name V = Some (R, V') -> call_ok name V R V'.
  Proof.
    induction fuel as [|f IH]; intros name V R V' H; [discriminate|]. cbn in H.
    destruct (str_mem name V) eqn:Em.
    - inversion H; subst. apply str_mem_in in Em. unfold call_ok.
      split; [apply incl_refl|]. split; [exact Em|].
      split; [intros n H1 H2; tauto|]. split; [intros n H1 H2; tauto|].
      intro x. split; [intros []|]. intros (n & H1 & H2 & _); tauto.
    - assert (~ In name V) as Hnv by (rewrite <- str_mem_in; congruence).
      destruct (df_get name df) as [ds|] eqn:Eg.
      + destruct (gad_loop (gad f df) ds ds (name :: V)) as [[acc v']|] eqn:El; [|discriminate].
        inversion H; subst R V'.
        destruct (loop_ok _ IH _ _ _ _ _ El) as (B1 & B2 & B3 & B4 & B5).
        unfold call_ok. split; [intros x Hx; apply B1; now right|]. split; [apply B1; now left|].
        split; [|split].
        * intros n Hn Hn'. destruct (sdec n name) as [->|Hne]; [constructor|].
          destruct (B3 n Hn) as (d & Hd & Hr); [intros [E|E]; [now subst|tauto]|].
          econstructor; [exists ds; split; [exact Eg|exact Hd]|exact Hr].
        * intros n Hn Hn' x Hs. destruct (sdec n name) as [->|Hne].
          -- destruct Hs as (ds' & G1 & G2). rewrite Eg in G1. inversion G1; subst. now apply B2.
          -- eapply B4; eauto. intros [E|E]; [now subst|tauto].
        * intro x.
          assert (In x (sorted_strs (unique_list acc)) <-> In x acc) as ->.
          { rewrite <- (unique_list_in acc x). split; apply Permutation_in; [|symmetry]; apply sorted_strs_is_perm. }
          rewrite B5. split.
          -- intros [Hd|(n & N1 & N2 & N3)].
             ++ exists name. split; [apply B1; now left|]. split; [exact Hnv|]. exists ds. tauto.
             ++ exists n. split; [exact N1|]. split; [intro; apply N2; now right|exact N3].
          -- intros (n & N1 & N2 & N3). destruct (sdec n name) as [->|Hne].
             ++ left. destruct N3 as (ds' & G1 & G2). rewrite Eg in G1. now inversion G1; subst.
             ++ right. exists n. split; [exact N1|]. split; [|exact N3]. intros [E|E]; [now subst|tauto].
      + inversion H; subst. unfold call_ok. split; [intros x Hx; now right|]. split; [now left|].
        assert (forall n, In n (name :: V) -> ~ In n V -> n = name) as Hn.
        { intros n [E|E] H2; [now subst|tauto]. }
        split; [|split].
        * intros n H1 H2. rewrite (Hn n H1 H2). constructor.
        * intros n H1 H2 x (ds & G1 & _). rewrite (Hn n H1 H2), Eg in G1. discriminate.
        * intro x. split; [intros []|]. intros (n & H1 & H2 & ds & G1 & _). rewrite (Hn n H1 H2), Eg in G1. discriminate.
  Qed.

  (* the answer of the top-level call: exactly the successors of the reachable nodes *)
  Theorem get_all_dependencies_spec fuel name R :
    get_all_dependencies fuel df name = Some R ->
    (forall x, In x R <-> exists n, reach name n /\ succ n x)
    /\ NoDup R /\ StronglySorted (le str_ltb) R.
  Proof.
    unfold get_all_dependencies. destruct (gad fuel df name []) as [[r v']|] eqn:E; [|discriminate].
    intro H; inversion H; subst r. destruct (gad_ok _ _ _ _ _ E) as (A1 & A2 & A3 & A4 & A5).
    assert (forall n, reach name n -> In n v') as Hc.
    { intros n Hr. apply clos_rt1n_rt, clos_rt_rtn1 in Hr. induction Hr as [|b c Hs Hr IHr]; [exact A2|].
      eapply A4; eauto. }
    split.
    - intro x. rewrite A5. split; intros (n & H1 & H2); exists n.
      + split; [apply A3; tauto|tauto].
      + split; [now apply Hc|]. split; [intros []|exact H2].
    - (* shape of the result: sorted(set) or [] *)
      destruct fuel as [|f]; [discriminate|]. cbn in E.
      destruct (df_get name df) as [ds|]; cbn in E.
      + destruct (gad_loop (gad f df) ds ds [name]) as [[acc v'']|]; [|discriminate]. inversion E; subst.
        split; [|apply sorted_strs_sorted].
        eapply Permutation_NoDup; [symmetry; apply sorted_strs_is_perm|apply unique_list_nodup].
      + inversion E; subst. split; constructor.
  Qed.
End Graph.

(* two runs see the same depfile, each deps set iterating in its own order *)
Definition same_depfile (df df' : depfile) : Prop :=
  Forall2 (fun a b => fst a = fst b /\ Permutation (snd a) (snd b)) df df'.

Lemma succ_same df df' : same_depfile df df' -> forall n x, succ df n x -> succ df' n x.
Proof.
  induction 1 as [|[t ds] [t' ds'] r r' [Ht Hp] Hr IH]; intros n x (l & G1 & G2); cbn in *; [discriminate|].
  subst t'. destruct (str_eqb n t) eqn:E.
  - inversion G1; subst l. exists ds'. cbn. rewrite E. split; [reflexivity|]. eapply Permutation_in; eauto.
  - destruct (IH n x) as (l' & H1 & H2); [exists l; tauto|]. exists l'. cbn. now rewrite E.
Qed.

Lemma same_depfile_sym df df' : same_depfile df df' -> same_depfile df' df.
Proof. induction 1 as [|a b r r' [H1 H2] Hr IH]; constructor; auto. split; [now symmetry|now symmetry]. Qed.

Lemma reach_same df df' : same_depfile df df' -> forall a b, reach df a b -> reach df' a b.
Proof. intros Hs a b H. induction H as [|a b c S R IH]; [constructor|]. econstructor; [eapply succ_same; eauto|exact IH]. Qed.

Theorem get_all_dependencies_order_independent df df' fuel fuel' name R R' :
  same_depfile df df' ->
  get_all_dependencies fuel df name = Some R -> get_all_dependencies fuel' df' name = Some R' -> R = R'.
Proof.
  intros Hs H H'. pose proof (same_depfile_sym _ _ Hs) as Hs'.
  destruct (get_all_dependencies_spec _ _ _ _ H) as (M & N & S).
  destruct (get_all_dependencies_spec _ _ _ _ H') as (M' & N' & S').
  apply (sorted_perm_eq str_ltb str_le_antisym); auto.
  apply NoDup_Permutation; auto. intro x. rewrite M, M'. split; intros (n & H1 & H2); exists n.
  - split; [eapply reach_same; eauto|eapply succ_same; eauto].
  - split; [eapply reach_same; eauto|eapply succ_same; eauto].
Qed.

(* fuel: any two sufficient amounts give the same answer *)
Corollary get_all_dependencies_fuel_irrelevant df fuel fuel' name R R' :
  get_all_dependencies fuel df name = Some R -> get_all_dependencies fuel' df name = Some R' -> R = R'.
Proof.
  apply get_all_dependencies_order_independent. induction df as [|a r IH]; constructor; auto.
Qed.
