(* Extraction of the C06 model.  Only the ExtrOcamlBasic directives are used. *)
From Coq Require Extraction.
From Coq Require Import ExtrOcamlBasic.
From MV Require Import Determ.Entry.
Extraction "../extract/C06/model.ml" Determ.Entry.run.
