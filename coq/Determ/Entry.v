(* Determ/Entry.v — entry points used by the C06 correspondence: every function takes its
   arguments as a list of strings and returns one canonical string.  Conventions (mirrored
   in harness/check_C06.py and harness/impl/c06.py):
     SEP1 = [1] between the fields of one argument / of the result,
     SEP2 = [2] between list items, SEP3 = [3] between the two halves of a pair. *)
From MV Require Import Base.Strs FS.Replace Determ.Model Determ.DepFile Determ.PkgConfig.
Open Scope N_scope.

Definition SEP1 : str := [1].
Definition SEP2 : str := [2].

(* split at every occurrence of the code point c; the empty string is the empty list *)
Fixpoint split_acc (c : char) (cur : str) (s : str) : list str :=
  match s with
  | [] => [rev cur]
  | x :: r => if x =? c then rev cur :: split_acc c [] r else split_acc c (x :: cur) r
  end.
Definition split (c : char) (s : str) : list str :=
  match s with [] => [] | _ => split_acc c [] s end.
Definition lst (s : str) : list str := split 2 s.

Definition exc (cls : str) : str := s2l "EXC:" ++ cls.

Definition render_w (r : wres) : str :=
  match r with WOk s => s | WErr c => exc c end.

(* ---- ordered set programs *)
Inductive ores := OOk (s : oset) | OErr (cls : str).
Definition oset_step (op : str) (s : oset) : ores :=
  match op with
  | 97 :: v => OOk (oset_add v s)                             (* a: add *)
  | 100 :: v => OOk (oset_discard v s)                        (* d: discard *)
  | 117 :: l => OOk (oset_update (lst l) s)                   (* u: update *)
  | 120 :: l => OOk (oset_difference_update (lst l) s)        (* x: difference_update *)
  | 102 :: l => OOk (oset_difference s (lst l))               (* f: s = s.difference(set) *)
  | 109 :: v => match oset_move_to_end v s with Some s' => OOk s' | None => OErr (s2l "KeyError") end
  | 112 :: _ => match oset_pop s with Some (_, s') => OOk s' | None => OErr (s2l "KeyError") end
  | _ => OErr (s2l "?")
  end.
Fixpoint oset_run (ops : list str) (s : oset) : ores :=
  match ops with
  | [] => OOk s
  | op :: r => match oset_step op s with OOk s' => oset_run r s' | e => e end
  end.

(* ---- file system programs *)
Fixpoint pairs (l : list str) : list (str * str) :=
  match l with
  | a :: b :: r => (a, b) :: pairs r
  | _ => []
  end.

Definition fs_step (op : str) (s : fs) : res :=
  match split 1 op with
  | [[119]; p; c] => Ok (write_file p c s)                    (* w path content *)
  | [[119]; p] => Ok (write_file p [] s)
  | [[114]; dst; tmp] => replace_if_different dst tmp s       (* r dst tmp *)
  | [[99]; dst; c] => conf_write dst c s                      (* c dst content *)
  | [[99]; dst] => conf_write dst [] s
  | [[110]; dst; c] => ninja_write dst c s                    (* n dst content *)
  | [[110]; dst] => ninja_write dst [] s
  | [[117]; p] => os_unlink p s                               (* u path *)
  | [[109]; a; b] => os_replace a b s                         (* m src dst *)
  | [[105]; dir; items] => intro_write dir (pairs (lst items)) s   (* i dir out,content,... *)
  | [[105]; dir] => intro_write dir [] s
  | _ => PyErr (s2l "?") s
  end.
Fixpoint fs_run (ops : list str) (s : fs) : res :=
  match ops with
  | [] => Ok s
  | op :: r => match fs_step op s with Ok s' => fs_run r s' | e => e end
  end.

Definition file_lt (a b : str * file) : bool := str_ltb (fst a) (fst b).
Definition render_fs (s : fs) : str :=
  join SEP2 (map (fun pf => fst pf ++ [61] ++ fdata (snd pf) ++ [64] ++ N_dec (fmtime (snd pf)))
                 (py_sorted file_lt (ffiles s))).
Definition render_res (r : res) : str :=
  match r with
  | Ok s => render_fs s
  | PyErr c s => exc c ++ SEP1 ++ render_fs s
  end.

Definition empty_fs : fs := mkfs [] 0.

(* ---- keys *)
Definition gkey (n : str) : okey := mkkey None HOST n.
Definition render_names (o : option (list str)) : str :=
  match o with Some l => join SEP2 l | None => exc (s2l "KeyError") end.

Definition dec_dep (s : str) : option str :=
  match s with 78 :: n => Some n | _ => None end.             (* "N"+name | "" (anonymous) *)

Fixpoint split_mark (l : list str) : list str * list str :=
  match l with
  | [] => ([], [])
  | x :: r => if str_eqb x [3] then ([], r)
              else let '(a, b) := split_mark r in (x :: a, b)
  end.

(* ---- depfiles: a rule is  targets(SEP2) SEP1 deps(SEP2) *)
Definition parse_rule (r : str) : list str * list str :=
  match split 1 r with
  | [t; d] => (lst t, lst d)
  | [t] => (lst t, [])
  | _ => ([], [])
  end.
Definition rules_size (rs : list (list str * list str)) : nat :=
  fold_right (fun r n => (length (fst r) + length (snd r) + n)%nat) O rs.

Definition run (fn : str) (args : list str) : str :=
  if str_eqb fn (s2l "nline") then
    match args with
    | [rule; outs; imp; ins; deps; odeps] =>
        render_w (ninja_build_line (lst outs) (lst imp) rule (lst ins) (lst deps) (lst odeps))
    | _ => s2l "?" end
  else if str_eqb fn (s2l "sorted") then join SEP2 (sorted_strs args)
  else if str_eqb fn (s2l "uniq") then join SEP2 (unique_list args)
  else if str_eqb fn (s2l "oset") then
    match oset_run args [] with OOk s => join SEP2 s | OErr c => exc c end
  else if str_eqb fn (s2l "envhash") then env_hash_preimage (pairs args)
  else if str_eqb fn (s2l "base") then
    match args with
    | [table; sub; order; pre] => render_names (base_writer (lst table) sub (lst order) (map gkey (lst pre)))
    | _ => s2l "?" end
  else if str_eqb fn (s2l "base_asfound") then
    match args with
    | [table; sub; order; pre] => render_names (base_writer_asfound (lst table) sub (lst order) (map gkey (lst pre)))
    | _ => s2l "?" end
  else if str_eqb fn (s2l "tdep") then join SEP2 (test_depends args)
  else if str_eqb fn (s2l "depnames") then
    let '(deps, nonces) := split_mark args in
    join SEP2 (dep_names (map dec_dep deps) (map digits_val nonces))
  else if str_eqb fn (s2l "pcreqs") then
    match args with
    | pub :: priv :: vr => requires_lines (df_of_rules (map parse_rule vr)) (lst pub) (lst priv)
    | _ => s2l "?" end
  else if str_eqb fn (s2l "pcdedup") then
    match args with
    | [w; a; b; c; d; f; g] =>
        let r := remove_dups (lst w) (mkpc (lst a) (lst b) (lst c) (lst d) (lst f) (lst g)) in
        join SEP1 (map (join SEP2) [pub_reqs r; pub_libs r; priv_reqs r; priv_libs r; cflags r; cflags_private r])
    | _ => s2l "?" end
  else if str_eqb fn (s2l "depfile") then
    match args with
    | name :: rules =>
        let rs := map parse_rule rules in
        match get_all_dependencies (S (S (rules_size rs))) (df_of_rules rs) name with
        | Some r => join SEP2 r
        | None => exc (s2l "OutOfFuel")
        end
    | _ => s2l "?" end
  else if str_eqb fn (s2l "fs") then render_res (fs_run args empty_fs)
  else s2l "?".
