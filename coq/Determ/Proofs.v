(* Determ/Proofs.v — permutation-invariance of the modelled writers (C06). *)
From Coq Require Import Permutation Sorted Lia.
From MV Require Import Base.Strs Base.LexFacts Determ.Model.
Open Scope N_scope.

(* ------------------------------------------------------------------ generic: sorting *)
Section SortFacts.
  Context {A : Type} (lt : A -> A -> bool).
  Definition le (a b : A) : Prop := lt b a = false.
  Hypothesis lt_asym : forall a b, lt a b = true -> lt b a = false.
  Hypothesis le_trans : forall a b c, le a b -> le b c -> le a c.
  Hypothesis le_antisym : forall a b, le a b -> le b a -> a = b.

  Lemma ins_perm x l : Permutation (ins lt x l) (x :: l).
  Proof.
    induction l as [|y r IH]; cbn; [reflexivity|].
    destruct (lt y x); [|reflexivity].
    rewrite IH. apply perm_swap.
  Qed.

  Lemma py_sorted_perm l : Permutation (py_sorted lt l) l.
  Proof.
    induction l as [|x r IH]; cbn; [reflexivity|].
    rewrite ins_perm. now constructor.
  Qed.

  Lemma ins_sorted x l : StronglySorted le l -> StronglySorted le (ins lt x l).
  Proof.
    induction 1 as [|y r Hs IH Hall]; cbn.
    - repeat constructor.
    - destruct (lt y x) eqn:E.
      + constructor; [exact IH|].
        eapply Permutation_Forall; [symmetry; apply ins_perm|].
        constructor; [|exact Hall]. unfold le. now apply lt_asym.
      + constructor; [now constructor|].
        constructor; [exact E|].
        eapply Forall_impl; [|exact Hall]. intros z Hz. eapply le_trans; [exact E|exact Hz].
  Qed.

  Lemma py_sorted_sorted l : StronglySorted le (py_sorted lt l).
  Proof. induction l; cbn; [constructor|now apply ins_sorted]. Qed.

  Lemma sorted_perm_eq l : forall l', StronglySorted le l -> StronglySorted le l' -> Permutation l l' -> l = l'.
  Proof.
    induction l as [|a t IH]; intros l' Hs Hs' Hp.
    - apply Permutation_nil in Hp. now subst.
    - destruct l' as [|b t']; [apply Permutation_sym, Permutation_nil in Hp; discriminate|].
      inversion Hs as [|? ? Hst Hat]; subst. inversion Hs' as [|? ? Hst' Hbt']; subst.
      assert (a = b) as ->.
      { assert (In a (b :: t')) as Ia by (eapply Permutation_in; [exact Hp|now left]).
        assert (In b (a :: t)) as Ib by (eapply Permutation_in; [symmetry; exact Hp|now left]).
        destruct Ia as [->|Ia]; [reflexivity|]. destruct Ib as [->|Ib]; [reflexivity|].
        rewrite Forall_forall in Hat, Hbt'. apply le_antisym; auto. }
      f_equal. apply IH; auto. now apply Permutation_cons_inv in Hp.
  Qed.

  Theorem py_sorted_perm_invariant l l' : Permutation l l' -> py_sorted lt l = py_sorted lt l'.
  Proof.
    intro Hp. apply sorted_perm_eq; try apply py_sorted_sorted.
    rewrite py_sorted_perm, Hp. symmetry. apply py_sorted_perm.
  Qed.

  (* on an already sorted list sorted() is the identity *)
  Lemma py_sorted_id l : StronglySorted le l -> py_sorted lt l = l.
  Proof.
    intro Hs. apply sorted_perm_eq; auto using py_sorted_sorted, py_sorted_perm.
  Qed.
End SortFacts.

(* ------------------------------------------------------------------ strings *)
Lemma str_ltb_asym a b : str_ltb a b = true -> str_ltb b a = false.
Proof.
  unfold str_ltb. rewrite (str_cmp_antisym a b). destruct (str_cmp a b); cbn; congruence.
Qed.

Lemma str_le_trans a b c : le str_ltb a b -> le str_ltb b c -> le str_ltb a c.
Proof.
  unfold le, str_ltb. intros H1 H2.
  rewrite (str_cmp_antisym a b) in H1. rewrite (str_cmp_antisym b c) in H2. rewrite (str_cmp_antisym a c).
  destruct (str_cmp a b) eqn:Eab; cbn in H1; try discriminate;
  destruct (str_cmp b c) eqn:Ebc; cbn in H2; try discriminate.
  - apply str_cmp_eq in Eab, Ebc. subst. now rewrite str_cmp_refl.
  - apply str_cmp_eq in Eab. subst. now rewrite Ebc.
  - apply str_cmp_eq in Ebc. subst. now rewrite Eab.
  - now rewrite (str_cmp_trans _ _ _ Eab Ebc).
Qed.

Lemma str_le_antisym a b : le str_ltb a b -> le str_ltb b a -> a = b.
Proof.
  unfold le, str_ltb. intros H1 H2. rewrite (str_cmp_antisym a b) in H1.
  destruct (str_cmp a b) eqn:E; cbn in *; try discriminate.
  now apply str_cmp_eq.
Qed.

Theorem sorted_strs_perm l l' : Permutation l l' -> sorted_strs l = sorted_strs l'.
Proof.
  apply py_sorted_perm_invariant.
  - exact str_ltb_asym.
  - exact str_le_trans.
  - exact str_le_antisym.
Qed.

Lemma sorted_strs_is_perm l : Permutation (sorted_strs l) l.
Proof. apply py_sorted_perm. Qed.

Lemma sorted_strs_sorted l : StronglySorted (le str_ltb) (sorted_strs l).
Proof. apply py_sorted_sorted; [exact str_ltb_asym|exact str_le_trans]. Qed.

(* ------------------------------------------------------------------ small list facts *)
Lemma existsb_perm {A} (f : A -> bool) l l' : Permutation l l' -> existsb f l = existsb f l'.
Proof.
  induction 1; cbn; try congruence.
  - destruct (f x), (f y); reflexivity.
Qed.

Lemma perm_nil_iff {A} (l l' : list A) : Permutation l l' -> (l = [] <-> l' = []).
Proof.
  intro H; split; intro; subst; [now apply Permutation_nil|now apply Permutation_nil, Permutation_sym].
Qed.

Lemma str_mem_in x l : str_mem x l = true <-> In x l.
Proof.
  induction l as [|y r IH]; cbn; [split; [discriminate|tauto]|].
  rewrite Bool.orb_true_iff, IH, str_eqb_eq. split; intros [H|H]; auto.
Qed.

Lemma str_mem_perm x l l' : Permutation l l' -> str_mem x l = str_mem x l'.
Proof.
  intro Hp. destruct (str_mem x l) eqn:E, (str_mem x l') eqn:E'; auto.
  - apply str_mem_in in E. rewrite <- Bool.not_true_iff_false in E'. exfalso. apply E', str_mem_in.
    eapply Permutation_in; eauto.
  - apply str_mem_in in E'. rewrite <- Bool.not_true_iff_false in E. exfalso. apply E, str_mem_in.
    eapply Permutation_in; [symmetry|]; eauto.
Qed.

(* ------------------------------------------------------------------ ninja build statement *)
Lemma opt_section_perm (sep : str) (l l' : list str) :
  Permutation l l' ->
  (match l with [] => [] | _ => sep ++ join [32] (map nq_build (sorted_strs l)) end) =
  (match l' with [] => [] | _ => sep ++ join [32] (map nq_build (sorted_strs l')) end).
Proof.
  intro Hp. rewrite (sorted_strs_perm _ _ Hp).
  destruct l, l'; auto.
  - apply Permutation_nil in Hp; discriminate.
  - apply Permutation_sym, Permutation_nil in Hp; discriminate.
Qed.

Theorem ninja_build_line_perm outs imp rule ins deps deps' od od' :
  Permutation deps deps' -> Permutation od od' ->
  ninja_build_line outs imp rule ins deps od = ninja_build_line outs imp rule ins deps' od'.
Proof.
  intros Hd Ho. unfold ninja_build_line.
  assert (Permutation (outs ++ imp ++ ins ++ deps ++ od) (outs ++ imp ++ ins ++ deps' ++ od')) as Hp.
  { repeat apply Permutation_app_head. now apply Permutation_app. }
  rewrite (existsb_perm _ _ _ Hp).
  rewrite (opt_section_perm (s2l " | ") _ _ Hd), (opt_section_perm (s2l " || ") _ _ Ho). reflexivity.
Qed.

(* the dependencies appear in sorted order whatever the iteration order was *)
Theorem ninja_build_line_uses_sorted outs imp rule ins deps od :
  ninja_build_line outs imp rule ins deps od =
  ninja_build_line outs imp rule ins (sorted_strs deps) (sorted_strs od).
Proof. apply ninja_build_line_perm; symmetry; apply sorted_strs_is_perm. Qed.

(* ------------------------------------------------------------------ unique_list / OrderedSet *)
Lemma unique_acc_in seen l x : In x (unique_acc seen l) <-> In x l /\ ~ In x seen.
Proof.
  revert seen; induction l as [|y r IH]; intro seen; cbn; [tauto|].
  destruct (str_mem y seen) eqn:E.
  - rewrite IH. apply str_mem_in in E. split; [tauto|]. intros [[->|H] Hn]; tauto.
  - assert (~ In y seen) as Hy by (rewrite <- str_mem_in; congruence).
    cbn. rewrite IH. cbn. split.
    + intros [->|[H Hn]]; [tauto|]. split; [tauto|]. tauto.
    + intros [[->|H] Hn]; [tauto|]. destruct (list_eq_dec N.eq_dec y x) as [->|Hne]; [tauto|]. right. tauto.
Qed.

Lemma unique_acc_nodup seen l : NoDup (unique_acc seen l).
Proof.
  revert seen; induction l as [|y r IH]; intro seen; cbn; [constructor|].
  destruct (str_mem y seen); [apply IH|].
  constructor; [|apply IH]. rewrite unique_acc_in. cbn. tauto.
Qed.

Theorem unique_list_nodup l : NoDup (unique_list l).
Proof. apply unique_acc_nodup. Qed.

Theorem unique_list_in l x : In x (unique_list l) <-> In x l.
Proof. unfold unique_list. rewrite unique_acc_in. cbn. tauto. Qed.

Lemma unique_acc_id seen l : NoDup l -> (forall x, In x l -> ~ In x seen) -> unique_acc seen l = l.
Proof.
  revert seen; induction l as [|y r IH]; intros seen Hn Hd; cbn; [reflexivity|].
  inversion Hn; subst.
  destruct (str_mem y seen) eqn:E.
  - apply str_mem_in in E. exfalso. eapply Hd; [now left|exact E].
  - f_equal. apply IH; auto. intros x Hx [->|Hs]; [tauto|]. eapply Hd; [right; exact Hx|exact Hs].
Qed.

(* already duplicate-free input is returned unchanged: the order is the insertion order *)
Theorem unique_list_id l : NoDup l -> unique_list l = l.
Proof. intro H. apply unique_acc_id; auto. Qed.

Theorem unique_list_idem l : unique_list (unique_list l) = unique_list l.
Proof. apply unique_list_id, unique_list_nodup. Qed.

Lemma NoDup_snoc {A} (s : list A) v : NoDup s -> ~ In v s -> NoDup (s ++ [v]).
Proof.
  induction 1 as [|x r Hx Hr IH]; cbn; intro Hv.
  - repeat constructor. tauto.
  - constructor.
    + rewrite in_app_iff. cbn. intros [H|[H|[]]]; [tauto|subst; tauto].
    + apply IH. tauto.
Qed.

(* OrderedSet.update from the empty set = unique_list: first insertion fixes the position *)
Lemma oset_update_acc it : forall s, NoDup s ->
  oset_update it s = s ++ unique_acc s it.
Proof.
  induction it as [|v r IH]; intros s Hs; cbn; [now rewrite app_nil_r|].
  unfold oset_add at 2. destruct (str_mem v s) eqn:E.
  - fold (oset_update r s). now apply IH.
  - fold (oset_update r (s ++ [v])). rewrite IH.
    + rewrite <- app_assoc. cbn. f_equal. f_equal.
      (* membership in (s ++ [v]) and in (v :: s) agree *)
      clear IH Hs E. generalize r. intro l.
      assert (forall a b, (forall x, str_mem x a = str_mem x b) -> unique_acc a l = unique_acc b l) as Hext.
      { induction l as [|y t IHl]; intros a b Hab; cbn; [reflexivity|].
        rewrite (Hab y). destruct (str_mem y b); [now apply IHl|].
        f_equal. apply IHl. intro x. cbn. now rewrite Hab. }
      apply Hext. intro x.
      destruct (str_mem x (s ++ [v])) eqn:E1, (str_mem x (v :: s)) eqn:E2; auto.
      * apply str_mem_in in E1. rewrite <- Bool.not_true_iff_false in E2. exfalso; apply E2, str_mem_in.
        apply in_app_or in E1. cbn in *. tauto.
      * apply str_mem_in in E2. rewrite <- Bool.not_true_iff_false in E1. exfalso; apply E1, str_mem_in.
        apply in_or_app. cbn in *. tauto.
    + apply NoDup_snoc; auto. rewrite <- str_mem_in. congruence.
Qed.

Theorem oset_update_is_unique_list it : oset_update it [] = unique_list it.
Proof. rewrite oset_update_acc; [reflexivity|constructor]. Qed.

Theorem oset_update_nodup it s : NoDup s -> NoDup (oset_update it s).
Proof.
  revert s; induction it as [|v r IH]; intros s Hs; cbn; [exact Hs|].
  apply IH. unfold oset_add. destruct (str_mem v s) eqn:E; [exact Hs|].
  apply NoDup_snoc; auto. rewrite <- str_mem_in. congruence.
Qed.

(* difference(set_) only asks membership of the Python set: its iteration order is irrelevant *)
Theorem oset_difference_perm s o o' : Permutation o o' -> oset_difference s o = oset_difference s o'.
Proof.
  intro Hp. unfold oset_difference. apply filter_ext. intro e. now rewrite (str_mem_perm e _ _ Hp).
Qed.

Lemma oset_discard_comm a b s : oset_discard a (oset_discard b s) = oset_discard b (oset_discard a s).
Proof.
  induction s as [|x r IH]; cbn; [reflexivity|].
  destruct (str_eqb b x) eqn:Eb, (str_eqb a x) eqn:Ea; cbn; rewrite ?Eb, ?Ea; try reflexivity.
  - apply str_eqb_eq in Ea, Eb. subst. reflexivity.
  - now rewrite IH.
Qed.

(* difference_update(iterable) discards item by item: the result does not depend on the
   order in which a set argument is iterated *)
Theorem oset_difference_update_perm it it' : Permutation it it' ->
  forall s, oset_difference_update it s = oset_difference_update it' s.
Proof.
  induction 1 as [|x l l' Hp IH|x y l|l l' l'' H1 IH1 H2 IH2]; intro s; cbn.
  - reflexivity.
  - apply IH.
  - now rewrite oset_discard_comm.
  - now rewrite IH1, IH2.
Qed.

(* ------------------------------------------------------------------ exe-wrapper digest pre-image *)
Lemma assoc_get_swap k (x y : str * str) l : fst x <> fst y ->
  assoc_get k (x :: y :: l) = assoc_get k (y :: x :: l).
Proof.
  destruct x as [kx vx], y as [ky vy]; cbn. intro Hne.
  destruct (str_eqb k kx) eqn:Ex, (str_eqb k ky) eqn:Ey; auto.
  apply str_eqb_eq in Ex, Ey. subst. tauto.
Qed.

Lemma assoc_get_perm k l l' : Permutation l l' -> NoDup (map fst l) -> assoc_get k l = assoc_get k l'.
Proof.
  induction 1 as [|x l l' Hp IH|x y l|l l' l'' H1 IH1 H2 IH2]; intro Hn.
  - reflexivity.
  - destruct x as [kx vx]. cbn in *. inversion Hn; subst. now rewrite IH.
  - apply assoc_get_swap. cbn in Hn. inversion Hn as [|? ? Hy Hr]; subst. cbn in Hy. intro E. apply Hy. left. now symmetry.
  - rewrite IH1; auto. apply IH2. eapply Permutation_NoDup; [|exact Hn]. now apply Permutation_map.
Qed.

Theorem env_hash_preimage_perm env env' :
  Permutation env env' -> NoDup (map fst env) -> env_hash_preimage env = env_hash_preimage env'.
Proof.
  intros Hp Hn. unfold env_hash_preimage.
  rewrite (sorted_strs_perm (map fst env) (map fst env')) by now apply Permutation_map.
  f_equal. apply map_ext. intro k. now rewrite (assoc_get_perm k _ _ Hp Hn).
Qed.

Theorem exe_digest_preimage_perm env env' cmd wd cap feed :
  Permutation env env' -> NoDup (map fst env) ->
  exe_digest_preimage env cmd wd cap feed = exe_digest_preimage env' cmd wd cap feed.
Proof. intros Hp Hn. unfold exe_digest_preimage. now rewrite (env_hash_preimage_perm _ _ Hp Hn). Qed.

(* ------------------------------------------------------------------ base options *)
(* after the fix: the set is consumed through sorted(..., key=str), so the whole chain
   set -> option store -> 'base' section of intro-buildoptions.json ignores the iteration order *)
Theorem register_base_perm table sub l l' st :
  Permutation l l' -> register_base table sub l st = register_base table sub l' st.
Proof. intro Hp. unfold register_base. now rewrite (sorted_strs_perm _ _ Hp). Qed.

Theorem base_writer_perm table sub l l' st :
  Permutation l l' -> base_writer table sub l st = base_writer table sub l' st.
Proof. intro Hp. unfold base_writer. now rewrite (register_base_perm _ _ _ _ _ Hp). Qed.

(* the loop as found in the pinned tree is NOT invariant: two orders of the same two-element
   set give two different 'base' sections (sorted() in mintro.add_keys cannot repair it because
   OptionKey.__lt__ never orders two keys without subproject) *)
Theorem base_writer_asfound_refuted :
  exists table sub l l' st, Permutation l l' /\ NoDup l /\
    base_writer_asfound table sub l st <> base_writer_asfound table sub l' st.
Proof.
  exists [s2l "b_lto"; s2l "b_pch"], [], [s2l "b_lto"; s2l "b_pch"], [s2l "b_pch"; s2l "b_lto"], [].
  split; [apply perm_swap|]. split.
  - repeat constructor; cbn; intuition discriminate.
  - vm_compute. discriminate.
Qed.

(* what remains true of the code as found: the SET of names written is order-independent *)
Lemma okey_lt_global_false a b : ksub a = None -> ksub b = None -> okey_lt a b = false.
Proof. unfold okey_lt. now intros -> ->. Qed.

(* ------------------------------------------------------------------ tests: depends *)
(* after the fix the ids are written in first-insertion order of (depends, exe, target args) *)
Theorem test_depends_spec inserted : test_depends inserted = unique_list inserted.
Proof. apply oset_update_is_unique_list. Qed.

Theorem test_depends_nodup inserted : NoDup (test_depends inserted).
Proof. rewrite test_depends_spec. apply unique_list_nodup. Qed.

Theorem test_depends_in inserted x : In x (test_depends inserted) <-> In x inserted.
Proof. rewrite test_depends_spec. apply unique_list_in. Qed.

(* as found: the output IS the iteration order of a set of targets, hence arbitrary *)
Theorem test_depends_asfound_refuted :
  exists l l', Permutation l l' /\ NoDup l /\ test_depends_asfound l <> test_depends_asfound l'.
Proof.
  exists [s2l "a"; s2l "b"], [s2l "b"; s2l "a"]. split; [apply perm_swap|]. split.
  - repeat constructor; cbn; intuition discriminate.
  - vm_compute. discriminate.
Qed.

(* ------------------------------------------------------------------ intro-targets: dependency names *)
Theorem dep_names_refuted : exists deps n1 n2, dep_names deps n1 <> dep_names deps n2.
Proof. exists [None], [1], [2]. vm_compute. discriminate. Qed.

Theorem dep_names_partial deps : all_named deps = true -> forall n1 n2, dep_names deps n1 = dep_names deps n2.
Proof.
  induction deps as [|[n|] r IH]; cbn; intros H n1 n2; [reflexivity| |discriminate].
  f_equal. now apply IH.
Qed.

Example dep_names_partial_guard_satisfiable : all_named [Some (s2l "threads"); Some (s2l "zlib")] = true.
Proof. reflexivity. Qed.

(* ------------------------------------------------------------------ a whole sequence of build statements *)
(* two runs that build the same elements, each element's two sets iterating in any order *)
Inductive same_elem : nelem -> nelem -> Prop :=
| SameElem outs imp rule ins d d' o o' :
    Permutation d d' -> Permutation o o' ->
    same_elem (mknelem outs imp rule ins d o) (mknelem outs imp rule ins d' o').

Theorem ninja_statements_perm es es' :
  Forall2 same_elem es es' -> ninja_statements es = ninja_statements es'.
Proof.
  induction 1 as [|e e' r r' He Hr IH]; cbn; [reflexivity|].
  f_equal; [|exact IH]. destruct He as [outs imp rule ins d d' o o' Hd Ho].
  unfold nelem_line; cbn. now apply ninja_build_line_perm.
Qed.
