(* Determ/ReplaceProofs.v — replace_if_different and the temp-then-replace writers keep
   unchanged outputs (content AND mtime) and never leave the temporary behind (C06). *)
From Coq Require Import Lia.
From MV Require Import Base.Strs Base.LexFacts FS.Replace.
Open Scope N_scope.

Lemma str_eqb_neq a b : a <> b -> str_eqb a b = false.
Proof. intro H. destruct (str_eqb a b) eqn:E; auto. apply str_eqb_eq in E. tauto. Qed.

Lemma str_eqb_sym a b : str_eqb a b = str_eqb b a.
Proof.
  destruct (str_eqb a b) eqn:E.
  - apply str_eqb_eq in E. subst. symmetry. apply str_eqb_refl.
  - symmetry. apply str_eqb_neq. intro. subst. now rewrite str_eqb_refl in E.
Qed.

Lemma tilde_neq p : tilde p <> p.
Proof.
  unfold tilde. intro H. apply (f_equal (@length _)) in H. rewrite app_length in H. cbn in H. lia.
Qed.

Lemma tilde_inj p q : tilde p = tilde q -> p = q.
Proof. unfold tilde. intro H. now apply app_inv_tail in H. Qed.

(* ---- finite map facts *)
Lemma lookup_remove_same p l : lookup p (remove p l) = None.
Proof.
  induction l as [|[q f] r IH]; cbn; [reflexivity|].
  destruct (str_eqb p q) eqn:E; cbn; [exact IH|now rewrite E].
Qed.

Lemma lookup_remove_other p q l : p <> q -> lookup p (remove q l) = lookup p l.
Proof.
  intro Hne. induction l as [|[k f] r IH]; cbn; [reflexivity|].
  destruct (str_eqb q k) eqn:E.
  - apply str_eqb_eq in E. subst. now rewrite (str_eqb_neq p k Hne).
  - cbn. now rewrite IH.
Qed.

Lemma lookup_put_same p f l : lookup p (put p f l) = Some f.
Proof. unfold put. cbn. now rewrite str_eqb_refl. Qed.

Lemma lookup_put_other p q f l : p <> q -> lookup p (put q f l) = lookup p l.
Proof. intro Hne. unfold put. cbn. rewrite (str_eqb_neq p q Hne). now apply lookup_remove_other. Qed.

(* ---- write_file *)
Lemma write_file_same p c s : fs_lookup p (write_file p c s) = Some (mkfile c (fnow s)).
Proof. unfold fs_lookup, write_file. cbn. apply lookup_put_same. Qed.

Lemma write_file_other p q c s : p <> q -> fs_lookup p (write_file q c s) = fs_lookup p s.
Proof. intro H. unfold fs_lookup, write_file. cbn. now apply lookup_put_other. Qed.

(* ---- replace_if_different: equal content => destination (content and mtime) untouched,
        temporary removed, nothing else changes *)
Theorem rid_equal dst tmp s f1 f2 :
  dst <> tmp -> fs_lookup dst s = Some f1 -> fs_lookup tmp s = Some f2 -> fdata f1 = fdata f2 ->
  exists s', replace_if_different dst tmp s = Ok s'
    /\ fs_lookup dst s' = Some f1
    /\ fs_lookup tmp s' = None
    /\ fnow s' = fnow s
    /\ forall p, p <> tmp -> fs_lookup p s' = fs_lookup p s.
Proof.
  unfold fs_lookup. intros Hne H1 H2 Hd. unfold replace_if_different. rewrite H1, H2, Hd, str_eqb_refl. cbn.
  unfold os_unlink. rewrite H2. eexists; split; [reflexivity|]. cbn.
  repeat split.
  - rewrite lookup_remove_other; auto.
  - apply lookup_remove_same.
  - intros p Hp. now apply lookup_remove_other.
Qed.

(* different content, or no destination yet => the destination becomes exactly the temporary
   (its content and its mtime), the temporary name is gone, nothing else changes *)
Theorem rid_different dst tmp s f2 :
  dst <> tmp -> fs_lookup tmp s = Some f2 ->
  (fs_lookup dst s = None \/ exists f1, fs_lookup dst s = Some f1 /\ fdata f1 <> fdata f2) ->
  exists s', replace_if_different dst tmp s = Ok s'
    /\ fs_lookup dst s' = Some f2
    /\ fs_lookup tmp s' = None
    /\ fnow s' = fnow s
    /\ forall p, p <> tmp -> p <> dst -> fs_lookup p s' = fs_lookup p s.
Proof.
  unfold fs_lookup. intros Hne H2 Hd. unfold replace_if_different. rewrite H2.
  assert ((match lookup dst (ffiles s) with
           | Some f1 => negb (str_eqb (fdata f1) (fdata f2)) | None => true end) = true) as ->.
  { destruct Hd as [->|[f1 [-> Hf]]]; [reflexivity|]. now rewrite (str_eqb_neq _ _ Hf). }
  unfold os_replace. rewrite H2. rewrite (str_eqb_neq tmp dst) by congruence.
  eexists; split; [reflexivity|]. cbn [ffiles fnow]. repeat split.
  - apply lookup_put_same.
  - rewrite lookup_put_other by congruence. apply lookup_remove_same.
  - intros p Hp Hq. rewrite lookup_put_other by assumption. now apply lookup_remove_other.
Qed.

(* never fails when the temporary exists *)
Theorem rid_ok dst tmp s f2 : fs_lookup tmp s = Some f2 -> exists s', replace_if_different dst tmp s = Ok s'.
Proof.
  unfold fs_lookup, replace_if_different, os_replace, os_unlink. intro H2. rewrite H2.
  destruct (match lookup dst (ffiles s) with Some f1 => negb (str_eqb (fdata f1) (fdata f2)) | None => true end);
    [destruct (str_eqb tmp dst)|]; eexists; reflexivity.
Qed.

(* ---- the configure_file family *)
Theorem conf_write_unchanged dst c s f :
  fs_lookup dst s = Some f -> fdata f = c ->
  exists s', conf_write dst c s = Ok s'
    /\ fs_lookup dst s' = Some f                       (* same content, same mtime *)
    /\ fs_lookup (tilde dst) s' = None                 (* temporary removed *)
    /\ forall p, p <> tilde dst -> fs_lookup p s' = fs_lookup p s.
Proof.
  intros Hf Hc. unfold conf_write.
  pose proof (tilde_neq dst) as Hne.
  destruct (rid_equal dst (tilde dst) (write_file (tilde dst) c s) f (mkfile c (fnow s))) as (s' & Hr & Hd & Ht & _ & Ho).
  - congruence.
  - rewrite write_file_other by congruence. exact Hf.
  - apply write_file_same.
  - exact Hc.
  - exists s'. repeat split; auto. intros p Hp. rewrite Ho by assumption. now apply write_file_other.
Qed.

Theorem conf_write_changed dst c s :
  (fs_lookup dst s = None \/ exists f, fs_lookup dst s = Some f /\ fdata f <> c) ->
  exists s', conf_write dst c s = Ok s'
    /\ fs_lookup dst s' = Some (mkfile c (fnow s))     (* new content, fresh mtime *)
    /\ fs_lookup (tilde dst) s' = None
    /\ forall p, p <> tilde dst -> p <> dst -> fs_lookup p s' = fs_lookup p s.
Proof.
  intros Hd. unfold conf_write. pose proof (tilde_neq dst) as Hne.
  destruct (rid_different dst (tilde dst) (write_file (tilde dst) c s) (mkfile c (fnow s))) as (s' & Hr & Hd' & Ht & _ & Ho).
  - congruence.
  - apply write_file_same.
  - rewrite write_file_other by congruence. destruct Hd as [H|[f [H1 H2]]]; [now left|right; exists f; cbn; split; auto].
  - exists s'. repeat split; auto. intros p Hp Hq. rewrite Ho by assumption. now apply write_file_other.
Qed.

(* conf_write never raises and always leaves dst with content c and no temporary *)
Theorem conf_write_post dst c s :
  exists s', conf_write dst c s = Ok s'
    /\ (exists f, fs_lookup dst s' = Some f /\ fdata f = c)
    /\ fs_lookup (tilde dst) s' = None
    /\ forall p, p <> tilde dst -> p <> dst -> fs_lookup p s' = fs_lookup p s.
Proof.
  destruct (fs_lookup dst s) as [f|] eqn:E.
  - destruct (list_eq_dec N.eq_dec (fdata f) c) as [Hc|Hc].
    + destruct (conf_write_unchanged dst c s f E Hc) as (s' & H1 & H2 & H3 & H4).
      exists s'. repeat split; eauto.
    + destruct (conf_write_changed dst c s) as (s' & H1 & H2 & H3 & H4); [right; eauto|].
      exists s'. repeat split; eauto.
  - destruct (conf_write_changed dst c s) as (s' & H1 & H2 & H3 & H4); [now left|].
    exists s'. repeat split; eauto.
Qed.

(* ---- a whole configure run over its replace_if_different outputs *)
Definition tilde_free (dsts : list str) : Prop := forall d, In d dsts -> ~ In (tilde d) dsts.

Lemma tilde_free_tail d r : tilde_free (d :: r) -> tilde_free r.
Proof. intros H x Hx Hin. apply (H x (or_intror Hx)). now right. Qed.

(* if every output already has its content, a configure run changes nothing but (stale)
   temporaries: every non-temporary path keeps content and mtime *)
Theorem configure_unchanged outs : forall s,
  tilde_free (map fst outs) ->
  (forall d c, In (d, c) outs -> exists f, fs_lookup d s = Some f /\ fdata f = c) ->
  exists s', configure outs s = Ok s'
    /\ (forall p, (forall d, In d (map fst outs) -> p <> tilde d) -> fs_lookup p s' = fs_lookup p s)
    /\ (forall d, In d (map fst outs) -> fs_lookup (tilde d) s' = None).
Proof.
  induction outs as [|[d c] r IH]; intros s Htf Hall; cbn.
  - exists s. repeat split; auto. intros d [].
  - destruct (Hall d c (or_introl eq_refl)) as (f & Hf & Hc).
    destruct (conf_write_unchanged d c s f Hf Hc) as (s1 & H1 & H2 & H3 & H4).
    rewrite H1.
    destruct (IH s1 (tilde_free_tail _ _ Htf)) as (s2 & G1 & G2 & G3).
    { intros d' c' Hin. destruct (Hall d' c' (or_intror Hin)) as (f' & Hf' & Hc').
      exists f'. split; auto. rewrite H4; auto. intro E.
      apply (Htf d (or_introl eq_refl)). rewrite <- E. right. now apply (in_map fst _ (d', c')). }
    exists s2. split; [exact G1|]. split.
    + intros p Hp. rewrite G2 by (intros d' Hd'; apply Hp; now right). apply H4. apply Hp. now left.
    + intros d' [<-|Hd']; [|now apply G3].
      destruct (in_dec (list_eq_dec N.eq_dec) d (map fst r)) as [Hin|Hnin]; [now apply G3|].
      rewrite G2; auto. intros d'' Hd'' E. apply tilde_inj in E. now subst.
Qed.

(* a configure run never raises; afterwards every output holds its content, and paths that are
   neither outputs nor temporaries are untouched *)
Theorem configure_post outs : forall s,
  NoDup (map fst outs) -> tilde_free (map fst outs) ->
  exists s1, configure outs s = Ok s1
    /\ (forall d c, In (d, c) outs -> exists f, fs_lookup d s1 = Some f /\ fdata f = c)
    /\ (forall p, ~ In p (map fst outs) -> (forall d, In d (map fst outs) -> p <> tilde d) -> fs_lookup p s1 = fs_lookup p s).
Proof.
  induction outs as [|[d c] r IH]; intros s Hnd Htf; cbn.
  - exists s. repeat split; auto. intros d c [].
  - cbn in Hnd. inversion Hnd as [|? ? Hd Hr]; subst.
    destruct (conf_write_post d c s) as (s' & H1 & (f & Hf & Hc) & H3 & H4). rewrite H1.
    destruct (IH s' Hr (tilde_free_tail _ _ Htf)) as (s1 & G1 & G2 & G3).
    exists s1. split; [exact G1|]. split.
    + intros d' c' [E|Hin]; [|now apply G2]. inversion E; subst d' c'.
      exists f. split; auto. rewrite G3; auto.
      intros d'' Hd'' E'. apply (Htf d'' (or_intror Hd'')). rewrite <- E'. now left.
    + intros p Hp Ht. rewrite G3.
      * apply H4; [apply Ht; now left|]. intro; subst; apply Hp; now left.
      * intro Hin; apply Hp; now right.
      * intros d' Hd'; apply Ht; now right.
Qed.

(* Re-running configuration when nothing changed: every path that is not a temporary name keeps
   its content AND its mtime (in particular every output), and no temporary is left behind. *)
Theorem reconfigure_identity outs s :
  NoDup (map fst outs) -> tilde_free (map fst outs) ->
  exists s1 s2, configure outs s = Ok s1 /\ configure outs s1 = Ok s2
    /\ (forall p, (forall d, In d (map fst outs) -> p <> tilde d) -> fs_lookup p s2 = fs_lookup p s1)
    /\ (forall d, In d (map fst outs) -> fs_lookup d s2 = fs_lookup d s1)
    /\ (forall d, In d (map fst outs) -> fs_lookup (tilde d) s2 = None).
Proof.
  intros Hnd Htf.
  destruct (configure_post outs s Hnd Htf) as (s1 & H1 & H2 & _).
  destruct (configure_unchanged outs s1 Htf H2) as (s2 & G1 & G2 & G3).
  exists s1, s2. repeat split; auto.
  intros d Hd. apply G2. intros d' Hd' E. apply (Htf d' Hd'). now rewrite <- E.
Qed.

(* ---- build.ninja: temp then os.replace *)
Theorem ninja_write_post dst c s :
  exists s', ninja_write dst c s = Ok s'
    /\ fs_lookup dst s' = Some (mkfile c (fnow s))
    /\ fs_lookup (tilde dst) s' = None
    /\ forall p, p <> tilde dst -> p <> dst -> fs_lookup p s' = fs_lookup p s.
Proof.
  unfold ninja_write, os_replace. pose proof (tilde_neq dst) as Hne.
  pose proof (write_file_same (tilde dst) c s) as Hw. unfold fs_lookup in Hw. rewrite Hw.
  rewrite (str_eqb_neq _ _ Hne). eexists; split; [reflexivity|]. unfold fs_lookup. cbn [ffiles fnow write_file]. repeat split.
  - apply lookup_put_same.
  - rewrite lookup_put_other by assumption. apply lookup_remove_same.
  - intros p Hp Hq. rewrite lookup_put_other by assumption. rewrite lookup_remove_other by assumption.
    now apply lookup_put_other.
Qed.

(* identical inputs give identical content, whatever the directory held before *)
Theorem ninja_write_content dst c s s' :
  exists t t', ninja_write dst c s = Ok t /\ ninja_write dst c s' = Ok t'
    /\ option_map fdata (fs_lookup dst t) = Some c /\ option_map fdata (fs_lookup dst t') = Some c.
Proof.
  destruct (ninja_write_post dst c s) as (t & H1 & H2 & _).
  destruct (ninja_write_post dst c s') as (t' & G1 & G2 & _).
  exists t, t'. rewrite H2, G2. auto.
Qed.

(* atomicity: in every state the file system passes through, build.ninja is either exactly
   the old file or exactly the complete new file *)
Theorem ninja_write_atomic dst c s st :
  In st (ninja_write_trace dst c s) ->
  fs_lookup dst st = fs_lookup dst s \/ fs_lookup dst st = Some (mkfile c (fnow s)).
Proof.
  unfold ninja_write_trace. destruct (ninja_write_post dst c s) as (s' & H1 & H2 & _).
  unfold ninja_write in H1. rewrite H1. cbn. intros [<-|[<-|[<-|[]]]].
  - now left.
  - left. apply write_file_other. intro E. symmetry in E. now apply tilde_neq in E.
  - now right.
Qed.

(* ---- introspection files: temp then os.replace, one after the other *)
Theorem intro_write_post dir items : forall s,
  NoDup (map fst items) -> ~ In (intro_tmp dir) (map fst items) ->
  exists s', intro_write dir items s = Ok s'
    /\ (forall out c, In (out, c) items -> option_map fdata (fs_lookup out s') = Some c)
    /\ (items <> [] -> fs_lookup (intro_tmp dir) s' = None)
    /\ (forall p, p <> intro_tmp dir -> ~ In p (map fst items) -> fs_lookup p s' = fs_lookup p s).
Proof.
  induction items as [|[out c] r IH]; intros s Hnd Htmp; cbn.
  - exists s. split; [reflexivity|]. split; [intros out c []|]. split; [congruence|auto].
  - cbn in Hnd, Htmp. inversion Hnd as [|? ? Ho Hr]; subst.
    assert (intro_tmp dir <> out) as Hne by (intro E; apply Htmp; left; now symmetry).
    unfold os_replace.
    pose proof (write_file_same (intro_tmp dir) c s) as Hw. unfold fs_lookup in Hw. rewrite Hw.
    rewrite (str_eqb_neq _ _ Hne).
    set (s1 := mkfs _ _).
    assert (fs_lookup out s1 = Some (mkfile c (fnow s))) as Hout by (unfold fs_lookup, s1; cbn [ffiles fnow]; apply lookup_put_same).
    assert (fs_lookup (intro_tmp dir) s1 = None) as Htm.
    { unfold fs_lookup, s1; cbn [ffiles fnow]. rewrite lookup_put_other by assumption. apply lookup_remove_same. }
    assert (forall p, p <> intro_tmp dir -> p <> out -> fs_lookup p s1 = fs_lookup p s) as Hfr.
    { intros p Hp Hq. unfold fs_lookup, s1; cbn [ffiles fnow write_file]. rewrite lookup_put_other by assumption.
      rewrite lookup_remove_other by assumption. now apply lookup_put_other. }
    destruct (IH s1 Hr) as (s' & G1 & G2 & G3 & G4); [intro Hin; apply Htmp; now right|].
    exists s'. split; [exact G1|]. split; [|split].
    + intros o c' [E|Hin]; [|now apply G2]. inversion E; subst o c'.
      rewrite G4; auto. now rewrite Hout.
    + intros _. destruct r as [|x r']; [|apply G3; discriminate].
      cbn in G1. inversion G1; subst s'. exact Htm.
    + intros p Hp Hq. rewrite G4; [|assumption|intro Hin; apply Hq; now right].
      apply Hfr; [assumption|]. intro E. apply Hq. left. now symmetry.
Qed.

(* ---- histories *)
(* any number of further no-change reconfigurations: every non-temporary path (every output in
   particular) keeps the content AND the mtime the first configuration gave it *)
Theorem reconfigure_history_identity outs s :
  NoDup (map fst outs) -> tilde_free (map fst outs) ->
  exists s1, configure outs s = Ok s1 /\ forall n, exists sn, configure_n n outs s1 = Ok sn
    /\ (forall p, (forall d, In d (map fst outs) -> p <> tilde d) -> fs_lookup p sn = fs_lookup p s1)
    /\ (forall d, In d (map fst outs) -> fs_lookup d sn = fs_lookup d s1).
Proof.
  intros Hnd Htf. destruct (configure_post outs s Hnd Htf) as (s1 & H1 & H2 & _).
  exists s1. split; [exact H1|].
  assert (forall d, In d (map fst outs) -> forall d', In d' (map fst outs) -> d <> tilde d') as Hout.
  { intros d Hd d' Hd' E. apply (Htf d' Hd'). now rewrite <- E. }
  assert (forall n t, (forall p, (forall d, In d (map fst outs) -> p <> tilde d) -> fs_lookup p t = fs_lookup p s1) ->
          exists sn, configure_n n outs t = Ok sn
            /\ (forall p, (forall d, In d (map fst outs) -> p <> tilde d) -> fs_lookup p sn = fs_lookup p s1)) as Hn.
  { induction n as [|k IH]; intros t Ht; cbn; [exists t; split; [reflexivity|exact Ht]|].
    destruct (configure_unchanged outs t Htf) as (t' & G1 & G2 & _).
    { intros d c Hin. destruct (H2 d c Hin) as (f & Hf & Hc). exists f. split; [|exact Hc].
      rewrite Ht; [exact Hf|]. apply Hout. now apply (in_map fst _ (d, c)). }
    rewrite G1. apply IH. intros p Hp. rewrite G2 by exact Hp. now apply Ht. }
  intro n. destruct (Hn n s1 (fun _ _ => eq_refl)) as (sn & G1 & G2).
  exists sn. split; [exact G1|]. split; [exact G2|]. intros d Hd. apply G2. now apply Hout.
Qed.

(* the content of every output is a function of the inputs only: two build directories with
   arbitrary different histories end up with the same bytes in every output *)
Theorem configure_content_history_independent outs s s' :
  NoDup (map fst outs) -> tilde_free (map fst outs) ->
  exists t t', configure outs s = Ok t /\ configure outs s' = Ok t'
    /\ forall d c, In (d, c) outs ->
         option_map fdata (fs_lookup d t) = Some c /\ option_map fdata (fs_lookup d t') = Some c.
Proof.
  intros Hnd Htf.
  destruct (configure_post outs s Hnd Htf) as (t & H1 & H2 & _).
  destruct (configure_post outs s' Hnd Htf) as (t' & G1 & G2 & _).
  exists t, t'. repeat split; auto.
  - destruct (H2 d c H) as (f & -> & <-). reflexivity.
  - destruct (G2 d c H) as (f & -> & <-). reflexivity.
Qed.
