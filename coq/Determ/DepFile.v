(* Determ/DepFile.v — model of mesonbuild/depfile.py: DepFile.__init__ and
   DepFile.get_all_dependencies (C06).  The transitive dependencies of a configure_file
   depfile become build-definition files: they are written into build.ninja's regeneration
   statement and into intro-buildsystem_files.json (interpreter.py: configure_file(depfile:)).
   Each target's deps is a Python set; the model keeps its ITERATION ORDER as a list.
   Model only, no proofs. *)
From MV Require Import Base.Strs Determ.Model.
Open Scope N_scope.

Definition depfile := list (str * list str).     (* dict target -> Target(deps=set) *)

Fixpoint df_get (name : str) (df : depfile) : option (list str) :=
  match df with
  | [] => None
  | (t, ds) :: r => if str_eqb name t then Some ds else df_get name r
  end.

(* depfile.py:63-66  t = depfile.setdefault(target, Target(deps=set())); t.deps.add(dep)… *)
Fixpoint df_add (target : str) (deps : list str) (df : depfile) : depfile :=
  match df with
  | [] => [(target, oset_update deps [])]
  | (t, ds) :: r => if str_eqb target t then (t, oset_update deps ds) :: r else (t, ds) :: df_add target deps r
  end.

Definition df_of_rules (rules : list (list str * list str)) : depfile :=
  fold_left (fun df rule => fold_left (fun df t => df_add t (snd rule) df) (fst rule) df) rules [].

(* the body of `for dep in target.deps: deps.update(self.get_all_dependencies(dep, visited))`;
   `rec` is the recursive call, `visited` is threaded because the Python set is shared *)
Definition gad_loop (rec : str -> list str -> option (list str * list str)) :=
  fix loop (l acc v : list str) : option (list str * list str) :=
    match l with
    | [] => Some (acc, v)
    | d :: r => match rec d v with
                | None => None
                | Some (res, v') => loop r (acc ++ res) v'
                end
    end.

(* depfile.py:69-83.  None = out of fuel.  Returns (result list, visited afterwards). *)
Fixpoint gad (fuel : nat) (df : depfile) (name : str) (visited : list str) : option (list str * list str) :=
  match fuel with
  | O => None
  | S f =>
      if str_mem name visited then Some ([], visited)            (* if name in visited: return [] *)
      else
        let v1 := name :: visited in                             (* visited.add(name) *)
        match df_get name df with
        | None => Some ([], v1)                                  (* if not target: return [] *)
        | Some ds =>
            match gad_loop (gad f df) ds ds v1 with              (* deps.update(target.deps); for dep in target.deps … *)
            | None => None
            | Some (acc, v') => Some (sorted_strs (unique_list acc), v')   (* return sorted(deps) *)
            end
        end
  end.

(* get_all_dependencies(name): visited=None -> a fresh set *)
Definition get_all_dependencies (fuel : nat) (df : depfile) (name : str) : option (list str) :=
  match gad fuel df name [] with Some (r, _) => Some r | None => None end.
