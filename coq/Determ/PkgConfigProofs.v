(* Determ/PkgConfigProofs.v — the Requires lines and the de-duplicated lists of a generated
   pkg-config file do not depend on the iteration order of the sets involved. *)
From Coq Require Import Permutation.
From MV Require Import Base.Strs Base.LexFacts Determ.Model Determ.Proofs Determ.DepFile Determ.DepFileProofs Determ.PkgConfig.
Open Scope N_scope.

Lemma df_get_same vr vr' name : same_depfile vr vr' ->
  match df_get name vr, df_get name vr' with
  | Some a, Some b => Permutation a b
  | None, None => True
  | _, _ => False
  end.
Proof.
  induction 1 as [|[t ds] [t' ds'] r r' [Ht Hp] Hr IH]; cbn in *; [exact I|].
  subst t'. destruct (str_eqb name t); [exact Hp|exact IH].
Qed.

Lemma format_req_items_same vr vr' name : same_depfile vr vr' ->
  format_req_items vr name = format_req_items vr' name.
Proof.
  intro Hs. pose proof (df_get_same vr vr' name Hs) as H. unfold format_req_items.
  destruct (df_get name vr) as [a|], (df_get name vr') as [b|]; try tauto.
  destruct a as [|x a], b as [|y b]; auto.
  - apply Permutation_nil in H; discriminate.
  - apply Permutation_sym, Permutation_nil in H; discriminate.
  - cbv beta iota. f_equal. exact (sorted_strs_perm _ _ H).
Qed.

(* the text of "Requires:" does not depend on the iteration order of any version_reqs set *)
Theorem format_reqs_order_independent vr vr' reqs : same_depfile vr vr' ->
  format_reqs vr reqs = format_reqs vr' reqs.
Proof.
  intro Hs. unfold format_reqs. f_equal. f_equal. apply map_ext. intro n. now apply format_req_items_same.
Qed.

Theorem requires_lines_order_independent vr vr' pub priv : same_depfile vr vr' ->
  requires_lines vr pub priv = requires_lines vr' pub priv.
Proof. intro Hs. unfold requires_lines. now rewrite !(format_reqs_order_independent _ _ _ Hs). Qed.

(* remove_dups: `exclude` is only asked for membership *)
Definition same_members (a b : list str) : Prop := forall x, str_mem x a = str_mem x b.

Lemma pc_fn_members libs xs : forall e e', same_members e e' ->
  fst (pc_fn libs xs e) = fst (pc_fn libs xs e') /\ same_members (snd (pc_fn libs xs e)) (snd (pc_fn libs xs e')).
Proof.
  induction xs as [|x r IH]; intros e e' H; cbn; [auto|].
  destruct (cannot_dedup libs x).
  - destruct (IH e e' H) as [H1 H2]. destruct (pc_fn libs r e), (pc_fn libs r e'); cbn in *. now subst.
  - rewrite (H x). destruct (str_mem x e'); [now apply IH|].
    destruct (IH (x :: e) (x :: e')) as [H1 H2]; [intro y; cbn; now rewrite (H y)|].
    destruct (pc_fn libs r (x :: e)), (pc_fn libs r (x :: e')); cbn in *. now subst.
Qed.

Lemma perm_same_members a b : Permutation a b -> same_members a b.
Proof. intros H x. now apply str_mem_perm. Qed.

Theorem remove_dups_order_independent whole whole' l :
  Permutation whole whole' -> remove_dups whole l = remove_dups whole' l.
Proof.
  intro Hp. unfold remove_dups.
  destruct (pc_fn_members false (pub_reqs l) _ _ (perm_same_members _ _ Hp)) as [A1 A2].
  destruct (pc_fn false (pub_reqs l) whole) as [a e1], (pc_fn false (pub_reqs l) whole') as [a' e1']. cbn in *. subst a'.
  destruct (pc_fn_members true (pub_libs l) _ _ A2) as [B1 B2].
  destruct (pc_fn true (pub_libs l) e1) as [b e2], (pc_fn true (pub_libs l) e1') as [b' e2']. cbn in *. subst b'.
  destruct (pc_fn_members false (priv_reqs l) _ _ B2) as [C1 C2].
  destruct (pc_fn false (priv_reqs l) e2) as [c e3], (pc_fn false (priv_reqs l) e2') as [c' e3']. cbn in *. subst c'.
  destruct (pc_fn_members true (priv_libs l) _ _ C2) as [D1 _].
  destruct (pc_fn true (priv_libs l) e3) as [d e4], (pc_fn true (priv_libs l) e3') as [d' e4']. cbn in *. subst d'.
  reflexivity.
Qed.

(* what the duplicate removal guarantees for requirement lists (all items can be de-duplicated):
   the result has no duplicates, nothing that was excluded before, and only items of the input *)
Lemma pc_fn_false_spec xs : forall e,
  NoDup (fst (pc_fn false xs e))
  /\ (forall x, In x (fst (pc_fn false xs e)) <-> In x xs /\ ~ In x e)
  /\ (forall x, In x (snd (pc_fn false xs e)) <-> In x e \/ In x xs).
Proof.
  induction xs as [|y r IH]; intro e; cbn.
  - split; [constructor|]. split; intro x; tauto.
  - destruct (str_mem y e) eqn:E.
    + apply str_mem_in in E. destruct (IH e) as (H1 & H2 & H3). split; [exact H1|]. split; intro x.
      * rewrite H2. split; [tauto|]. intros [[<-|H] Hn]; tauto.
      * rewrite H3. split; [tauto|]. intros [H|[<-|H]]; tauto.
    + assert (~ In y e) as Hy by (rewrite <- str_mem_in; congruence).
      destruct (IH (y :: e)) as (H1 & H2 & H3). destruct (pc_fn false r (y :: e)) as [res e'] eqn:Ep. cbn in *.
      split; [constructor; [rewrite H2; tauto|exact H1]|]. split; intro x.
      * rewrite H2. split.
        -- intros [<-|[H Hn]]; [tauto|]. split; [tauto|]. tauto.
        -- intros [[<-|H] Hn]; [tauto|]. destruct (sdec y x) as [->|Hne]; [tauto|]. right. split; [exact H|]. tauto.
      * rewrite H3. tauto.
Qed.

Theorem remove_dups_requires_disjoint whole l :
  let r := remove_dups whole l in
  NoDup (pub_reqs r) /\ (forall x, In x (pub_reqs r) <-> In x (pub_reqs l) /\ ~ In x whole)
  /\ (forall x, In x (pub_reqs r) -> ~ In x (priv_reqs r)).
Proof.
  cbn. unfold remove_dups.
  destruct (pc_fn_false_spec (pub_reqs l) whole) as (A1 & A2 & A3).
  destruct (pc_fn false (pub_reqs l) whole) as [a e1]. cbn in *.
  destruct (pc_fn true (pub_libs l) e1) as [b e2] eqn:Eb.
  destruct (pc_fn_false_spec (priv_reqs l) e2) as (_ & C2 & _).
  destruct (pc_fn false (priv_reqs l) e2) as [c e3]. cbn in *.
  destruct (pc_fn true (priv_libs l) e3) as [d e4].
  destruct (pc_fn false (cflags l) []) as [f e5]. destruct (pc_fn false (cflags_private l) e5) as [g e6]. cbn.
  split; [exact A1|]. split; [exact A2|].
  intros x Hx Hc. apply C2 in Hc. destruct Hc as [_ Hn]. apply Hn.
  (* x was added to the exclude set by the first pass and exclusion only grows *)
  assert (In x e1) as He1 by (apply A3; right; apply A2 in Hx; tauto).
  clear - He1 Eb. revert e1 b e2 He1 Eb. induction (pub_libs l) as [|y r IH]; intros e1 b e2 He1 Eb; cbn in Eb.
  - inversion Eb; now subst.
  - destruct (cannot_dedup true y).
    + destruct (pc_fn true r e1) as [res e] eqn:E. inversion Eb; subst. eapply IH; eauto.
    + destruct (str_mem y e1); [eapply IH; eauto|].
      destruct (pc_fn true r (y :: e1)) as [res e] eqn:E. inversion Eb; subst. eapply IH; [|exact E]. now right.
Qed.
