(* Determ/PkgConfig.v — model of the Requires / Requires.private writer and of the duplicate
   removal of the pkg-config generator (mesonbuild/modules/pkgconfig.py, class
   DependenciesHelper), for string items (C06).  version_reqs is a defaultdict name -> SET of
   version requirements; `exclude` in remove_dups is a SET of ids.  Both are kept as lists (their
   iteration order); the theorems show the order never reaches the .pc file.
   Model only, no proofs. *)
From MV Require Import Base.Strs Determ.Model Determ.DepFile.
Open Scope N_scope.

(* pkgconfig.py:330-335  format_vreq: '>=1.0' -> '>= 1.0'; first matching operator of
   ['>=', '<=', '!=', '==', '=', '>', '<'] *)
Definition vreq_ops : list str := [s2l ">="; s2l "<="; s2l "!="; s2l "=="; s2l "="; s2l ">"; s2l "<"].
Fixpoint format_vreq_ops (ops : list str) (v : str) : str :=
  match ops with
  | [] => v
  | op :: r => if prefixb op v then op ++ [32] ++ drop (length op) v else format_vreq_ops r v
  end.
Definition format_vreq (v : str) : str := format_vreq_ops vreq_ops v.

(* pkgconfig.py:337-345  format_reqs(reqs); version_reqs : name -> set (as iteration order) *)
Definition version_reqs := depfile.            (* list (name * list of version requirements) *)
Definition format_req_items (vr : version_reqs) (name : str) : list str :=
  match df_get name vr with
  | Some ((_ :: _) as vreqs) => map (fun v => name ++ [32] ++ format_vreq v) (sorted_strs vreqs)
  | _ => [name]                                  (* `if vreqs:` — missing or empty set *)
  end.
Definition format_reqs (vr : version_reqs) (reqs : list str) : str :=
  join (s2l ", ") (concat (map (format_req_items vr) reqs)).

(* pkgconfig.py:583-587 *)
Definition requires_lines (vr : version_reqs) (pub priv : list str) : str :=
  (match format_reqs vr pub with [] => [] | s => s2l "Requires: " ++ s ++ [10] end) ++
  (match format_reqs vr priv with [] => [] | s => s2l "Requires.private: " ++ s ++ [10] end).

(* pkgconfig.py:347-412  remove_dups, items that are strings (for a str, _ids yields the str).
   _add_exclude(x): was it excluded already?  add it otherwise. *)
Definition cannot_dedup (libs : bool) (x : str) : bool :=
  libs && negb (prefixb (s2l "-l") x || prefixb (s2l "-L") x) && negb (str_eqb x (s2l "-pthread")).

Fixpoint pc_fn (libs : bool) (xs : list str) (excl : list str) : list str * list str :=
  match xs with
  | [] => ([], excl)
  | x :: r =>
      if cannot_dedup libs x then
        let '(res, e) := pc_fn libs r excl in (x :: res, e)
      else if str_mem x excl then pc_fn libs r excl                       (* already excluded: skip *)
      else let '(res, e) := pc_fn libs r (x :: excl) in (x :: res, e)     (* exclude.add(x); keep *)
  end.

Record pc_lists := mkpc { pub_reqs : list str; pub_libs : list str; priv_reqs : list str; priv_libs : list str;
                          cflags : list str; cflags_private : list str }.

(* `whole` = the ids excluded up front (link_whole targets), in the set's iteration order *)
Definition remove_dups (whole : list str) (l : pc_lists) : pc_lists :=
  let '(a, e1) := pc_fn false (pub_reqs l) whole in
  let '(b, e2) := pc_fn true (pub_libs l) e1 in
  let '(c, e3) := pc_fn false (priv_reqs l) e2 in
  let '(d, _) := pc_fn true (priv_libs l) e3 in
  let '(f, e5) := pc_fn false (cflags l) [] in                            (* exclude = set() *)
  let '(g, _) := pc_fn false (cflags_private l) e5 in
  mkpc a b c d f g.
