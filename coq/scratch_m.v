(* Syntax/RawPrintFacts.v — the print/parse identity of the trivia-aware model:
       parse_with_trivia s = TOk tb  ->  raw_print tb = s          (byte for byte, every s)
   whenever no argument list of the tree has a positional argument after a keyword argument
   (the known finding: RawPrinter emits `arguments` before `kwargs`); the unguarded statement
   is refuted by a witness.  Ingredients: the lexer is lossless (LexerFacts), the tree lists
   exactly the significant tokens in order (ParserFacts), every tree position holds a token of
   the kind the parser accepted there (KindFacts), keyword/string token texts have the shape
   RawPrinter re-assembles (TokenShape). *)
From MV Require Import Base.Strs Syntax.Lexer Syntax.Parser Syntax.Yield Syntax.LexerFacts
  Syntax.ParserFacts Syntax.KindFacts Syntax.TokenShape Syntax.Trivia Syntax.RawPrint.
From Coq Require Import Lia.
Open Scope N_scope.

(* ------------------------------------------------------------------ chunks *)
(* the text a chunk stands for: the token itself - unless it is an 'eol', whose text is part of
   what the previous getsym collected - and the trivia read after it *)
Definition own (t : token) : str := if is_eol t then [] else ttext t.
Definition ctext (C : list (token * wsl)) : str :=
  concat (map (fun c => own (fst c) ++ texts_ (snd c)) C).

Lemma ctext_nil : ctext [] = [].
Proof. reflexivity. Qed.
Lemma ctext_cons t g C : ctext ((t, g) :: C) = own t ++ texts_ g ++ ctext C.
Proof. unfold ctext. cbn. rewrite <- app_assoc. reflexivity. Qed.
Lemma ctext_app a b : ctext (a ++ b) = ctext a ++ ctext b.
Proof. unfold ctext. rewrite map_app, concat_app. reflexivity. Qed.
Lemma texts_app_ a b : texts_ (a ++ b) = texts_ a ++ texts_ b.
Proof. unfold texts_. rewrite map_app, concat_app. reflexivity. Qed.
Lemma own_neol t : neol t = true -> own t = ttext t.
Proof. unfold neol, own, is_eol. destruct (kind_beq (tk t) KEol); [discriminate | reflexivity]. Qed.
Lemma own_eol t : iseol t = true -> own t = [].
Proof. unfold iseol, own, is_eol. intros ->. reflexivity. Qed.

(* the chunks of a token list spell the token list; their tokens are the significant ones *)
Lemma chunk_spec ts :
  texts_ (fst (chunk ts)) ++ ctext (snd (chunk ts)) = texts_ ts /\
  map fst (snd (chunk ts)) = significant ts.
Proof.
  induction ts as [|t r [IH1 IH2]]; [split; reflexivity|].
  cbn [chunk]. destruct (chunk r) as [w cs]. cbn [fst snd] in *.
  unfold significant in *. cbn [filter].
  destruct (is_trivia (tk t)) eqn:T; cbn [negb fst snd].
  - split; [|exact IH2]. change (texts_ (t :: w)) with (ttext t ++ texts_ w).
    change (texts_ (t :: r)) with (ttext t ++ texts_ r). rewrite <- app_assoc, IH1. reflexivity.
  - assert (E : forall w0, texts_ w0 ++ ctext ((t, w) :: cs) = texts_ w0 ++ own t ++ texts_ r).
    { intro w0. rewrite ctext_cons, IH1. reflexivity. }
    change (texts_ (t :: r)) with (ttext t ++ texts_ r).
    destruct (is_eol t) eqn:L; cbn [fst snd map]; (split; [|rewrite IH2; reflexivity]); rewrite E; unfold own; rewrite L.
    + change (texts_ [t]) with (ttext t ++ []). rewrite app_nil_r. reflexivity.
    + reflexivity.
Qed.

Lemma mf_app (C : list (token * wsl)) a b :
  map fst C = a ++ b -> exists Ca Cb, C = Ca ++ Cb /\ map fst Ca = a /\ map fst Cb = b.
Proof.
  revert C; induction a as [|x a IH]; intros C H.
  - exists [], C. auto.
  - destruct C as [|c C]; [discriminate|]. cbn in H. inversion H; subst.
    destruct (IH C H2) as (Ca & Cb & -> & Ha & Hb). exists (c :: Ca), Cb. cbn. rewrite Ha. auto.
Qed.
Lemma mf_cons (C : list (token * wsl)) t l :
  map fst C = t :: l -> exists g Cl, C = (t, g) :: Cl /\ map fst Cl = l.
Proof. destruct C as [|[t' g] C]; [discriminate|]. cbn. intro H; inversion H; subst. eauto. Qed.
Lemma mf_nil (C : list (token * wsl)) : map fst C = [] -> C = [].
Proof. destruct C; [reflexivity | discriminate]. Qed.

(* ------------------------------------------------------------------ argument order *)
(* the source-order printing of an argument list (what the identity needs) ... *)
Fixpoint rp_src (a : titems) (cms : list sym) : str :=
  match a with
  | TANil => []
  | TAPos n r =>
      match cms with
      | c :: cs => rp n ++ p_sym c ++ rp_src r cs
      | [] => rp n ++ rp_src r []
      end
  | TAKw k colon v r =>
      match cms with
      | c :: cs => rp k ++ p_sym colon ++ rp v ++ p_sym c ++ rp_src r cs
      | [] => rp k ++ p_sym colon ++ rp v ++ rp_src r []
      end
  end.
Fixpoint same_shape (a : args) (ta : titems) : Prop :=
  match a, ta with
  | ANil, TANil => True
  | APos _ r, TAPos _ r' => same_shape r r'
  | AKw _ _ _ r, TAKw _ _ _ r' => same_shape r r'
  | _, _ => False
  end.

Lemma nopos a : forall ta cms, same_shape a ta -> pos_only a = ANil ->
  rp_pos ta cms = ([], cms) /\ rp_kw ta cms = rp_src ta cms.
Proof.
  induction a as [|n r IH|k c v r IH]; intros [|n' r'|k' c' v' r'] cms S H; try contradiction; try discriminate.
  - split; reflexivity.
  - cbn [same_shape pos_only] in *. cbn [rp_pos rp_kw rp_src].
    split; [apply IH; assumption|].
    destruct cms as [|x cs]; rewrite (proj2 (IH r' _ S H)); reflexivity.
Qed.

(* ... is what RawPrinter emits (arguments first, then kwargs) when no positional argument
   follows a keyword argument *)
Lemma raw_src a : forall ta cms, same_shape a ta -> args_order_ok a = true ->
  fst (rp_pos ta cms) ++ rp_kw ta (snd (rp_pos ta cms)) = rp_src ta cms.
Proof.
  induction a as [|n r IH|k c v r IH]; intros [|n' r'|k' c' v' r'] cms S H; try contradiction.
  - reflexivity.
  - cbn [same_shape args_order_ok] in *. cbn [rp_pos rp_kw rp_src].
    destruct cms as [|x cs].
    + specialize (IH r' [] S H). destruct (rp_pos r' []) as [s cs']. cbn [fst snd] in *.
      rewrite <- app_assoc, IH. reflexivity.
    + specialize (IH r' cs S H). destruct (rp_pos r' cs) as [s cs']. cbn [fst snd] in *.
      rewrite <- !app_assoc, IH. reflexivity.
  - cbn [same_shape args_order_ok] in *.
    destruct (pos_only r) eqn:PO; try discriminate.
    cbn [rp_pos]. destruct (nopos r r' cms S PO) as [E1 _]. rewrite E1. cbn [fst snd app rp_kw rp_src].
    destruct cms as [|x cs]; rewrite (proj2 (nopos r r' _ S PO)); reflexivity.
Qed.

(* ------------------------------------------------------------------ leaves *)
Lemma firstn_len_app {A} (b x : list A) : firstn (length b) (b ++ x) = b.
Proof. induction b; simpl; [destruct x; reflexivity | f_equal; assumption]. Qed.
Lemma cut3_app b : cut3 (b ++ sq3) = b.
Proof.
  unfold cut3. rewrite app_length. change (length sq3) with 3%nat.
  replace (length b + 3 - 3)%nat with (length b) by lia. apply firstn_len_app.
Qed.
Lemma isk_neol k t : isk k t = true -> k <> KEol -> neol t = true.
Proof.
  unfold isk, neol. intros H Hk. apply kind_beq_eq in H.
  destruct (kind_beq (tk t) KEol) eqn:E; [|reflexivity]. apply kind_beq_eq in E. congruence.
Qed.
Lemma p_bool_ok t : twf t -> isk KTrue t || isk KFalse t = true -> p_bool t = ttext t /\ neol t = true.
Proof.
  unfold twf, isk, p_bool, neol. intros W H.
  destruct (tk t) eqn:K; try discriminate; cbn; rewrite W; auto.
Qed.
Lemma p_str_ok t : twf t -> string_kind (tk t) = true -> p_str t = ttext t /\ neol t = true.
Proof.
  unfold twf, p_str, tok_value, neol. intros W H.
  destruct (tk t) eqn:K; try discriminate; destruct W as [b Hb]; rewrite Hb; cbn [is_fstring is_multiline kind_beq negb];
    (split; [|reflexivity]).
  - change (drop 4 (c_f :: sq3 ++ b ++ sq3)) with (b ++ sq3). rewrite cut3_app. reflexivity.
  - change (drop 2 (c_f :: c_sq :: b ++ [c_sq])) with (b ++ [c_sq]). rewrite removelast_last. reflexivity.
  - change (drop 3 (sq3 ++ b ++ sq3)) with (b ++ sq3). rewrite cut3_app. reflexivity.
  - change (drop 1 (c_sq :: b ++ [c_sq])) with (b ++ [c_sq]). rewrite removelast_last. reflexivity.
Qed.
Lemma p_kw_ok k t txt : isk k t = true -> k <> KEol -> (twf t -> tk t = k -> ttext t = txt) -> twf t ->
  txt = ttext t /\ neol t = true.
Proof.
  intros H Hk Hx W. split; [|eapply isk_neol; eassumption].
  symmetry. apply Hx; [exact W|]. apply kind_beq_eq. exact H.
Qed.

(* BaseNode.append_whitespaces adds to what every visit_* emits last *)
Lemma rp_add_ws n x : rp (add_ws n x) = rp n ++ texts_ x.
Proof.
  destruct n; cbn [add_ws rp]; unfold p_ws; rewrite texts_app_, <- ?app_assoc; try reflexivity.
Qed.
Lemma skipn_len_app {A} (a b : list A) : skipn (length a) (a ++ b) = b.
Proof. induction a; simpl; [reflexivity | assumption]. Qed.

(* ------------------------------------------------------------------ the identity, by induction on the tree *)
Scheme node_mt := Induction for node Sort Prop
  with args_mt := Induction for args Sort Prop
  with block_mt := Induction for block Sort Prop
  with ifs_mt := Induction for ifs Sort Prop.
Combined Scheme tree4_ind from node_mt, args_mt, block_mt, ifs_mt.

Definition rp_opt (o : option tnode) : str := match o with Some l => rp l | None => [] end.

(* replaying a node over the chunks C0 of its own tokens, with nothing pending: the chunks are
   consumed, what is printed plus what stays pending spells the chunks; an expression leaves
   nothing pending (an if/foreach clause leaves what follows its endif/endforeach) *)
Definition Qn (n : node) : Prop := forall C0 C' bad,
  map fst C0 = yield n -> Forall twf (yield n) -> wk n = true -> order_ok n = true ->
  exists tn pend' bad', at_node n (mkT (C0 ++ C') [] bad) = (tn, mkT C' pend' bad') /\
    rp tn ++ texts_ pend' = ctext C0 /\ (is_expr n = true -> pend' = []).

Definition Qitems (a : args) : Prop := forall cms C0 C' bad,
  map fst C0 = interleave (src_items a) cms -> Forall twf (interleave (src_items a) cms) ->
  wk_args a = true -> forallb neol cms = true -> order_ok_args a = true ->
  exists ti cl bad', at_items a cms (mkT (C0 ++ C') [] bad) = (ti, cl, mkT C' [] bad') /\
     rp_src ti cl = ctext C0 /\ same_shape a ti.
Definition Qargs (a : args) : Prop := forall cms C0 C' bad,
  map fst C0 = interleave (src_items a) cms -> Forall twf (interleave (src_items a) cms) ->
  wk_args a = true -> forallb neol cms = true -> order_ok_args a = true -> args_order_ok a = true ->
  exists ta bad', at_args a cms (mkT (C0 ++ C') [] bad) = (ta, mkT C' [] bad') /\ rp_args ta = ctext C0.

Definition Qlines (b : block) : Prop := forall last pre pend C0 C' bad,
  map fst C0 = yield_block b -> Forall twf (yield_block b) -> wk_block b = true -> order_ok_block b = true ->
  exists pre' ls bad', at_lines b last pre (mkT (C0 ++ C') pend bad) = (pre', ls, mkT C' [] bad') /\
    p_ws pre' ++ rp_lines ls = p_ws pre ++ rp_opt last ++ texts_ pend ++ ctext C0 /\
    (last <> None -> pre' = pre).

Definition Qifs (i : ifs) : Prop := forall C0 C' bad,
  map fst C0 = yield_ifs i -> Forall twf (yield_ifs i) -> wk_ifs i = true -> order_ok_ifs i = true ->
  exists ti bad', at_ifs i (mkT (C0 ++ C') [] bad) = (ti, mkT C' [] bad') /\ rp_ifs ti = ctext C0.
Definition Pi (i : ifs) : Prop :=
  Qifs i /\ match i with INil => True | ICons _ c _ b r => Qn c /\ Qlines b /\ Qifs r end.

Ltac splits :=
  repeat match goal with
  | H : _ && _ = true |- _ => apply andb_prop in H; destruct H
  | H : Forall _ (_ ++ _) |- _ => apply Forall_app in H; destruct H
  | H : Forall _ (_ :: _) |- _ => apply Forall_cons_iff in H; destruct H
  | H : map fst _ = _ ++ _ |- _ => apply mf_app in H; destruct H as (? & ? & -> & ? & ?)
  | H : map fst _ = _ :: _ |- _ => apply mf_cons in H; destruct H as (? & ? & -> & ?)
  | H : map fst _ = [] |- _ => apply mf_nil in H; subst
  end.

Ltac red_st0 := cbn [mk_sym mk_idn mk_sym_cur t_accept t_flush t_chunks t_pend t_bad app fst snd].
Ltac red_st := repeat progress (red_st0; rewrite <- ?app_assoc); red_st0.

Ltac call_node :=
  match goal with
  | IH : Qn ?n |- context [at_node ?n (mkT (?Ca ++ ?Cb) [] ?b)] =>
      let tn := fresh "tn" in let pd := fresh "pd" in let b' := fresh "bd" in
      let E := fresh "E" in let R := fresh "R" in let Z := fresh "Z" in
      destruct (IH Ca Cb b ltac:(assumption) ltac:(assumption) ltac:(assumption) ltac:(assumption)) as (tn & pd & b' & E & R & Z);
      rewrite E; clear E;
      try (specialize (Z ltac:(assumption)); subst pd; rewrite app_nil_r in R);
      red_st
  end.
Ltac call_args :=
  match goal with
  | IH : Qargs ?a |- context [at_args ?a ?cms (mkT (?Ca ++ ?Cb) [] ?b)] =>
      let ta := fresh "ta" in let b' := fresh "bd" in let E := fresh "E" in let R := fresh "R" in
      destruct (IH cms Ca Cb b ltac:(assumption) ltac:(assumption) ltac:(assumption) ltac:(assumption)
                   ltac:(assumption) ltac:(assumption)) as (ta & b' & E & R);
      rewrite E; clear E; red_st
  end.
Ltac call_items :=
  match goal with
  | IH : Qitems ?a |- context [at_items ?a ?cms (mkT (?Ca ++ ?Cb) [] ?b)] =>
      let ti := fresh "ti" in let cl := fresh "cl" in let b' := fresh "bd" in
      let E := fresh "E" in let R := fresh "R" in let S := fresh "S" in
      destruct (IH cms Ca Cb b ltac:(assumption) ltac:(assumption) ltac:(assumption) ltac:(assumption)
                   ltac:(assumption)) as (ti & cl & b' & E & R & S);
      rewrite E; clear E; red_st
  end.
Ltac call_ifs :=
  match goal with
  | IH : Qifs ?i |- context [at_ifs ?i (mkT (?Ca ++ ?Cb) [] ?b)] =>
      let ti := fresh "ti" in let b' := fresh "bd" in let E := fresh "E" in let R := fresh "R" in
      destruct (IH Ca Cb b ltac:(assumption) ltac:(assumption) ltac:(assumption) ltac:(assumption)) as (ti & b' & E & R);
      rewrite E; clear E; red_st
  end.
(* mk_block (at_lines b) over the chunks of b, with [pend] pending *)
Lemma block_call b : Qlines b -> forall pend C0 C' bad,
  map fst C0 = yield_block b -> Forall twf (yield_block b) -> wk_block b = true -> order_ok_block b = true ->
  exists tb bad', mk_block (at_lines b) (mkT (C0 ++ C') pend bad) = (tb, mkT C' [] bad') /\
    rp_block tb = texts_ pend ++ ctext C0.
Proof.
  intros Q pend C0 C' bad Hm Hf Hk Ho. unfold mk_block. red_st.
  destruct (Q None pend [] C0 C' bad Hm Hf Hk Ho) as (pre' & ls & bad' & E & R & _).
  rewrite E. exists (TBlock pre' ls), bad'. split; [reflexivity|].
  cbn [rp_block]. rewrite R. reflexivity.
Qed.
Ltac call_block :=
  match goal with
  | IH : Qlines ?b |- context [mk_block (at_lines ?b) (mkT (?Ca ++ ?Cb) ?pend ?bd)] =>
      let tb := fresh "tb" in let b' := fresh "bd" in let E := fresh "E" in let R := fresh "R" in
      destruct (block_call b IH pend Ca Cb bd ltac:(assumption) ltac:(assumption) ltac:(assumption) ltac:(assumption))
        as (tb & b' & E & R);
      rewrite E; clear E; red_st
  end.

Ltac norm_txt :=
  cbn [rp rp_args rp_block rp_lines rp_ifs rp_src]; unfold p_sym, p_idn, p_ws; cbn [sy_val sy_ws sy_tok id_tok id_ws];
  repeat first [rewrite ctext_app | rewrite ctext_cons | rewrite ctext_nil | rewrite texts_app_];
  repeat match goal with
         | H : neol ?t = true |- context [own ?t] => rewrite (own_neol t H)
         | H : iseol ?t = true |- context [own ?t] => rewrite (own_eol t H)
         end;
  repeat match goal with
         | R : rp _ = _ |- _ => rewrite R; clear R
         | R : rp_args _ = _ |- _ => rewrite R; clear R
         | R : rp_block _ = _ |- _ => rewrite R; clear R
         | R : rp_ifs _ = _ |- _ => rewrite R; clear R
         | R : rp_src _ _ = _ |- _ => rewrite R; clear R
         end;
  change (texts_ []) with (@nil char);
  rewrite <- ?app_assoc; rewrite ?app_nil_r; cbn [app].
Ltac fin := eexists; eexists; eexists; split; [reflexivity|]; split; [norm_txt; try reflexivity | first [ intros _; reflexivity | let X := fresh in intro X; discriminate X | idtac ] ].

Ltac start :=
  let C0 := fresh "C0" in let C' := fresh "C'" in let bad := fresh "bad" in
  intros C0 C' bad Hm Hf Hk Ho;
  cbn [yield yield_block yield_ifs src_items opt_tok wk wk_args wk_block wk_ifs
       order_ok order_ok_args order_ok_block order_ok_ifs is_expr] in *; splits;
  cbn [at_node at_args at_items at_lines at_ifs]; red_st.

Section Cases.
  Lemma q_empty p : Qn (NEmpty p).
  Proof. start. fin. Qed.
  Lemma q_bool t : Qn (NBool t).
  Proof. start. destruct (p_bool_ok t) as [P N]; try assumption. fin. rewrite P. reflexivity. Qed.
  Lemma q_id t : Qn (NId t).
  Proof. start. fin. Qed.
  Lemma q_num t : Qn (NNum t).
  Proof. start. fin. Qed.
  Lemma q_str t : Qn (NStr t).
  Proof. start. destruct (p_str_ok t) as [P N]; try assumption. fin. rewrite P. reflexivity. Qed.
  Lemma kw_text k t txt : twf t -> isk k t = true -> k <> KEol ->
    (match k with KContinue | KBreak => True | _ => False end) ->
    txt = (match k with KContinue => s2l "continue" | _ => s2l "break" end) -> txt = ttext t /\ neol t = true.
  Proof.
    intros W H Hk Hc ->. split; [|eapply isk_neol; eassumption].
    unfold isk in H. apply kind_beq_eq in H. unfold twf in W. rewrite H in W.
    destruct k; try contradiction; symmetry; exact W.
  Qed.
  Lemma q_continue kw p : Qn (NContinue kw p).
  Proof.
    start. destruct (kw_text KContinue kw (s2l "continue")) as [P N]; try assumption; try exact I; try discriminate; try reflexivity.
    fin. rewrite P. reflexivity.
  Qed.
  Lemma q_break kw p : Qn (NBreak kw p).
  Proof.
    start. destruct (kw_text KBreak kw (s2l "break")) as [P N]; try assumption; try exact I; try discriminate; try reflexivity.
    fin. rewrite P. reflexivity.
  Qed.
  Lemma q_paren lp e rpar : Qn e -> Qn (NParen lp e rpar).
  Proof. intro IHe. start. call_node. fin. Qed.
  Lemma q_array lb a cms rb : Qargs a -> Qn (NArray lb a cms rb).
  Proof. intro IHa. start. call_args. fin. Qed.
  Lemma q_dict lb a cms rb : Qargs a -> Qn (NDict lb a cms rb).
  Proof. intro IHa. start. call_args. fin. Qed.
  Lemma q_func name lp a cms rpar : Qargs a -> Qn (NFunc name lp a cms rpar).
  Proof. intro IHa. start. call_args. fin. Qed.
  Lemma q_method obj dot name lp a cms rpar : Qn obj -> Qargs a -> Qn (NMethod obj dot name lp a cms rpar).
  Proof. intros IHo IHa. start. call_node. call_args. fin. Qed.
  Lemma q_index obj lb idx rb : Qn obj -> Qn idx -> Qn (NIndex obj lb idx rb).
  Proof. intros IHo IHi. start. call_node. call_node. fin. Qed.
  Lemma q_not op p e : Qn e -> Qn (NNot op p e).
  Proof. intro IHe. start. call_node. fin. Qed.
  Lemma q_uminus op p e : Qn e -> Qn (NUMinus op p e).
  Proof. intro IHe. start. call_node. fin. Qed.
  Lemma q_arith l op r : Qn l -> Qn r -> Qn (NArith l op r).
  Proof. intros IHl IHr. start. call_node. call_node. fin. Qed.
  Lemma q_cmp l op r : Qn l -> Qn r -> Qn (NCmp l op r).
  Proof. intros IHl IHr. start. call_node. call_node. fin. Qed.
  Lemma q_and l op r : Qn l -> Qn r -> Qn (NAnd l op r).
  Proof. intros IHl IHr. start. call_node. call_node. fin. Qed.
  Lemma q_or l op r : Qn l -> Qn r -> Qn (NOr l op r).
  Proof. intros IHl IHr. start. call_node. call_node. fin. Qed.
  Lemma q_ternary c q t colon f : Qn c -> Qn t -> Qn f -> Qn (NTernary c q t colon f).
  Proof. intros IHc IHt IHf. start. call_node. call_node. call_node. fin. Qed.
  Lemma q_assign name op v : Qn v -> Qn (NAssign name op v).
  Proof. intro IHv. start. call_node. fin. Qed.
  Lemma q_plusassign name op v : Qn v -> Qn (NPlusAssign name op v).
  Proof. intro IHv. start. call_node. fin. Qed.
  Lemma q_notin l nt it r : Qn l -> Qn r -> Qn (NNotIn l nt it r).
  Proof.
    intros IHl IHr. start. call_node.
    rewrite skipn_len_app. red_st. call_node.
    assert (neol nt = true) by (eapply isk_neol; [eassumption | discriminate]).
    assert (neol it = true) by (eapply isk_neol; [eassumption | discriminate]).
    fin.
  Qed.
  Lemma q_if i endif : Pi i -> Qn (NIf i endif).
  Proof.
    intros [Qi Hc]. destruct i as [|kw c eol b r].
    - start. fin.
    - destruct Hc as (Qc & Qb & Qr). start. call_node. call_block. call_ifs. fin.
  Qed.
  Lemma q_ifelse i els eol2 b2 endif : Pi i -> Qlines b2 -> Qn (NIfElse i els eol2 b2 endif).
  Proof.
    intros [Qi Hc] Qb2. destruct i as [|kw c eol b r].
    - start. call_block. fin.
    - destruct Hc as (Qc & Qb & Qr). start. call_node. call_block. call_ifs. call_block. fin.
  Qed.
  Lemma q_foreach fe v1 cv2 colon items b endfe : Qn items -> Qlines b -> Qn (NForeach fe v1 cv2 colon items b endfe).
  Proof.
    intros Qi Qb. destruct cv2 as [[cm v2]|]; start; call_node; call_block; fin.
  Qed.
End Cases.

(* ------------------------------------------------------------------ argument lists *)
Lemma rp_args_src a ti cl w : same_shape a ti -> args_order_ok a = true ->
  rp_args (TArgs ti cl w) = rp_src ti cl ++ p_ws w.
Proof.
  intros S H. cbn [rp_args]. pose proof (raw_src a ti cl S H) as E.
  destruct (rp_pos ti cl) as [s cs']. cbn [fst snd] in E. rewrite app_assoc, E. reflexivity.
Qed.

Ltac start_args :=
  let cms := fresh "cms" in let C0 := fresh "C0" in let C' := fresh "C'" in let bad := fresh "bad" in
  intros cms C0 C' bad Hm Hf Hk Hc Ho;
  destruct cms; cbn [src_items interleave wk_args order_ok_args forallb] in *; splits;
  cbn [at_node at_args at_items at_lines at_ifs]; red_st.
Ltac fin_items :=
  eexists; eexists; eexists; split; [reflexivity|]; split; [norm_txt; try reflexivity | cbn [same_shape]; try assumption; try exact I].

Lemma qi_nil : Qitems ANil.
Proof. start_args; fin_items. Qed.
Lemma qi_pos n r : Qn n -> Qitems r -> Qitems (APos n r).
Proof. intros Q1 Q2. start_args; call_node; call_items; fin_items. Show. Abort.
