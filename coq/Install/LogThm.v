(* Install/LogThm.v — under the strict guard the invariant holds at the end of a
   successful real installation; the install log names everything that was created. *)
From MV Require Import Base.Strs Base.LexFacts Install.Tree Install.TreeFacts Install.Model Install.Spec Install.Proofs
  Install.Contain Install.Log Install.Invariant Install.InvSteps Install.InvRun.
From Coq Require Import Lia.
Open Scope N_scope.

Lemma ndot_nd p : ndot p = nd p.
Proof. reflexivity. Qed.

Section Strict.
  Variable o : opts.
  Variable pl : plan.
  Let c := mk_cfg o pl.
  Let destdir := effective_destdir o pl.
  Let fullprefix := destdir_join destdir (p_prefix pl).
  Hypothesis Hwf : wf_plan_strict o pl = true.

  Lemma strict_parts :
    nd (p_prefix pl) = true /\ isabs (p_prefix pl) = true /\ nd destdir = true /\
    (isabs destdir = true \/ is_empty_path destdir = true) /\
    forallb wf_sitem_s (p_subdirs pl) = true /\ forallb wf_fitem_s (all_fitems pl) = true /\
    forallb wf_eitem_s (p_emptydirs pl) = true /\ forallb wf_litem_s (p_symlinks pl) = true.
  Proof.
    unfold wf_plan_strict in Hwf. repeat (apply andb_true_iff in Hwf as [Hwf ?]).
    repeat split; try assumption. apply orb_true_iff. assumption.
  Qed.

  Lemma pok_fullprefix : pok fullprefix.
  Proof.
    destruct strict_parts as [Np [Ap [Nd [Ad _]]]]. unfold fullprefix. destruct Ad as [Ad|Ed].
    - split; [apply nd_destdir_join | apply destdir_join_isabs]; assumption.
    - unfold destdir_join. fold destdir. rewrite Ed. split; assumption.
  Qed.

  Lemma pok_gdp p : nd p = true -> pok (get_destdir_path destdir fullprefix p).
  Proof.
    intros Hp. destruct strict_parts as [Np [Ap [Nd [Ad _]]]]. destruct pok_fullprefix as [Nf Af].
    unfold get_destdir_path. destruct (isabs p) eqn:A.
    - destruct Ad as [Ad|Ed].
      + split; [apply nd_destdir_join | apply destdir_join_isabs]; assumption.
      + unfold destdir_join. rewrite Ed. split; assumption.
    - split; [apply nd_pjoin | apply pjoin_isabs]; assumption.
  Qed.

  Lemma wf_name_nd n : wf_name n = true -> nd [n] = true.
  Proof.
    unfold wf_name, nd, trivial_comp. simpl. intros H. apply andb_true_iff in H as [H1 H2].
    apply negb_true_iff, orb_false_iff in H1 as [_ H1]. rewrite H1, H2. reflexivity.
  Qed.
  Lemma wf_names_nd l : forallb wf_name l = true -> nd l = true.
  Proof.
    induction l as [|x l IH]; simpl; [reflexivity|]. intros H. apply andb_true_iff in H as [H1 H2].
    change (nd ([x] ++ l) = true). rewrite nd_app, (wf_name_nd _ H1), (IH H2). reflexivity.
  Qed.

  Lemma pok_entry dst rel n : pok dst -> forallb wf_name rel = true -> wf_name n = true -> pok (pjoin dst (rel ++ [n])).
  Proof.
    intros [Nd Ad] Hr Hn. split.
    - apply nd_pjoin; [exact Nd|]. rewrite nd_app, (wf_names_nd _ Hr), (wf_name_nd _ Hn). reflexivity.
    - apply pjoin_isabs; [exact Ad | apply rel_names_not_abs; exact Hr].
  Qed.

  Variable f0 : fs.
  Hypothesis Dry : o_dry o = false.

  Lemma inv_run_install : inv (I1 f0 None) (run_install c pl destdir).
  Proof.
    assert (c_dry c = false) as Cd by exact Dry.
    destruct strict_parts as [Np [Ap [Nd [Ad [Ws [Wf [We Wl]]]]]]].
    rewrite forallb_forall in Ws, Wf, We, Wl.
    assert (forall i, In i (all_fitems pl) -> inv (I1 f0 None) (install_fitem c destdir fullprefix i)) as Hfi.
    { intros i Hi. specialize (Wf i Hi). unfold wf_fitem_s in Wf. apply andb_true_iff in Wf as [Wf W3].
      apply andb_true_iff in Wf as [W1 W2]. pose proof (pok_gdp _ W1) as G.
      assert (pok (pjoin (get_destdir_path destdir fullprefix (fi_path i)) [fi_srcname i])) as Pn.
      { destruct G as [G1 G2]. split; [apply nd_pjoin; [exact G1|] | apply pjoin_isabs; [exact G2 | reflexivity]].
        unfold nd. simpl. rewrite W2, W3. reflexivity. }
      apply inv_install_fitem; [exact Cd | |]; unfold fitem_outname, fitem_outdir; destruct (fi_kind i); auto using pok_dirname. }
    unfold run_install. fold fullprefix.
    repeat (eapply okp_bind; [|intros ?u]); try apply inv_forM.
    - intros i Hi. apply inv_install_subdir; [exact Cd|]. specialize (Ws i Hi). unfold wf_sitem_s in Ws.
      apply andb_true_iff in Ws as [W1 W2]. rewrite forallb_forall in W2. pose proof (pok_gdp _ W1) as G.
      split; [exact G|]. intros w Hw. specialize (W2 w Hw). unfold wf_wstep in W2.
      apply andb_true_iff in W2 as [W2 W5]. apply andb_true_iff in W2 as [W3 W4]. rewrite forallb_forall in W4, W5.
      split; intros x Hx; apply pok_entry; auto.
    - intros i Hi. apply Hfi. unfold all_fitems. apply in_or_app. left. exact Hi.
    - intros i Hi. apply Hfi. unfold all_fitems. apply in_or_app. right. apply in_or_app. left. exact Hi.
    - intros i Hi. apply Hfi. unfold all_fitems. apply in_or_app. right. apply in_or_app. right. apply in_or_app. left. exact Hi.
    - intros e Hi. apply inv_install_emptydir; [exact Cd|]. apply pok_gdp. exact (We e Hi).
    - intros i Hi. apply Hfi. unfold all_fitems. apply in_or_app. right. apply in_or_app. right. apply in_or_app. right. exact Hi.
    - intros l Hi. specialize (Wl l Hi). unfold wf_litem_s in Wl. apply andb_true_iff in Wl as [W1 W2].
      apply inv_install_symlink; [exact Cd | apply pok_gdp; exact W2 | apply pok_gdp; exact W1].
  Qed.

  (* the state at the end of a successful installation *)
  Lemma do_install_inv f' lg :
    wf_fs f0 -> do_install o pl f0 = (f', lg, Ok tt) ->
    exists s, I1 f0 None s /\ s_fs s = f' /\ lg = final_log s.
  Proof.
    intros W H. unfold do_install in H. fold c destdir in H.
    destruct (run_install c pl destdir (mkSt f0 [LHeader; LHeader] [])) as [s r] eqn:E.
    inversion H; subst. exists s. split; [|auto].
    eapply inv_run_install; [apply I1_init; exact W | exact E].
  Qed.
End Strict.

Lemma logged_final s : logged (final_log s) = logged (s_log s) ++ map cleanp (rev (s_dirs s)).
Proof.
  unfold final_log. rewrite logged_app. f_equal. generalize (rev (s_dirs s)). intros l.
  induction l as [|x l IH]; simpl; [reflexivity|]. rewrite IH. reflexivity.
Qed.

(* C11 "the install log names everything that was created": after a successful real
   installation every location either does not exist, or is exactly as before, or differs from
   before in its permission bits only, or is named by the log *)
Theorem log_complete_partial : forall o pl f f' lg,
  wf_plan_strict o pl = true -> o_dry o = false -> wf_fs f ->
  do_install o pl f = (f', lg, Ok tt) ->
  forall q, lookup f' q = None \/ lookup f' q = lookup f q \/ mode_only (lookup f q) (lookup f' q) \/ In q (logged lg).
Proof.
  intros o pl f f' lg Hwf Dry W H q.
  destruct (do_install_inv o pl Hwf f Dry f' lg W H) as [s [[_ _ _ _ J _ _ _] [<- ->]]].
  rewrite logged_final. destruct (J q) as [X|[X|[X|[X|X]]]]; auto; right; right; right; apply in_or_app; [left; exact X|].
  right. rewrite map_rev. apply in_rev. rewrite rev_involutive. exact X.
Qed.

(* ... and what the log names exists: file lines are files or links, directory lines are directories *)
Theorem log_sound_partial : forall o pl f f' lg,
  wf_plan_strict o pl = true -> o_dry o = false -> wf_fs f ->
  do_install o pl f = (f', lg, Ok tt) ->
  forall q, In q (logged lg) -> lookup f' q <> None.
Proof.
  intros o pl f f' lg Hwf Dry W H q Hq.
  destruct (do_install_inv o pl Hwf f Dry f' lg W H) as [s [[_ E _ K _ _ F _] [<- ->]]].
  rewrite logged_final in Hq. apply in_app_or in Hq as [Hq|Hq].
  - specialize (F q Hq (fun X => match X with end)). destruct (lookup (s_fs s) q); [discriminate | contradiction].
  - rewrite map_rev in Hq. apply in_rev in Hq. apply in_map_iff in Hq as [d [<- Hd]].
    destruct (E d Hd) as [_ [_ [X|[m X]]]]; [destruct (K d Hd) as [_ Y]; contradiction | rewrite X; discriminate].
Qed.
