(* Install/InvSteps.v — the invariant of a real installation and its preservation by
   the atomic actions of the installer. *)
From MV Require Import Base.Strs Base.LexFacts Install.Tree Install.TreeFacts Install.Model Install.Spec Install.Proofs Install.Log Install.Invariant.
From Coq Require Import Lia.
Open Scope N_scope.

(* the locations named by the file lines of a log *)
Definition logged (l : list logline) : list cpath :=
  flat_map (fun x => match x with LPath p => [cleanp p] | _ => [] end) l.

Lemma logged_app a b : logged (a ++ b) = logged a ++ logged b.
Proof. unfold logged. apply flat_map_app. Qed.

Definition proper_prefix (b a : cpath) : Prop := is_prefix b a /\ b <> a.
(* no later element is a proper ancestor of an earlier one *)
Fixpoint ord (l : list path) : Prop :=
  match l with
  | [] => True
  | a :: r => (forall b, In b r -> ~ proper_prefix (cleanp b) (cleanp a)) /\ ord r
  end.

Lemma ord_app l1 l2 : ord l1 -> ord l2 ->
  (forall a b, In a l1 -> In b l2 -> ~ proper_prefix (cleanp b) (cleanp a)) -> ord (l1 ++ l2).
Proof.
  induction l1 as [|x l1 IH]; simpl; intros O1 O2 X; [exact O2|]. destruct O1 as [H1 O1]. split.
  - intros b Hb. apply in_app_or in Hb as [Hb|Hb]; [apply H1; exact Hb | apply X; [left; reflexivity | exact Hb]].
  - apply IH; auto.
Qed.

Lemma chain_ord R :
  (forall l1 a l2, R = l1 ++ a :: l2 -> forall b, In b l2 -> is_prefix (cleanp a) (cleanp b)) -> ord R.
Proof.
  induction R as [|a r IH]; simpl; intros H; [exact I|]. split.
  - intros b Hb [P N]. apply N. apply is_prefix_antisym; [exact P|]. apply (H [] a r eq_refl b Hb).
  - apply IH. intros l1 x l2 E b Hb. apply (H (a :: l1) x l2); [rewrite E; reflexivity | exact Hb].
Qed.

Section Inv.
  Variable f0 : fs.

  (* h: a location whose logged entry is momentarily absent (between unlink and re-creation) *)
  Record I1 (h : option cpath) (s : st) : Prop := mkI1 {
    iW : wf_fs (s_fs s);
    iE : forall d, In d (s_dirs s) -> nd d = true /\ isabs d = true /\ dir_at (s_fs s) (cleanp d);
    iD : forall q m, lookup f0 q = Some (NDir m) -> exists m', lookup (s_fs s) q = Some (NDir m');
    iK : forall d, In d (s_dirs s) -> not_dir (lookup f0 (cleanp d)) /\ cleanp d <> [];
    iJ : forall q, lookup (s_fs s) q = None \/ lookup (s_fs s) q = lookup f0 q \/
                   mode_only (lookup f0 q) (lookup (s_fs s) q) \/
                   In q (logged (s_log s)) \/ In q (map cleanp (s_dirs s));
    iO : ord (s_dirs s);
    iF : forall q, In q (logged (s_log s)) -> Some q <> h -> leaf (lookup (s_fs s) q);
    iN : forall p, In (LPath p) (s_log s) -> nd p = true /\ isabs p = true /\ cleanp p <> []
  }.

  Lemma I1_init : wf_fs f0 -> I1 None (mkSt f0 [LHeader; LHeader] []).
  Proof.
    intros W. constructor; simpl; try tauto.
    - intros q m H. eauto.
    - intros p [H|[H|[]]]; discriminate.
  Qed.

  (* a comment line changes nothing *)
  Lemma I1_log_comment h s l : logged [l] = [] -> (forall p, l <> LPath p) -> I1 h s -> I1 h (mkSt (s_fs s) (s_log s ++ [l]) (s_dirs s)).
  Proof.
    intros Hl Hnp [W E D K J O F Nn]. constructor; simpl; auto.
    - intros q. rewrite logged_app, Hl, app_nil_r. apply J.
    - intros q. rewrite logged_app, Hl, app_nil_r. apply F.
    - intros p Hp. apply in_app_or in Hp as [Hp|[Hp|[]]]; [apply Nn; exact Hp | exfalso; exact (Hnp p Hp)].
  Qed.

  (* a file or link is (re)written at c and the log names it *)
  Lemma I1_leaf_logged h s f' p :
    nd p = true -> isabs p = true -> cleanp p <> [] -> (h = None \/ h = Some (cleanp p)) ->
    I1 h s -> chg_at (s_fs s) f' (cleanp p) -> leaf (lookup f' (cleanp p)) ->
    ((lookup (s_fs s) (cleanp p) = None /\ cleanp p <> [] /\ dir_at (s_fs s) (removelast (cleanp p)))
     \/ leaf (lookup (s_fs s) (cleanp p))) ->
    I1 None (mkSt f' (s_log s ++ [LPath p]) (s_dirs s)).
  Proof.
    intros Hnd Hab Hne Hh [W E D K J O F Nn] C L' Hc. set (c := cleanp p) in *.
    assert (forall q, dir_at (s_fs s) q -> dir_at f' q) as Dd.
    { intros q Hq. destruct (cp_eqb q c) eqn:Eq.
      - apply cp_eqb_eq in Eq. subst q. destruct Hq as [Hq|[m Hm]]; [left; exact Hq|]. exfalso.
        destruct Hc as [[N _]|Lf]; [congruence | rewrite Hm in Lf; exact Lf].
      - apply cp_eqb_false in Eq. eapply dir_at_chg; eauto. }
    constructor; simpl.
    - destruct Hc as [[N [Nc Pd]]|Lf].
      + eapply wf_add; eauto.
      + eapply wf_leaf; eauto. destruct (lookup f' c) as [[| |]|]; simpl in *; auto.
    - intros d Hd. destruct (E d Hd) as [A [B Dr]]. auto.
    - intros q m H. destruct (D q m H) as [m' Hm']. exists m'. rewrite C; [exact Hm'|].
      intros ->. destruct Hc as [[N _]|Lf]; [congruence | rewrite Hm' in Lf; exact Lf].
    - exact K.
    - intros q. rewrite logged_app. simpl. destruct (cp_eqb q c) eqn:Eq.
      + apply cp_eqb_eq in Eq. subst q. right. right. right. left. apply in_or_app. right. left. reflexivity.
      + apply cp_eqb_false in Eq. rewrite (C q Eq). destruct (J q) as [H|[H|[H|[H|H]]]]; auto.
        right. right. right. left. apply in_or_app. left. exact H.
    - exact O.
    - intros q Hq _. rewrite logged_app in Hq. simpl in Hq. apply in_app_or in Hq.
      destruct (cp_eqb q c) eqn:Eq.
      + apply cp_eqb_eq in Eq. subst q. exact L'.
      + apply cp_eqb_false in Eq. rewrite (C q Eq). destruct Hq as [Hq|[Hq|[]]]; [|exfalso; apply Eq; symmetry; exact Hq].
        apply F; [exact Hq|]. destruct Hh as [Hh|Hh]; rewrite Hh; [discriminate|]. intros X. inversion X. contradiction.
    - intros p0 Hp. apply in_app_or in Hp as [Hp|[Hp|[]]]; [apply Nn; exact Hp|]. inversion Hp; subst. auto.
  Qed.

  (* chmod *)
  Lemma mode_only_trans a b c : mode_only a b -> mode_only b c -> mode_only a c.
  Proof.
    destruct a as [[| |]|], b as [[| |]|], c as [[| |]|]; simpl; try tauto. intros [-> ->] [-> ->]. auto.
  Qed.

  Lemma I1_mode h s f' c :
    I1 h s -> chg_at (s_fs s) f' c -> mode_only (lookup (s_fs s) c) (lookup f' c) -> I1 h (with_fs s f').
  Proof.
    intros [W E D K J O F Nn] C Mo.
    assert (forall q, dir_at (s_fs s) q -> dir_at f' q) as Dd.
    { intros q Hq. destruct (cp_eqb q c) eqn:Eq.
      - apply cp_eqb_eq in Eq. subst q. destruct Hq as [Hq|[m Hm]]; [left; exact Hq|]. right.
        rewrite Hm in Mo. destruct (lookup f' c) as [[| |]|]; simpl in Mo; try contradiction. eauto.
      - apply cp_eqb_false in Eq. eapply dir_at_chg; eauto. }
    constructor; simpl.
    - eapply wf_mode; eauto.
    - intros d Hd. destruct (E d Hd) as [A [B Dr]]. auto.
    - intros q m H. destruct (D q m H) as [m' Hm']. destruct (Dd q) as [->|X]; [right; eauto | | exact X].
      (* the root: lookup [] is never changed into a non-directory by chmod *)
      destruct (cp_eqb [] c) eqn:Eq.
      + apply cp_eqb_eq in Eq. subst c. rewrite Hm' in Mo. destruct (lookup f' []) as [[| |]|]; simpl in Mo; try contradiction. eauto.
      + apply cp_eqb_false in Eq. exists m'. rewrite (C [] Eq). exact Hm'.
    - exact K.
    - intros q. destruct (cp_eqb q c) eqn:Eq.
      + apply cp_eqb_eq in Eq. subst q. destruct (J c) as [H|[H|[H|[H|H]]]]; auto.
        * rewrite H in Mo. simpl in Mo. contradiction.
        * right. right. left. rewrite <- H. exact Mo.
        * right. right. left. eapply mode_only_trans; eassumption.
      + apply cp_eqb_false in Eq. rewrite (C q Eq). apply J.
    - exact O.
    - intros q Hq Hne. specialize (F q Hq Hne). destruct (cp_eqb q c) eqn:Eq.
      + apply cp_eqb_eq in Eq. subst q. destruct (lookup (s_fs s) c) as [[| |]|], (lookup f' c) as [[| |]|]; simpl in *; tauto.
      + apply cp_eqb_false in Eq. rewrite (C q Eq). exact F.
    - exact Nn.
  Qed.

  (* a leaf is unlinked and will be re-created at once: the invariant holds with a hole at c *)
  Lemma I1_open s f1 c :
    I1 None s -> chg_at (s_fs s) f1 c -> leaf (lookup (s_fs s) c) -> lookup f1 c = None -> I1 (Some c) (with_fs s f1).
  Proof.
    intros [W E D K J O F Nn] C Lf N1.
    assert (forall q, dir_at (s_fs s) q -> dir_at f1 q) as Dd.
    { intros q Hq. destruct (cp_eqb q c) eqn:Eq.
      - apply cp_eqb_eq in Eq. subst q. destruct Hq as [Hq|[m Hm]]; [left; exact Hq|]. rewrite Hm in Lf. destruct Lf.
      - apply cp_eqb_false in Eq. eapply dir_at_chg; eauto. }
    constructor; simpl.
    - eapply wf_leaf; eauto. rewrite N1. exact I.
    - intros d Hd. destruct (E d Hd) as [A [B Dr]]. auto.
    - intros q m H. destruct (D q m H) as [m' Hm']. exists m'. rewrite C; [exact Hm'|].
      intros ->. rewrite Hm' in Lf. destruct Lf.
    - exact K.
    - intros q. destruct (cp_eqb q c) eqn:Eq.
      + apply cp_eqb_eq in Eq. subst q. left. exact N1.
      + apply cp_eqb_false in Eq. rewrite (C q Eq). apply J.
    - exact O.
    - intros q Hq Hne. rewrite C; [apply F; [exact Hq | discriminate]|]. intros ->. apply Hne. reflexivity.
    - exact Nn.
  Qed.

  Lemma dir_at_mk_only t f f' q : mk_only t f f' -> dir_at f q -> dir_at f' q.
  Proof.
    intros M [->|[m H]]; [left; reflexivity|]. right. destruct (M q) as [E|[N _]]; [exists m; congruence | congruence].
  Qed.
  Lemma dir_at_prefix f q q' : wf_fs f -> dir_at f q -> is_prefix q' q -> dir_at f q'.
  Proof.
    intros W D [r E]. destruct r as [|x r]; [rewrite app_nil_r in E; subst; exact D|].
    apply (wf_prefix_dir f W (x :: r)); [|discriminate]. rewrite <- E.
    destruct D as [->|[m H]]; [destruct q'; discriminate | rewrite H; discriminate].
  Qed.

  (* DirMaker.makedirs in a real run *)
  Lemma I1_dm_makedirs h c p eo s s' :
    c_dry c = false -> nd p = true -> isabs p = true -> I1 h s -> dm_makedirs c p eo s = (s', Ok tt) -> I1 h s'.
  Proof.
    intros Dry Hd Ha [W E D K J O F Nn] H. unfold dm_makedirs in H. rewrite Dry in H.
    pose proof (nd_nodd _ Hd) as Hn.
    set (dn := normpath p) in *.
    assert (nd dn = true) as Hdn by (apply nd_normpath; assumption).
    assert (isabs dn = true) as Han by (apply isabs_normpath; assumption).
    assert (cleanp dn = cleanp p) as Ecl by (apply cleanp_normpath; exact Hn).
    destruct (dm_scan (S (length dn)) (s_fs s) (s_dirs s) dn []) as [R|e] eqn:Sc; [|inversion H].
    destruct (os_makedirs (S (length p)) (c_procmask c) (s_fs s) p eo) as [f' [[]|e]] eqn:Mk; inversion H; subst s'; clear H.
    pose proof (os_makedirs_mk_only _ _ _ _ _ _ _ Hn Mk) as MK.
    pose proof (os_makedirs_wf _ _ _ _ _ _ _ Hn W Mk) as WF.
    pose proof (os_makedirs_ok _ _ _ _ _ _ Hd Mk) as DP.
    destruct (dm_scan_props (s_fs s) (s_dirs s) (S (length dn)) dn dn [] R Hdn Han (is_prefix_refl _)) as [SP CH];
      [intros b [] | intros l1 a l2 E0; destruct l1; discriminate | exact Sc |].
    assert (forall d, In d (s_dirs s) -> cleanp d <> [] /\ dir_at (s_fs s) (cleanp d)) as Hrec.
    { intros d Hd0. destruct (E d Hd0) as [_ [_ X]]. destruct (K d Hd0) as [_ Y]. auto. }
    pose proof (dm_scan_complete (s_fs s) (s_dirs s) (S (length dn)) dn [] R W Hrec Hdn Sc) as SC.
    assert (forall b, In b R -> q_exists (s_fs s) b = Ok true -> False) as NotEx.
    { intros b Hb Q. destruct (SP b Hb) as [_ [_ [Q' _]]]. congruence. }
    constructor; simpl.
    - exact WF.
    - intros d Hd0. apply in_app_or in Hd0 as [Hd0|Hd0].
      + destruct (E d Hd0) as [A [B Dr]]. repeat split; auto. eapply dir_at_mk_only; eauto.
      + destruct (SP d Hd0) as [N1 [N2 [_ [_ Pp]]]]. repeat split; [exact N1 | exact N2|].
        rewrite Ecl in Pp. eapply dir_at_prefix; eauto.
    - intros q m Hq. destruct (D q m Hq) as [m' Hm']. exists m'. destruct (MK q) as [Eq|[N _]]; congruence.
    - intros d Hd0. apply in_app_or in Hd0 as [Hd0|Hd0]; [apply K; exact Hd0|].
      destruct (SP d Hd0) as [N1 [N2 [_ [Nc _]]]]. split; [|exact Nc].
      destruct (lookup f0 (cleanp d)) as [[| |]|] eqn:L0; simpl; auto.
      destruct (D _ _ L0) as [m' Hm']. apply (NotEx d Hd0).
      apply q_exists_dir; [exact W | apply nd_nodd; exact N1 | exact N2 | right; eauto].
    - intros q. rewrite map_app. destruct (MK q) as [Eq|[N [Dq [Pq Nq]]]].
      + rewrite Eq. destruct (J q) as [X|[X|[X|[X|X]]]]; auto. right. right. right. right. apply in_or_app. left. exact X.
      + right. right. right. right. apply in_or_app. right. apply SC; [exact Nq | rewrite Ecl; exact Pq | exact N].
    - apply ord_app; [exact O | apply chain_ord; exact CH|].
      intros a b Ha0 Hb [P N]. apply (NotEx b Hb). destruct (SP b Hb) as [N1 [N2 _]].
      apply q_exists_dir; [exact W | apply nd_nodd; exact N1 | exact N2|].
      destruct (E a Ha0) as [_ [_ Da]]. eapply dir_at_prefix; eauto.
    - intros q Hq Hne. specialize (F q Hq Hne). destruct (MK q) as [Eq|[N _]]; [rewrite Eq; exact F | rewrite N in F; destruct F].
    - exact Nn.
  Qed.
End Inv.
