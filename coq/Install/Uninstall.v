(* Install/Uninstall.v — uninstall removes exactly what the log names. *)
From MV Require Import Base.Strs Base.LexFacts Install.Tree Install.TreeFacts Install.Model Install.Spec Install.Proofs
  Install.Contain Install.Log Install.Invariant Install.InvSteps Install.InvRun Install.LogThm.
From Coq Require Import Lia.
Open Scope N_scope.

(* ------------------------------------------------------------------ resolving a path whose location exists *)
Definition ends_named (l : path) : Prop := l = [] \/ is_empty_s (last l []) = false.

Lemma strip_ends_named h : ends_named (strip_trailing_empty h).
Proof.
  induction h as [|c r IH]; [left; reflexivity|].
  change (strip_trailing_empty (c :: r)) with
    (match strip_trailing_empty r with [] => if is_empty_s c then [] else [c] | x :: r' => c :: x :: r' end).
  destruct (strip_trailing_empty r) as [|x r'].
  - destruct (is_empty_s c) eqn:E; [left; reflexivity | right; exact E].
  - right. destruct IH as [IH|IH]; [discriminate | exact IH].
Qed.

Lemma nd_trivial_empty x : negb (is_dot x) && negb (is_dotdot x) = true -> trivial_comp x = is_empty_s x.
Proof.
  intros H. apply andb_true_iff in H as [H _]. apply negb_true_iff in H. unfold trivial_comp. rewrite H. apply orb_false_r.
Qed.

Lemma ends_named_cleanp r : nd r = true -> r <> [] -> ends_named r -> cleanp r <> [].
Proof.
  intros Hd Nr [E|E]; [contradiction|]. rewrite (removelast_last r Nr), cleanp_app. intros H.
  apply app_eq_nil in H as [_ H]. unfold cleanp in H. simpl in H.
  assert (trivial_comp (last r []) = false) as T.
  { rewrite nd_trivial_empty; [exact E|]. unfold nd in Hd. rewrite forallb_forall in Hd. apply Hd.
    rewrite (removelast_last r Nr) at 2. apply in_or_app. right. left. reflexivity. }
  rewrite T in H. discriminate.
Qed.

Lemma walk_exists f : wf_fs f -> forall rest cur,
  nd rest = true -> ends_named rest -> dir_at f cur -> lookup f (cur ++ cleanp rest) <> None ->
  walk f cur rest = Ok (cur ++ cleanp rest).
Proof.
  intros W. induction rest as [|x r IH]; intros cur Hd En Dc Ex.
  - simpl. unfold cleanp. simpl. rewrite app_nil_r. reflexivity.
  - simpl. rewrite (dir_at_dir_ok _ _ Dc). unfold nd in Hd. simpl in Hd. apply andb_true_iff in Hd as [H1 H2].
    rewrite (nd_trivial_empty _ H1). unfold cleanp in *. simpl in *. rewrite (nd_trivial_empty _ H1) in *.
    destruct (is_empty_s x) eqn:Ex0; simpl in *.
    + apply IH; auto. destruct En as [En|En]; [discriminate|]. destruct r as [|y r]; [simpl in En; congruence|]. right. exact En.
    + apply andb_true_iff in H1 as [_ H1]. apply negb_true_iff in H1. rewrite H1.
      destruct r as [|y r]; [reflexivity|].
      change (x :: filter (fun c => negb (trivial_comp c)) (y :: r)) with ([x] ++ cleanp (y :: r)) in *. rewrite app_assoc in *.
      assert (ends_named (y :: r)) as En' by (destruct En as [En|En]; [discriminate | right; exact En]).
      apply IH; auto.
      apply (wf_prefix_dir f W (cleanp (y :: r))); [exact Ex|]. apply ends_named_cleanp; [exact H2 | discriminate | exact En'].
Qed.

Lemma resolve_exists f p : wf_fs f -> nd p = true -> isabs p = true -> lookup f (cleanp p) <> None -> resolve f p = Ok (cleanp p).
Proof.
  intros W Hd A Ex. unfold resolve. rewrite A.
  rewrite (walk_exists f W (strip_trailing_empty (tl p)) []).
  - simpl. rewrite cleanp_strip_trailing, (isabs_tl _ A). reflexivity.
  - apply nd_strip_trailing, nd_tl, Hd.
  - apply strip_ends_named.
  - left. reflexivity.
  - simpl. rewrite cleanp_strip_trailing, (isabs_tl _ A). exact Ex.
Qed.

(* ------------------------------------------------------------------ one line of the log *)
Lemma isabs_not_comment p : isabs p = true -> is_comment (LPath p) = false.
Proof. intros A. destruct (isabs_cons_empty _ A) as [x [r ->]]. reflexivity. Qed.

Definition dir_or_none (o : option node) : Prop := match o with Some (NDir _) => True | None => True | _ => False end.

(* the line names a location that is gone afterwards, and nothing else changes *)
Lemma uninstall_line_removes f p f1 :
  wf_fs f -> nd p = true -> isabs p = true -> cleanp p <> [] ->
  (not_dir (lookup f (cleanp p)) \/ (dir_or_none (lookup f (cleanp p)) /\ forall x, lookup f (cleanp p ++ [x]) = None)) ->
  uninstall_line f (LPath p) = Ok f1 ->
  wf_fs f1 /\ lookup f1 (cleanp p) = None /\ chg_at f f1 (cleanp p).
Proof.
  intros W Hd A Nc Hk H. pose proof (nd_nodd _ Hd) as Hn. unfold uninstall_line in H. rewrite (isabs_not_comment _ A) in H.
  destruct (lookup f (cleanp p)) as [n|] eqn:L.
  - assert (resolve f p = Ok (cleanp p)) as R by (apply resolve_exists; auto; rewrite L; discriminate).
    assert (lnode f p = Ok (Some n)) as Ln.
    { unfold lnode. rewrite R. destruct (cleanp p); [contradiction | exact (f_equal Ok L)]. }
    rewrite Ln in H. destruct n as [m t d|m|t].
    + unfold m_unlink, resolve_x in H. rewrite R in H. destruct (cleanp p) as [|x c] eqn:Ec; [contradiction|].
      rewrite L in H. inversion H; subst. repeat split; [|apply lookup_del_eq | apply chg_del].
      eapply wf_leaf; [exact W | apply chg_del | rewrite L; exact I | rewrite lookup_del_eq; exact I].
    + destruct Hk as [Hk|[_ Hk]]; [simpl in Hk; contradiction|].
      unfold m_rmdir, resolve_x in H. rewrite R in H. destruct (cleanp p) as [|x c] eqn:Ec; [contradiction|].
      rewrite L in H.
      assert (has_child f (x :: c) = false) as Hc.
      { destruct (has_child f (x :: c)) eqn:E; [|reflexivity]. apply has_child_true in E as [y E]. exfalso. apply E. apply Hk. }
      rewrite Hc in H. inversion H; subst. repeat split; [|apply lookup_del_eq | apply chg_del].
      eapply wf_rmdir; [exact W | apply chg_del | apply lookup_del_eq | exact Hc].
    + unfold m_unlink, resolve_x in H. rewrite R in H. destruct (cleanp p) as [|x c] eqn:Ec; [contradiction|].
      rewrite L in H. inversion H; subst. repeat split; [|apply lookup_del_eq | apply chg_del].
      eapply wf_leaf; [exact W | apply chg_del | rewrite L; exact I | rewrite lookup_del_eq; exact I].
  - (* nothing there: the unlink fails and is ignored *)
    assert (lnode f p = Ok None \/ exists e, lnode f p = Err e) as [Ln|[e Ln]].
    { unfold lnode. destruct (resolve f p) as [c|e] eqn:R.
      - apply resolve_nodd in R; [subst c | exact Hn]. destruct (cleanp p); [contradiction|]. left. rewrite L. reflexivity.
      - destruct e; eauto. }
    + rewrite Ln in H. destruct (m_unlink f p) as [f2|e] eqn:Un.
      * exfalso. apply m_unlink_spec in Un as [c [R [Ne _]]]. apply resolve_nodd in R; [subst c | exact Hn]. contradiction.
      * assert (f1 = f) as -> by (destruct e; inversion H; reflexivity).
        split; [exact W | split; [exact L | intros q _; reflexivity]].
    + rewrite Ln in H. discriminate.
Qed.

Lemma do_uninstall_app f L1 L2 f2 :
  do_uninstall f (L1 ++ L2) = (f2, Ok tt) -> exists f1, do_uninstall f L1 = (f1, Ok tt) /\ do_uninstall f1 L2 = (f2, Ok tt).
Proof.
  revert f. induction L1 as [|l L1 IH]; intros f H; simpl in *; [eauto|].
  destruct (uninstall_line f l) as [f'|e]; [apply IH; exact H | discriminate].
Qed.

(* ------------------------------------------------------------------ the file lines *)
Lemma phase_files : forall L f f2,
  wf_fs f ->
  (forall p, In (LPath p) L -> nd p = true /\ isabs p = true /\ cleanp p <> [] /\ not_dir (lookup f (cleanp p))) ->
  do_uninstall f L = (f2, Ok tt) ->
  wf_fs f2 /\ (forall q, In q (logged L) -> lookup f2 q = None) /\
  (forall q, lookup f2 q = lookup f q \/ (In q (logged L) /\ lookup f2 q = None)).
Proof.
  induction L as [|l L IH]; intros f f2 W HL H; simpl in H.
  - inversion H; subst. repeat split; auto. intros q [].
  - destruct (uninstall_line f l) as [f1|e] eqn:U; [|discriminate].
    destruct l as [| p0 | p].
    + simpl in U. inversion U; subst. apply IH; auto. intros p Hp. apply HL. right. exact Hp.
    + simpl in U. inversion U; subst. apply IH; auto. intros p Hp. apply HL. right. exact Hp.
    + destruct (HL p (or_introl eq_refl)) as [Hd [A [Nc Nd]]].
      destruct (uninstall_line_removes f p f1 W Hd A Nc (or_introl Nd) U) as [W1 [N1 C1]].
      destruct (IH f1 f2 W1) as [W2 [Rm Fr]]; [|exact H|].
      * intros p' Hp'. destruct (HL p' (or_intror Hp')) as [Hd' [A' [Nc' Nd']]]. repeat split; auto.
        destruct (cp_eqb (cleanp p') (cleanp p)) eqn:E.
        -- apply cp_eqb_eq in E. rewrite E, N1. exact I.
        -- apply cp_eqb_false in E. rewrite (C1 _ E). exact Nd'.
      * change (logged (LPath p :: L)) with (cleanp p :: logged L). repeat split; [exact W2 | |].
        -- intros q [<-|Hq]; [|apply Rm; exact Hq]. destruct (Fr (cleanp p)) as [E|[_ E]]; [rewrite E; exact N1 | exact E].
        -- intros q. destruct (Fr q) as [E|[Hq E]]; [|right; split; [right; exact Hq | exact E]].
           destruct (cp_eqb q (cleanp p)) eqn:Eq.
           ++ apply cp_eqb_eq in Eq. subst q. right. split; [left; reflexivity | rewrite E; exact N1].
           ++ apply cp_eqb_false in Eq. left. rewrite E. apply C1. exact Eq.
Qed.

(* ------------------------------------------------------------------ the directory lines *)
Lemma phase_dirs : forall Ds f f2,
  wf_fs f ->
  (forall d, In d Ds -> nd d = true /\ isabs d = true /\ cleanp d <> [] /\ dir_or_none (lookup f (cleanp d))) ->
  (forall l1 d l2, Ds = l1 ++ d :: l2 -> forall x, lookup f (cleanp d ++ [x]) <> None ->
                   exists d', In d' l1 /\ cleanp d' = cleanp d ++ [x]) ->
  do_uninstall f (map LPath Ds) = (f2, Ok tt) ->
  (forall d, In d Ds -> lookup f2 (cleanp d) = None) /\
  (forall q, lookup f2 q = lookup f q \/ (In q (map cleanp Ds) /\ lookup f2 q = None)).
Proof.
  induction Ds as [|d Ds IH]; intros f f2 W HD HC H.
  - simpl in H. inversion H; subst. split; [intros d [] | auto].
  - change (match uninstall_line f (LPath d) with Ok f' => do_uninstall f' (map LPath Ds) | Err e => (f, Err e) end = (f2, Ok tt)) in H.
    destruct (uninstall_line f (LPath d)) as [f1|e] eqn:U; [|discriminate].
    destruct (HD d (or_introl eq_refl)) as [Hd [A [Nc Dn]]].
    assert (forall x, lookup f (cleanp d ++ [x]) = None) as NoCh.
    { intros x. destruct (lookup f (cleanp d ++ [x])) eqn:E; [|reflexivity].
      destruct (HC [] d Ds eq_refl x) as [d' [[] _]]. rewrite E. discriminate. }
    destruct (uninstall_line_removes f d f1 W Hd A Nc (or_intror (conj Dn NoCh)) U) as [W1 [N1 C1]].
    destruct (IH f1 f2 W1) as [Rm Fr]; [| |exact H|].
    + intros d' Hd'. destruct (HD d' (or_intror Hd')) as [Hd2 [A2 [Nc2 Dn2]]]. repeat split; auto.
      destruct (cp_eqb (cleanp d') (cleanp d)) eqn:E.
      * apply cp_eqb_eq in E. rewrite E, N1. exact I.
      * apply cp_eqb_false in E. rewrite (C1 _ E). exact Dn2.
    + intros l1 d' l2 E x Hx.
      assert (lookup f (cleanp d' ++ [x]) <> None) as Hx'.
      { destruct (cp_eqb (cleanp d' ++ [x]) (cleanp d)) eqn:Eq.
        - apply cp_eqb_eq in Eq. rewrite Eq, N1 in Hx. contradiction.
        - apply cp_eqb_false in Eq. rewrite <- (C1 _ Eq). exact Hx. }
      destruct (HC (d :: l1) d' l2 (f_equal (cons d) E) x Hx') as [d'' [[<-|Hin] Ec]]; [|eauto].
      exfalso. rewrite <- Ec, N1 in Hx. contradiction.
    + split.
      * intros d' [<-|Hd']; [|apply Rm; exact Hd']. destruct (Fr (cleanp d)) as [E|[_ E]]; [rewrite E; exact N1 | exact E].
      * intros q. simpl. destruct (Fr q) as [E|[Hq E]]; [|right; split; [right; exact Hq | exact E]].
        destruct (cp_eqb q (cleanp d)) eqn:Eq.
        -- apply cp_eqb_eq in Eq. subst q. right. split; [left; reflexivity | rewrite E; exact N1].
        -- apply cp_eqb_false in Eq. left. rewrite E. apply C1. exact Eq.
Qed.

(* ------------------------------------------------------------------ the order of the recorded directories *)
Lemma ord_app_inv l1 l2 : ord (l1 ++ l2) -> forall a b, In a l1 -> In b l2 -> ~ proper_prefix (cleanp b) (cleanp a).
Proof.
  induction l1 as [|x l1 IH]; simpl; intros O a b Ha Hb; [contradiction|]. destruct O as [H O].
  destruct Ha as [<-|Ha]; [apply H; apply in_or_app; right; exact Hb | apply (IH O a b Ha Hb)].
Qed.

(* ------------------------------------------------------------------ the theorem *)
(* After a successful real installation, running the uninstall script to completion removes
   every location that the log names and leaves every other location as the installation left it. *)
Theorem uninstall_removes_log_partial : forall o pl f f' lg f'',
  wf_plan_strict o pl = true -> o_dry o = false -> wf_fs f ->
  do_install o pl f = (f', lg, Ok tt) ->
  do_uninstall f' lg = (f'', Ok tt) ->
  (forall q, In q (logged lg) -> lookup f'' q = None) /\
  (forall q, ~ In q (logged lg) -> lookup f'' q = lookup f' q).
Proof.
  intros o pl f f' lg f'' Hwf Dry W0 H HU.
  destruct (do_install_inv o pl Hwf f Dry f' lg W0 H) as [s [[W E D K J O F Nn] [Ef ->]]]. subst f'.
  unfold final_log in HU. apply do_uninstall_app in HU as [f1 [U1 U2]].
  destruct (phase_files (s_log s) (s_fs s) f1 W) as [W1 [Rm1 Fr1]]; [|exact U1|].
  { intros p Hp. destruct (Nn p Hp) as [A [B C]]. repeat split; auto.
    assert (In (cleanp p) (logged (s_log s))) as Hl.
    { unfold logged. apply in_flat_map. exists (LPath p). split; [exact Hp | left; reflexivity]. }
    assert (Some (cleanp p) <> None) as Hne by discriminate. specialize (F _ Hl Hne). destruct (lookup (s_fs s) (cleanp p)) as [[| |]|]; simpl in *; auto. }
  destruct (phase_dirs (rev (s_dirs s)) f1 f'' W1) as [Rm2 Fr2]; [| |exact U2|].
  { intros d Hd. apply in_rev in Hd. destruct (E d Hd) as [A [B Dr]]. destruct (K d Hd) as [_ Nc]. repeat split; auto.
    destruct (Fr1 (cleanp d)) as [Eq|[_ Eq]]; rewrite Eq; [|exact I].
    destruct Dr as [Dr|[m Dr]]; [contradiction | rewrite Dr; exact I]. }
  { intros l1 d l2 Er x Hx. set (q := cleanp d ++ [x]) in *.
    assert (In d (s_dirs s)) as Hd by (apply in_rev; rewrite Er; apply in_or_app; right; left; reflexivity).
    assert (lookup (s_fs s) q <> None) as Hq.
    { destruct (Fr1 q) as [Eq|[_ Eq]]; [rewrite <- Eq; exact Hx | rewrite Eq in Hx; contradiction]. }
    destruct (K d Hd) as [Kd Nc].
    assert (lookup f q = None) as L0 by (apply wf_under_none; [exact W0 | exact Kd | exact Nc | discriminate]).
    destruct (J q) as [X|[X|[X|[X|X]]]].
    - contradiction.
    - rewrite L0 in X. contradiction.
    - rewrite L0 in X. simpl in X. contradiction.
    - exfalso. apply Hx. apply Rm1. exact X.
    - apply in_map_iff in X as [dj [Ej Hj]].
      assert (s_dirs s = rev l2 ++ d :: rev l1) as Es.
      { rewrite <- (rev_involutive (s_dirs s)), Er, rev_app_distr. simpl. rewrite <- app_assoc. reflexivity. }
      rewrite Es in Hj. apply in_app_or in Hj as [Hj|[<-|Hj]].
      + exfalso. rewrite Es in O. apply (ord_app_inv _ _ O dj d Hj (or_introl eq_refl)).
        split; [rewrite Ej; apply is_prefix_app | rewrite Ej; apply snoc_neq].
      + exfalso. exact (snoc_neq (cleanp d) x Ej).
      + exists dj. split; [apply in_rev; exact Hj | exact Ej]. }
  rewrite logged_final. split.
  - intros q Hq. apply in_app_or in Hq as [Hq|Hq].
    + destruct (Fr2 q) as [Eq|[_ Eq]]; [rewrite Eq; apply Rm1; exact Hq | exact Eq].
    + apply in_map_iff in Hq as [d [<- Hd]]. apply Rm2. exact Hd.
  - intros q Hq. destruct (Fr2 q) as [Eq|[Hq2 _]]; [|exfalso; apply Hq; apply in_or_app; right; exact Hq2].
    rewrite Eq. destruct (Fr1 q) as [Eq1|[Hq1 _]]; [exact Eq1 | exfalso; apply Hq; apply in_or_app; left; exact Hq1].
Qed.

(* uninstall after install: what did not exist before does not exist afterwards, and what remains
   is what was there before (up to permission bits) *)
Theorem uninstall_inverse_partial : forall o pl f f' lg f'',
  wf_plan_strict o pl = true -> o_dry o = false -> wf_fs f ->
  do_install o pl f = (f', lg, Ok tt) ->
  do_uninstall f' lg = (f'', Ok tt) ->
  forall q, lookup f'' q = None \/ lookup f'' q = lookup f q \/ mode_only (lookup f q) (lookup f'' q).
Proof.
  intros o pl f f' lg f'' Hwf Dry W0 H HU q.
  destruct (uninstall_removes_log_partial o pl f f' lg f'' Hwf Dry W0 H HU) as [Rm Fr].
  destruct (log_complete_partial o pl f f' lg Hwf Dry W0 H q) as [X|[X|[X|X]]].
  - destruct (in_dec (list_eq_dec (list_eq_dec N.eq_dec)) q (logged lg)) as [Hi|Hn]; [left; apply Rm; exact Hi|].
    left. rewrite (Fr q Hn). exact X.
  - destruct (in_dec (list_eq_dec (list_eq_dec N.eq_dec)) q (logged lg)) as [Hi|Hn]; [left; apply Rm; exact Hi|].
    right. left. rewrite (Fr q Hn). exact X.
  - destruct (in_dec (list_eq_dec (list_eq_dec N.eq_dec)) q (logged lg)) as [Hi|Hn]; [left; apply Rm; exact Hi|].
    right. right. rewrite (Fr q Hn). exact X.
  - left. apply Rm. exact X.
Qed.

(* ------------------------------------------------------------------ the uninstall script always runs to completion *)
Definition prefixes_ok (f : fs) (q : cpath) : Prop :=
  forall q' r, q = q' ++ r -> r <> [] -> q' <> [] -> dir_or_none (lookup f q').

Lemma walk_no_oom f : forall rest cur,
  nd rest = true -> ends_named rest -> prefixes_ok f (cur ++ cleanp rest) -> walk f cur rest <> Err EOOM.
Proof.
  induction rest as [|x r IH]; intros cur Hd En Pk; [simpl; discriminate|].
  assert (cleanp (x :: r) <> []) as Nc by (apply ends_named_cleanp; [exact Hd | discriminate | exact En]).
  pose proof (Pk cur (cleanp (x :: r)) eq_refl Nc) as Dk.
  simpl. unfold nd in Hd. simpl in Hd. apply andb_true_iff in Hd as [H1 H2].
  assert (dir_ok f cur = Ok tt \/ dir_ok f cur = Err ENoEnt) as [D|D].
  { unfold dir_ok. destruct cur as [|y cur]; [left; reflexivity|].
    assert (y :: cur <> []) as Ny by discriminate. specialize (Dk Ny).
    destruct (lookup f (y :: cur)) as [[| |]|]; simpl in Dk; try contradiction; auto. }
  2:{ rewrite D. discriminate. }
  rewrite D, (nd_trivial_empty _ H1). unfold cleanp in Pk. simpl in Pk. rewrite (nd_trivial_empty _ H1) in Pk.
  destruct (is_empty_s x) eqn:Ex; simpl in Pk.
  - apply IH; auto. destruct En as [En|En]; [discriminate|]. destruct r as [|y r]; [simpl in En; congruence|]. right. exact En.
  - apply andb_true_iff in H1 as [_ H1]. apply negb_true_iff in H1. rewrite H1.
    destruct r as [|y r]; [simpl; discriminate|].
    apply IH; [exact H2 | destruct En as [En|En]; [discriminate | right; exact En]|].
    change (x :: filter (fun c => negb (trivial_comp c)) (y :: r)) with ([x] ++ cleanp (y :: r)) in Pk. rewrite app_assoc in Pk. exact Pk.
Qed.

Lemma resolve_no_oom f p : nd p = true -> isabs p = true -> prefixes_ok f (cleanp p) -> resolve f p <> Err EOOM.
Proof.
  intros Hd A Pk. unfold resolve. rewrite A. apply walk_no_oom.
  - apply nd_strip_trailing, nd_tl, Hd.
  - apply strip_ends_named.
  - simpl. rewrite cleanp_strip_trailing, (isabs_tl _ A). exact Pk.
Qed.

(* one line: never an error, the tree stays a tree, and things are only ever removed *)
Lemma uninstall_line_total f p :
  wf_fs f -> nd p = true -> isabs p = true -> cleanp p <> [] -> prefixes_ok f (cleanp p) ->
  exists f1, uninstall_line f (LPath p) = Ok f1 /\ wf_fs f1 /\ (forall q, lookup f1 q = lookup f q \/ lookup f1 q = None).
Proof.
  intros W Hd A Nc Pk. pose proof (nd_nodd _ Hd) as Hn. unfold uninstall_line. rewrite (isabs_not_comment _ A).
  assert (forall f1, chg_at f f1 (cleanp p) -> lookup f1 (cleanp p) = None -> forall q, lookup f1 q = lookup f q \/ lookup f1 q = None) as Sub.
  { intros f1 C N q. destruct (cp_eqb q (cleanp p)) eqn:E; [apply cp_eqb_eq in E; subst q; right; exact N|].
    apply cp_eqb_false in E. left. apply C. exact E. }
  destruct (lookup f (cleanp p)) as [n|] eqn:L.
  - assert (resolve f p = Ok (cleanp p)) as R by (apply resolve_exists; auto; rewrite L; discriminate).
    assert (lnode f p = Ok (Some n)) as Ln.
    { unfold lnode. rewrite R. destruct (cleanp p); [contradiction | exact (f_equal Ok L)]. }
    rewrite Ln. destruct (cleanp p) as [|x c] eqn:Ec; [contradiction|]. destruct n as [m t d|m|t].
    + unfold m_unlink, resolve_x. rewrite R, L. eexists. split; [reflexivity|]. split.
      * eapply wf_leaf; [exact W | apply chg_del | rewrite L; exact I | rewrite lookup_del_eq; exact I].
      * apply Sub; [apply chg_del | apply lookup_del_eq].
    + unfold m_rmdir, resolve_x. rewrite R, L. destruct (has_child f (x :: c)) eqn:Hc.
      * exists f. split; [reflexivity|]. split; [exact W | auto].
      * eexists. split; [reflexivity|]. split.
        -- eapply wf_rmdir; [exact W | apply chg_del | apply lookup_del_eq | exact Hc].
        -- apply Sub; [apply chg_del | apply lookup_del_eq].
    + unfold m_unlink, resolve_x. rewrite R, L. eexists. split; [reflexivity|]. split.
      * eapply wf_leaf; [exact W | apply chg_del | rewrite L; exact I | rewrite lookup_del_eq; exact I].
      * apply Sub; [apply chg_del | apply lookup_del_eq].
  - pose proof (resolve_no_oom f p Hd A Pk) as No.
    assert (lnode f p = Ok None) as Ln.
    { unfold lnode. destruct (resolve f p) as [c|e] eqn:R.
      - apply resolve_nodd in R; [subst c | exact Hn]. destruct (cleanp p); [contradiction|]. rewrite L. reflexivity.
      - destruct (resolve_err _ _ _ R) as [X|[X|X]]; subst e; [reflexivity | reflexivity | contradiction]. }
    rewrite Ln. exists f. split; [|split; [exact W | auto]].
    unfold m_unlink, resolve_x. destruct (resolve f p) as [c|e] eqn:R.
    + apply resolve_nodd in R; [subst c | exact Hn]. destruct (cleanp p); [contradiction|]. rewrite L. reflexivity.
    + destruct (resolve_err _ _ _ R) as [X|[X|X]]; subst e; [reflexivity | reflexivity | contradiction].
Qed.

Lemma prefixes_ok_sub f f1 q : (forall x, lookup f1 x = lookup f x \/ lookup f1 x = None) -> prefixes_ok f q -> prefixes_ok f1 q.
Proof.
  intros S Pk q' r E Nr Nq. specialize (Pk q' r E Nr Nq). destruct (S q') as [X|X]; rewrite X; [exact Pk | exact I].
Qed.

Lemma do_uninstall_total : forall L f,
  wf_fs f ->
  (forall p, In (LPath p) L -> nd p = true /\ isabs p = true /\ cleanp p <> [] /\ prefixes_ok f (cleanp p)) ->
  exists f2, do_uninstall f L = (f2, Ok tt).
Proof.
  induction L as [|l L IH]; intros f W HL; [exists f; reflexivity|].
  destruct l as [| p0 | p].
  - simpl. apply IH; [exact W|]. intros p Hp. apply HL. right. exact Hp.
  - simpl. apply IH; [exact W|]. intros p Hp. apply HL. right. exact Hp.
  - destruct (HL p (or_introl eq_refl)) as [Hd [A [Nc Pk]]].
    destruct (uninstall_line_total f p W Hd A Nc Pk) as [f1 [U [W1 S]]].
    change (do_uninstall f (LPath p :: L)) with
      (match uninstall_line f (LPath p) with Ok f' => do_uninstall f' L | Err e => (f, Err e) end). rewrite U.
    apply IH; [exact W1|]. intros p' Hp'. destruct (HL p' (or_intror Hp')) as [Hd' [A' [Nc' Pk']]].
    repeat split; auto. eapply prefixes_ok_sub; eauto.
Qed.

(* after a successful installation the uninstall script runs to completion *)
Theorem uninstall_completes_partial : forall o pl f f' lg,
  wf_plan_strict o pl = true -> o_dry o = false -> wf_fs f ->
  do_install o pl f = (f', lg, Ok tt) ->
  exists f'', do_uninstall f' lg = (f'', Ok tt).
Proof.
  intros o pl f f' lg Hwf Dry W0 H.
  destruct (do_install_inv o pl Hwf f Dry f' lg W0 H) as [s [[W E D K J O F Nn] [Ef ->]]]. subst f'.
  apply do_uninstall_total; [exact W|]. intros p Hp.
  assert (forall q, q <> [] -> lookup (s_fs s) q <> None -> prefixes_ok (s_fs s) q) as Pk.
  { intros q Nq Ex q' r Eq Nr Nq'. subst q. destruct (wf_prefix_dir _ W r q' Ex Nr) as [X|[m Hm]]; [contradiction | rewrite Hm; exact I]. }
  unfold final_log in Hp. apply in_app_or in Hp as [Hp|Hp].
  - destruct (Nn p Hp) as [A [B C]]. repeat split; auto. apply Pk; [exact C|].
    assert (In (cleanp p) (logged (s_log s))) as Hl.
    { unfold logged. apply in_flat_map. exists (LPath p). split; [exact Hp | left; reflexivity]. }
    assert (Some (cleanp p) <> None) as Hne by discriminate. specialize (F _ Hl Hne). destruct (lookup (s_fs s) (cleanp p)); [discriminate | contradiction].
  - apply in_map_iff in Hp as [d [Ed Hd]]. inversion Ed; subst d. apply in_rev in Hd.
    destruct (E p Hd) as [A [B Dr]]. destruct (K p Hd) as [_ C]. repeat split; auto. apply Pk; [exact C|].
    destruct Dr as [Dr|[m Dr]]; [contradiction | rewrite Dr; discriminate].
Qed.

(* the guards are satisfiable by a non-trivial plan and filesystem *)
Example strict_guard_example :
  wf_plan_strict (mkOpts false false None [] [[]; s2l "d"] 18)
          (mkPlan [[]; s2l "usr"] (Some 18) [[]; s2l "b"] [] []
                  [mkFitem KHeader (SReg 420 1 (s2l "dg")) (s2l "h.h") [s2l "include"; s2l "p q"] None [] None false] []
                  [mkEitem [s2l "var"; s2l "e "] (Some 448) [] None]
                  [mkFitem KData (SReg 493 1 (s2l "dg")) (s2l "a") [[]; s2l "etc"; s2l "a"] (Some 420) [] (Some (s2l "doc")) false]
                  [mkLitem (s2l "a") [s2l "share"; s2l "l"] [s2l "share"] [] None]) = true
  /\ wf_fs [([s2l "d"], NDir 493)].
Proof.
  split; [vm_compute; reflexivity|]. intros q x H.
  destruct (lookup [([s2l "d"], NDir 493)] (q ++ [x])) eqn:L; [|contradiction].
  unfold lookup in L. destruct (cp_eqb [s2l "d"] (q ++ [x])) eqn:E; [|discriminate].
  apply cp_eqb_eq in E. destruct q as [|y [|z q]]; [left; reflexivity | discriminate | discriminate].
Qed.

(* everything in one statement, without assuming that the script runs to completion *)
Theorem uninstall_total_partial : forall o pl f f' lg,
  wf_plan_strict o pl = true -> o_dry o = false -> wf_fs f ->
  do_install o pl f = (f', lg, Ok tt) ->
  exists f'', do_uninstall f' lg = (f'', Ok tt) /\
    (forall q, In q (logged lg) -> lookup f'' q = None) /\
    (forall q, ~ In q (logged lg) -> lookup f'' q = lookup f' q) /\
    (forall q, lookup f'' q = None \/ lookup f'' q = lookup f q \/ mode_only (lookup f q) (lookup f'' q)).
Proof.
  intros o pl f f' lg Hwf Dry W0 H.
  destruct (uninstall_completes_partial o pl f f' lg Hwf Dry W0 H) as [f'' HU]. exists f''. split; [exact HU|].
  destruct (uninstall_removes_log_partial o pl f f' lg f'' Hwf Dry W0 H HU) as [A B]. split; [exact A|]. split; [exact B|].
  exact (uninstall_inverse_partial o pl f f' lg f'' Hwf Dry W0 H HU).
Qed.
