(* Install/TreeFacts.v — facts about paths and the filesystem of Install/Tree.v. *)
From MV Require Import Base.Strs Base.LexFacts Install.Tree.
From Coq Require Import Lia.
Open Scope N_scope.

(* ------------------------------------------------------------------ equality tests *)
Lemma cp_eqb_eq : forall a b, cp_eqb a b = true <-> a = b.
Proof.
  induction a as [|x a IH]; intros [|y b]; simpl; split; intros H; try discriminate; try reflexivity.
  - apply andb_true_iff in H as [H1 H2]. apply str_eqb_eq in H1. apply IH in H2. subst. reflexivity.
  - inversion H; subst. apply andb_true_iff. split; [apply str_eqb_refl | apply IH; reflexivity].
Qed.
Lemma cp_eqb_refl a : cp_eqb a a = true.
Proof. apply cp_eqb_eq. reflexivity. Qed.
Lemma cp_eqb_neq a b : a <> b -> cp_eqb a b = false.
Proof. intros H. destruct (cp_eqb a b) eqn:E; [apply cp_eqb_eq in E; contradiction | reflexivity]. Qed.
Lemma cp_eqb_false a b : cp_eqb a b = false -> a <> b.
Proof. intros H E. subst. rewrite cp_eqb_refl in H. discriminate. Qed.

Lemma cp_mem_In p l : cp_mem p l = true <-> In p l.
Proof.
  induction l as [|x l IH]; simpl; [split; [discriminate | tauto]|].
  rewrite orb_true_iff, IH, cp_eqb_eq. split; intros [H|H]; auto.
Qed.

(* ------------------------------------------------------------------ prefixes of locations *)
Definition is_prefix (a b : cpath) : Prop := exists r, b = a ++ r.

Lemma is_prefix_refl a : is_prefix a a.
Proof. exists []. rewrite app_nil_r. reflexivity. Qed.
Lemma is_prefix_trans a b c : is_prefix a b -> is_prefix b c -> is_prefix a c.
Proof. intros [r1 ->] [r2 ->]. exists (r1 ++ r2). rewrite app_assoc. reflexivity. Qed.
Lemma is_prefix_app a r : is_prefix a (a ++ r).
Proof. exists r. reflexivity. Qed.
Lemma is_prefix_app_l a b c : is_prefix a b -> is_prefix a (b ++ c).
Proof. intros [r ->]. exists (r ++ c). rewrite app_assoc. reflexivity. Qed.

(* ------------------------------------------------------------------ lookup / set / del *)
Lemma lookup_del_eq f q : lookup (fs_del f q) q = None.
Proof.
  induction f as [|[k n] f IH]; simpl; [reflexivity|].
  destruct (cp_eqb k q) eqn:E; simpl; [exact IH|]. rewrite E. exact IH.
Qed.
Lemma lookup_del_neq f q q' : q <> q' -> lookup (fs_del f q) q' = lookup f q'.
Proof.
  intros Hn. induction f as [|[k n] f IH]; simpl; [reflexivity|].
  destruct (cp_eqb k q) eqn:E; simpl.
  - apply cp_eqb_eq in E. subst k. rewrite (cp_eqb_neq _ _ Hn). exact IH.
  - destruct (cp_eqb k q'); [reflexivity | exact IH].
Qed.
Lemma lookup_set_eq f q n : lookup (fs_set f q n) q = Some n.
Proof. unfold fs_set. simpl. rewrite cp_eqb_refl. reflexivity. Qed.
Lemma lookup_set_neq f q n q' : q <> q' -> lookup (fs_set f q n) q' = lookup f q'.
Proof. intros Hn. unfold fs_set. simpl. rewrite (cp_eqb_neq _ _ Hn). apply lookup_del_neq. exact Hn. Qed.

Lemma lookup_In f k n : In (k, n) f -> lookup f k <> None.
Proof.
  induction f as [|[k' n'] f IH]; simpl; [tauto|]. intros [H|H].
  - inversion H; subst. rewrite cp_eqb_refl. discriminate.
  - destruct (cp_eqb k' k); [discriminate | apply IH; exact H].
Qed.
Lemma lookup_Some_In f k n : lookup f k = Some n -> In (k, n) f.
Proof.
  induction f as [|[k' n'] f IH]; simpl; [discriminate|].
  destruct (cp_eqb k' k) eqn:E; intros H.
  - apply cp_eqb_eq in E. inversion H; subst. left. reflexivity.
  - right. apply IH. exact H.
Qed.

Lemma is_child_spec q k : is_child q k = true <-> exists x, k = q ++ [x].
Proof.
  revert k. induction q as [|a q IH]; intros k; simpl.
  - destruct k as [|b [|c k]]; split; intros H; try discriminate; try reflexivity;
      try (destruct H as [x H]; discriminate). exists b. reflexivity.
  - destruct k as [|b k]; [split; [discriminate | intros [x H]; destruct q; discriminate]|].
    rewrite andb_true_iff, str_eqb_eq, IH. split.
    + intros [-> [x ->]]. exists x. reflexivity.
    + intros [x H]. inversion H; subst. split; [reflexivity | exists x; reflexivity].
Qed.

Lemma has_child_false f q : has_child f q = false -> forall x, lookup f (q ++ [x]) = None.
Proof.
  intros H x. destruct (lookup f (q ++ [x])) as [n|] eqn:E; [|reflexivity].
  apply lookup_Some_In in E. unfold has_child in H.
  assert (existsb (fun kn => is_child q (fst kn)) f = true) as C.
  { apply existsb_exists. exists (q ++ [x], n). split; [exact E|]. simpl. apply is_child_spec. exists x. reflexivity. }
  rewrite C in H. discriminate.
Qed.
Lemma has_child_true f q : has_child f q = true -> exists x, lookup f (q ++ [x]) <> None.
Proof.
  unfold has_child. intros H. apply existsb_exists in H as [[k n] [Hin Hc]]. simpl in Hc.
  apply is_child_spec in Hc as [x ->]. exists x. eapply lookup_In. exact Hin.
Qed.

(* ------------------------------------------------------------------ cleanp / nodd *)
Lemma cleanp_app a b : cleanp (a ++ b) = cleanp a ++ cleanp b.
Proof. unfold cleanp. apply filter_app. Qed.
Lemma nodd_app a b : nodd (a ++ b) = nodd a && nodd b.
Proof. unfold nodd. apply forallb_app. Qed.
Lemma cleanp_idem p : cleanp (cleanp p) = cleanp p.
Proof.
  unfold cleanp. induction p as [|c p IH]; simpl; [reflexivity|].
  destruct (negb (trivial_comp c)) eqn:E; simpl; [rewrite E, IH|]; auto.
Qed.
Lemma nodd_cleanp p : nodd p = true -> nodd (cleanp p) = true.
Proof.
  unfold nodd, cleanp. induction p as [|c p IH]; simpl; [reflexivity|]. intros H.
  apply andb_true_iff in H as [H1 H2]. destruct (negb (trivial_comp c)); simpl; [rewrite H1|]; auto.
Qed.
Lemma nodd_removelast p : nodd p = true -> nodd (removelast p) = true.
Proof.
  unfold nodd. induction p as [|c p IH]; simpl; [reflexivity|]. intros H.
  apply andb_true_iff in H as [H1 H2]. destruct p; [reflexivity|].
  change (negb (is_dotdot c) && forallb (fun c0 => negb (is_dotdot c0)) (removelast (s :: p)) = true).
  rewrite H1. apply IH. exact H2.
Qed.
Lemma nodd_tl p : nodd p = true -> nodd (tl p) = true.
Proof. destruct p; simpl; [reflexivity|]. intros H. apply andb_true_iff in H as [_ H]. exact H. Qed.

Lemma cleanp_cons c l : cleanp (c :: l) = cleanp [c] ++ cleanp l.
Proof. apply (cleanp_app [c] l). Qed.
Lemma cleanp_strip_trailing h : cleanp (strip_trailing_empty h) = cleanp h.
Proof.
  induction h as [|c r IH]; [reflexivity|].
  change (strip_trailing_empty (c :: r)) with
    (match strip_trailing_empty r with [] => if is_empty_s c then [] else [c] | x :: r' => c :: x :: r' end).
  rewrite (cleanp_cons c r), <- IH.
  destruct (strip_trailing_empty r) as [|x r'].
  - destruct c; simpl; [reflexivity|]. rewrite app_nil_r. reflexivity.
  - apply cleanp_cons.
Qed.
Lemma nodd_strip_trailing h : nodd h = true -> nodd (strip_trailing_empty h) = true.
Proof.
  unfold nodd. induction h as [|c r IH]; simpl; [reflexivity|]. intros H.
  apply andb_true_iff in H as [H1 H2]. specialize (IH H2).
  destruct (strip_trailing_empty r) as [|x r'].
  - destruct (is_empty_s c); simpl; [reflexivity | rewrite H1; reflexivity].
  - simpl. rewrite H1. exact IH.
Qed.

Lemma all_empty_cleanp h : all_empty h = true -> cleanp h = [].
Proof.
  unfold all_empty, cleanp. induction h as [|c h IH]; simpl; [reflexivity|]. intros H.
  apply andb_true_iff in H as [H1 H2]. destruct c; [|discriminate]. simpl. apply IH. exact H2.
Qed.

(* cleanp (dirname p) drops at most the last component of cleanp p *)
Lemma cleanp_dirname p : cleanp (dirname p) = cleanp (removelast p).
Proof.
  unfold dirname. destruct (removelast p) as [|x h] eqn:E; [reflexivity|].
  destruct (all_empty (x :: h)) eqn:A.
  - rewrite cleanp_app. simpl. rewrite app_nil_r. reflexivity.
  - apply cleanp_strip_trailing.
Qed.
Lemma nodd_dirname p : nodd p = true -> nodd (dirname p) = true.
Proof.
  intros H. unfold dirname. pose proof (nodd_removelast p H) as R.
  destruct (removelast p) as [|x h]; [reflexivity|].
  destruct (all_empty (x :: h)).
  - rewrite nodd_app, R. reflexivity.
  - apply nodd_strip_trailing. exact R.
Qed.
Lemma removelast_last (p : path) : p <> [] -> p = removelast p ++ [last p []].
Proof. intros H. apply app_removelast_last. exact H. Qed.
Lemma cleanp_dirname_prefix p : is_prefix (cleanp (dirname p)) (cleanp p).
Proof.
  rewrite cleanp_dirname. destruct p as [|c p]; [apply is_prefix_refl|].
  rewrite (removelast_last (c :: p)) at 2 by discriminate. rewrite cleanp_app. apply is_prefix_app.
Qed.

Lemma isabs_tl p : isabs p = true -> cleanp (tl p) = cleanp p.
Proof. destruct p as [|c [|d p]]; simpl; try discriminate. destruct c; [reflexivity | discriminate]. Qed.

(* posixpath.join *)
Lemma cleanp_pjoin a b : isabs b = false -> cleanp (pjoin a b) = cleanp a ++ cleanp b.
Proof.
  intros Hb. unfold pjoin. cbv zeta.
  assert (forall b', isabs b' = false -> cleanp (if isabs b' then b' else if is_empty_path a then b'
            else if ends_slash a then removelast a ++ b' else a ++ b') = cleanp a ++ cleanp b') as G.
  { intros b' Hb'. rewrite Hb'. destruct (is_empty_path a) eqn:Ea.
    - destruct a as [|c [|d a]]; simpl in Ea; try discriminate; [reflexivity|]. destruct c; [reflexivity | discriminate].
    - destruct (ends_slash a) eqn:Es; [|apply cleanp_app].
      rewrite cleanp_app. f_equal. unfold ends_slash in Es. destruct a as [|c [|d a]]; try discriminate.
      rewrite (removelast_last (c :: d :: a)) at 2 by discriminate. rewrite cleanp_app.
      destruct (last (c :: d :: a) [1]) eqn:L; [|discriminate].
      assert (last (c :: d :: a) [] = []) as L'.
      { clear -L. revert L. generalize (c :: d :: a). intros l. induction l as [|x l IH]; simpl; [discriminate|].
        destruct l; [auto|]. exact IH. }
      rewrite L'. simpl. rewrite app_nil_r. reflexivity. }
  destruct b; [apply (G [[]]); reflexivity | apply G; exact Hb].
Qed.
Lemma nodd_pjoin a b : nodd a = true -> nodd b = true -> nodd (pjoin a b) = true.
Proof.
  intros Ha Hb. unfold pjoin. cbv zeta.
  set (b' := match b with [] => [[]] | _ :: _ => b end).
  assert (nodd b' = true) as Hb' by (destruct b; [reflexivity | exact Hb]).
  destruct (isabs b'); [exact Hb'|]. destruct (is_empty_path a); [exact Hb'|].
  destruct (ends_slash a); rewrite nodd_app, Hb', ?andb_true_r; [apply nodd_removelast|]; exact Ha.
Qed.
Lemma pjoin_isabs a b : isabs a = true -> isabs b = false -> isabs (pjoin a b) = true.
Proof.
  intros Ha Hb. unfold pjoin. cbv zeta.
  set (b' := match b with [] => [[]] | _ :: _ => b end).
  assert (isabs b' = false) as Hb' by (destruct b; [reflexivity | exact Hb]). rewrite Hb'.
  destruct a as [|c [|d a]]; simpl in Ha; try discriminate. destruct c; [|discriminate].
  change (is_empty_path ([] :: d :: a)) with false. cbv iota.
  assert (b' <> []) as Nb by (destruct b; discriminate).
  match goal with |- isabs (if ?e then _ else _) = true => destruct e end; [|reflexivity].
  change (removelast ([] :: d :: a)) with ([] :: removelast (d :: a)).
  change (([] :: removelast (d :: a)) ++ b') with ([] :: (removelast (d :: a) ++ b')).
  destruct (removelast (d :: a) ++ b') eqn:E; [|reflexivity].
  apply app_eq_nil in E as [_ E]. contradiction.
Qed.

(* build_path / destdir_join *)
Definition all_named (l : list str) : bool := forallb (fun c => negb (trivial_comp c)) l.
Lemma cleanp_fix l : all_named l = true -> cleanp l = l.
Proof.
  unfold all_named, cleanp. induction l as [|c l IH]; simpl; [reflexivity|]. intros H.
  apply andb_true_iff in H as [H1 H2]. rewrite H1, IH by exact H2. reflexivity.
Qed.
Lemma all_named_cleanp p : all_named (cleanp p) = true.
Proof.
  unfold all_named, cleanp. induction p as [|c p IH]; simpl; [reflexivity|].
  destruct (negb (trivial_comp c)) eqn:E; simpl; [rewrite E|]; exact IH.
Qed.
Lemma all_named_tl l : all_named l = true -> all_named (tl l) = true.
Proof. destruct l; simpl; [reflexivity|]. intros H. apply andb_true_iff in H as [_ H]. exact H. Qed.
Lemma cleanp_build_path k l : cleanp l = l -> cleanp (build_path k l) = l.
Proof.
  intros H. destruct k as [|[|k]]; destruct l; simpl; try reflexivity; exact H.
Qed.
Lemma nodd_build_path k l : nodd l = true -> nodd (build_path k l) = true.
Proof. intros H. destruct k as [|[|k]]; destruct l; simpl; try reflexivity; exact H. Qed.

Lemma cleanp_destdir_join d1 d2 :
  exists r, cleanp (destdir_join d1 d2) = cleanp d1 ++ r /\
            (isabs d2 = true -> r = cleanp d2) /\ (nodd d2 = true -> nodd r = true).
Proof.
  unfold destdir_join. destruct (is_empty_path d1) eqn:E.
  - exists (cleanp d2). split; [|split; [reflexivity | apply nodd_cleanp]].
    destruct d1 as [|c [|d d1]]; simpl in E; try discriminate; [reflexivity|]. destruct c; [reflexivity | discriminate].
  - unfold pure_comps. destruct (isabs d2) eqn:A.
    + exists (cleanp d2). split; [|split; [reflexivity | apply nodd_cleanp]].
      apply cleanp_build_path. rewrite cleanp_app, !cleanp_idem. reflexivity.
    + exists (tl (cleanp d2)). split; [|split; [discriminate | intros H; apply nodd_tl, nodd_cleanp, H]].
      apply cleanp_build_path. rewrite cleanp_app, cleanp_idem. f_equal.
      apply cleanp_fix, all_named_tl, all_named_cleanp.
Qed.
Lemma nodd_destdir_join d1 d2 : nodd d1 = true -> nodd d2 = true -> nodd (destdir_join d1 d2) = true.
Proof.
  intros H1 H2. unfold destdir_join. destruct (is_empty_path d1); [exact H2|].
  apply nodd_build_path. unfold pure_comps. rewrite nodd_app, (nodd_cleanp _ H1). simpl.
  destruct (isabs d2); [|apply nodd_tl]; apply nodd_cleanp; exact H2.
Qed.
Lemma isabs_build_path k l : k <> O -> isabs (build_path k l) = true.
Proof. destruct k as [|[|k]]; intros H; [contradiction| |]; destruct l; reflexivity. Qed.
Lemma root_slashes_abs p : isabs p = true -> root_slashes p <> O.
Proof.
  destruct p as [|c [|d [|e p]]]; simpl; try discriminate; destruct c; simpl; try discriminate; intros _.
  destruct (is_empty_s d); [|discriminate]. destruct (is_empty_s e); [destruct p|]; discriminate.
Qed.
Lemma isabs_not_empty p : isabs p = true -> is_empty_path p = false.
Proof. destruct p as [|c [|d p]]; simpl; try discriminate. reflexivity. Qed.
Lemma destdir_join_isabs d1 d2 : isabs d1 = true -> isabs (destdir_join d1 d2) = true.
Proof.
  intros H. unfold destdir_join. rewrite (isabs_not_empty _ H).
  apply isabs_build_path, root_slashes_abs, H.
Qed.

(* normpath without '..' keeps the named components *)
Lemma norm_loop_nodd k comps rstack :
  nodd comps = true -> norm_loop k comps rstack = rev rstack ++ cleanp comps.
Proof.
  revert rstack. induction comps as [|c r IH]; intros rstack H; simpl.
  - rewrite app_nil_r. reflexivity.
  - simpl in H. apply andb_true_iff in H as [H1 H2]. unfold cleanp. simpl.
    destruct (trivial_comp c); simpl; [apply IH; exact H2|].
    rewrite H1. simpl. rewrite IH by exact H2. simpl. rewrite <- app_assoc. reflexivity.
Qed.
Lemma cleanp_normpath p : nodd p = true -> cleanp (normpath p) = cleanp p.
Proof.
  intros H. unfold normpath. destruct (is_empty_path p) eqn:E.
  - destruct p as [|c [|d p]]; simpl in E; try discriminate; [reflexivity|]. destruct c; [reflexivity | discriminate].
  - rewrite norm_loop_nodd by exact H. simpl. apply cleanp_build_path. apply cleanp_idem.
Qed.
Lemma nodd_normpath p : nodd p = true -> nodd (normpath p) = true.
Proof.
  intros H. unfold normpath. destruct (is_empty_path p); [reflexivity|].
  apply nodd_build_path. rewrite norm_loop_nodd by exact H. simpl. apply nodd_cleanp. exact H.
Qed.

(* ------------------------------------------------------------------ path resolution *)
Lemma walk_nodd f rest : forall cur c,
  nodd rest = true -> walk f cur rest = Ok c -> c = cur ++ cleanp rest.
Proof.
  induction rest as [|x r IH]; intros cur c Hn H; simpl in *.
  - inversion H. rewrite app_nil_r. reflexivity.
  - apply andb_true_iff in Hn as [H1 H2]. destruct (dir_ok f cur); [|discriminate].
    unfold cleanp. simpl. destruct (trivial_comp x); simpl.
    + apply IH; assumption.
    + apply negb_true_iff in H1. rewrite H1 in H. apply IH in H; [|exact H2].
      rewrite H, <- app_assoc. reflexivity.
Qed.
Lemma resolve_nodd f p c : nodd p = true -> resolve f p = Ok c -> c = cleanp p.
Proof.
  intros Hn H. unfold resolve in H. destruct (isabs p) eqn:A; [|discriminate].
  apply walk_nodd in H; [|apply nodd_strip_trailing, nodd_tl, Hn].
  rewrite H, cleanp_strip_trailing. simpl. apply isabs_tl. exact A.
Qed.
Lemma resolve_x_Ok f p c : resolve_x f p = Ok c -> resolve f p = Ok c.
Proof. unfold resolve_x. destruct (resolve f p) as [x|[]]; intros H; try discriminate; exact H. Qed.

(* the parent of a resolved location is a directory (or the root) *)
Definition dir_at (f : fs) (q : cpath) : Prop := q = [] \/ exists m, lookup f q = Some (NDir m).

Lemma dir_ok_dir_at f q : dir_ok f q = Ok tt -> dir_at f q.
Proof.
  unfold dir_ok, dir_at. destruct q; [left; reflexivity|]. destruct (lookup f (s :: q)) as [[| |]|]; try discriminate.
  right. exists mode. reflexivity.
Qed.

(* ------------------------------------------------------------------ the mutating calls change one location *)
Definition chg_at (f f' : fs) (c : cpath) : Prop := forall q, q <> c -> lookup f' q = lookup f q.

Lemma chg_set f c n : chg_at f (fs_set f c n) c.
Proof. intros q H. apply lookup_set_neq. auto. Qed.
Lemma chg_del f c : chg_at f (fs_del f c) c.
Proof. intros q H. apply lookup_del_neq. auto. Qed.

Lemma m_mkdir_spec f p m f' : m_mkdir f p m = Ok f' ->
  exists c, resolve f p = Ok c /\ lookup f c = None /\ lookup f' c = Some (NDir m) /\ chg_at f f' c.
Proof.
  unfold m_mkdir. destruct (resolve_x f p) as [c|] eqn:R; [|discriminate]. apply resolve_x_Ok in R.
  destruct c as [|x c]; [discriminate|]. destruct (lookup f (x :: c)) eqn:L; [discriminate|].
  intros H. inversion H. exists (x :: c). repeat split; auto using lookup_set_eq, chg_set.
Qed.
Lemma m_unlink_spec f p f' : m_unlink f p = Ok f' ->
  exists c, resolve f p = Ok c /\ lookup f c <> None /\ (forall m, lookup f c <> Some (NDir m)) /\ lookup f' c = None /\ chg_at f f' c.
Proof.
  unfold m_unlink. destruct (resolve_x f p) as [c|] eqn:R; [|discriminate]. apply resolve_x_Ok in R.
  destruct c as [|x c]; [discriminate|]. destruct (lookup f (x :: c)) as [[| |]|] eqn:L; try discriminate;
  intros H; inversion H; exists (x :: c); repeat split; auto using lookup_del_eq, chg_del; rewrite L; discriminate.
Qed.
Lemma m_rmdir_spec f p f' : m_rmdir f p = Ok f' ->
  exists c, resolve f p = Ok c /\ (exists m, lookup f c = Some (NDir m)) /\ has_child f c = false /\ lookup f' c = None /\ chg_at f f' c.
Proof.
  unfold m_rmdir. destruct (resolve_x f p) as [c|] eqn:R; [|discriminate]. apply resolve_x_Ok in R.
  destruct c as [|x c]; [discriminate|]. destruct (lookup f (x :: c)) as [[| |]|] eqn:L; try discriminate.
  destruct (has_child f (x :: c)) eqn:HC; [discriminate|].
  intros H; inversion H; exists (x :: c); repeat split; eauto using lookup_del_eq, chg_del.
Qed.
Lemma m_write_spec f p m t d f' : m_write f p m t d = Ok f' ->
  exists c, resolve f p = Ok c /\ lookup f' c = Some (NFile m t d) /\ chg_at f f' c /\
            (lookup f c = None \/ exists m0 t0 d0, lookup f c = Some (NFile m0 t0 d0)).
Proof.
  unfold m_write. destruct (resolve_x f p) as [c|] eqn:R; [|discriminate]. apply resolve_x_Ok in R.
  destruct c as [|x c]; [discriminate|]. destruct (lookup f (x :: c)) as [[| |]|] eqn:L; try discriminate;
  intros H; inversion H; exists (x :: c); repeat split; eauto 8 using lookup_set_eq, chg_set.
Qed.
Lemma m_symlink_spec f p t f' : m_symlink f p t = Ok f' ->
  exists c, resolve f p = Ok c /\ lookup f c = None /\ lookup f' c = Some (NLink t) /\ chg_at f f' c.
Proof.
  unfold m_symlink. destruct (resolve_x f p) as [c|] eqn:R; [|discriminate]. apply resolve_x_Ok in R.
  destruct c as [|x c]; [discriminate|]. destruct (lookup f (x :: c)) eqn:L; [discriminate|].
  intros H. inversion H. exists (x :: c). repeat split; auto using lookup_set_eq, chg_set.
Qed.

(* chmod keeps the kind, the content and the time; only the mode changes *)
Definition mode_only (a b : option node) : Prop :=
  match a, b with
  | Some (NFile _ t d), Some (NFile _ t' d') => t = t' /\ d = d'
  | Some (NDir _), Some (NDir _) => True
  | _, _ => False
  end.

Lemma m_chmod_spec f p m f' : m_chmod f p m = Ok f' ->
  f' = f \/ exists c, resolve f p = Ok c /\ chg_at f f' c /\ mode_only (lookup f c) (lookup f' c) /\
                      (forall m0, lookup f c = Some (NDir m0) -> lookup f' c = Some (NDir m)) /\
                      (forall m0 t d, lookup f c = Some (NFile m0 t d) -> lookup f' c = Some (NFile m t d)).
Proof.
  unfold m_chmod. destruct (resolve_x f p) as [c|] eqn:R; [|discriminate]. apply resolve_x_Ok in R.
  destruct c as [|x c]; [intros H; inversion H; left; reflexivity|].
  destruct (lookup f (x :: c)) as [[m1 t1 d1|m1|t1]|] eqn:L; try discriminate; intros H; inversion H; subst; auto.
  - right. exists (x :: c). rewrite lookup_set_eq, L. split; [exact R|]. split; [apply chg_set|].
    split; [simpl; auto|]. split.
    + intros m0 E. discriminate.
    + intros m0 t d E. inversion E; subst. reflexivity.
  - right. exists (x :: c). rewrite lookup_set_eq, L. split; [exact R|]. split; [apply chg_set|].
    split; [simpl; auto|]. split.
    + intros m0 E. reflexivity.
    + intros m0 t d E. discriminate.
Qed.

Lemma m_mkdir_nonroot f p m f' c : m_mkdir f p m = Ok f' -> resolve f p = Ok c -> c <> [].
Proof.
  unfold m_mkdir, resolve_x. intros H R. rewrite R in H. destruct c; [discriminate | discriminate].
Qed.
Lemma walk_err f rest : forall cur e, walk f cur rest = Err e -> e = ENoEnt \/ e = ENotDir \/ e = EOOM.
Proof.
  induction rest as [|x r IH]; intros cur e H; simpl in H; [discriminate|].
  destruct (dir_ok f cur) as [u|e'] eqn:D.
  - destruct (trivial_comp x); [eapply IH; eassumption|]. destruct (is_dotdot x); eapply IH; eassumption.
  - inversion H; subst. unfold dir_ok in D. destruct cur; [discriminate|].
    destruct (lookup f (s :: cur)) as [[| |]|]; inversion D; auto.
Qed.
Lemma resolve_err f p e : resolve f p = Err e -> e = ENoEnt \/ e = ENotDir \/ e = EOOM.
Proof. unfold resolve. destruct (isabs p); [apply walk_err | intros H; inversion H; auto]. Qed.
Lemma m_mkdir_eexist f p m : m_mkdir f p m = Err (EFail c_exists) ->
  exists c, resolve f p = Ok c /\ (c = [] \/ lookup f c <> None).
Proof.
  unfold m_mkdir, resolve_x. destruct (resolve f p) as [c|e] eqn:R.
  - intros H. exists c. split; [reflexivity|]. destruct c as [|x c]; [left; reflexivity|].
    right. destruct (lookup f (x :: c)); [discriminate | discriminate].
  - apply resolve_err in R. destruct R as [E|[E|E]]; subst e; intros H; vm_compute in H; discriminate.
Qed.

(* ------------------------------------------------------------------ paths without '.' and '..' components *)
Definition nd (p : path) : bool := forallb (fun c => negb (is_dot c) && negb (is_dotdot c)) p.

Lemma nd_nodd p : nd p = true -> nodd p = true.
Proof.
  unfold nd, nodd. induction p as [|c p IH]; simpl; [reflexivity|]. intros H.
  apply andb_true_iff in H as [H1 H2]. apply andb_true_iff in H1 as [_ H1]. rewrite H1. apply IH. exact H2.
Qed.
Lemma nd_app a b : nd (a ++ b) = nd a && nd b.
Proof. unfold nd. apply forallb_app. Qed.
Lemma nd_removelast p : nd p = true -> nd (removelast p) = true.
Proof.
  unfold nd. induction p as [|c p IH]; simpl; [reflexivity|]. intros H.
  apply andb_true_iff in H as [H1 H2]. destruct p; [reflexivity|].
  change (negb (is_dot c) && negb (is_dotdot c) && forallb (fun c0 => negb (is_dot c0) && negb (is_dotdot c0)) (removelast (s :: p)) = true).
  rewrite H1. apply IH. exact H2.
Qed.
Lemma nd_tl p : nd p = true -> nd (tl p) = true.
Proof. destruct p; simpl; [reflexivity|]. intros H. apply andb_true_iff in H as [_ H]. exact H. Qed.
Lemma nd_strip_trailing h : nd h = true -> nd (strip_trailing_empty h) = true.
Proof.
  unfold nd. induction h as [|c r IH]; simpl; [reflexivity|]. intros H.
  apply andb_true_iff in H as [H1 H2]. specialize (IH H2).
  destruct (strip_trailing_empty r) as [|x r'].
  - destruct (is_empty_s c); simpl; [reflexivity | rewrite H1; reflexivity].
  - simpl. simpl in IH. rewrite H1. exact IH.
Qed.
Lemma nd_dirname p : nd p = true -> nd (dirname p) = true.
Proof.
  intros H. unfold dirname. pose proof (nd_removelast p H) as R.
  destruct (removelast p) as [|x h]; [reflexivity|].
  destruct (all_empty (x :: h)).
  - rewrite nd_app, R. reflexivity.
  - apply nd_strip_trailing. exact R.
Qed.
Lemma nd_cleanp p : nd p = true -> nd (cleanp p) = true.
Proof.
  unfold nd, cleanp. induction p as [|c p IH]; simpl; [reflexivity|]. intros H.
  apply andb_true_iff in H as [H1 H2]. destruct (negb (trivial_comp c)); simpl; [rewrite H1|]; auto.
Qed.
Lemma nd_build_path k l : nd l = true -> l <> [] \/ k <> O -> nd (build_path k l) = true.
Proof.
  intros H Hk. destruct k as [|[|k]]; destruct l; simpl; try reflexivity; try exact H.
  destruct Hk as [Hk|Hk]; contradiction.
Qed.
Lemma nd_pjoin a b : nd a = true -> nd b = true -> nd (pjoin a b) = true.
Proof.
  intros Ha Hb. unfold pjoin. cbv zeta.
  set (b' := match b with [] => [[]] | _ :: _ => b end).
  assert (nd b' = true) as Hb' by (destruct b; [reflexivity | exact Hb]).
  destruct (isabs b'); [exact Hb'|]. destruct (is_empty_path a); [exact Hb'|].
  destruct (ends_slash a); rewrite nd_app, Hb', ?andb_true_r; [apply nd_removelast|]; exact Ha.
Qed.
Lemma nd_destdir_join d1 d2 : isabs d1 = true -> nd d1 = true -> nd d2 = true -> nd (destdir_join d1 d2) = true.
Proof.
  intros A H1 H2. unfold destdir_join. rewrite (isabs_not_empty _ A).
  apply nd_build_path; [|right; apply root_slashes_abs, A]. unfold pure_comps. rewrite nd_app, (nd_cleanp _ H1). simpl.
  destruct (isabs d2); [|apply nd_tl]; apply nd_cleanp; exact H2.
Qed.
Lemma nd_normpath p : isabs p = true -> nd p = true -> nd (normpath p) = true.
Proof.
  intros A H. unfold normpath. rewrite (isabs_not_empty _ A).
  apply nd_build_path; [|right; apply root_slashes_abs, A].
  rewrite norm_loop_nodd by (apply nd_nodd; exact H). simpl. apply nd_cleanp. exact H.
Qed.
Lemma nd_basename_not_dot p : nd p = true -> is_dot (basename p) = false.
Proof.
  unfold nd, basename. induction p as [|c p IH]; simpl; [reflexivity|]. intros H.
  apply andb_true_iff in H as [H1 H2]. destruct p; [|apply IH; exact H2].
  apply andb_true_iff in H1 as [H1 _]. apply negb_true_iff in H1. exact H1.
Qed.
Lemma isabs_normpath p : isabs p = true -> isabs (normpath p) = true.
Proof. intros A. unfold normpath. rewrite (isabs_not_empty _ A). apply isabs_build_path, root_slashes_abs, A. Qed.

Lemma m_write_nonroot f p m t d f' c : m_write f p m t d = Ok f' -> resolve f p = Ok c -> c <> [].
Proof. unfold m_write, resolve_x. intros H R. rewrite R in H. destruct c; discriminate. Qed.
Lemma m_symlink_nonroot f p t f' c : m_symlink f p t = Ok f' -> resolve f p = Ok c -> c <> [].
Proof. unfold m_symlink, resolve_x. intros H R. rewrite R in H. destruct c; discriminate. Qed.
Lemma chg_at_trans f1 f2 f3 c : chg_at f1 f2 c -> chg_at f2 f3 c -> chg_at f1 f3 c.
Proof. intros A B q H. rewrite B, A; auto. Qed.

Lemma m_chmod_file f p m f' c m0 t d :
  m_chmod f p m = Ok f' -> resolve f p = Ok c -> c <> [] -> lookup f c = Some (NFile m0 t d) ->
  lookup f' c = Some (NFile m t d) /\ chg_at f f' c.
Proof.
  unfold m_chmod, resolve_x. intros H R Nc L. rewrite R in H. destruct c as [|x c]; [contradiction|].
  rewrite L in H. inversion H; subst. split; [apply lookup_set_eq | apply chg_set].
Qed.
