(* Install/Tree.v — paths and a POSIX-like filesystem (reference semantics for the
   os / os.path / pathlib calls that minstall.py and scripts/uninstall.py make).
   Model file: definitions only, no proofs.

   A *path* is a Python path string split at '/', losslessly:
       ""      = [ "" ]        "/"   = [ ""; "" ]      "a/b/" = [ "a"; "b"; "" ]
       "/a//b" = [ ""; "a"; ""; "b" ]
   (string = components joined with "/").  All posixpath functions used by the
   installer are transcribed on this representation (posixpath.py, CPython 3.12).
   A *location* (cpath) is a canonical absolute position: the component names from
   the root, without "", "." or "..".  The filesystem maps locations to nodes. *)
From MV Require Import Base.Strs.
Open Scope N_scope.

Definition path := list str.
Definition cpath := list str.

Definition is_empty_s (s : str) : bool := match s with [] => true | _ => false end.
Definition is_dot (s : str) : bool := match s with [46] => true | _ => false end.
Definition is_dotdot (s : str) : bool := match s with [46; 46] => true | _ => false end.
Definition trivial_comp (s : str) : bool := is_empty_s s || is_dot s.

Fixpoint cp_eqb (a b : list str) : bool :=
  match a, b with
  | [], [] => true
  | x :: a', y :: b' => str_eqb x y && cp_eqb a' b'
  | _, _ => false
  end.

Fixpoint cp_mem (p : list str) (l : list (list str)) : bool :=
  match l with [] => false | x :: r => cp_eqb p x || cp_mem p r end.

(* the components that name something: drop "" and "." *)
Definition cleanp (p : path) : cpath := filter (fun c => negb (trivial_comp c)) p.
Definition nodd (p : path) : bool := forallb (fun c => negb (is_dotdot c)) p.

(* ------------------------------------------------------------------ posixpath *)
(* the empty string *)
Definition is_empty_path (p : path) : bool :=
  match p with [] => true | [c] => is_empty_s c | _ => false end.

(* posixpath.isabs: s.startswith('/') *)
Definition isabs (p : path) : bool :=
  match p with c :: _ :: _ => is_empty_s c | _ => false end.

(* p.endswith('/')  (for a non-empty string) *)
Definition ends_slash (p : path) : bool :=
  match p with _ :: _ :: _ => is_empty_s (last p [1]) | _ => false end.

(* posixpath.join(a, b) *)
Definition pjoin (a b : path) : path :=
  let b := match b with [] => [[]] | _ => b end in
  if isabs b then b
  else if is_empty_path a then b
  else if ends_slash a then removelast a ++ b
  else a ++ b.

(* s.rstrip('/') on a string that is not all slashes *)
Fixpoint strip_trailing_empty (h : path) : path :=
  match h with
  | [] => []
  | c :: r =>
      match strip_trailing_empty r with
      | [] => if is_empty_s c then [] else [c]
      | r' => c :: r'
      end
  end.

Definition all_empty (h : path) : bool := forallb is_empty_s h.

(* posixpath.split(p)[0] = posixpath.dirname(p):
     i = p.rfind('/') + 1; head = p[:i]
     if head and head != '/'*len(head): head = head.rstrip('/') *)
Definition dirname (p : path) : path :=
  match removelast p with
  | [] => [[]]
  | h => if all_empty h then h ++ [[]] else strip_trailing_empty h
  end.

(* posixpath.basename(p) = p[p.rfind('/')+1:] *)
Definition basename (p : path) : str := last p [].

(* number of leading slashes kept by normpath / pathlib's splitroot: 0, 1 or 2
   (2 only for exactly two leading slashes) *)
Definition root_slashes (p : path) : nat :=
  match p with
  | c1 :: c2 :: c3 :: r =>
      if is_empty_s c1 then
        if is_empty_s c2 then
          if is_empty_s c3 then match r with [] => 2%nat | _ => 1%nat end else 2%nat
        else 1%nat
      else 0%nat
  | c1 :: _ :: [] => if is_empty_s c1 then 1%nat else 0%nat
  | _ => 0%nat
  end.

(* the string  '/'*k + '/'.join(l)  (or '.' when empty and k = 0) *)
Definition build_path (k : nat) (l : list str) : path :=
  match k, l with
  | O, [] => [[46]]
  | O, _ => l
  | S O, [] => [[]; []]
  | S O, _ => [] :: l
  | _, [] => [[]; []; []]
  | _, _ => [] :: [] :: l
  end.

(* posixpath.normpath: the component loop with a stack kept in reverse *)
Fixpoint norm_loop (initial : nat) (comps : list str) (rstack : list str) : list str :=
  match comps with
  | [] => rev rstack
  | c :: r =>
      if trivial_comp c then norm_loop initial r rstack
      else if negb (is_dotdot c) then norm_loop initial r (c :: rstack)
      else match rstack with
           | [] => match initial with
                   | O => norm_loop initial r (c :: rstack)   (* keep leading '..' of a relative path *)
                   | _ => norm_loop initial r rstack          (* '/..' = '/' *)
                   end
           | t :: rs => if is_dotdot t then norm_loop initial r (c :: rstack)
                        else norm_loop initial r rs
           end
  end.

Definition normpath (p : path) : path :=
  if is_empty_path p then [[46]]
  else let k := root_slashes p in build_path k (norm_loop k p []).

(* pathlib.PurePosixPath(s): root + the non-trivial components; parts *)
Definition pure_comps (p : path) : list str := cleanp p.

(* mesonbuild/scripts/__init__.py:6-10
     def destdir_join(d1, d2):
         if not d1: return d2
         return str(PurePath(d1, *PurePath(d2).parts[1:])) *)
Definition destdir_join (d1 d2 : path) : path :=
  if is_empty_path d1 then d2
  else
    let parts2 := if isabs d2 then pure_comps d2 else tl (pure_comps d2) in
    build_path (root_slashes d1) (pure_comps d1 ++ parts2).

(* ------------------------------------------------------------------ filesystem *)
Inductive node :=
| NFile (mode mtime : N) (digest : str)
| NDir (mode : N)
| NLink (target : str).

Definition fs := list (cpath * node).

Fixpoint lookup (f : fs) (q : cpath) : option node :=
  match f with
  | [] => None
  | (k, n) :: r => if cp_eqb k q then Some n else lookup r q
  end.

Definition fs_del (f : fs) (q : cpath) : fs := filter (fun kn => negb (cp_eqb (fst kn) q)) f.
Definition fs_set (f : fs) (q : cpath) (n : node) : fs := (q, n) :: fs_del f q.

(* k = q ++ [x] for some x *)
Fixpoint is_child (q k : cpath) : bool :=
  match q, k with
  | [], [_] => true
  | a :: q', b :: k' => str_eqb a b && is_child q' k'
  | _, _ => false
  end.
Definition has_child (f : fs) (q : cpath) : bool := existsb (fun kn => is_child q (fst kn)) f.

(* results *)
Inductive err :=
| ENoEnt          (* path resolution: a component does not exist *)
| ENotDir         (* path resolution: a component is not a directory *)
| EOOM            (* outside the model: symbolic link met where it would be followed, relative path *)
| EFail (code : N).  (* an exception / exit that aborts the command; see codes below *)
Definition c_meson : N := 1.          (* MesonException *)
Definition c_exit : N := 2.           (* sys.exit(1) *)
Definition c_exists : N := 3.         (* FileExistsError *)
Definition c_noent : N := 4.          (* FileNotFoundError *)
Definition c_notdir : N := 5.         (* NotADirectoryError *)
Definition c_isdir : N := 6.          (* IsADirectoryError *)
Definition c_notempty : N := 7.       (* OSError ENOTEMPTY *)
Definition c_value : N := 8.          (* ValueError *)
Definition c_fuel : N := 9.           (* model ran out of fuel (proved unreachable) *)

Inductive res (A : Type) := Ok (a : A) | Err (e : err).
Arguments Ok {A} a.
Arguments Err {A} e.

(* a path can be continued below location cur only if cur is a directory *)
Definition dir_ok (f : fs) (cur : cpath) : res unit :=
  match cur with
  | [] => Ok tt
  | _ => match lookup f cur with
         | Some (NDir _) => Ok tt
         | Some (NLink _) => Err EOOM
         | Some (NFile _ _ _) => Err ENotDir
         | None => Err ENoEnt
         end
  end.

(* POSIX path resolution of the components after the root; the final component
   need not exist *)
Fixpoint walk (f : fs) (cur : cpath) (rest : list str) : res cpath :=
  match rest with
  | [] => Ok cur
  | c :: r =>
      match dir_ok f cur with
      | Err e => Err e
      | Ok _ =>
          if trivial_comp c then walk f cur r
          else if is_dotdot c then walk f (removelast cur) r
          else walk f (cur ++ [c]) r
      end
  end.

(* trailing slashes are accepted for every node kind (a simplification that only
   matters for "file/", which the installer never forms) *)
Definition resolve (f : fs) (p : path) : res cpath :=
  if isabs p then walk f [] (strip_trailing_empty (tl p)) else Err EOOM.

(* lstat-like: the node at the resolved location; None = does not exist *)
Definition lnode (f : fs) (p : path) : res (option node) :=
  match resolve f p with
  | Ok [] => Ok (Some (NDir 493))
  | Ok c => Ok (lookup f c)
  | Err ENoEnt => Ok None
  | Err ENotDir => Ok None
  | Err e => Err e
  end.

(* os.path.exists / isfile / isdir follow a final symbolic link: outside the model *)
Definition q_exists (f : fs) (p : path) : res bool :=
  match lnode f p with
  | Ok None => Ok false
  | Ok (Some (NLink _)) => Err EOOM
  | Ok (Some _) => Ok true
  | Err e => Err e
  end.
Definition q_isfile (f : fs) (p : path) : res bool :=
  match lnode f p with
  | Ok (Some (NFile _ _ _)) => Ok true
  | Ok (Some (NLink _)) => Err EOOM
  | Ok _ => Ok false
  | Err e => Err e
  end.
Definition q_isdir (f : fs) (p : path) : res bool :=
  match lnode f p with
  | Ok (Some (NDir _)) => Ok true
  | Ok (Some (NLink _)) => Err EOOM
  | Ok _ => Ok false
  | Err e => Err e
  end.
(* os.path.islink / lexists do not follow *)
Definition q_islink (f : fs) (p : path) : res bool :=
  match lnode f p with
  | Ok (Some (NLink _)) => Ok true
  | Ok _ => Ok false
  | Err e => Err e
  end.
Definition q_lexists (f : fs) (p : path) : res bool :=
  match lnode f p with
  | Ok None => Ok false
  | Ok (Some _) => Ok true
  | Err e => Err e
  end.

(* resolution errors of a mutating call become Python exceptions *)
Definition resolve_x (f : fs) (p : path) : res cpath :=
  match resolve f p with
  | Err ENoEnt => Err (EFail c_noent)
  | Err ENotDir => Err (EFail c_notdir)
  | r => r
  end.

(* os.mkdir(p, mode): mode is already masked by the process umask *)
Definition m_mkdir (f : fs) (p : path) (mode : N) : res fs :=
  match resolve_x f p with
  | Err e => Err e
  | Ok [] => Err (EFail c_exists)
  | Ok c => match lookup f c with
            | Some _ => Err (EFail c_exists)
            | None => Ok (fs_set f c (NDir mode))
            end
  end.

(* os.remove / os.unlink *)
Definition m_unlink (f : fs) (p : path) : res fs :=
  match resolve_x f p with
  | Err e => Err e
  | Ok [] => Err (EFail c_isdir)
  | Ok c => match lookup f c with
            | None => Err (EFail c_noent)
            | Some (NDir _) => Err (EFail c_isdir)
            | Some _ => Ok (fs_del f c)
            end
  end.

(* os.rmdir *)
Definition m_rmdir (f : fs) (p : path) : res fs :=
  match resolve_x f p with
  | Err e => Err e
  | Ok [] => Err (EFail c_notempty)
  | Ok c => match lookup f c with
            | None => Err (EFail c_noent)
            | Some (NDir _) => if has_child f c then Err (EFail c_notempty) else Ok (fs_del f c)
            | Some _ => Err (EFail c_notdir)
            end
  end.

(* shutil.copy2(src, p) of a regular file: create or truncate p, then copystat
   (mode bits and mtime of the source) *)
Definition m_write (f : fs) (p : path) (mode mtime : N) (digest : str) : res fs :=
  match resolve_x f p with
  | Err e => Err e
  | Ok [] => Err (EFail c_isdir)
  | Ok c => match lookup f c with
            | Some (NDir _) => Err (EFail c_isdir)
            | Some (NLink _) => Err EOOM
            | _ => Ok (fs_set f c (NFile mode mtime digest))
            end
  end.

(* os.symlink(target, p) *)
Definition m_symlink (f : fs) (p : path) (target : str) : res fs :=
  match resolve_x f p with
  | Err e => Err e
  | Ok [] => Err (EFail c_exists)
  | Ok c => match lookup f c with
            | Some _ => Err (EFail c_exists)
            | None => Ok (fs_set f c (NLink target))
            end
  end.

(* minstall.set_chmod(p, mode, follow_symlinks=False) (minstall.py:197-203): on
   Linux chmod of a symbolic link itself is not implemented and the fallback is
   skipped for links, so a link is left alone *)
Definition m_chmod (f : fs) (p : path) (mode : N) : res fs :=
  match resolve_x f p with
  | Err e => Err e
  | Ok [] => Ok f
  | Ok c => match lookup f c with
            | None => Err (EFail c_noent)
            | Some (NLink _) => Ok f
            | Some (NDir _) => Ok (fs_set f c (NDir mode))
            | Some (NFile _ t d) => Ok (fs_set f c (NFile mode t d))
            end
  end.

(* st_mode & 0o111 of lstat(p) *)
Definition node_exec (n : node) : bool :=
  match n with
  | NFile m _ _ => negb (N.land m 73 =? 0)
  | NDir m => negb (N.land m 73 =? 0)
  | NLink _ => true
  end.
