(* Install/Log.v — the install log names what was created; invariants of a real
   (non dry-run) installation that succeeds. *)
From MV Require Import Base.Strs Base.LexFacts Install.Tree Install.TreeFacts Install.Model Install.Spec Install.Proofs.
From Coq Require Import Lia.
Open Scope N_scope.

(* ------------------------------------------------------------------ Hoare triples for successful runs *)
Definition okp {A} (P : st -> Prop) (m : M A) (Q : A -> st -> Prop) : Prop :=
  forall s s' a, P s -> m s = (s', Ok a) -> Q a s'.
Definition inv {A} (I : st -> Prop) (m : M A) : Prop := okp I m (fun _ => I).

Lemma okp_ret {A} (P : st -> Prop) (a : A) (Q : A -> st -> Prop) : (forall s, P s -> Q a s) -> okp P (ret a) Q.
Proof. intros H s s' a' Hp E. inversion E; subst. apply H. exact Hp. Qed.
Lemma okp_fail {A} (P : st -> Prop) e (Q : A -> st -> Prop) : okp P (fail e) Q.
Proof. intros s s' a Hp E. inversion E. Qed.
Lemma okp_bind {A B} (P : st -> Prop) (m : M A) (Q : A -> st -> Prop) (k : A -> M B) (R : B -> st -> Prop) :
  okp P m Q -> (forall a, okp (Q a) (k a) R) -> okp P (bind m k) R.
Proof.
  intros Hm Hk s s' b Hp E. unfold bind in E. destruct (m s) as [s1 [a|e]] eqn:Em; [|inversion E].
  eapply Hk; [eapply Hm; eassumption | exact E].
Qed.
Lemma okp_query {A} (P : st -> Prop) (q : fs -> res A) (Q : A -> st -> Prop) :
  (forall s a, P s -> q (s_fs s) = Ok a -> Q a s) -> okp P (query q) Q.
Proof. intros H s s' a Hp E. unfold query in E. inversion E; subst. apply H; assumption. Qed.
Lemma okp_weaken {A} (P P' : st -> Prop) (m : M A) (Q Q' : A -> st -> Prop) :
  okp P m Q -> (forall s, P' s -> P s) -> (forall a s, Q a s -> Q' a s) -> okp P' m Q'.
Proof. intros H H1 H2 s s' a Hp E. apply H2. eapply H; [apply H1; exact Hp | exact E]. Qed.
Lemma inv_forM {A} (I : st -> Prop) (l : list A) (f : A -> M unit) :
  (forall x, In x l -> inv I (f x)) -> inv I (forM_ l f).
Proof.
  induction l as [|x l IH]; intros H; simpl.
  - apply okp_ret. auto.
  - eapply okp_bind; [apply H; left; reflexivity|]. intros u. apply IH. intros y Hy. apply H. right. exact Hy.
Qed.
Lemma inv_query_bind {A B} (I : st -> Prop) (q : fs -> res A) (k : A -> M B) (R : B -> st -> Prop) :
  (forall a, okp I (k a) R) -> okp I (bind (query q) k) R.
Proof. intros H. eapply okp_bind; [apply okp_query; intros s a Hp _; exact Hp | exact H]. Qed.

(* ------------------------------------------------------------------ well-formed filesystems *)
(* whatever exists has a directory (or the root) as its parent *)
Definition wf_fs (f : fs) : Prop := forall q x, lookup f (q ++ [x]) <> None -> dir_at f q.

Lemma dir_at_chg f f' c q : chg_at f f' c -> q <> c -> dir_at f q -> dir_at f' q.
Proof. intros C N [->|[m H]]; [left; reflexivity|]. right. exists m. rewrite C; assumption. Qed.

Lemma snoc_inj (a b : cpath) x y : a ++ [x] = b ++ [y] -> a = b /\ x = y.
Proof. intros H. apply app_inj_tail in H. exact H. Qed.

Lemma snoc_neq (q : cpath) x : q <> q ++ [x].
Proof. intros E. assert (length q = length (q ++ [x])) as L by (rewrite <- E; reflexivity). rewrite app_length in L. simpl in L. lia. Qed.

Lemma wf_add f f' c : wf_fs f -> chg_at f f' c -> lookup f c = None -> c <> [] -> dir_at f (removelast c) -> wf_fs f'.
Proof.
  intros W C N Nc Pd q x H. destruct (cp_eqb (q ++ [x]) c) eqn:E.
  - apply cp_eqb_eq in E. subst c. rewrite List.removelast_last in Pd.
    apply (dir_at_chg f f' (q ++ [x]) q C (snoc_neq q x) Pd).
  - apply cp_eqb_false in E. rewrite (C _ E) in H. specialize (W q x H).
    apply (dir_at_chg f f' c q C); [|exact W]. intros ->. destruct W as [->|[m Hm]]; [contradiction | congruence].
Qed.

Definition leaf (o : option node) : Prop := match o with Some (NDir _) => False | Some _ => True | None => False end.
Definition not_dir (o : option node) : Prop := match o with Some (NDir _) => False | _ => True end.

Lemma wf_leaf f f' c : wf_fs f -> chg_at f f' c -> leaf (lookup f c) -> not_dir (lookup f' c) -> wf_fs f'.
Proof.
  intros W C L L' q x H. destruct q as [|y q0]; [left; reflexivity|]. remember (y :: q0) as q eqn:Eq.
  assert (q <> c) as Nq.
  { intros ->. (* c would have a child in f' hence in f, so c is a directory in f *)
    assert (lookup f (c ++ [x]) <> None) as Hx by (rewrite <- (C (c ++ [x])); [exact H | intro E; symmetry in E; exact (snoc_neq c x E)]).
    destruct (W c x Hx) as [E0|[m Hm]]; [rewrite E0 in Eq; discriminate | rewrite Hm in L; exact L]. }
  assert (lookup f (q ++ [x]) <> None) as Hx.
  { destruct (cp_eqb (q ++ [x]) c) eqn:E.
    - apply cp_eqb_eq in E. subst c. intro Hn. rewrite Hn in L. exact L.
    - apply cp_eqb_false in E. rewrite <- (C _ E). exact H. }
  apply (dir_at_chg f f' c q C Nq (W q x Hx)).
Qed.
Lemma wf_mode f f' c : wf_fs f -> chg_at f f' c -> mode_only (lookup f c) (lookup f' c) -> wf_fs f'.
Proof.
  intros W C Mo q x H.
  assert (lookup f (q ++ [x]) <> None) as Hx.
  { destruct (cp_eqb (q ++ [x]) c) eqn:E.
    - apply cp_eqb_eq in E. subst c. intro Hn. rewrite Hn in Mo. exact Mo.
    - apply cp_eqb_false in E. rewrite <- (C _ E). exact H. }
  destruct (W q x Hx) as [->|[m Hm]]; [left; reflexivity|]. right.
  destruct (cp_eqb q c) eqn:E.
  - apply cp_eqb_eq in E. subst c. rewrite Hm in Mo. destruct (lookup f' q) as [[| |]|]; try contradiction. eauto.
  - apply cp_eqb_false in E. exists m. rewrite (C _ E). exact Hm.
Qed.

Lemma wf_rmdir f f' c : wf_fs f -> chg_at f f' c -> lookup f' c = None -> has_child f c = false -> wf_fs f'.
Proof.
  intros W C N Hc q x H. destruct (cp_eqb (q ++ [x]) c) eqn:E.
  - apply cp_eqb_eq in E. subst c. contradiction.
  - apply cp_eqb_false in E. rewrite (C _ E) in H. specialize (W q x H).
    apply (dir_at_chg f f' c q C); [|exact W]. intros ->. apply H. apply has_child_false. exact Hc.
Qed.

(* ancestors of something that exists are directories *)
Lemma wf_prefix_dir f : wf_fs f -> forall r q, lookup f (q ++ r) <> None -> r <> [] -> dir_at f q.
Proof.
  intros W r. induction r as [|x r IH] using rev_ind; intros q H N; [contradiction|].
  rewrite app_assoc in H. apply W in H. destruct r as [|y r]; [rewrite app_nil_r in H; exact H|].
  apply IH; [|discriminate]. destruct H as [H|[m H]]; [destruct q; discriminate | rewrite H; discriminate].
Qed.
Lemma wf_under_none f : wf_fs f -> forall q r, not_dir (lookup f q) -> q <> [] -> r <> [] -> lookup f (q ++ r) = None.
Proof.
  intros W q r Nd Nq Nr. destruct (lookup f (q ++ r)) eqn:E; [|reflexivity].
  assert (dir_at f q) as [->|[m Hm]] by (eapply wf_prefix_dir; [exact W | rewrite E; discriminate | exact Nr]); [contradiction|].
  rewrite Hm in Nd. contradiction.
Qed.

(* ------------------------------------------------------------------ resolution and parents *)
Lemma walk_parent f rest : forall cur c,
  nodd rest = true -> walk f cur rest = Ok c -> c = cur \/ (c <> [] /\ dir_at f (removelast c)).
Proof.
  induction rest as [|x r IH]; intros cur c Hn H; simpl in *.
  - inversion H. left. reflexivity.
  - apply andb_true_iff in Hn as [H1 H2]. destruct (dir_ok f cur) as [[]|] eqn:D; [|discriminate].
    destruct (trivial_comp x).
    + apply IH; assumption.
    + apply negb_true_iff in H1. rewrite H1 in H. destruct (IH _ _ H2 H) as [->|R]; [|right; exact R].
      right. split; [destruct cur; discriminate|]. rewrite List.removelast_last. apply dir_ok_dir_at. exact D.
Qed.
Lemma resolve_parent f p c : nodd p = true -> resolve f p = Ok c -> c <> [] -> dir_at f (removelast c).
Proof.
  intros Hn H Nc. unfold resolve in H. destruct (isabs p); [|discriminate].
  apply walk_parent in H; [|apply nodd_strip_trailing, nodd_tl, Hn]. destruct H as [->|[_ H]]; [contradiction | exact H].
Qed.

(* removing a leaf does not disturb the resolution of the path that named it *)
Lemma walk_del f c rest : forall cur, leaf (lookup f c) -> walk f cur rest = Ok c -> walk (fs_del f c) cur rest = Ok c.
Proof.
  induction rest as [|x r IH]; intros cur L H; simpl in *; [exact H|].
  destruct (dir_ok f cur) as [[]|] eqn:D; [|discriminate].
  assert (dir_ok (fs_del f c) cur = Ok tt) as D'.
  { unfold dir_ok in *. destruct cur as [|y cur]; [reflexivity|].
    destruct (cp_eqb c (y :: cur)) eqn:E.
    - apply cp_eqb_eq in E. subst c. destruct (lookup f (y :: cur)) as [[| |]|]; try discriminate; contradiction.
    - apply cp_eqb_false in E. rewrite lookup_del_neq by exact E. exact D. }
  rewrite D'. destruct (trivial_comp x); [apply IH; assumption|]. destruct (is_dotdot x); apply IH; assumption.
Qed.

Lemma unlink_then_symlink f p f1 t : m_unlink f p = Ok f1 -> exists f2, m_symlink f1 p t = Ok f2.
Proof.
  unfold m_unlink, m_symlink, resolve_x, resolve. destruct (isabs p); [|discriminate].
  destruct (walk f [] (strip_trailing_empty (tl p))) as [c|e] eqn:Wk; [|destruct e; discriminate].
  destruct c as [|x c]; [discriminate|].
  destruct (lookup f (x :: c)) as [[| |]|] eqn:L; try discriminate; intros H; inversion H; subst;
    (rewrite (walk_del f (x :: c)); [|rewrite L; exact I | exact Wk]); rewrite lookup_del_eq; eauto.
Qed.

(* ------------------------------------------------------------------ queries *)
Lemma q_isdir_true f p : nodd p = true -> q_isdir f p = Ok true -> dir_at f (cleanp p).
Proof.
  intros Hn H. unfold q_isdir, lnode in H. destruct (resolve f p) as [c|e] eqn:R.
  - apply resolve_nodd in R; [subst c | exact Hn]. destruct (cleanp p) as [|x c]; [left; reflexivity|].
    destruct (lookup f (x :: c)) as [[| |]|] eqn:L; try discriminate. right. eauto.
  - destruct e; discriminate.
Qed.

Definition exists_at (f : fs) (q : cpath) : Prop := q = [] \/ lookup f q <> None.

Lemma q_exists_true f p : nodd p = true -> q_exists f p = Ok true -> exists_at f (cleanp p).
Proof.
  intros Hn H. unfold q_exists, lnode in H. destruct (resolve f p) as [c|e] eqn:R.
  - apply resolve_nodd in R; [subst c | exact Hn]. destruct (cleanp p) as [|x c]; [left; reflexivity|].
    right. destruct (lookup f (x :: c)) as [[| |]|]; discriminate.
  - destruct e; discriminate.
Qed.

Lemma dir_at_dir_ok f q : dir_at f q -> dir_ok f q = Ok tt.
Proof. intros [->|[m H]]; [reflexivity|]. unfold dir_ok. destruct q; [reflexivity|]. rewrite H. reflexivity. Qed.

Lemma walk_ok f : wf_fs f -> forall rest cur,
  nodd rest = true -> dir_at f cur -> dir_at f (cur ++ cleanp rest) -> walk f cur rest = Ok (cur ++ cleanp rest).
Proof.
  intros W. induction rest as [|x r IH]; intros cur Hn Dc Df; simpl.
  - unfold cleanp. simpl. rewrite app_nil_r. reflexivity.
  - simpl in Hn. apply andb_true_iff in Hn as [H1 H2]. rewrite (dir_at_dir_ok _ _ Dc).
    unfold cleanp in *. simpl in *. destruct (trivial_comp x); simpl in *; [apply IH; assumption|].
    apply negb_true_iff in H1. rewrite H1.
    change (x :: filter (fun c => negb (trivial_comp c)) r) with ([x] ++ cleanp r) in *. rewrite app_assoc in *.
    apply IH; [exact H2 | | exact Df].
    destruct (cleanp r) as [|y rr] eqn:Er; [rewrite app_nil_r in Df; exact Df|].
    apply (wf_prefix_dir f W (y :: rr)); [|discriminate].
    destruct Df as [E|[m Hm]]; [destruct cur; discriminate | rewrite Hm; discriminate].
Qed.

Lemma q_exists_dir f p : wf_fs f -> nodd p = true -> isabs p = true -> dir_at f (cleanp p) -> q_exists f p = Ok true.
Proof.
  intros W Hn A D. unfold q_exists, lnode, resolve. rewrite A.
  rewrite (walk_ok f W (strip_trailing_empty (tl p)) []); [| apply nodd_strip_trailing, nodd_tl, Hn | left; reflexivity |].
  - simpl. rewrite cleanp_strip_trailing, (isabs_tl _ A).
    destruct (cleanp p) as [|x c] eqn:E; [reflexivity|]. destruct D as [D|[m Hm]]; [discriminate|]. rewrite Hm. reflexivity.
  - simpl. rewrite cleanp_strip_trailing, (isabs_tl _ A). exact D.
Qed.

(* ------------------------------------------------------------------ os.makedirs *)
Lemma try_mkdir_wf um f name eo f' r :
  nodd name = true -> wf_fs f -> try_mkdir um f name eo = (f', r) -> wf_fs f'.
Proof.
  intros Hn W H. unfold try_mkdir in H. destruct (m_mkdir f name (N.ldiff 511 um)) as [f2|e] eqn:E.
  - inversion H; subst. pose proof E as E0. apply m_mkdir_spec in E as [c [R [N [D C]]]].
    pose proof (m_mkdir_nonroot _ _ _ _ _ E0 R) as Nc.
    eapply wf_add; eauto. eapply resolve_parent; eauto.
  - assert (f' = f) as ->; [|exact W]. destruct e; try (inversion H; reflexivity).
    destruct (negb eo); [inversion H; reflexivity|]. destruct (q_isdir f name) as [[|]|]; inversion H; reflexivity.
Qed.

Lemma try_mkdir_ok_dir um f name eo f' :
  nodd name = true -> try_mkdir um f name eo = (f', Ok tt) -> dir_at f' (cleanp name).
Proof.
  intros Hn H. unfold try_mkdir in H. destruct (m_mkdir f name (N.ldiff 511 um)) as [f2|e] eqn:E.
  - inversion H; subst. apply m_mkdir_spec in E as [c [R [N [D C]]]].
    pose proof (resolve_nodd _ _ _ Hn R) as Ec. subst c. right. eauto.
  - destruct e; try discriminate. destruct (negb eo); [discriminate|].
    destruct (q_isdir f name) as [[|]|] eqn:Q; inversion H; subst. apply q_isdir_true; assumption.
Qed.

Lemma os_makedirs_wf um eo fuel : forall f name f' r,
  nodd name = true -> wf_fs f -> os_makedirs fuel um f name eo = (f', r) -> wf_fs f'.
Proof.
  induction fuel as [|k IH]; intros f name f' r Hn W H; simpl in H; [inversion H; subst; exact W|].
  set (head := if is_empty_s (basename name) then dirname (dirname name) else dirname name) in *.
  set (tail := if is_empty_s (basename name) then basename (dirname name) else basename name) in *.
  assert (nodd head = true) as Hh.
  { unfold head. destruct (is_empty_s (basename name)); repeat apply nodd_dirname; exact Hn. }
  destruct (negb (is_empty_path head) && negb (is_empty_s tail)); [|apply (try_mkdir_wf _ _ _ _ _ _ Hn W H)].
  destruct (q_exists f head) as [[|]|e]; [apply (try_mkdir_wf _ _ _ _ _ _ Hn W H) | | inversion H; subst; exact W].
  destruct (os_makedirs k um f head eo) as [f1 r1] eqn:E.
  assert (wf_fs f1) as W1 by (eapply IH; eassumption).
  assert (forall x, (if is_dot tail then (f1, Ok tt) else try_mkdir um f1 name eo) = x -> wf_fs (fst x)) as G.
  { intros [f2 r2] X. simpl. destruct (is_dot tail); [inversion X; subst; exact W1 | apply (try_mkdir_wf _ _ _ _ _ _ Hn W1 X)]. }
  destruct r1 as [u|[| | |cd]]; try (inversion H; subst; exact W1); [apply (G _ H)|].
  destruct (cd =? c_exists); [apply (G _ H) | inversion H; subst; exact W1].
Qed.

(* without '.' components a successful makedirs always ends with the mkdir of its argument *)
Lemma os_makedirs_ok um eo fuel f name f' :
  nd name = true -> os_makedirs fuel um f name eo = (f', Ok tt) -> dir_at f' (cleanp name).
Proof.
  intros Hd H. pose proof (nd_nodd _ Hd) as Hn. destruct fuel as [|k]; simpl in H; [discriminate|].
  set (head := if is_empty_s (basename name) then dirname (dirname name) else dirname name) in *.
  set (tail := if is_empty_s (basename name) then basename (dirname name) else basename name) in *.
  assert (is_dot tail = false) as Dt.
  { unfold tail. destruct (is_empty_s (basename name)); apply nd_basename_not_dot; [apply nd_dirname|]; exact Hd. }
  rewrite Dt in H.
  destruct (negb (is_empty_path head) && negb (is_empty_s tail)); [|apply (try_mkdir_ok_dir _ _ _ _ _ Hn H)].
  destruct (q_exists f head) as [[|]|e]; [apply (try_mkdir_ok_dir _ _ _ _ _ Hn H) | | discriminate].
  destruct (os_makedirs k um f head eo) as [f1 r1].
  destruct r1 as [u|[| | |cd]]; try discriminate; [apply (try_mkdir_ok_dir _ _ _ _ _ Hn H)|].
  destruct (cd =? c_exists); [apply (try_mkdir_ok_dir _ _ _ _ _ Hn H) | discriminate].
Qed.
