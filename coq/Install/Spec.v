(* Install/Spec.v — what the property statement says, as definitions over the plan:
   the well-formedness guard of the theorems, and the set of destinations that the
   build definition's install rules specify. *)
From MV Require Import Base.Strs Install.Tree Install.Model.
Open Scope N_scope.

(* a file or directory name: not "", ".", ".." *)
Definition wf_name (c : str) : bool := negb (trivial_comp c) && negb (is_dotdot c).

Definition wf_wstep (w : wstep) : bool :=
  forallb wf_name (w_rel w) && forallb (fun d => wf_name (fst d)) (w_dirs w)
  && forallb (fun e => wf_name (fst e)) (w_files w).

Definition wf_sitem (i : sitem) : bool := nodd (sd_path i) && forallb wf_wstep (sd_walk i).
Definition wf_fitem (i : fitem) : bool := nodd (fi_path i) && negb (is_dotdot (fi_srcname i)).
Definition wf_eitem (e : eitem) : bool := nodd (e_path e).
Definition wf_litem (l : litem) : bool := nodd (l_name l) && nodd (l_path l).

Definition all_fitems (pl : plan) : list fitem := p_targets pl ++ p_headers pl ++ p_man pl ++ p_data pl.

(* wf_plan: no destination, nor the prefix, nor DESTDIR contains a '..' component
   (the negation is the known finding C11:dotdot-escape) *)
Definition wf_plan (o : opts) (pl : plan) : bool :=
  nodd (p_prefix pl) && nodd (effective_destdir o pl)
  && forallb wf_sitem (p_subdirs pl) && forallb wf_fitem (all_fitems pl)
  && forallb wf_eitem (p_emptydirs pl) && forallb wf_litem (p_symlinks pl).

(* ------------------------------------------------------------------ the planned destinations *)
Section Planned.
  Variable c : cfg.
  Variables destdir fullprefix : path.
  Notation gdp := (get_destdir_path destdir fullprefix).

  Definition sel {A} (sub : A -> str) (tag : A -> option str) (l : list A) : list A :=
    filter (fun x => should_install c (sub x) (tag x)) l.

  Definition wstep_dests (dst_dir : path) (i : sitem) (w : wstep) : list cpath :=
    if pruned (map normpath (sd_excl_dirs i)) (w_rel w) then []
    else
      map (fun d => cleanp (pjoin dst_dir (w_rel w ++ [fst d])))
          (filter (fun d => negb (cp_mem (w_rel w ++ [fst d]) (map normpath (sd_excl_dirs i)))) (w_dirs w))
      ++ flat_map (fun e => [cleanp (pjoin dst_dir (w_rel w ++ [fst e]));
                             cleanp (dirname (pjoin dst_dir (w_rel w ++ [fst e])))])
          (filter (fun e => negb (cp_mem (w_rel w ++ [fst e]) (map normpath (sd_excl_files i)))) (w_files w)).

  Definition sitem_dests (i : sitem) : list cpath :=
    cleanp (gdp (sd_path i)) :: flat_map (wstep_dests (gdp (sd_path i)) i) (sd_walk i).
  Definition fitem_dests (i : fitem) : list cpath := [cleanp (fitem_outname destdir fullprefix i)].
  Definition eitem_dests (e : eitem) : list cpath := [cleanp (gdp (e_path e))].
  Definition litem_dests (l : litem) : list cpath := [cleanp (gdp (l_name l)); cleanp (gdp (l_path l))].

  (* every location named by a rule that is selected by --tags / --skip-subprojects *)
  Definition planned (pl : plan) : list cpath :=
    flat_map sitem_dests (sel sd_sub sd_tag (p_subdirs pl))
    ++ flat_map fitem_dests (sel fi_sub fi_tag (all_fitems pl))
    ++ flat_map eitem_dests (sel e_sub e_tag (p_emptydirs pl))
    ++ flat_map litem_dests (sel l_sub l_tag (p_symlinks pl)).
End Planned.

Definition planned_of (o : opts) (pl : plan) : list cpath :=
  let d := effective_destdir o pl in
  planned (mk_cfg o pl) d (destdir_join d (p_prefix pl)) pl.

(* ------------------------------------------------------------------ the guard of the log / uninstall theorems *)
(* as wf_plan, and in addition no '.' component, an absolute prefix, DESTDIR absolute or unset *)
Definition ndot (p : path) : bool := forallb (fun c => negb (is_dot c) && negb (is_dotdot c)) p.
Definition wf_sitem_s (i : sitem) : bool := ndot (sd_path i) && forallb wf_wstep (sd_walk i).
Definition wf_fitem_s (i : fitem) : bool :=
  ndot (fi_path i) && negb (is_dot (fi_srcname i)) && negb (is_dotdot (fi_srcname i)).
Definition wf_eitem_s (e : eitem) : bool := ndot (e_path e).
Definition wf_litem_s (l : litem) : bool := ndot (l_name l) && ndot (l_path l).

Definition wf_plan_strict (o : opts) (pl : plan) : bool :=
  ndot (p_prefix pl) && isabs (p_prefix pl)
  && ndot (effective_destdir o pl) && (isabs (effective_destdir o pl) || is_empty_path (effective_destdir o pl))
  && forallb wf_sitem_s (p_subdirs pl) && forallb wf_fitem_s (all_fitems pl)
  && forallb wf_eitem_s (p_emptydirs pl) && forallb wf_litem_s (p_symlinks pl).
