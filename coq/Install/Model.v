(* Install/Model.v — executable model of `meson install` (mesonbuild/minstall.py) and of
   the uninstall script (mesonbuild/scripts/uninstall.py).  Model file: no proofs.

   Input of the model is the content of meson-private/install.dat (class InstallData,
   backend/backends.py:1748-1777) together with a snapshot of the source files it names,
   and the destination filesystem.  Source files are regular files (or missing); source
   directories are given as their os.walk() sequence.  Not modelled: strip, rpath fixing,
   .js/.wasm and stamp-file targets, directory targets, chown, SELinux, install scripts,
   symbolic links among the *sources*, privilege elevation. *)
From MV Require Import Base.Strs Install.Tree.
Open Scope N_scope.

(* ------------------------------------------------------------------ the plan *)
Inductive srcfile :=
| SReg (mode mtime : N) (digest : str)     (* regular file *)
| SMissing                                  (* does not exist *)
| SOther                                    (* exists, neither a file nor a link (a directory) *)
| SLink (target : str) (tmtime : option N). (* a symbolic link that is installed as a link (follow_symlinks: false, or
                                               dangling); tmtime = st_mtime of what it points to, None = dangling.
                                               A link that is followed (follow_symlinks true / default) is given as the
                                               SReg of its target *)

Inductive fkind := KTarget | KHeader | KMan | KData.

(* TargetInstallData / InstallDataBase *)
Record fitem := mkFitem {
  fi_kind : fkind;
  fi_src : srcfile;
  fi_srcname : str;            (* os.path.basename of the source path *)
  fi_path : path;              (* outdir (targets), install_path (others) *)
  fi_mode : option N;          (* install_mode.perms when perms_s is given *)
  fi_sub : str;                (* subproject *)
  fi_tag : option str;
  fi_optional : bool           (* targets only *)
}.

(* InstallEmptyDir *)
Record eitem := mkEitem { e_path : path; e_mode : option N; e_sub : str; e_tag : option str }.

(* InstallSymlinkData *)
Record litem := mkLitem { l_target : str; l_name : path; l_path : path; l_sub : str; l_tag : option str }.

(* one (root, dirs, files) triple of os.walk(src_dir); w_rel = root relative to src_dir *)
Record wstep := mkWstep {
  w_rel : list str;
  w_mode : N;                                 (* st_mode of root *)
  w_dirs : list (str * N);                    (* name, mode *)
  w_files : list (str * srcfile)              (* name, regular file or symbolic link *)
}.

(* SubdirInstallData *)
Record sitem := mkSitem {
  sd_walk : list wstep;
  sd_path : path;              (* install_path (absolute: prefix joined at configure time) *)
  sd_excl_files : list path;
  sd_excl_dirs : list path;
  sd_mode : option N;
  sd_sub : str;
  sd_tag : option str
}.

Record plan := mkPlan {
  p_prefix : path;
  p_umask : option N;          (* install_umask; None = 'preserve' *)
  p_build_dir : path;
  p_subdirs : list sitem;
  p_targets : list fitem;
  p_headers : list fitem;
  p_man : list fitem;
  p_emptydirs : list eitem;
  p_data : list fitem;
  p_symlinks : list litem
}.

(* command line of one `meson install` *)
Record opts := mkOpts {
  o_dry : bool;                (* --dry-run *)
  o_only_changed : bool;       (* --only-changed *)
  o_tags : option str;         (* --tags *)
  o_skip : str;                (* --skip-subprojects, default '' *)
  o_destdir : path;            (* --destdir / $DESTDIR; '' = none *)
  o_inherited_umask : N        (* umask of the calling process *)
}.

Record cfg := mkCfg {
  c_dry : bool;
  c_only_changed : bool;
  c_tags : option (list str);
  c_skip : list str;
  c_umask : option N;          (* d.install_umask *)
  c_procmask : N               (* the process umask while installing *)
}.

(* ------------------------------------------------------------------ state monad *)
Inductive logline :=
| LHeader                      (* the two '# ...' lines written by run() *)
| LPreserved (p : path)        (* '# Preserving old file <p>' *)
| LPath (p : path).

Record st := mkSt { s_fs : fs; s_log : list logline; s_dirs : list path }.

Definition M (A : Type) := st -> st * res A.
Definition ret {A} (a : A) : M A := fun s => (s, Ok a).
Definition fail {A} (e : err) : M A := fun s => (s, Err e).
Definition bind {A B} (m : M A) (k : A -> M B) : M B :=
  fun s => match m s with
           | (s', Ok a) => k a s'
           | (s', Err e) => (s', Err e)
           end.
Notation "x <- m ;; k" := (bind m (fun x => k)) (at level 61, m at next level, right associativity).
Notation "m ;;; k" := (bind m (fun _ => k)) (at level 61, right associativity).

Definition query {A} (q : fs -> res A) : M A := fun s => (s, q (s_fs s)).
Definition with_fs (s : st) (f : fs) : st := mkSt f (s_log s) (s_dirs s).
(* the dry-run wrappers, minstall.py:326-372: every mutating call is skipped *)
Definition mutate (c : cfg) (m : fs -> res fs) : M unit :=
  fun s => if c_dry c then (s, Ok tt)
           else match m (s_fs s) with
                | Ok f' => (with_fs s f', Ok tt)
                | Err e => (s, Err e)
                end.
(* append_to_log, minstall.py:137-141 *)
Definition log (l : logline) : M unit :=
  fun s => (mkSt (s_fs s) (s_log s ++ [l]) (s_dirs s), Ok tt).

Fixpoint forM_ {A} (l : list A) (f : A -> M unit) : M unit :=
  match l with
  | [] => ret tt
  | x :: r => f x ;;; forM_ r f
  end.

(* ------------------------------------------------------------------ os.makedirs *)
(* Lib/os.py makedirs(name, mode=0o777, exist_ok):
     head, tail = path.split(name)
     if not tail: head, tail = path.split(head)
     if head and tail and not path.exists(head):
         try: makedirs(head, exist_ok=exist_ok)
         except FileExistsError: pass
         if tail == curdir: return
     try: mkdir(name, mode)
     except OSError:
         if not exist_ok or not path.isdir(name): raise                         *)
Definition try_mkdir (um : N) (f : fs) (name : path) (exist_ok : bool) : fs * res unit :=
  match m_mkdir f name (N.ldiff 511 um) with
  | Ok f2 => (f2, Ok tt)
  | Err (EFail c) =>
      if negb exist_ok then (f, Err (EFail c))
      else match q_isdir f name with
           | Ok true => (f, Ok tt)
           | Ok false => (f, Err (EFail c))
           | Err e => (f, Err e)
           end
  | Err e => (f, Err e)
  end.

Fixpoint os_makedirs (fuel : nat) (um : N) (f : fs) (name : path) (exist_ok : bool) : fs * res unit :=
  match fuel with
  | O => (f, Err (EFail c_fuel))
  | S k =>
      let head0 := dirname name in
      let tail0 := basename name in
      let head := if is_empty_s tail0 then dirname head0 else head0 in
      let tail := if is_empty_s tail0 then basename head0 else tail0 in
      if negb (is_empty_path head) && negb (is_empty_s tail) then
        match q_exists f head with
        | Err e => (f, Err e)
        | Ok true => try_mkdir um f name exist_ok
        | Ok false =>
            let '(f1, r) := os_makedirs k um f head exist_ok in
            let continue := if is_dot tail then (f1, Ok tt) else try_mkdir um f1 name exist_ok in
            match r with
            | Ok _ => continue
            | Err (EFail c) => if c =? c_exists then continue else (f1, r)
            | Err _ => (f1, r)
            end
        end
      else try_mkdir um f name exist_ok
  end.

(* ------------------------------------------------------------------ DirMaker, minstall.py:91-126 *)
(* the while loop of DirMaker.makedirs: walk up from normpath(path) collecting the
   directories that do not exist yet; result is parent-before-child *)
Fixpoint dm_scan (fuel : nat) (f : fs) (recorded : list path) (dn : path) (acc : list path)
  : res (list path) :=
  match fuel with
  | O => Err (EFail c_fuel)
  | S k =>
      if cp_eqb dn (dirname dn) then Ok acc
      else if cp_mem dn recorded then Ok acc
      else match q_exists f dn with
           | Err e => Err e
           | Ok e => dm_scan k f recorded (dirname dn) (if e then acc else dn :: acc)
           end
  end.

Definition dm_makedirs (c : cfg) (p : path) (exist_ok : bool) : M unit :=
  fun s =>
    let dn := normpath p in
    match dm_scan (S (length dn)) (s_fs s) (s_dirs s) dn [] with
    | Err e => (s, Err e)
    | Ok newdirs =>
        if c_dry c then (mkSt (s_fs s) (s_log s) (s_dirs s ++ newdirs), Ok tt)
        else match os_makedirs (S (length p)) (c_procmask c) (s_fs s) p exist_ok with
             | (f', Ok _) => (mkSt f' (s_log s) (s_dirs s ++ newdirs), Ok tt)
             | (f', Err e) => (with_fs s f', Err e)
             end
    end.

(* ------------------------------------------------------------------ permissions, minstall.py:206-247 *)
(* sanitize_permissions(path, umask) *)
Definition sanitize_raw (c : cfg) (p : path) : M unit :=
  match c_umask c with
  | None => ret tt                                                  (* 'preserve' *)
  | Some um =>
      n <- query (fun f => lnode f p) ;;
      match n with
      | None => fail (EFail c_noent)                                (* os.stat fails *)
      | Some nd => mutate c (fun f => m_chmod f p (N.ldiff (if node_exec nd then 511 else 438) um))
      end
  end.
(* Installer.sanitize_permissions / Installer.set_mode: `if not self.dry_run` *)
Definition sanitize (c : cfg) (p : path) : M unit :=
  if c_dry c then ret tt else sanitize_raw c p.
Definition set_mode (c : cfg) (p : path) (mode : option N) : M unit :=
  if c_dry c then ret tt
  else match mode with
       | None => sanitize_raw c p
       | Some m => mutate c (fun f => m_chmod f p m)
       end.

(* ------------------------------------------------------------------ should_install, minstall.py:389-396 *)
Fixpoint split_on_aux (sep : char) (s : str) (cur : str) : list str :=
  match s with
  | [] => [rev cur]
  | x :: r => if x =? sep then rev cur :: split_on_aux sep r [] else split_on_aux sep r (x :: cur)
  end.
Definition split_on (sep : char) (s : str) : list str := split_on_aux sep s [].

(* Installer.__init__, minstall.py:323-324 *)
Definition parse_skip (raw : str) : list str := map strip (split_on 44 raw).
Definition parse_tags (raw : option str) : option (list str) :=
  match raw with
  | None => None
  | Some [] => None
  | Some r => Some (map strip (split_on 44 r))
  end.

Definition should_install (c : cfg) (sub : str) (tag : option str) : bool :=
  if negb (is_empty_s sub) && (str_mem sub (c_skip c) || str_mem [42] (c_skip c)) then false
  else match c_tags c with
       | Some (t0 :: ts) => match tag with
                            | Some t => str_mem t (t0 :: ts)
                            | None => false
                            end
       | _ => true
       end.

(* ------------------------------------------------------------------ get_destdir_path, minstall.py:277-282 *)
Definition get_destdir_path (destdir fullprefix p : path) : path :=
  if isabs p then destdir_join destdir p else pjoin fullprefix p.

(* ------------------------------------------------------------------ do_copyfile, minstall.py:412-450 *)
(* os.stat(from_file).st_mtime; None: 'Always replace dangling symlinks' (minstall.py:405-407) *)
Definition src_mtime (src : srcfile) : option N :=
  match src with SReg _ t _ => Some t | SLink _ tm => tm | _ => None end.
(* minstall.py:441-451: copy2 of a regular file (or of a followed link); for a link installed as a link
   shutil.copy/copy2(..., follow_symlinks=False) = os.symlink(os.readlink(src), dst) - the permission bits of a
   link cannot be set on Linux, copystat skips them *)
Definition src_create (src : srcfile) (to_file : path) (f : fs) : res fs :=
  match src with
  | SReg m t d => m_write f to_file m t d
  | SLink tg _ => m_symlink f to_file tg
  | _ => Err (EFail c_meson)
  end.

Definition copy_to (c : cfg) (src : srcfile) (to_file : path) (mk : option path) : M bool :=
      (* fix cc025f2: a symbolic link in the way is removed first *)
      il <- query (fun f => q_islink f to_file) ;;
      (if il : bool then mutate c (fun f => m_unlink f to_file) else ret tt) ;;;
      e <- query (fun f => q_exists f to_file) ;;
      go <- (if e : bool then
               isf <- query (fun f => q_isfile f to_file) ;;
               if negb isf then fail (EFail c_meson)
               else
                 n <- query (fun f => lnode f to_file) ;;
                 (* should_preserve_existing_file, minstall.py:402-410 *)
                 if c_only_changed c && match n, src_mtime src with
                                        | Some (NFile _ t _), Some smtime => smtime <=? t
                                        | _, _ => false
                                        end
                 then log (LPreserved to_file) ;;; ret false
                 else mutate c (fun f => m_unlink f to_file) ;;; ret true
             else
               match mk with
               | Some outdir => dm_makedirs c outdir true
               | None => ret tt
               end ;;; ret true) ;;
      if go : bool then
        mutate c (src_create src to_file) ;;;      (* copy2 / symlink *)
        log (LPath to_file) ;;;
        ret true
      else ret false.

Definition do_copyfile (c : cfg) (src : srcfile) (to_file : path) (mk : option path) : M bool :=
  match src with
  | SReg _ _ _ => copy_to c src to_file mk
  | SLink _ _ => copy_to c src to_file mk      (* a dangling link is re-created under its own name: same location
                                                  whenever the destination keeps the source's name (always in install_subdir) *)
  | _ => fail (EFail c_meson)         (* 'Tried to install something that isn't a file' *)
  end.

(* ------------------------------------------------------------------ do_symlink, minstall.py:452-473 *)
Definition try_symlink (c : cfg) (link : path) (target : str) : M bool :=
  fun s => if c_dry c then (s, Ok true)
           else match m_symlink (s_fs s) link target with
                | Ok f' => (with_fs s f', Ok true)
                | Err (EFail _) => (s, Ok false)          (* except (NotImplementedError, OSError) *)
                | Err e => (s, Err e)
                end.

Definition do_symlink (c : cfg) (target : str) (link : path) : M bool :=
  le <- query (fun f => q_lexists f link) ;;
  (if le : bool then
     il <- query (fun f => q_islink f link) ;;
     if negb il then fail (EFail c_meson) else mutate c (fun f => m_unlink f link)
   else ret tt) ;;;
  r <- try_symlink c link target ;;
  if r : bool then log (LPath link) ;;; ret true else ret false.

(* ------------------------------------------------------------------ do_copydir, minstall.py:475-546 *)
Definition prefixes_of (l : list str) : list (list str) :=
  map (fun k => firstn k l) (seq 1 (length l)).
(* the walk reaches a directory unless one of its ancestors (or itself) was removed from `dirs` *)
Definition pruned (excl_dirs : list path) (rel : list str) : bool :=
  existsb (fun p => cp_mem p excl_dirs) (prefixes_of rel).

(* The dirs loop, in the order of the code (minstall.py:512-530): a directory listed in exclude_directories is
   removed from `dirs` - so os.walk never enters it - BEFORE anything at the destination is looked at; only then
   "already a directory there -> continue", "something else there -> exit", create.  Because the exclusion test
   does not depend on the destination, the set of walk steps that os.walk still yields is `pruned` above, a
   function of the exclude list alone; an implementation that consults the destination first would disagree
   with this model as soon as the excluded directory exists there. *)
Definition copydir_dir (c : cfg) (dst_dir : path) (excl_dirs : list path) (rel : list str)
           (d : str * N) : M unit :=
  let filepart := rel ++ [fst d] in
  let abs_dst := pjoin dst_dir filepart in
  if cp_mem filepart excl_dirs then ret tt
  else
    isd <- query (fun f => q_isdir f abs_dst) ;;
    if isd : bool then ret tt
    else
      ex <- query (fun f => q_exists f abs_dst) ;;
      if ex : bool then fail (EFail c_exit)
      else
        dm_makedirs c abs_dst false ;;;
        mutate c (fun f => m_chmod f abs_dst (snd d)) ;;;       (* copystat *)
        sanitize c abs_dst.

Definition copydir_file (c : cfg) (dst_dir : path) (excl_files : list path) (mode : option N)
           (rel : list str) (rootmode : N) (e : str * srcfile) : M unit :=
  let filepart := rel ++ [fst e] in
  if cp_mem filepart excl_files then ret tt
  else
    let abs_dst := pjoin dst_dir filepart in
    isd <- query (fun f => q_isdir f abs_dst) ;;
    if isd : bool then fail (EFail c_exit)
    else
      let parent_dir := dirname abs_dst in
      pd <- query (fun f => q_isdir f parent_dir) ;;
      (if pd : bool then ret tt
       else dm_makedirs c parent_dir false ;;;
            mutate c (fun f => m_chmod f parent_dir rootmode)) ;;;
      _ <- do_copyfile c (snd e) abs_dst None ;;
      set_mode c abs_dst mode.

Definition copydir_step (c : cfg) (dst_dir : path) (i : sitem) (w : wstep) : M unit :=
  let excl_files := map normpath (sd_excl_files i) in
  let excl_dirs := map normpath (sd_excl_dirs i) in
  if pruned excl_dirs (w_rel w) then ret tt
  else
    forM_ (w_dirs w) (copydir_dir c dst_dir excl_dirs (w_rel w)) ;;;
    forM_ (w_files w) (copydir_file c dst_dir excl_files (sd_mode i) (w_rel w) (w_mode w)).

Definition do_copydir (c : cfg) (dst_dir : path) (i : sitem) : M unit :=
  if negb (isabs dst_dir) then fail (EFail c_value)
  else forM_ (sd_walk i) (copydir_step c dst_dir i).

(* ------------------------------------------------------------------ the per-kind installers, minstall.py:638-808 *)
Definition install_subdir (c : cfg) (destdir fullprefix : path) (i : sitem) : M unit :=
  if negb (should_install c (sd_sub i) (sd_tag i)) then ret tt
  else
    let full_dst_dir := get_destdir_path destdir fullprefix (sd_path i) in
    dm_makedirs c full_dst_dir true ;;;
    do_copydir c full_dst_dir i.

(* targets and headers: the destination is a directory, the file keeps its name;
   man and data: the destination names the file *)
Definition fitem_outdir (destdir fullprefix : path) (i : fitem) : path :=
  match fi_kind i with
  | KTarget | KHeader => get_destdir_path destdir fullprefix (fi_path i)
  | KMan | KData => dirname (get_destdir_path destdir fullprefix (fi_path i))
  end.
Definition fitem_outname (destdir fullprefix : path) (i : fitem) : path :=
  match fi_kind i with
  | KTarget | KHeader => pjoin (get_destdir_path destdir fullprefix (fi_path i)) [fi_srcname i]
  | KMan | KData => get_destdir_path destdir fullprefix (fi_path i)
  end.

Definition install_fitem (c : cfg) (destdir fullprefix : path) (i : fitem) : M unit :=
  if negb (should_install c (fi_sub i) (fi_tag i)) then ret tt
  else
    let outdir := fitem_outdir destdir fullprefix i in
    let outname := fitem_outname destdir fullprefix i in
    match fi_kind i with
    | KTarget =>
        (* install_targets, minstall.py:754-808 (regular-file outputs) *)
        match fi_src i with
        | SMissing => if fi_optional i then ret tt else fail (EFail c_meson)
        | SOther => fail EOOM                      (* directory output: not modelled *)
        | src =>
            copied <- do_copyfile c src outname (Some outdir) ;;
            if copied : bool then set_mode c outname (fi_mode i) else ret tt
        end
    | _ =>
        (* install_headers / install_man / install_data *)
        _ <- do_copyfile c (fi_src i) outname (Some outdir) ;;
        set_mode c outname (fi_mode i)
    end.

(* install_emptydir, minstall.py:681-692 *)
Definition install_emptydir (c : cfg) (destdir fullprefix : path) (e : eitem) : M unit :=
  if negb (should_install c (e_sub e) (e_tag e)) then ret tt
  else
    let full_dst_dir := get_destdir_path destdir fullprefix (e_path e) in
    isf <- query (fun f => q_isfile f full_dst_dir) ;;
    if isf : bool then fail (EFail c_exit)
    else
      dm_makedirs c full_dst_dir true ;;;
      set_mode c full_dst_dir (e_mode e).

(* install_symlinks, minstall.py:660-668 *)
Definition install_symlink (c : cfg) (destdir fullprefix : path) (l : litem) : M unit :=
  if negb (should_install c (l_sub l) (l_tag l)) then ret tt
  else
    let full_dst_dir := get_destdir_path destdir fullprefix (l_path l) in
    let full_link_name := get_destdir_path destdir fullprefix (l_name l) in
    dm_makedirs c full_dst_dir true ;;;
    _ <- do_symlink c (l_target l) full_link_name ;;
    ret tt.

(* ------------------------------------------------------------------ do_install, minstall.py:548-583 *)
Definition mk_cfg (o : opts) (pl : plan) : cfg :=
  mkCfg (o_dry o) (o_only_changed o) (parse_tags (o_tags o)) (parse_skip (o_skip o))
        (p_umask pl)
        (match p_umask pl with Some u => u | None => o_inherited_umask o end).

(* destdir = options.destdir or $DESTDIR; made absolute against the build directory *)
Definition effective_destdir (o : opts) (pl : plan) : path :=
  let d := o_destdir o in
  if is_empty_path d then [[]]
  else if isabs d then d else pjoin (p_build_dir pl) d.

Definition run_install (c : cfg) (pl : plan) (destdir : path) : M unit :=
  let fullprefix := destdir_join destdir (p_prefix pl) in
  forM_ (p_subdirs pl) (install_subdir c destdir fullprefix) ;;;
  forM_ (p_targets pl) (install_fitem c destdir fullprefix) ;;;
  forM_ (p_headers pl) (install_fitem c destdir fullprefix) ;;;
  forM_ (p_man pl) (install_fitem c destdir fullprefix) ;;;
  forM_ (p_emptydirs pl) (install_emptydir c destdir fullprefix) ;;;
  forM_ (p_data pl) (install_fitem c destdir fullprefix) ;;;
  forM_ (p_symlinks pl) (install_symlink c destdir fullprefix).

(* run(), minstall.py:877-901 + DirMaker.__exit__: the log that is left behind *)
Definition final_log (s : st) : list logline := s_log s ++ map LPath (rev (s_dirs s)).

Definition do_install (o : opts) (pl : plan) (f : fs) : fs * list logline * res unit :=
  let '(s, r) := run_install (mk_cfg o pl) pl (effective_destdir o pl) (mkSt f [LHeader; LHeader] []) in
  (s_fs s, final_log s, r).

(* ------------------------------------------------------------------ uninstall, scripts/uninstall.py:11-31 *)
(* With the pending fix C11-uninstall-strip applied: fname = line.rstrip('\n').
   A line is skipped when it starts with '#'.  Failures are counted, not raised. *)
Definition is_comment (l : logline) : bool :=
  match l with
  | LPath ((35 :: _) :: _) => true
  | LPath _ => false
  | _ => true
  end.

Definition uninstall_line (f : fs) (l : logline) : res fs :=
  match l with
  | LPath p =>
      if is_comment l then Ok f
      else match lnode f p with
           | Err e => Err e
           | Ok (Some (NDir _)) => match m_rmdir f p with Ok f' => Ok f' | Err EOOM => Err EOOM | Err _ => Ok f end
           | Ok _ => match m_unlink f p with Ok f' => Ok f' | Err EOOM => Err EOOM | Err _ => Ok f end
           end
  | _ => Ok f
  end.

Fixpoint do_uninstall (f : fs) (lg : list logline) : fs * res unit :=
  match lg with
  | [] => (f, Ok tt)
  | l :: r => match uninstall_line f l with
              | Ok f' => do_uninstall f' r
              | Err e => (f, Err e)
              end
  end.

(* ------------------------------------------------------------------ histories *)
Inductive cmd := CInstall (o : opts) | CUninstall.

Record hst := mkHst { h_fs : fs; h_log : option (list logline) }.

Definition step (pl : plan) (h : hst) (cm : cmd) : hst * res unit :=
  match cm with
  | CInstall o => let '(f, lg, r) := do_install o pl (h_fs h) in (mkHst f (Some lg), r)
  | CUninstall =>
      match h_log h with
      | None => (h, Ok tt)           (* 'Log file does not exist, no installation has been done.' *)
      | Some lg => let '(f, r) := do_uninstall (h_fs h) lg in (mkHst f (h_log h), r)
      end
  end.
