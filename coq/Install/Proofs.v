(* Install/Proofs.v — theorems about the installer model (Install/Model.v).
   Part 1: generic reasoning about the state monad; the footprint ("touch") of an
   installation; containment under DESTDIR; dry-run; nothing beyond the plan. *)
From MV Require Import Base.Strs Base.LexFacts Install.Tree Install.TreeFacts Install.Model.
From Coq Require Import Lia.
Open Scope N_scope.

(* ------------------------------------------------------------------ the state monad *)
Section Pres.
  (* a relation between filesystems that every step maintains *)
  Variable Rf : fs -> fs -> Prop.
  Hypothesis Rf_refl : forall f, Rf f f.
  Hypothesis Rf_trans : forall a b c, Rf a b -> Rf b c -> Rf a c.

  Definition pres {A} (m : M A) : Prop := forall s s' r, m s = (s', r) -> Rf (s_fs s) (s_fs s').

  Lemma pres_ret {A} (a : A) : pres (ret a).
  Proof. intros s s' r H. inversion H. apply Rf_refl. Qed.
  Lemma pres_fail {A} e : pres (@fail A e).
  Proof. intros s s' r H. inversion H. apply Rf_refl. Qed.
  Lemma pres_bind {A B} (m : M A) (k : A -> M B) : pres m -> (forall a, pres (k a)) -> pres (bind m k).
  Proof.
    intros Hm Hk s s' r H. unfold bind in H. destruct (m s) as [s1 [a|e]] eqn:E.
    - eapply Rf_trans; [eapply Hm; exact E | eapply Hk; exact H].
    - inversion H; subst. eapply Hm. exact E.
  Qed.
  Lemma pres_query {A} (q : fs -> res A) : pres (query q).
  Proof. intros s s' r H. inversion H. apply Rf_refl. Qed.
  Lemma pres_log l : pres (log l).
  Proof. intros s s' r H. inversion H. simpl. apply Rf_refl. Qed.
  Lemma pres_mutate c (m : fs -> res fs) :
    (forall f f', m f = Ok f' -> Rf f f') -> pres (mutate c m).
  Proof.
    intros Hm s s' r H. unfold mutate in H. destruct (c_dry c); [inversion H; apply Rf_refl|].
    destruct (m (s_fs s)) eqn:E; inversion H; subst; simpl; [apply Hm; exact E | apply Rf_refl].
  Qed.
  Lemma pres_mutate' c (m : fs -> res fs) :
    (c_dry c = false -> forall f f', m f = Ok f' -> Rf f f') -> pres (mutate c m).
  Proof.
    intros Hm s s' r H. unfold mutate in H. destruct (c_dry c) eqn:D; [inversion H; apply Rf_refl|].
    destruct (m (s_fs s)) eqn:E; inversion H; subst; simpl; [apply (Hm eq_refl); exact E | apply Rf_refl].
  Qed.
  Lemma pres_forM {A} (l : list A) (f : A -> M unit) : (forall x, In x l -> pres (f x)) -> pres (forM_ l f).
  Proof.
    induction l as [|x l IH]; intros H; simpl; [apply pres_ret|].
    apply pres_bind; [apply H; left; reflexivity | intros _; apply IH; intros y Hy; apply H; right; exact Hy].
  Qed.
End Pres.

Ltac pres_step :=
  match goal with
  | |- pres _ (ret _) => apply pres_ret; assumption
  | |- pres _ (fail _) => apply pres_fail; assumption
  | |- pres _ (query _) => apply pres_query; assumption
  | |- pres _ (log _) => apply pres_log; assumption
  | |- pres _ (bind _ _) => apply pres_bind; [assumption | | intros ?]
  | |- pres _ (if ?b then _ else _) => destruct b eqn:?
  | |- pres _ (match ?x with _ => _ end) => destruct x eqn:?
  end.

(* ------------------------------------------------------------------ footprints *)
(* touch U f f': between f and f' only locations in U changed, except that missing
   ancestors of a location in U may have been created as directories *)
Definition touch (U : cpath -> Prop) (f f' : fs) : Prop :=
  forall q, lookup f' q = lookup f q \/ U q \/
            (lookup f q = None /\ (exists m, lookup f' q = Some (NDir m)) /\ exists w, U w /\ is_prefix q w).

Lemma touch_refl (U : cpath -> Prop) f : touch U f f.
Proof. intros q. left. reflexivity. Qed.
Lemma touch_trans (U : cpath -> Prop) a b c : touch U a b -> touch U b c -> touch U a c.
Proof.
  intros H1 H2 q. destruct (H2 q) as [E2|[E2|[N2 [D2 W2]]]]; [|right; left; exact E2|].
  - rewrite E2. apply H1.
  - destruct (H1 q) as [E1|[E1|[N1 [[m D1] W1]]]].
    + right. right. rewrite <- E1. auto.
    + right. left. exact E1.
    + rewrite D1 in N2. discriminate.
Qed.

(* only directories on the way to t were created *)
Definition mk_only (t : cpath) (f f' : fs) : Prop :=
  forall q, lookup f' q = lookup f q \/
            (lookup f q = None /\ (exists m, lookup f' q = Some (NDir m)) /\ is_prefix q t /\ q <> []).

Lemma mk_only_refl t f : mk_only t f f.
Proof. intros q. left. reflexivity. Qed.
Lemma mk_only_weaken t t' f f' : is_prefix t t' -> mk_only t f f' -> mk_only t' f f'.
Proof.
  intros P H q. destruct (H q) as [E|[N [D [Q Nq]]]]; [left; exact E|]. right. repeat split; auto.
  eapply is_prefix_trans; eassumption.
Qed.
Lemma mk_only_trans t a b c : mk_only t a b -> mk_only t b c -> mk_only t a c.
Proof.
  intros H1 H2 q. destruct (H2 q) as [E2|[N2 [D2 P2]]].
  - rewrite E2. apply H1.
  - destruct (H1 q) as [E1|[N1 [[m D1] P1]]].
    + right. rewrite <- E1. auto.
    + rewrite D1 in N2. discriminate.
Qed.
Lemma mk_only_touch (U : cpath -> Prop) t f f' : (exists w, U w /\ is_prefix t w) -> mk_only t f f' -> touch U f f'.
Proof.
  intros [w [Uw Pw]] H q. destruct (H q) as [E|[N [D [Q Nq]]]]; [left; exact E|]. right. right.
  repeat split; auto. exists w. split; [exact Uw | eapply is_prefix_trans; eassumption].
Qed.
Lemma chg_touch (U : cpath -> Prop) f f' c : U c -> chg_at f f' c -> touch U f f'.
Proof.
  intros Uc H q. destruct (cp_eqb q c) eqn:E.
  - apply cp_eqb_eq in E. subst. right. left. exact Uc.
  - left. apply H. apply cp_eqb_false. exact E.
Qed.

(* a path argument whose location is in U / on the way to U *)
Definition inU (U : cpath -> Prop) (p : path) : Prop := nodd p = true /\ U (cleanp p).
Definition anc (U : cpath -> Prop) (p : path) : Prop :=
  nodd p = true /\ exists w, U w /\ is_prefix (cleanp p) w.
Lemma inU_anc U p : inU U p -> anc U p.
Proof. intros [H1 H2]. split; [exact H1|]. exists (cleanp p). split; [exact H2 | apply is_prefix_refl]. Qed.
Lemma anc_dirname (U : cpath -> Prop) p : anc U p -> anc U (dirname p).
Proof.
  intros [H1 [w [Uw Pw]]]. split; [apply nodd_dirname; exact H1|]. exists w. split; [exact Uw|].
  eapply is_prefix_trans; [apply cleanp_dirname_prefix | exact Pw].
Qed.

(* ---- the primitive calls *)
Lemma touch_mkdir (U : cpath -> Prop) f p m f' : inU U p -> m_mkdir f p m = Ok f' -> touch U f f'.
Proof.
  intros [Hn Hu] H. apply m_mkdir_spec in H as [c [R [_ [_ C]]]].
  apply resolve_nodd in R; [subst c | exact Hn]. eapply chg_touch; eassumption.
Qed.
Lemma touch_unlink (U : cpath -> Prop) f p f' : inU U p -> m_unlink f p = Ok f' -> touch U f f'.
Proof.
  intros [Hn Hu] H. apply m_unlink_spec in H as [c [R [_ [_ [_ C]]]]].
  apply resolve_nodd in R; [subst c | exact Hn]. eapply chg_touch; eassumption.
Qed.
Lemma touch_write (U : cpath -> Prop) f p m t d f' : inU U p -> m_write f p m t d = Ok f' -> touch U f f'.
Proof.
  intros [Hn Hu] H. apply m_write_spec in H as [c [R [_ [C _]]]].
  apply resolve_nodd in R; [subst c | exact Hn]. eapply chg_touch; eassumption.
Qed.
Lemma touch_symlink (U : cpath -> Prop) f p t f' : inU U p -> m_symlink f p t = Ok f' -> touch U f f'.
Proof.
  intros [Hn Hu] H. apply m_symlink_spec in H as [c [R [_ [_ C]]]].
  apply resolve_nodd in R; [subst c | exact Hn]. eapply chg_touch; eassumption.
Qed.
Lemma touch_chmod (U : cpath -> Prop) f p m f' : inU U p -> m_chmod f p m = Ok f' -> touch U f f'.
Proof.
  intros [Hn Hu] H. apply m_chmod_spec in H as [->|[c [R [C _]]]]; [apply touch_refl|].
  apply resolve_nodd in R; [subst c | exact Hn]. eapply chg_touch; eassumption.
Qed.

(* ---- os.makedirs creates directories on the way to its argument only *)
Lemma try_mkdir_mk_only um f name eo f' r :
  nodd name = true -> try_mkdir um f name eo = (f', r) -> mk_only (cleanp name) f f'.
Proof.
  intros Hn H. unfold try_mkdir in H. destruct (m_mkdir f name (N.ldiff 511 um)) as [f2|e] eqn:E.
  - inversion H; subst. pose proof E as E0. apply m_mkdir_spec in E as [c [R [N [D C]]]].
    pose proof (m_mkdir_nonroot _ _ _ _ _ E0 R) as Nc.
    apply resolve_nodd in R; [subst c | exact Hn]. intros q. destruct (cp_eqb q (cleanp name)) eqn:Q.
    + apply cp_eqb_eq in Q. subst q. right. repeat split; eauto using is_prefix_refl.
    + left. apply C. apply cp_eqb_false. exact Q.
  - assert (f' = f) as ->; [|apply mk_only_refl].
    destruct e; try (inversion H; reflexivity). destruct (negb eo); [inversion H; reflexivity|].
    destruct (q_isdir f name) as [[|]|]; inversion H; reflexivity.
Qed.

Lemma os_makedirs_mk_only fuel : forall um f name eo f' r,
  nodd name = true -> os_makedirs fuel um f name eo = (f', r) -> mk_only (cleanp name) f f'.
Proof.
  induction fuel as [|k IH]; intros um f name eo f' r Hn H; simpl in H.
  - inversion H. apply mk_only_refl.
  - set (head := if is_empty_s (basename name) then dirname (dirname name) else dirname name) in *.
    set (tail := if is_empty_s (basename name) then basename (dirname name) else basename name) in *.
    assert (nodd head = true) as Hh.
    { unfold head. destruct (is_empty_s (basename name)); repeat apply nodd_dirname; exact Hn. }
    assert (is_prefix (cleanp head) (cleanp name)) as Ph.
    { unfold head. destruct (is_empty_s (basename name)).
      - eapply is_prefix_trans; apply cleanp_dirname_prefix.
      - apply cleanp_dirname_prefix. }
    destruct (negb (is_empty_path head) && negb (is_empty_s tail)).
    + destruct (q_exists f head) as [[|]|e].
      * eapply try_mkdir_mk_only; eassumption.
      * destruct (os_makedirs k um f head eo) as [f1 r1] eqn:E.
        apply IH in E; [|exact Hh]. apply (mk_only_weaken _ _ _ _ Ph) in E.
        assert (forall x, (if is_dot tail then (f1, Ok tt) else try_mkdir um f1 name eo) = x -> mk_only (cleanp name) f (fst x)) as G.
        { intros [f2 r2] X. simpl. destruct (is_dot tail).
          - inversion X; subst. exact E.
          - eapply mk_only_trans; [exact E | eapply try_mkdir_mk_only; eassumption]. }
        destruct r1 as [u|[| | |cd]].
        -- apply (G _ H).
        -- inversion H; subst. exact E.
        -- inversion H; subst. exact E.
        -- inversion H; subst. exact E.
        -- destruct (cd =? c_exists); [apply (G _ H) | inversion H; subst; exact E].
      * inversion H. apply mk_only_refl.
    + eapply try_mkdir_mk_only; eassumption.
Qed.

(* ------------------------------------------------------------------ footprint of every model function *)
Section Touch.
  Variable U : cpath -> Prop.
  Variable c : cfg.
  Notation T := (touch U).
  Let Trefl := touch_refl U.
  Let Ttrans := touch_trans U.
  (* in a dry run nothing is required of the paths *)
  Definition nU (p : path) : Prop := c_dry c = false -> inU U p.
  Definition nA (p : path) : Prop := c_dry c = false -> anc U p.
  Lemma nU_nA p : nU p -> nA p.
  Proof. intros H D. apply inU_anc, H, D. Qed.
  Lemma nA_dirname p : nA p -> nA (dirname p).
  Proof. intros H D. apply anc_dirname, H, D. Qed.

  Lemma pres_dm_makedirs p eo : nA p -> pres T (dm_makedirs c p eo).
  Proof.
    intros Ha s s' r H. unfold dm_makedirs in H.
    destruct (dm_scan _ _ _ _ _) as [nd|e]; [|inversion H; apply Trefl].
    destruct (c_dry c) eqn:Edry; [inversion H; apply Trefl|]. destruct (Ha Edry) as [Hn Hw].
    destruct (os_makedirs _ _ _ _ _) as [f' [u|e]] eqn:E; inversion H; subst; simpl;
      (eapply mk_only_touch; [exact Hw | eapply os_makedirs_mk_only; eassumption]).
  Qed.

  Lemma pres_sanitize_raw p : nU p -> pres T (sanitize_raw c p).
  Proof.
    intros Hp. unfold sanitize_raw. repeat pres_step.
    apply pres_mutate'; [assumption|]. intros Edry f f'. apply touch_chmod. exact (Hp Edry).
  Qed.
  Lemma pres_sanitize p : nU p -> pres T (sanitize c p).
  Proof. intros Hp. unfold sanitize. pres_step; [pres_step | apply pres_sanitize_raw; exact Hp]. Qed.
  Lemma pres_set_mode p mode : nU p -> pres T (set_mode c p mode).
  Proof.
    intros Hp. unfold set_mode. repeat pres_step.
    - apply pres_mutate'; [assumption|]. intros Edry f f'. apply touch_chmod. exact (Hp Edry).
    - apply pres_sanitize_raw. exact Hp.
  Qed.

  Lemma pres_copy_to src to_file mk :
    nU to_file -> (forall od, mk = Some od -> nA od) -> pres T (copy_to c src to_file mk).
  Proof.
    intros Hp Hmk. unfold copy_to.
    apply pres_bind; [assumption | apply pres_query; assumption | intros il].
    apply pres_bind; [assumption | | intros _].
    { destruct il; [|apply pres_ret; assumption].
      apply pres_mutate'; [assumption|]. intros Edry f f'. apply touch_unlink. exact (Hp Edry). }
    apply pres_bind; [assumption | apply pres_query; assumption | intros e].
    apply pres_bind; [assumption | | intros go].
    - destruct e.
      + repeat pres_step. apply pres_mutate'; [assumption|]. intros Edry f f'. apply touch_unlink. exact (Hp Edry).
      + apply pres_bind; [assumption | | intros; apply pres_ret; assumption].
        destruct mk as [od|]; [apply pres_dm_makedirs, Hmk; reflexivity | apply pres_ret; assumption].
    - destruct go; [|apply pres_ret; assumption].
      repeat pres_step. apply pres_mutate'; [assumption|]. intros Edry f f' Hc. unfold src_create in Hc.
      destruct src; try discriminate; [eapply touch_write | eapply touch_symlink]; eauto.
  Qed.

  Lemma pres_do_copyfile src to_file mk :
    nU to_file -> (forall od, mk = Some od -> nA od) -> pres T (do_copyfile c src to_file mk).
  Proof.
    intros Hp Hmk. unfold do_copyfile.
    destruct src; try (apply pres_fail; assumption); apply pres_copy_to; assumption.
  Qed.

  Lemma pres_try_symlink link target : nU link -> pres T (try_symlink c link target).
  Proof.
    intros Hp s s' r H. unfold try_symlink in H. destruct (c_dry c) eqn:Edry; [inversion H; apply Trefl|].
    destruct (m_symlink (s_fs s) link target) as [f'|e] eqn:E.
    - inversion H; subst. simpl. eapply touch_symlink; [exact (Hp Edry) | eassumption].
    - destruct e; inversion H; apply Trefl.
  Qed.
  Lemma pres_do_symlink target link : nU link -> pres T (do_symlink c target link).
  Proof.
    intros Hp. unfold do_symlink.
    apply pres_bind; [assumption | apply pres_query; assumption | intros le].
    apply pres_bind; [assumption | | intros _].
    - destruct le; [|apply pres_ret; assumption]. repeat pres_step.
      apply pres_mutate'; [assumption|]. intros Edry f f'. apply touch_unlink. exact (Hp Edry).
    - apply pres_bind; [assumption | apply pres_try_symlink; exact Hp | intros r].
      destruct r; repeat pres_step.
  Qed.

  Lemma pres_copydir_dir dst_dir excl rel d :
    (cp_mem (rel ++ [fst d]) excl = false -> nU (pjoin dst_dir (rel ++ [fst d]))) ->
    pres T (copydir_dir c dst_dir excl rel d).
  Proof.
    intros Hp. unfold copydir_dir. destruct (cp_mem _ _); [apply pres_ret; assumption|]. specialize (Hp eq_refl).
    repeat pres_step.
    - apply pres_dm_makedirs, nU_nA, Hp.
    - apply pres_mutate'; [assumption|]. intros Edry f f'. apply touch_chmod. exact (Hp Edry).
    - apply pres_sanitize. exact Hp.
  Qed.

  Lemma pres_copydir_file dst_dir excl mode rel rootmode e :
    (cp_mem (rel ++ [fst e]) excl = false ->
     nU (pjoin dst_dir (rel ++ [fst e])) /\ nU (dirname (pjoin dst_dir (rel ++ [fst e])))) ->
    pres T (copydir_file c dst_dir excl mode rel rootmode e).
  Proof.
    intros H. unfold copydir_file. destruct (cp_mem _ _); [apply pres_ret; assumption|].
    destruct (H eq_refl) as [Hp Hd].
    apply pres_bind; [assumption | apply pres_query; assumption | intros isd].
    destruct isd; [apply pres_fail; assumption|].
    apply pres_bind; [assumption | apply pres_query; assumption | intros pd].
    apply pres_bind; [assumption | | intros _].
    - destruct pd; [apply pres_ret; assumption|].
      apply pres_bind; [assumption | apply pres_dm_makedirs, nU_nA, Hd | intros _].
      apply pres_mutate'; [assumption|]. intros Edry f f'. apply touch_chmod. exact (Hd Edry).
    - apply pres_bind; [assumption | | intros _; apply pres_set_mode; exact Hp].
      apply pres_do_copyfile; [exact Hp | discriminate].
  Qed.

  (* what a subdir item may touch: the entries that are neither excluded nor pruned *)
  Definition sitem_ok (dst_dir : path) (i : sitem) : Prop :=
    forall w, In w (sd_walk i) -> pruned (map normpath (sd_excl_dirs i)) (w_rel w) = false ->
      (forall d, In d (w_dirs w) -> cp_mem (w_rel w ++ [fst d]) (map normpath (sd_excl_dirs i)) = false ->
                 nU (pjoin dst_dir (w_rel w ++ [fst d]))) /\
      (forall e, In e (w_files w) -> cp_mem (w_rel w ++ [fst e]) (map normpath (sd_excl_files i)) = false ->
                 nU (pjoin dst_dir (w_rel w ++ [fst e])) /\
                 nU (dirname (pjoin dst_dir (w_rel w ++ [fst e])))).

  Lemma pres_do_copydir dst_dir i : sitem_ok dst_dir i -> pres T (do_copydir c dst_dir i).
  Proof.
    intros Hok. unfold do_copydir. destruct (negb (isabs dst_dir)); [apply pres_fail; assumption|].
    apply pres_forM; [assumption | assumption |]. intros w Hw.
    unfold copydir_step. destruct (pruned _ _) eqn:Pr; [apply pres_ret; assumption|].
    destruct (Hok w Hw Pr) as [Hd Hf].
    apply pres_bind; [assumption | | intros _].
    - apply pres_forM; [assumption | assumption |]. intros d Hin. apply pres_copydir_dir. apply Hd. exact Hin.
    - apply pres_forM; [assumption | assumption |]. intros e Hin. apply pres_copydir_file. apply Hf. exact Hin.
  Qed.

  Variables destdir fullprefix : path.
  Notation gdp := (get_destdir_path destdir fullprefix).

  Definition sitem_plan_ok (i : sitem) : Prop :=
    should_install c (sd_sub i) (sd_tag i) = true -> nA (gdp (sd_path i)) /\ sitem_ok (gdp (sd_path i)) i.
  Definition fitem_plan_ok (i : fitem) : Prop :=
    should_install c (fi_sub i) (fi_tag i) = true ->
    nU (fitem_outname destdir fullprefix i) /\ nA (fitem_outdir destdir fullprefix i).
  Definition eitem_plan_ok (e : eitem) : Prop :=
    should_install c (e_sub e) (e_tag e) = true -> nU (gdp (e_path e)).
  Definition litem_plan_ok (l : litem) : Prop :=
    should_install c (l_sub l) (l_tag l) = true -> nA (gdp (l_path l)) /\ nU (gdp (l_name l)).

  Lemma pres_install_subdir i : sitem_plan_ok i -> pres T (install_subdir c destdir fullprefix i).
  Proof.
    intros Hok. unfold install_subdir. destruct (should_install _ _ _) eqn:Esh; [|apply pres_ret; assumption].
    destruct (Hok Esh) as [Ha Hs]. cbv zeta.
    apply pres_bind; [assumption | apply pres_dm_makedirs; exact Ha | intros _; apply pres_do_copydir; exact Hs].
  Qed.
  Lemma pres_install_fitem i : fitem_plan_ok i -> pres T (install_fitem c destdir fullprefix i).
  Proof.
    intros Hok. unfold install_fitem. destruct (should_install _ _ _) eqn:Esh; [|apply pres_ret; assumption].
    destruct (Hok Esh) as [Hn Hd]. cbv zeta.
    assert (forall src, pres T (do_copyfile c src (fitem_outname destdir fullprefix i) (Some (fitem_outdir destdir fullprefix i)))) as Hc.
    { intros src. apply pres_do_copyfile; [exact Hn|]. intros od E. inversion E; subst. exact Hd. }
    destruct (fi_kind i).
    - destruct (fi_src i) eqn:Es.
      + apply pres_bind; [assumption | apply Hc | intros cp]. destruct cp; [apply pres_set_mode; exact Hn | apply pres_ret; assumption].
      + destruct (fi_optional i); [apply pres_ret | apply pres_fail]; assumption.
      + apply pres_fail; assumption.
      + apply pres_bind; [assumption | apply Hc | intros cp]. destruct cp; [apply pres_set_mode; exact Hn | apply pres_ret; assumption].
    - apply pres_bind; [assumption | apply Hc | intros _; apply pres_set_mode; exact Hn].
    - apply pres_bind; [assumption | apply Hc | intros _; apply pres_set_mode; exact Hn].
    - apply pres_bind; [assumption | apply Hc | intros _; apply pres_set_mode; exact Hn].
  Qed.
  Lemma pres_install_emptydir e : eitem_plan_ok e -> pres T (install_emptydir c destdir fullprefix e).
  Proof.
    intros Hok. unfold install_emptydir. destruct (should_install _ _ _) eqn:Esh; [|apply pres_ret; assumption].
    pose proof (Hok Esh) as Hp. cbv zeta.
    apply pres_bind; [assumption | apply pres_query; assumption | intros isf].
    destruct isf; [apply pres_fail; assumption|].
    apply pres_bind; [assumption | apply pres_dm_makedirs, nU_nA, Hp | intros _; apply pres_set_mode; exact Hp].
  Qed.
  Lemma pres_install_symlink l : litem_plan_ok l -> pres T (install_symlink c destdir fullprefix l).
  Proof.
    intros Hok. unfold install_symlink. destruct (should_install _ _ _) eqn:Esh; [|apply pres_ret; assumption].
    destruct (Hok Esh) as [Ha Hl]. cbv zeta.
    apply pres_bind; [assumption | apply pres_dm_makedirs; exact Ha | intros _].
    apply pres_bind; [assumption | apply pres_do_symlink; exact Hl | intros _; apply pres_ret; assumption].
  Qed.
End Touch.

(* the whole plan stays inside U *)
Definition plan_ok (U : cpath -> Prop) (c : cfg) (pl : plan) (destdir : path) : Prop :=
  let fullprefix := destdir_join destdir (p_prefix pl) in
  (forall i, In i (p_subdirs pl) -> sitem_plan_ok U c destdir fullprefix i) /\
  (forall i, In i (p_targets pl ++ p_headers pl ++ p_man pl ++ p_data pl) -> fitem_plan_ok U c destdir fullprefix i) /\
  (forall e, In e (p_emptydirs pl) -> eitem_plan_ok U c destdir fullprefix e) /\
  (forall l, In l (p_symlinks pl) -> litem_plan_ok U c destdir fullprefix l).

Lemma touch_run_install (U : cpath -> Prop) c pl destdir :
  plan_ok U c pl destdir -> pres (touch U) (run_install c pl destdir).
Proof.
  intros [Hs [Hf [He Hl]]]. unfold run_install.
  pose proof (touch_refl U) as Trefl. pose proof (touch_trans U) as Ttrans.
  repeat (apply pres_bind; [assumption | | intros _]); apply pres_forM; try assumption.
  - intros i Hi. apply pres_install_subdir. apply Hs. exact Hi.
  - intros i Hi. apply pres_install_fitem. apply Hf. apply in_or_app. left. exact Hi.
  - intros i Hi. apply pres_install_fitem. apply Hf. apply in_or_app. right. apply in_or_app. left. exact Hi.
  - intros i Hi. apply pres_install_fitem. apply Hf. apply in_or_app. right. apply in_or_app. right. apply in_or_app. left. exact Hi.
  - intros e Hi. apply pres_install_emptydir. apply He. exact Hi.
  - intros i Hi. apply pres_install_fitem. apply Hf. apply in_or_app. right. apply in_or_app. right. apply in_or_app. right. exact Hi.
  - intros l Hi. apply pres_install_symlink. apply Hl. exact Hi.
Qed.
