(* Install/Exact.v — exactness, second half: a selected file rule whose destination no other
   selected rule names ends up with exactly the source content, the source time stamp and the
   declared-or-default permission bits. *)
From MV Require Import Base.Strs Base.LexFacts Install.Tree Install.TreeFacts Install.Model Install.Spec Install.Proofs
  Install.Contain Install.Log.
From Coq Require Import Lia.
Open Scope N_scope.

(* the mode that set_mode leaves on a freshly copied regular file (minstall.py:206-247) *)
Definition final_mode (umask : option N) (declared : option N) (srcmode : N) : N :=
  match declared with
  | Some pm => pm
  | None => match umask with
            | None => srcmode                                  (* 'preserve': copystat's mode stays *)
            | Some um => N.ldiff (if negb (N.land srcmode 73 =? 0) then 511 else 438) um
            end
  end.

Section Exact.
  Variable c : cfg.
  Hypothesis Dry : c_dry c = false.
  Hypothesis NoOC : c_only_changed c = false.

  (* do_copyfile, when it succeeds, leaves the source's content, mode and time at the destination *)
  Lemma do_copyfile_post m t d to_file mk s s' b :
    nodd to_file = true -> do_copyfile c (SReg m t d) to_file mk s = (s', Ok b) ->
    b = true /\ cleanp to_file <> [] /\ lookup (s_fs s') (cleanp to_file) = Some (NFile m t d).
  Proof.
    intros Hn H. unfold do_copyfile, copy_to, bind, query in H. rewrite NoOC in H.
    change (src_create (SReg m t d) to_file) with (fun f => m_write f to_file m t d) in H.
    assert (forall s1 s2 b2, (mutate c (fun f => m_write f to_file m t d) ;;; log (LPath to_file) ;;; ret true) s1 = (s2, Ok b2) ->
                             b2 = true /\ cleanp to_file <> [] /\ lookup (s_fs s2) (cleanp to_file) = Some (NFile m t d)) as Tail.
    { intros s1 s2 b2 X. unfold bind, mutate, log, ret in X. rewrite Dry in X.
      destruct (m_write (s_fs s1) to_file m t d) as [f2|e] eqn:Wr; [|discriminate]. simpl in X. inversion X; subst. simpl.
      pose proof Wr as Wr0. apply m_write_spec in Wr as [c2 [R2 [L2 _]]].
      pose proof (m_write_nonroot _ _ _ _ _ _ _ Wr0 R2) as Nc. apply resolve_nodd in R2; [subst c2 | exact Hn]. auto. }
    destruct (q_islink (s_fs s) to_file) as [il|e]; [|discriminate].
    destruct ((if il then mutate c (fun f => m_unlink f to_file) else ret tt) s) as [s0 [[]|e]] eqn:E0; [|discriminate].
    clear E0. revert H. generalize s0. clear s. intros s H.
    destruct (q_exists (s_fs s) to_file) as [[|]|e]; [| |discriminate].
    - destruct (q_isfile (s_fs s) to_file) as [[|]|e]; simpl in H; try discriminate.
      destruct (lnode (s_fs s) to_file) as [n|e]; [|discriminate]. simpl in H.
      unfold mutate at 1 in H. rewrite Dry in H.
      destruct (m_unlink (s_fs s) to_file) as [f1|e]; [|discriminate]. unfold ret at 1 in H. simpl in H.
      eapply Tail. exact H.
    - destruct (match mk with Some outdir => dm_makedirs c outdir true | None => ret tt end s) as [s1 [[]|e]]; [|discriminate].
      unfold ret at 1 in H. simpl in H. eapply Tail. exact H.
  Qed.

  Lemma set_mode_post p mode m t d s s' :
    nodd p = true -> cleanp p <> [] -> lookup (s_fs s) (cleanp p) = Some (NFile m t d) ->
    set_mode c p mode s = (s', Ok tt) ->
    lookup (s_fs s') (cleanp p) = Some (NFile (final_mode (c_umask c) mode m) t d).
  Proof.
    intros Hn Nc L H. unfold set_mode in H. rewrite Dry in H.
    assert (forall pm s2, mutate c (fun f => m_chmod f p pm) s = (s2, Ok tt) -> lookup (s_fs s2) (cleanp p) = Some (NFile pm t d)) as Ch.
    { intros pm s2 X. unfold mutate in X. rewrite Dry in X. destruct (m_chmod (s_fs s) p pm) as [f2|e] eqn:E; [|discriminate].
      inversion X; subst. simpl.
      assert (resolve (s_fs s) p = Ok (cleanp p)) as R.
      { unfold m_chmod, resolve_x in E. destruct (resolve (s_fs s) p) as [cc|e] eqn:R; [|destruct e; discriminate].
        f_equal. eapply resolve_nodd; eauto. }
      destruct (m_chmod_file _ _ _ _ _ _ _ _ E R Nc L) as [X1 _]. exact X1. }
    destruct mode as [pm|]; [apply Ch; exact H|].
    unfold sanitize_raw in H. unfold final_mode. destruct (c_umask c) as [um|].
    - unfold bind, query in H. destruct (lnode (s_fs s) p) as [[nd0|]|e] eqn:Ln; simpl in H; try discriminate.
      assert (nd0 = NFile m t d) as ->.
      { unfold lnode in Ln. destruct (resolve (s_fs s) p) as [cc|e] eqn:R; [|destruct e; discriminate].
        apply resolve_nodd in R; [subst cc | exact Hn]. destruct (cleanp p); [contradiction|]. rewrite L in Ln. inversion Ln. reflexivity. }
      apply Ch in H. exact H.
    - inversion H; subst. exact L.
  Qed.

  Variables destdir fullprefix : path.

  (* a selected file rule establishes its node *)
  Lemma install_fitem_post i m t d s s' :
    should_install c (fi_sub i) (fi_tag i) = true -> fi_src i = SReg m t d ->
    nodd (fitem_outname destdir fullprefix i) = true ->
    install_fitem c destdir fullprefix i s = (s', Ok tt) ->
    lookup (s_fs s') (cleanp (fitem_outname destdir fullprefix i)) = Some (NFile (final_mode (c_umask c) (fi_mode i) m) t d).
  Proof.
    intros Sel Src Hn H. unfold install_fitem in H. rewrite Sel in H. cbv zeta in H. simpl negb in H. cbv iota in H.
    rewrite Src in H.
    assert (forall s1 b, do_copyfile c (SReg m t d) (fitem_outname destdir fullprefix i) (Some (fitem_outdir destdir fullprefix i)) s = (s1, Ok b) ->
                         set_mode c (fitem_outname destdir fullprefix i) (fi_mode i) s1 = (s', Ok tt) ->
                         lookup (s_fs s') (cleanp (fitem_outname destdir fullprefix i)) = Some (NFile (final_mode (c_umask c) (fi_mode i) m) t d)) as G.
    { intros s1 b Cp Sm. destruct (do_copyfile_post _ _ _ _ _ _ _ _ Hn Cp) as [_ [Nc L]]. eapply set_mode_post; eauto. }
    destruct (fi_kind i); cbv beta iota in H; unfold bind in H; change (negb true) with false in H; cbv beta iota in H;
      (destruct (do_copyfile c (SReg m t d) (fitem_outname destdir fullprefix i) (Some (fitem_outdir destdir fullprefix i)) s) as [s1 [b|e]] eqn:Cp;
       [|discriminate]);
      (destruct (do_copyfile_post _ _ _ _ _ _ _ _ Hn Cp) as [Eb _]); subst b; eapply G; eauto.
  Qed.
End Exact.

(* ------------------------------------------------------------------ other rules leave the node alone *)
Definition holds (q0 : cpath) (n0 : node) (s : st) : Prop := lookup (s_fs s) q0 = Some n0.

Lemma touch_preserves (U : cpath -> Prop) {A} (m : M A) q0 n0 :
  pres (touch U) m -> ~ U q0 -> inv (holds q0 n0) m.
Proof.
  intros P NU s s' a Hq E. unfold holds in *. destruct (P s s' (Ok a) E q0) as [X|[X|[X _]]].
  - rewrite X. exact Hq.
  - contradiction.
  - rewrite Hq in X. discriminate.
Qed.

Lemma okp_trivial {A} (m : M A) : okp (fun _ => True) m (fun _ _ => True).
Proof. intros s s' a _ _. exact I. Qed.

Lemma forM_establish {A} (Q : st -> Prop) (l : list A) (f : A -> M unit) i :
  In i l -> (forall x, In x l -> inv Q (f x)) -> okp (fun _ => True) (f i) (fun _ => Q) ->
  okp (fun _ => True) (forM_ l f) (fun _ => Q).
Proof.
  induction l as [|x l IH]; intros Hi Hp He; [contradiction|]. simpl. destruct Hi as [->|Hi].
  - eapply okp_bind; [exact He|]. intros u. apply inv_forM. intros y Hy. apply Hp. right. exact Hy.
  - eapply okp_bind; [apply okp_trivial|]. intros u. apply IH; [exact Hi | intros y Hy; apply Hp; right; exact Hy | exact He].
Qed.

Section ExactPlan.
  Variable o : opts.
  Variable pl : plan.
  Let c := mk_cfg o pl.
  Let destdir := effective_destdir o pl.
  Let fullprefix := destdir_join destdir (p_prefix pl).
  Hypothesis Hwf : wf_plan o pl = true.
  Hypothesis Dry : o_dry o = false.
  Hypothesis NoOC : o_only_changed o = false.

  Variable q0 : cpath.
  Variable n0 : node.
  Notation Q := (holds q0 n0).

  Lemma wf_plan_parts :
    nodd (p_prefix pl) = true /\ nodd destdir = true /\
    forallb wf_sitem (p_subdirs pl) = true /\ forallb wf_fitem (all_fitems pl) = true /\
    forallb wf_eitem (p_emptydirs pl) = true /\ forallb wf_litem (p_symlinks pl) = true.
  Proof. unfold wf_plan in Hwf. repeat (apply andb_true_iff in Hwf as [Hwf ?]). repeat split; assumption. Qed.

  (* one-rule plans, to reuse planned_plan_ok rule by rule *)
  Definition only_s (j : sitem) : plan := mkPlan (p_prefix pl) (p_umask pl) (p_build_dir pl) [j] [] [] [] [] [] [].
  Definition only_f (j : fitem) : plan := mkPlan (p_prefix pl) (p_umask pl) (p_build_dir pl) [] [j] [] [] [] [] [].
  Definition only_e (j : eitem) : plan := mkPlan (p_prefix pl) (p_umask pl) (p_build_dir pl) [] [] [] [] [j] [] [].
  Definition only_l (j : litem) : plan := mkPlan (p_prefix pl) (p_umask pl) (p_build_dir pl) [] [] [] [] [] [] [j].

  Lemma inv_other_subdir j :
    In j (p_subdirs pl) -> (should_install c (sd_sub j) (sd_tag j) = true -> ~ In q0 (sitem_dests destdir fullprefix j)) ->
    inv Q (install_subdir c destdir fullprefix j).
  Proof.
    intros Hj Hav. destruct wf_plan_parts as [Np [Nd [Ws _]]]. rewrite forallb_forall in Ws.
    assert (wf_plan o (only_s j) = true) as Wj.
    { unfold wf_plan. simpl. change (effective_destdir o (only_s j)) with destdir. rewrite Np, Nd, (Ws j Hj). reflexivity. }
    pose proof (planned_plan_ok (fun q => In q (planned c destdir fullprefix (only_s j))) o (only_s j) Wj (fun q H => H)) as [Ps _].
    apply (touch_preserves (fun q => In q (planned c destdir fullprefix (only_s j)))).
    - apply pres_install_subdir. apply (Ps j). left. reflexivity.
    - unfold planned, sel. simpl. destruct (should_install c (sd_sub j) (sd_tag j)) eqn:S; simpl; [|tauto].
      rewrite !app_nil_r. apply Hav. reflexivity.
  Qed.

  Lemma inv_other_fitem j :
    In j (all_fitems pl) -> (should_install c (fi_sub j) (fi_tag j) = true -> ~ In q0 (fitem_dests destdir fullprefix j)) ->
    inv Q (install_fitem c destdir fullprefix j).
  Proof.
    intros Hj Hav. destruct wf_plan_parts as [Np [Nd [_ [Wf _]]]]. rewrite forallb_forall in Wf.
    assert (wf_plan o (only_f j) = true) as Wj.
    { unfold wf_plan. simpl. change (effective_destdir o (only_f j)) with destdir. unfold all_fitems. simpl. rewrite Np, Nd, (Wf j Hj). reflexivity. }
    pose proof (planned_plan_ok (fun q => In q (planned c destdir fullprefix (only_f j))) o (only_f j) Wj (fun q H => H)) as [_ [Pf _]].
    apply (touch_preserves (fun q => In q (planned c destdir fullprefix (only_f j)))).
    - apply pres_install_fitem. apply (Pf j). left. reflexivity.
    - unfold planned, sel, all_fitems. simpl. destruct (should_install c (fi_sub j) (fi_tag j)) eqn:S; simpl; [|tauto].
      intros [X|[]]. apply Hav; [reflexivity | left; exact X].
  Qed.

  Lemma inv_other_emptydir j :
    In j (p_emptydirs pl) -> (should_install c (e_sub j) (e_tag j) = true -> ~ In q0 (eitem_dests destdir fullprefix j)) ->
    inv Q (install_emptydir c destdir fullprefix j).
  Proof.
    intros Hj Hav. destruct wf_plan_parts as [Np [Nd [_ [_ [We _]]]]]. rewrite forallb_forall in We.
    assert (wf_plan o (only_e j) = true) as Wj.
    { unfold wf_plan. simpl. change (effective_destdir o (only_e j)) with destdir. rewrite Np, Nd, (We j Hj). reflexivity. }
    pose proof (planned_plan_ok (fun q => In q (planned c destdir fullprefix (only_e j))) o (only_e j) Wj (fun q H => H)) as [_ [_ [Pe _]]].
    apply (touch_preserves (fun q => In q (planned c destdir fullprefix (only_e j)))).
    - apply pres_install_emptydir. apply (Pe j). left. reflexivity.
    - unfold planned, sel, all_fitems. simpl. destruct (should_install c (e_sub j) (e_tag j)) eqn:S; simpl; [|tauto].
      intros [X|[]]. apply Hav; [reflexivity | left; exact X].
  Qed.

  Lemma inv_other_symlink j :
    In j (p_symlinks pl) -> (should_install c (l_sub j) (l_tag j) = true -> ~ In q0 (litem_dests destdir fullprefix j)) ->
    inv Q (install_symlink c destdir fullprefix j).
  Proof.
    intros Hj Hav. destruct wf_plan_parts as [Np [Nd [_ [_ [_ Wl]]]]]. rewrite forallb_forall in Wl.
    assert (wf_plan o (only_l j) = true) as Wj.
    { unfold wf_plan. simpl. change (effective_destdir o (only_l j)) with destdir. rewrite Np, Nd, (Wl j Hj). reflexivity. }
    pose proof (planned_plan_ok (fun q => In q (planned c destdir fullprefix (only_l j))) o (only_l j) Wj (fun q H => H)) as [_ [_ [_ Pl]]].
    apply (touch_preserves (fun q => In q (planned c destdir fullprefix (only_l j)))).
    - apply pres_install_symlink. apply (Pl j). left. reflexivity.
    - unfold planned, sel, all_fitems. simpl. destruct (should_install c (l_sub j) (l_tag j)) eqn:S; simpl; [|tauto].
      intros [X|[X|[]]]; apply Hav; try reflexivity; [left | right; left]; exact X.
  Qed.
End ExactPlan.

(* no other selected rule names the location q0 *)
Definition others_avoid (o : opts) (pl : plan) (i : fitem) (q0 : cpath) : Prop :=
  let c := mk_cfg o pl in
  let d := effective_destdir o pl in
  let fp := destdir_join d (p_prefix pl) in
  (forall j, In j (p_subdirs pl) -> should_install c (sd_sub j) (sd_tag j) = true -> ~ In q0 (sitem_dests d fp j)) /\
  (forall j, In j (all_fitems pl) -> should_install c (fi_sub j) (fi_tag j) = true -> In q0 (fitem_dests d fp j) -> j = i) /\
  (forall e, In e (p_emptydirs pl) -> should_install c (e_sub e) (e_tag e) = true -> ~ In q0 (eitem_dests d fp e)) /\
  (forall l, In l (p_symlinks pl) -> should_install c (l_sub l) (l_tag l) = true -> ~ In q0 (litem_dests d fp l)).

(* C11 exactness, second half, for file rules (data, headers, man, installed targets): after a
   successful real installation without --only-changed, the destination of a selected rule that no
   other selected rule names holds the source's content and time stamp with the declared mode, or
   else the default permissions masked by install_umask *)
Theorem planned_file_present_partial : forall o pl f f' lg i m t d,
  wf_plan o pl = true -> o_dry o = false -> o_only_changed o = false ->
  In i (all_fitems pl) -> should_install (mk_cfg o pl) (fi_sub i) (fi_tag i) = true -> fi_src i = SReg m t d ->
  others_avoid o pl i (cleanp (fitem_outname (effective_destdir o pl) (destdir_join (effective_destdir o pl) (p_prefix pl)) i)) ->
  do_install o pl f = (f', lg, Ok tt) ->
  lookup f' (cleanp (fitem_outname (effective_destdir o pl) (destdir_join (effective_destdir o pl) (p_prefix pl)) i))
  = Some (NFile (final_mode (p_umask pl) (fi_mode i) m) t d).
Proof.
  intros o pl f f' lg i m t d Hwf Dry NoOC Hi Sel Src Hav H.
  set (c := mk_cfg o pl) in *. set (destdir := effective_destdir o pl) in *.
  set (fullprefix := destdir_join destdir (p_prefix pl)) in *.
  set (q0 := cleanp (fitem_outname destdir fullprefix i)) in *.
  set (n0 := NFile (final_mode (p_umask pl) (fi_mode i) m) t d).
  destruct Hav as [As [Af [Ae Al]]].
  assert (c_dry c = false) as Cd by exact Dry. assert (c_only_changed c = false) as Co by exact NoOC.
  (* the rule itself establishes the node *)
  assert (okp (fun _ => True) (install_fitem c destdir fullprefix i) (fun _ => holds q0 n0)) as Est.
  { intros s s' [] _ E. unfold holds.
    assert (nodd (fitem_outname destdir fullprefix i) = true) as Hn.
    { destruct (wf_plan_parts o pl Hwf) as [Np [Nd [_ [Wf _]]]]. rewrite forallb_forall in Wf.
      assert (wf_plan o (only_f pl i) = true) as Wj.
      { unfold wf_plan. simpl. change (effective_destdir o (only_f pl i)) with destdir. unfold all_fitems. simpl.
        fold destdir in Nd. rewrite Np, Nd, (Wf i Hi). reflexivity. }
      pose proof (planned_plan_ok (fun _ => True) o (only_f pl i) Wj (fun q _ => I)) as [_ [Pf _]].
      destruct (Pf i (or_introl eq_refl) Sel) as [X _]. destruct (X Cd) as [X1 _]. exact X1. }
    exact (install_fitem_post c Cd Co destdir fullprefix i m t d s s' Sel Src Hn E). }
  assert (forall j, In j (all_fitems pl) -> inv (holds q0 n0) (install_fitem c destdir fullprefix j)) as Fi.
  { intros j Hj. destruct (should_install c (fi_sub j) (fi_tag j)) eqn:Sj.
    - destruct (cp_eqb q0 (cleanp (fitem_outname destdir fullprefix j))) eqn:Eq.
      + apply cp_eqb_eq in Eq. assert (j = i) as -> by (apply Af; auto; left; symmetry; exact Eq).
        eapply okp_weaken; [exact Est | intros s0 _; exact I | intros a0 s0 X; exact X].
      + apply cp_eqb_false in Eq. apply (inv_other_fitem o pl Hwf); [exact Hj|]. intros _ [X|[]]. apply Eq. symmetry. exact X.
    - apply (inv_other_fitem o pl Hwf); [exact Hj|]. intros X. fold c in X. rewrite Sj in X. discriminate. }
  assert (inv (holds q0 n0) (forM_ (p_subdirs pl) (install_subdir c destdir fullprefix))) as Ps.
  { apply inv_forM. intros j Hj. apply (inv_other_subdir o pl Hwf); [exact Hj | apply As; exact Hj]. }
  assert (inv (holds q0 n0) (forM_ (p_emptydirs pl) (install_emptydir c destdir fullprefix))) as Pe.
  { apply inv_forM. intros j Hj. apply (inv_other_emptydir o pl Hwf); [exact Hj | apply Ae; exact Hj]. }
  assert (inv (holds q0 n0) (forM_ (p_symlinks pl) (install_symlink c destdir fullprefix))) as Pl.
  { apply inv_forM. intros j Hj. apply (inv_other_symlink o pl Hwf); [exact Hj | apply Al; exact Hj]. }
  assert (forall l, (forall j, In j l -> In j (all_fitems pl)) -> inv (holds q0 n0) (forM_ l (install_fitem c destdir fullprefix))) as Pf.
  { intros l Hl. apply inv_forM. intros j Hj. apply Fi, Hl, Hj. }
  assert (forall l, (forall j, In j l -> In j (all_fitems pl)) -> In i l ->
                    okp (fun _ => True) (forM_ l (install_fitem c destdir fullprefix)) (fun _ => holds q0 n0)) as Ef.
  { intros l Hl Hil. apply (forM_establish _ l _ i Hil); [intros j Hj; apply Fi, Hl, Hj | exact Est]. }
  assert (forall j, In j (p_targets pl) -> In j (all_fitems pl)) as It by (intros; unfold all_fitems; apply in_or_app; auto).
  assert (forall j, In j (p_headers pl) -> In j (all_fitems pl)) as Ih by (intros; unfold all_fitems; apply in_or_app; right; apply in_or_app; auto).
  assert (forall j, In j (p_man pl) -> In j (all_fitems pl)) as Im by (intros; unfold all_fitems; apply in_or_app; right; apply in_or_app; right; apply in_or_app; auto).
  assert (forall j, In j (p_data pl) -> In j (all_fitems pl)) as Id by (intros; unfold all_fitems; apply in_or_app; right; apply in_or_app; right; apply in_or_app; auto).
  assert (okp (fun _ => True) (run_install c pl destdir) (fun _ => holds q0 n0)) as Run.
  { unfold run_install. fold fullprefix. unfold all_fitems in Hi.
    apply in_app_or in Hi as [Hi|Hi]; [|apply in_app_or in Hi as [Hi|Hi]; [|apply in_app_or in Hi as [Hi|Hi]]].
    - eapply okp_bind; [apply okp_trivial|]. intros u0.
      eapply okp_bind; [apply (Ef _ It Hi)|]. intros u1.
      eapply okp_bind; [apply (Pf _ Ih)|]. intros u2. eapply okp_bind; [apply (Pf _ Im)|]. intros u3.
      eapply okp_bind; [apply Pe|]. intros u4. eapply okp_bind; [apply (Pf _ Id)|]. intros u5. apply Pl.
    - eapply okp_bind; [apply okp_trivial|]. intros u0. eapply okp_bind; [apply okp_trivial|]. intros u1.
      eapply okp_bind; [apply (Ef _ Ih Hi)|]. intros u2. eapply okp_bind; [apply (Pf _ Im)|]. intros u3.
      eapply okp_bind; [apply Pe|]. intros u4. eapply okp_bind; [apply (Pf _ Id)|]. intros u5. apply Pl.
    - eapply okp_bind; [apply okp_trivial|]. intros u0. eapply okp_bind; [apply okp_trivial|]. intros u1.
      eapply okp_bind; [apply okp_trivial|]. intros u2. eapply okp_bind; [apply (Ef _ Im Hi)|]. intros u3.
      eapply okp_bind; [apply Pe|]. intros u4. eapply okp_bind; [apply (Pf _ Id)|]. intros u5. apply Pl.
    - eapply okp_bind; [apply okp_trivial|]. intros u0. eapply okp_bind; [apply okp_trivial|]. intros u1.
      eapply okp_bind; [apply okp_trivial|]. intros u2. eapply okp_bind; [apply okp_trivial|]. intros u3.
      eapply okp_bind; [apply okp_trivial|]. intros u4. eapply okp_bind; [apply (Ef _ Id Hi)|]. intros u5. apply Pl. }
  unfold do_install in H. fold c destdir in H.
  destruct (run_install c pl destdir (mkSt f [LHeader; LHeader] [])) as [s r] eqn:E. inversion H; subst.
  exact (Run _ _ _ I E).
Qed.

(* installing twice: every such destination is exactly what it was after installing once *)
Theorem reinstall_same_files_partial : forall o pl f f1 lg1 f2 lg2 i m t d,
  wf_plan o pl = true -> o_dry o = false -> o_only_changed o = false ->
  In i (all_fitems pl) -> should_install (mk_cfg o pl) (fi_sub i) (fi_tag i) = true -> fi_src i = SReg m t d ->
  others_avoid o pl i (cleanp (fitem_outname (effective_destdir o pl) (destdir_join (effective_destdir o pl) (p_prefix pl)) i)) ->
  do_install o pl f = (f1, lg1, Ok tt) -> do_install o pl f1 = (f2, lg2, Ok tt) ->
  lookup f2 (cleanp (fitem_outname (effective_destdir o pl) (destdir_join (effective_destdir o pl) (p_prefix pl)) i))
  = lookup f1 (cleanp (fitem_outname (effective_destdir o pl) (destdir_join (effective_destdir o pl) (p_prefix pl)) i)).
Proof.
  intros o pl f f1 lg1 f2 lg2 i m t d Hwf Dry NoOC Hi Sel Src Hav H1 H2.
  rewrite (planned_file_present_partial o pl f f1 lg1 i m t d Hwf Dry NoOC Hi Sel Src Hav H1).
  rewrite (planned_file_present_partial o pl f1 f2 lg2 i m t d Hwf Dry NoOC Hi Sel Src Hav H2). reflexivity.
Qed.

Example others_avoid_example :
  let o := mkOpts false false None [] [[]; s2l "d"] 18 in
  let i := mkFitem KData (SReg 493 1 (s2l "dg")) (s2l "a") [[]; s2l "etc"; s2l "a"] (Some 420) [] (Some (s2l "doc")) false in
  let pl := mkPlan [[]; s2l "usr"] (Some 18) [[]; s2l "b"] [] []
                  [mkFitem KHeader (SReg 420 1 (s2l "dg")) (s2l "h.h") [s2l "include"; s2l "p q"] None [] None false] []
                  [mkEitem [s2l "var"; s2l "e "] (Some 448) [] None] [i]
                  [mkLitem (s2l "a") [s2l "share"; s2l "l"] [s2l "share"] [] None] in
  others_avoid o pl i (cleanp (fitem_outname (effective_destdir o pl) (destdir_join (effective_destdir o pl) (p_prefix pl)) i)).
Proof.
  cbv zeta. unfold others_avoid. cbv zeta. repeat split.
  - intros j [].
  - intros j [<-|[<-|[]]] _; vm_compute; intros [X|[]]; [discriminate | reflexivity].
  - intros e [<-|[]] _. vm_compute. intros [X|[]]. discriminate.
  - intros l [<-|[]] _. vm_compute. intros [X|[X|[]]]; discriminate.
Qed.

(* with the pending fix C11-symlink-write-through the statement above is not vacuous when a symbolic
   link is in the way: the installation succeeds and the link is replaced by the file *)
Example link_in_the_way_replaced :
  let o := mkOpts false false None [] [[]; s2l "d"] 18 in
  let i := mkFitem KData (SReg 420 7 (s2l "dg")) (s2l "a") [s2l "share"; s2l "a"] None [] None false in
  let pl := mkPlan [[]; s2l "usr"] (Some 18) [[]; s2l "b"] [] [] [] [] [] [i] [] in
  let f := [([s2l "d"], NDir 493); ([s2l "d"; s2l "usr"], NDir 493); ([s2l "d"; s2l "usr"; s2l "share"], NDir 493);
            ([s2l "d"; s2l "usr"; s2l "share"; s2l "a"], NLink (s2l "/etc/passwd"))] in
  exists f' lg, do_install o pl f = (f', lg, Ok tt) /\
    lookup f' [s2l "d"; s2l "usr"; s2l "share"; s2l "a"] = Some (NFile 420 7 (s2l "dg")) /\
    lookup f' [s2l "etc"; s2l "passwd"] = None.
Proof.
  cbv zeta. eexists. eexists. split; [vm_compute; reflexivity|]. split; vm_compute; reflexivity.
Qed.
