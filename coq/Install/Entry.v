(* Install/Entry.v — entry points used by the correspondence check (harness/check_C11.py).
   Every function takes strings and returns ONE canonical string.

   Path algebra:  join a b | dirname p | basename p | normpath p | isabs p | djoin d1 d2
   Histories:     hist r1 r2 ...   each argument is one record, fields separated by \x01,
                  list items by \x02, sub-fields by \x03 (see parse_* below). *)
From MV Require Import Base.Strs Install.Tree Install.Model.
Open Scope N_scope.

Definition P (s : str) : path := split_on 47 s.
Definition unP (p : path) : str := join [47] p.
Definition fields (s : str) : list str := split_on 1 s.
Definition items (s : str) : list str := match s with [] => [] | _ => split_on 2 s end.
Definition optN (s : str) : option N := match s with [] => None | _ => Some (digits_val s) end.
Definition flag (s : str) : bool := str_eqb s [49].
Definition optS (f s : str) : option str := if flag f then Some s else None.
Definition nth_s (l : list str) (n : nat) : str := nth n l [].

Definition tagis (r : list str) (t : string) : bool := str_eqb (nth_s r 0) (s2l t).

(* F kind srckind srcmode srcmtime digest srcname install_path mode sub tagp tag optional *)
Definition parse_fitem (r : list str) : fitem :=
  let k := nth_s r 1 in
  let kind := if str_eqb k (s2l "T") then KTarget else if str_eqb k (s2l "H") then KHeader
              else if str_eqb k (s2l "M") then KMan else KData in
  let sk := nth_s r 2 in
  let src := if str_eqb sk (s2l "R") then SReg (digits_val (nth_s r 3)) (digits_val (nth_s r 4)) (nth_s r 5)
             else if str_eqb sk (s2l "K") then SLink (nth_s r 5) (optN (nth_s r 4))
             else if str_eqb sk (s2l "M") then SMissing else SOther in
  mkFitem kind src (nth_s r 6) (P (nth_s r 7)) (optN (nth_s r 8)) (nth_s r 9)
          (optS (nth_s r 10) (nth_s r 11)) (flag (nth_s r 12)).

Definition fitems_of (recs : list (list str)) (k : string) : list fitem :=
  flat_map (fun r => if tagis r "F" && str_eqb (nth_s r 1) (s2l k) then [parse_fitem r] else []) recs.

(* E path mode sub tagp tag *)
Definition eitems_of (recs : list (list str)) : list eitem :=
  flat_map (fun r => if tagis r "E"
                     then [mkEitem (P (nth_s r 1)) (optN (nth_s r 2)) (nth_s r 3) (optS (nth_s r 4) (nth_s r 5))]
                     else []) recs.

(* L target name install_path sub tagp tag *)
Definition litems_of (recs : list (list str)) : list litem :=
  flat_map (fun r => if tagis r "L"
                     then [mkLitem (nth_s r 1) (P (nth_s r 2)) (P (nth_s r 3)) (nth_s r 4) (optS (nth_s r 5) (nth_s r 6))]
                     else []) recs.

(* W rel mode dirs files ; dirs = name\x03mode ... ; files = name\x03mode\x03mtime\x03digest ... *)
Definition parse_wstep (r : list str) : wstep :=
  let rel := match nth_s r 1 with [] => [] | s => P s end in
  mkWstep rel (digits_val (nth_s r 2))
    (map (fun it => let q := split_on 3 it in (nth_s q 0, digits_val (nth_s q 1))) (items (nth_s r 3)))
    (map (fun it => let q := split_on 3 it in
                    (nth_s q 0,
                     if str_eqb (nth_s q 4) (s2l "L") then SLink (nth_s q 3) (Some (digits_val (nth_s q 2)))
                     else if str_eqb (nth_s q 4) (s2l "X") then SLink (nth_s q 3) None
                     else SReg (digits_val (nth_s q 1)) (digits_val (nth_s q 2)) (nth_s q 3))) (items (nth_s r 4))).

(* S install_path mode sub tagp tag excl_files excl_dirs, followed by its W records *)
Definition sitems_of (recs : list (list str)) : list sitem :=
  snd (fold_right (fun r (a : list wstep * list sitem) =>
         let '(pending, done) := a in
         if tagis r "W" then (parse_wstep r :: pending, done)
         else if tagis r "S" then
           ([], mkSitem pending (P (nth_s r 1)) (map P (items (nth_s r 6))) (map P (items (nth_s r 7)))
                        (optN (nth_s r 2)) (nth_s r 3) (optS (nth_s r 4) (nth_s r 5)) :: done)
         else a) ([], []) recs).

(* P prefix umask build_dir *)
Definition plan_of (recs : list (list str)) : plan :=
  let pr := match filter (fun r => tagis r "P") recs with r :: _ => r | [] => [] end in
  mkPlan (P (nth_s pr 1)) (optN (nth_s pr 2)) (P (nth_s pr 3))
         (sitems_of recs) (fitems_of recs "T") (fitems_of recs "H") (fitems_of recs "M")
         (eitems_of recs) (fitems_of recs "D") (litems_of recs).

(* N path kind mode mtime digest|target *)
Definition fs_of (recs : list (list str)) : fs :=
  flat_map (fun r => if tagis r "N" then
      let k := nth_s r 2 in
      let n := if str_eqb k (s2l "F") then NFile (digits_val (nth_s r 3)) (digits_val (nth_s r 4)) (nth_s r 5)
               else if str_eqb k (s2l "D") then NDir (digits_val (nth_s r 3))
               else NLink (nth_s r 5) in
      [(cleanp (P (nth_s r 1)), n)] else []) recs.

(* I dry only_changed tagsp tags skip destdir inherited_umask   |   U *)
Definition cmds_of (recs : list (list str)) : list cmd :=
  flat_map (fun r =>
    if tagis r "I" then
      [CInstall (mkOpts (flag (nth_s r 1)) (flag (nth_s r 2)) (optS (nth_s r 3) (nth_s r 4))
                        (nth_s r 5) (P (nth_s r 6)) (digits_val (nth_s r 7)))]
    else if tagis r "U" then [CUninstall] else []) recs.

(* ------------------------------------------------------------------ rendering *)
Definition NL : str := [10].
Definition S1 : str := [1].

Definition render_node (kn : cpath * node) : str :=
  let '(k, n) := kn in
  let p := 47 :: join [47] k in
  match n with
  | NFile m t d => join S1 [s2l "N"; p; s2l "F"; N_dec m; N_dec t; d]
  | NDir m => join S1 [s2l "N"; p; s2l "D"; N_dec m; s2l "0"; []]
  | NLink t => join S1 [s2l "N"; p; s2l "L"; s2l "0"; s2l "0"; t]
  end.

Definition render_log (l : logline) : str :=
  match l with
  | LHeader => s2l "H"
  | LPreserved p => join S1 [s2l "C"; unP p]
  | LPath p => join S1 [s2l "G"; unP p]
  end.

Definition render_status (r : res unit) : str :=
  match r with
  | Ok _ => s2l "OK"
  | Err EOOM => s2l "OOM"
  | Err _ => s2l "FAIL"
  end.

Definition render_hst (h : hst) (r : res unit) : str :=
  join NL ((s2l "=" ++ render_status r)
           :: map render_node (h_fs h)
           ++ match h_log h with None => [s2l "NOLOG"] | Some lg => map render_log lg end).

Fixpoint run_hist (pl : plan) (h : hst) (cs : list cmd) : list str :=
  match cs with
  | [] => []
  | c :: r => let '(h', res) := step pl h c in
              render_hst h' res :: match res with Err EOOM => [] | _ => run_hist pl h' r end
  end.

Definition run (fn : str) (args : list str) : str :=
  if str_eqb fn (s2l "join") then
    match args with [a; b] => unP (pjoin (P a) (P b)) | _ => s2l "?" end
  else if str_eqb fn (s2l "dirname") then
    match args with [a] => unP (dirname (P a)) | _ => s2l "?" end
  else if str_eqb fn (s2l "basename") then
    match args with [a] => basename (P a) | _ => s2l "?" end
  else if str_eqb fn (s2l "normpath") then
    match args with [a] => unP (normpath (P a)) | _ => s2l "?" end
  else if str_eqb fn (s2l "isabs") then
    match args with [a] => bool_str (isabs (P a)) | _ => s2l "?" end
  else if str_eqb fn (s2l "djoin") then
    match args with [a; b] => unP (destdir_join (P a) (P b)) | _ => s2l "?" end
  else if str_eqb fn (s2l "should") then
    (* should tagsp tags skip sub tagp tag *)
    match args with
    | [tp; t; sk; sub; tgp; tg] =>
        bool_str (should_install (mkCfg false false (parse_tags (optS tp t)) (parse_skip sk) None 0) sub (optS tgp tg))
    | _ => s2l "?" end
  else if str_eqb fn (s2l "hist") then
    let recs := map fields args in
    join NL (run_hist (plan_of recs) (mkHst (fs_of recs) None) (cmds_of recs))
  else s2l "?".
