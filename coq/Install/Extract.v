(* Extraction of the C11 model.  Only the ExtrOcamlBasic directives are used. *)
From Coq Require Extraction.
From Coq Require Import ExtrOcamlBasic.
From MV Require Import Install.Entry.
Extraction "../extract/C11/model.ml" Install.Entry.run.
