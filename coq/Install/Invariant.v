(* Install/Invariant.v — the invariant of a real installation: well-formed tree,
   recorded directories exist and are new, everything new is logged or recorded. *)
From MV Require Import Base.Strs Base.LexFacts Install.Tree Install.TreeFacts Install.Model Install.Spec Install.Proofs Install.Log.
From Coq Require Import Lia.
Open Scope N_scope.

(* ------------------------------------------------------------------ small path facts *)
Lemma isabs_cons_empty p : isabs p = true -> exists x r, p = [] :: x :: r.
Proof. destruct p as [|c [|x r]]; simpl; try discriminate. destruct c; [|discriminate]. eauto. Qed.

Lemma strip_nonempty h : all_empty h = false -> strip_trailing_empty h <> [].
Proof.
  induction h as [|c r IH]; simpl; [discriminate|]. intros H.
  destruct (strip_trailing_empty r) as [|y r'] eqn:Es; [|discriminate].
  destruct (is_empty_s c) eqn:Ec; [|discriminate]. simpl in H. exfalso. apply (IH H). reflexivity.
Qed.

Lemma isabs_dirname p : isabs p = true -> isabs (dirname p) = true.
Proof.
  intros A. destruct (isabs_cons_empty _ A) as [x [r ->]]. unfold dirname.
  change (removelast ([] :: x :: r)) with ([] :: removelast (x :: r)).
  set (h' := removelast (x :: r)). cbv beta iota.
  match goal with |- context [if ?b then _ else _] => destruct b eqn:Ae end.
  - change (([] :: h') ++ [[]]) with ([] :: (h' ++ [[]])). destruct (h' ++ [[]]) eqn:E; [|reflexivity].
    apply app_eq_nil in E as [_ E]. discriminate.
  - change (strip_trailing_empty ([] :: h')) with
      (match strip_trailing_empty h' with [] => if is_empty_s [] then [] else [[]] | y :: r' => [] :: y :: r' end).
    assert (all_empty h' = false) as Ae' by exact Ae.
    pose proof (strip_nonempty _ Ae') as Nn. destruct (strip_trailing_empty h'); [contradiction | reflexivity].
Qed.

(* the loop of DirMaker.makedirs stops at a path that names the root *)
Lemma dirname_fixpoint p : dirname p = p -> cleanp p = [].
Proof.
  unfold dirname. intros H. destruct (removelast p) as [|x h] eqn:E.
  - subst p. reflexivity.
  - destruct (all_empty (x :: h)) eqn:A.
    + rewrite <- H, cleanp_app, (all_empty_cleanp _ A). reflexivity.
    + exfalso. assert (length (strip_trailing_empty (x :: h)) <= length (x :: h))%nat as L.
      { generalize (x :: h). induction l as [|c l IH]; simpl; [lia|].
        destruct (strip_trailing_empty l); [destruct (is_empty_s c); simpl; lia | simpl in *; lia]. }
      assert (p <> []) as Np by (intro Hp; rewrite Hp in E; simpl in E; discriminate E).
      assert (length p = S (length (x :: h))) as Lp.
      { rewrite (removelast_last p Np) at 1. rewrite E, app_length. simpl. lia. }
      rewrite <- H in Lp. lia.
Qed.

Lemma nd_clean_all_empty l : nd l = true -> cleanp l = [] -> all_empty l = true.
Proof.
  unfold nd, cleanp, all_empty. induction l as [|c l IH]; simpl; [reflexivity|]. intros Hd Ec.
  apply andb_true_iff in Hd as [H1 H2]. apply andb_true_iff in H1 as [H1 _].
  destruct (negb (trivial_comp c)) eqn:T; [discriminate|]. apply negb_false_iff in T.
  unfold trivial_comp in T. apply negb_true_iff in H1. rewrite H1, orb_false_r in T. rewrite T. apply IH; assumption.
Qed.
Lemma all_empty_removelast l : all_empty l = true -> all_empty (removelast l) = true /\ last l [] = [].
Proof.
  unfold all_empty. induction l as [|c l IH]; simpl; [auto|]. intros H. apply andb_true_iff in H as [H1 H2].
  destruct l as [|d l]; [split; [reflexivity | destruct c; [reflexivity | discriminate]]|].
  destruct (IH H2) as [A B]. split; [|exact B].
  change (forallb is_empty_s (c :: removelast (d :: l)) = true). simpl. rewrite H1. exact A.
Qed.
Lemma clean_empty_fixpoint dn : nd dn = true -> isabs dn = true -> cleanp dn = [] -> dirname dn = dn.
Proof.
  intros Hd Ha Ec. pose proof (nd_clean_all_empty _ Hd Ec) as Ae.
  destruct (all_empty_removelast _ Ae) as [Ar Lr].
  destruct (isabs_cons_empty _ Ha) as [x [r E]].
  assert (dn <> []) as Nn by (rewrite E; discriminate).
  unfold dirname. destruct (removelast dn) as [|y h] eqn:Er.
  - rewrite E in Er. simpl in Er. destruct r; discriminate.
  - rewrite Ar. rewrite (removelast_last dn Nn) at 1. rewrite Er, Lr. reflexivity.
Qed.

Lemma prefix_snoc_cases (q a l : cpath) : is_prefix q (a ++ l) -> (length l <= 1)%nat -> q = a ++ l \/ is_prefix q a.
Proof.
  intros [r E] L. destruct l as [|x [|y l]]; simpl in L; try lia.
  - rewrite app_nil_r in *. right. exists r. exact E.
  - destruct r as [|z r] using rev_ind.
    + left. rewrite app_nil_r in E. auto.
    + right. rewrite app_assoc in E. apply app_inj_tail in E as [E _]. exists r. exact E.
Qed.

Lemma cleanp_dirname_step p : exists l, cleanp p = cleanp (dirname p) ++ l /\ (length l <= 1)%nat.
Proof.
  rewrite cleanp_dirname. destruct p as [|c p]; [exists []; split; [reflexivity | simpl; lia]|].
  exists (cleanp [last (c :: p) []]). split.
  - rewrite <- cleanp_app, <- removelast_last by discriminate. reflexivity.
  - unfold cleanp. simpl. destruct (negb (trivial_comp _)); simpl; lia.
Qed.

Lemma is_prefix_antisym (a b : cpath) : is_prefix a b -> is_prefix b a -> a = b.
Proof.
  intros [r1 E1] [r2 E2]. rewrite E1 in E2. rewrite <- app_assoc in E2.
  assert (length (r1 ++ r2) = 0)%nat as L.
  { assert (length a = length (a ++ r1 ++ r2)) as X by (rewrite <- E2; reflexivity). rewrite app_length in X. lia. }
  destruct r1; [rewrite app_nil_r in E1; auto | simpl in L; lia].
Qed.

(* ------------------------------------------------------------------ DirMaker's scan *)
Section Scan.
  Variable f : fs.
  Variable recorded : list path.

  Definition scanned (top n : path) : Prop :=
    nd n = true /\ isabs n = true /\ q_exists f n = Ok false /\ cleanp n <> [] /\ is_prefix (cleanp n) (cleanp top).

  Lemma dm_scan_acc fuel : forall dn acc R, dm_scan fuel f recorded dn acc = Ok R -> forall x, In x acc -> In x R.
  Proof.
    induction fuel as [|k IH]; intros dn acc R H x Hx; simpl in H; [discriminate|].
    destruct (cp_eqb dn (dirname dn)); [inversion H; subst; exact Hx|].
    destruct (cp_mem dn recorded); [inversion H; subst; exact Hx|].
    destruct (q_exists f dn) as [e|]; [|discriminate]. eapply IH; [exact H|]. destruct e; [exact Hx | right; exact Hx].
  Qed.

  (* what is collected: non-existing ancestors-or-self of the starting path, parent before child *)
  Lemma dm_scan_props fuel : forall top dn acc R,
    nd dn = true -> isabs dn = true -> is_prefix (cleanp dn) (cleanp top) ->
    (forall b, In b acc -> scanned top b /\ is_prefix (cleanp dn) (cleanp b)) ->
    (forall l1 a l2, acc = l1 ++ a :: l2 -> forall b, In b l2 -> is_prefix (cleanp a) (cleanp b)) ->
    dm_scan fuel f recorded dn acc = Ok R ->
    (forall b, In b R -> scanned top b) /\
    (forall l1 a l2, R = l1 ++ a :: l2 -> forall b, In b l2 -> is_prefix (cleanp a) (cleanp b)).
  Proof.
    induction fuel as [|k IH]; intros top dn acc R Hd Ha Pt Hacc Hch H; simpl in H; [discriminate|].
    destruct (cp_eqb dn (dirname dn)) eqn:Fx; [inversion H; subst; split; [intros b Hb; apply Hacc; exact Hb | exact Hch]|].
    destruct (cp_mem dn recorded); [inversion H; subst; split; [intros b Hb; apply Hacc; exact Hb | exact Hch]|].
    destruct (q_exists f dn) as [e|] eqn:Q; [|discriminate].
    assert (is_prefix (cleanp (dirname dn)) (cleanp dn)) as Pd by apply cleanp_dirname_prefix.
    eapply (IH top (dirname dn)); [apply nd_dirname; exact Hd | apply isabs_dirname; exact Ha | eapply is_prefix_trans; eassumption | | | exact H].
    - intros b Hb. destruct e.
      + destruct (Hacc b Hb) as [S P]. split; [exact S | eapply is_prefix_trans; eassumption].
      + destruct Hb as [<-|Hb].
        * split; [|exact Pd]. repeat split; auto.
          intro Ec. apply cp_eqb_false in Fx. apply Fx. symmetry. apply clean_empty_fixpoint; assumption.
        * destruct (Hacc b Hb) as [S P]. split; [exact S | eapply is_prefix_trans; eassumption].
    - destruct e; [exact Hch|]. intros l1 a l2 E b Hb. destruct l1 as [|z l1]; simpl in E; inversion E; subst.
      + destruct (Hacc b Hb) as [_ P]. exact P.
      + eapply Hch; [reflexivity | exact Hb].
  Qed.

  (* nothing that the following makedirs could create is missed *)
  Lemma dm_scan_complete fuel : forall dn acc R,
    wf_fs f -> (forall d, In d recorded -> cleanp d <> [] /\ dir_at f (cleanp d)) ->
    nd dn = true ->
    dm_scan fuel f recorded dn acc = Ok R ->
    forall q, q <> [] -> is_prefix q (cleanp dn) -> lookup f q = None -> In q (map cleanp R).
  Proof.
    induction fuel as [|k IH]; intros dn acc R W Hrec Hd H q Nq Pq Lq; simpl in H; [discriminate|].
    destruct (cp_eqb dn (dirname dn)) eqn:Fx.
    - apply cp_eqb_eq in Fx. symmetry in Fx. apply dirname_fixpoint in Fx. rewrite Fx in Pq.
      destruct Pq as [r E]. destruct q; [contradiction | discriminate].
    - destruct (cp_mem dn recorded) eqn:Mr.
      + exfalso. apply cp_mem_In in Mr. destruct (Hrec dn Mr) as [Nc Dc].
        destruct Pq as [r E]. destruct r as [|x r].
        * rewrite app_nil_r in E. subst q. destruct Dc as [Dc|[m Hm]]; [contradiction | congruence].
        * assert (dir_at f q) as [->|[m Hm]]; [|contradiction | congruence].
          apply (wf_prefix_dir f W (x :: r)); [|discriminate]. rewrite <- E.
          destruct Dc as [Dc|[m Hm]]; [contradiction | rewrite Hm; discriminate].
      + destruct (q_exists f dn) as [e|] eqn:Q; [|discriminate].
        destruct (cleanp_dirname_step dn) as [l [El Ll]]. rewrite El in Pq.
        destruct (prefix_snoc_cases _ _ _ Pq Ll) as [Eq|Pq'].
        * rewrite <- El in Eq. subst q. destruct e.
          -- exfalso. apply q_exists_true in Q; [|apply nd_nodd; exact Hd]. destruct Q as [Q|Q]; contradiction.
          -- apply in_map. eapply dm_scan_acc; [exact H | left; reflexivity].
        * eapply IH; [exact W | exact Hrec | apply nd_dirname; exact Hd | exact H | exact Nq | exact Pq' | exact Lq].
  Qed.
End Scan.
