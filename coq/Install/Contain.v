(* Install/Contain.v — containment under DESTDIR, dry-run, nothing beyond the plan. *)
From MV Require Import Base.Strs Base.LexFacts Install.Tree Install.TreeFacts Install.Model Install.Spec Install.Proofs.
From Coq Require Import Lia.
Open Scope N_scope.

(* ------------------------------------------------------------------ path expressions of the installer *)
Lemma nodd_gdp destdir fp p :
  nodd destdir = true -> nodd fp = true -> nodd p = true -> nodd (get_destdir_path destdir fp p) = true.
Proof.
  intros Hd Hf Hp. unfold get_destdir_path. destruct (isabs p); [apply nodd_destdir_join | apply nodd_pjoin]; assumption.
Qed.

Lemma prefix_gdp destdir prefix p :
  is_prefix (cleanp destdir) (cleanp (get_destdir_path destdir (destdir_join destdir prefix) p)).
Proof.
  unfold get_destdir_path. destruct (isabs p) eqn:A.
  - destruct (cleanp_destdir_join destdir p) as [r [E _]]. rewrite E. apply is_prefix_app.
  - rewrite cleanp_pjoin by exact A. destruct (cleanp_destdir_join destdir prefix) as [r [E _]]. rewrite E.
    apply is_prefix_app_l, is_prefix_app.
Qed.

Lemma isabs_single n : isabs [n] = false.
Proof. reflexivity. Qed.

Lemma wf_name_nodd n : wf_name n = true -> negb (is_dotdot n) = true.
Proof. unfold wf_name. intros H. apply andb_true_iff in H as [_ H]. exact H. Qed.

Lemma nodd_names l : forallb wf_name l = true -> nodd l = true.
Proof.
  unfold nodd. induction l as [|x l IH]; simpl; [reflexivity|]. intros H.
  apply andb_true_iff in H as [H1 H2]. rewrite (wf_name_nodd _ H1). apply IH. exact H2.
Qed.

(* a relative path made of proper names *)
Lemma rel_names_not_abs rel n : forallb wf_name rel = true -> isabs (rel ++ [n]) = false.
Proof.
  destruct rel as [|x rel]; [reflexivity|]. simpl. intros H. apply andb_true_iff in H as [H1 _].
  unfold wf_name in H1. apply andb_true_iff in H1 as [H1 _]. unfold trivial_comp in H1.
  destruct x; [discriminate|]. destruct (rel ++ [n]); reflexivity.
Qed.

(* os.path.join(a, b) = X + b with X naming the same location as a *)
Lemma pjoin_app a b : isabs b = false -> b <> [] ->
  exists X, pjoin a b = X ++ b /\ cleanp X = cleanp a /\ (nodd a = true -> nodd X = true).
Proof.
  intros Hb Nb. unfold pjoin. cbv zeta. destruct b as [|b0 b]; [contradiction|]. rewrite Hb.
  destruct (is_empty_path a) eqn:Ea.
  - exists []. split; [reflexivity|]. split; [|reflexivity].
    destruct a as [|c [|d a]]; simpl in Ea; try discriminate; [reflexivity|]. destruct c; [reflexivity | discriminate].
  - destruct (ends_slash a) eqn:Es.
    + exists (removelast a). split; [reflexivity|]. split; [|apply nodd_removelast].
      unfold ends_slash in Es. destruct a as [|c [|d a]]; try discriminate.
      rewrite (removelast_last (c :: d :: a)) at 2 by discriminate. rewrite cleanp_app.
      destruct (last (c :: d :: a) [1]) eqn:L; [|discriminate].
      assert (last (c :: d :: a) [] = []) as L'.
      { clear -L. revert L. generalize (c :: d :: a). intros l. induction l as [|x l IH]; simpl; [discriminate|].
        destruct l; [auto|]. exact IH. }
      rewrite L'. simpl. rewrite app_nil_r. reflexivity.
    + exists a. auto.
Qed.

Lemma cleanp_dirname_pjoin a rel n :
  isabs (rel ++ [n]) = false ->
  cleanp (dirname (pjoin a (rel ++ [n]))) = cleanp a ++ cleanp rel.
Proof.
  intros Hb. destruct (pjoin_app a (rel ++ [n]) Hb) as [X [E [C _]]]; [destruct rel; discriminate|].
  rewrite cleanp_dirname, E, app_assoc, List.removelast_last, cleanp_app, C. reflexivity.
Qed.

(* ------------------------------------------------------------------ from "U holds on the planned locations" to plan_ok *)
Section FromPlanned.
  Variable U : cpath -> Prop.
  Variable o : opts.
  Variable pl : plan.
  Let c := mk_cfg o pl.
  Let destdir := effective_destdir o pl.
  Let fullprefix := destdir_join destdir (p_prefix pl).
  Hypothesis Hwf : wf_plan o pl = true.
  Hypothesis HU : forall q, In q (planned c destdir fullprefix pl) -> U q.

  Lemma wf_parts :
    nodd (p_prefix pl) = true /\ nodd destdir = true /\ nodd fullprefix = true /\
    forallb wf_sitem (p_subdirs pl) = true /\ forallb wf_fitem (all_fitems pl) = true /\
    forallb wf_eitem (p_emptydirs pl) = true /\ forallb wf_litem (p_symlinks pl) = true.
  Proof.
    unfold wf_plan in Hwf. repeat (apply andb_true_iff in Hwf as [Hwf ?]).
    repeat split; try assumption. apply nodd_destdir_join; assumption.
  Qed.

  Lemma nodd_gdp' p : nodd p = true -> nodd (get_destdir_path destdir fullprefix p) = true.
  Proof. destruct wf_parts as [_ [Hd [Hf _]]]. intros Hp. apply nodd_gdp; assumption. Qed.

  Lemma planned_plan_ok : plan_ok U c pl destdir.
  Proof.
    destruct wf_parts as [Hp [Hd [Hf [Ws [Wf [We Wl]]]]]].
    unfold plan_ok. fold fullprefix. cbv zeta. split; [|split; [|split]].
    - (* subdirs *)
      intros i Hi Hs. rewrite forallb_forall in Ws. specialize (Ws i Hi). unfold wf_sitem in Ws.
      apply andb_true_iff in Ws as [Wp Ww]. rewrite forallb_forall in Ww.
      assert (forall q, In q (sitem_dests destdir fullprefix i) -> U q) as HUi.
      { intros q Hq. apply HU. unfold planned. apply in_or_app. left. apply in_flat_map. exists i. split; [|exact Hq].
        apply filter_In. split; assumption. }
      split.
      + intros _. apply inU_anc. split; [apply nodd_gdp'; exact Wp|]. apply HUi. left. reflexivity.
      + intros w Hw Pr. specialize (Ww w Hw). unfold wf_wstep in Ww.
        apply andb_true_iff in Ww as [Ww Wfs]. apply andb_true_iff in Ww as [Wr Wd].
        rewrite forallb_forall in Wd, Wfs.
        assert (forall q, In q (wstep_dests (get_destdir_path destdir fullprefix (sd_path i)) i w) -> U q) as HUw.
        { intros q Hq. apply HUi. right. apply in_flat_map. exists w. split; assumption. }
        unfold wstep_dests in HUw. rewrite Pr in HUw. split.
        * intros d Hd' Ex _. split.
          -- apply nodd_pjoin; [apply nodd_gdp'; exact Wp|]. rewrite nodd_app, (nodd_names _ Wr). simpl.
             rewrite (wf_name_nodd _ (Wd d Hd')). reflexivity.
          -- apply HUw. apply in_or_app. left. apply in_map_iff. exists d. split; [reflexivity|].
             apply filter_In. split; [exact Hd'|]. rewrite Ex. reflexivity.
        * intros e He Ex.
          assert (nodd (pjoin (get_destdir_path destdir fullprefix (sd_path i)) (w_rel w ++ [fst e])) = true) as Nd.
          { apply nodd_pjoin; [apply nodd_gdp'; exact Wp|]. rewrite nodd_app, (nodd_names _ Wr). simpl.
            rewrite (wf_name_nodd _ (Wfs e He)). reflexivity. }
          assert (In e (filter (fun e => negb (cp_mem (w_rel w ++ [fst e]) (map normpath (sd_excl_files i)))) (w_files w))) as Fe.
          { apply filter_In. split; [exact He|]. rewrite Ex. reflexivity. }
          split; intros _; (split; [try exact Nd; apply nodd_dirname; exact Nd|]); apply HUw; apply in_or_app; right;
            apply in_flat_map; exists e; (split; [exact Fe|]); simpl; auto.
    - (* files *)
      intros i Hi Hs. rewrite forallb_forall in Wf. specialize (Wf i Hi). unfold wf_fitem in Wf.
      apply andb_true_iff in Wf as [Wp Wn].
      assert (U (cleanp (fitem_outname destdir fullprefix i))) as Ui.
      { apply HU. unfold planned. apply in_or_app. right. apply in_or_app. left. apply in_flat_map. exists i.
        split; [apply filter_In; split; assumption | left; reflexivity]. }
      assert (nodd (fitem_outname destdir fullprefix i) = true) as Nn.
      { unfold fitem_outname. destruct (fi_kind i); try (apply nodd_gdp'; exact Wp);
          (apply nodd_pjoin; [apply nodd_gdp'; exact Wp|]; simpl; rewrite Wn; reflexivity). }
      split; intros _; [split; assumption|].
      unfold fitem_outdir, fitem_outname in *.
      destruct (fi_kind i).
      + split; [apply nodd_gdp'; exact Wp|]. eexists. split; [exact Ui|]. rewrite cleanp_pjoin by reflexivity. apply is_prefix_app.
      + split; [apply nodd_gdp'; exact Wp|]. eexists. split; [exact Ui|]. rewrite cleanp_pjoin by reflexivity. apply is_prefix_app.
      + apply anc_dirname, inU_anc. split; assumption.
      + apply anc_dirname, inU_anc. split; assumption.
    - (* empty directories *)
      intros e Hi Hs _. rewrite forallb_forall in We. specialize (We e Hi). unfold wf_eitem in We.
      split; [apply nodd_gdp'; exact We|]. apply HU. unfold planned. apply in_or_app. right. apply in_or_app. right.
      apply in_or_app. left. apply in_flat_map. exists e. split; [apply filter_In; split; assumption | left; reflexivity].
    - (* symbolic links *)
      intros l Hi Hs. rewrite forallb_forall in Wl. specialize (Wl l Hi). unfold wf_litem in Wl.
      apply andb_true_iff in Wl as [Wn Wp].
      assert (forall q, In q (litem_dests destdir fullprefix l) -> U q) as HUl.
      { intros q Hq. apply HU. unfold planned. apply in_or_app. right. apply in_or_app. right. apply in_or_app. right.
        apply in_flat_map. exists l. split; [apply filter_In; split; assumption | exact Hq]. }
      split; intros _.
      + apply inU_anc. split; [apply nodd_gdp'; exact Wp|]. apply HUl. right. left. reflexivity.
      + split; [apply nodd_gdp'; exact Wn|]. apply HUl. left. reflexivity.
  Qed.
End FromPlanned.

(* every planned location lies under DESTDIR *)
Lemma planned_under_destdir o pl :
  wf_plan o pl = true ->
  forall q, In q (planned_of o pl) -> is_prefix (cleanp (effective_destdir o pl)) q.
Proof.
  intros Hwf q Hq. unfold planned_of, planned in Hq.
  set (destdir := effective_destdir o pl) in *. set (c := mk_cfg o pl) in *.
  unfold wf_plan in Hwf. repeat (apply andb_true_iff in Hwf as [Hwf ?]).
  repeat (apply in_app_or in Hq as [Hq|Hq]); apply in_flat_map in Hq as [i [Hi Hq]]; apply filter_In in Hi as [Hi _].
  - (* subdir *)
    destruct Hq as [<-|Hq]; [apply prefix_gdp|].
    apply in_flat_map in Hq as [w [Hw Hq]].
    match goal with H : forallb wf_sitem _ = true |- _ => rewrite forallb_forall in H; specialize (H i Hi); unfold wf_sitem in H;
      apply andb_true_iff in H as [_ Ww] end.
    rewrite forallb_forall in Ww. specialize (Ww w Hw). unfold wf_wstep in Ww.
    apply andb_true_iff in Ww as [Ww _]. apply andb_true_iff in Ww as [Wr _].
    unfold wstep_dests in Hq. destruct (pruned _ _); [contradiction|].
    apply in_app_or in Hq as [Hq|Hq].
    + apply in_map_iff in Hq as [d [<- _]]. rewrite cleanp_pjoin by (apply rel_names_not_abs; exact Wr).
      apply is_prefix_app_l, prefix_gdp.
    + apply in_flat_map in Hq as [e [_ [<-|[<-|[]]]]].
      * rewrite cleanp_pjoin by (apply rel_names_not_abs; exact Wr). apply is_prefix_app_l, prefix_gdp.
      * rewrite cleanp_dirname_pjoin by (apply rel_names_not_abs; exact Wr). apply is_prefix_app_l, prefix_gdp.
  - (* file *)
    destruct Hq as [<-|[]]. unfold fitem_outname. destruct (fi_kind i); try apply prefix_gdp;
      (rewrite cleanp_pjoin by reflexivity; apply is_prefix_app_l, prefix_gdp).
  - destruct Hq as [<-|[]]. apply prefix_gdp.
  - destruct Hq as [<-|[<-|[]]]; apply prefix_gdp.
Qed.

Lemma prefix_comparable (a b w : cpath) : is_prefix a w -> is_prefix b w -> is_prefix a b \/ is_prefix b a.
Proof.
  revert b w. induction a as [|x a IH]; intros b w [r1 E1] [r2 E2].
  - left. exists b. reflexivity.
  - destruct b as [|y b]; [right; exists (x :: a); reflexivity|].
    subst w. simpl in E2. inversion E2; subst.
    destruct (IH b (a ++ r1)) as [[r ->]|[r ->]]; [apply is_prefix_app | exists r2; assumption | |].
    + left. exists r. reflexivity.
    + right. exists r. reflexivity.
Qed.

(* ------------------------------------------------------------------ the theorems *)
Lemma do_install_touch (U : cpath -> Prop) o pl f f' lg r :
  plan_ok U (mk_cfg o pl) pl (effective_destdir o pl) -> do_install o pl f = (f', lg, r) -> touch U f f'.
Proof.
  intros Hok H. unfold do_install in H.
  destruct (run_install _ _ _ _) as [s r'] eqn:E. inversion H; subst.
  apply (touch_run_install U _ _ _ Hok) in E. exact E.
Qed.

(* C11 containment: whatever `meson install` does (success or failure), every location
   that changes lies under DESTDIR, except that missing ancestors of DESTDIR are created *)
Theorem containment_partial : forall o pl f f' lg r,
  wf_plan o pl = true -> do_install o pl f = (f', lg, r) ->
  forall q, lookup f' q = lookup f q \/ is_prefix (cleanp (effective_destdir o pl)) q \/
            (lookup f q = None /\ (exists m, lookup f' q = Some (NDir m)) /\ is_prefix q (cleanp (effective_destdir o pl))).
Proof.
  intros o pl f f' lg r Hwf H q.
  assert (touch (is_prefix (cleanp (effective_destdir o pl))) f f') as T.
  { eapply do_install_touch; [|exact H]. apply planned_plan_ok; [exact Hwf|]. apply planned_under_destdir. exact Hwf. }
  destruct (T q) as [E|[E|[N [D [w [Uw Pw]]]]]]; auto.
  destruct (prefix_comparable _ _ _ Uw Pw) as [P|P]; auto.
Qed.

(* C11 exactness, first half: nothing beyond the plan is created or altered *)
Theorem no_extras_partial : forall o pl f f' lg r,
  wf_plan o pl = true -> do_install o pl f = (f', lg, r) ->
  forall q, lookup f' q = lookup f q \/ In q (planned_of o pl) \/
            (lookup f q = None /\ (exists m, lookup f' q = Some (NDir m)) /\ exists w, In w (planned_of o pl) /\ is_prefix q w).
Proof.
  intros o pl f f' lg r Hwf H.
  eapply (do_install_touch (fun q => In q (planned_of o pl))); [|exact H].
  apply planned_plan_ok; [exact Hwf|]. intros q Hq. exact Hq.
Qed.

(* C11 dry-run: `--dry-run` leaves every location as it was, for every plan *)
Theorem dry_run_noop : forall o pl f f' lg r,
  o_dry o = true -> do_install o pl f = (f', lg, r) -> forall q, lookup f' q = lookup f q.
Proof.
  intros o pl f f' lg r Hd H q.
  assert (touch (fun _ => False) f f') as T.
  { eapply do_install_touch; [|exact H].
    assert (c_dry (mk_cfg o pl) = true) as Cd by exact Hd.
    assert (forall p, nU (fun _ => False) (mk_cfg o pl) p) as DU by (intros p Hc; rewrite Cd in Hc; discriminate).
    assert (forall p, nA (fun _ => False) (mk_cfg o pl) p) as DA by (intros p Hc; rewrite Cd in Hc; discriminate).
    unfold plan_ok. cbv zeta. split; [|split; [|split]]; intros i Hi Hs.
    - split; [apply DA|]. intros w Hw Pr. split; [intros; apply DU | intros; split; apply DU].
    - split; [apply DU | apply DA].
    - apply DU.
    - split; [apply DA | apply DU]. }
  destruct (T q) as [E|[[]|[_ [_ [w [[] _]]]]]]. exact E.
Qed.

(* ------------------------------------------------------------------ without the guard the statement is false *)
(* install_data('a', install_dir: '../../x') with prefix /usr and DESTDIR /d: the file lands in /x/a *)
Definition dd_item : fitem :=
  mkFitem KData (SReg 420 1 (s2l "dg")) (s2l "a") [s2l ".."; s2l ".."; s2l "x"; s2l "a"] None [] None false.
Definition dd_plan : plan := mkPlan [[]; s2l "usr"] (Some 18) [[]; s2l "b"] [] [] [] [] [] [dd_item] [].
Definition dd_opts : opts := mkOpts false false None [] [[]; s2l "d"] 18.

Theorem containment_refuted :
  exists o pl f f' lg r q,
    do_install o pl f = (f', lg, r) /\ lookup f q = None /\ lookup f' q <> None /\
    ~ is_prefix (cleanp (effective_destdir o pl)) q /\ ~ is_prefix q (cleanp (effective_destdir o pl)).
Proof.
  exists dd_opts, dd_plan, [].
  destruct (do_install dd_opts dd_plan []) as [[f' lg] r] eqn:E.
  exists f', lg, r, [s2l "x"; s2l "a"].
  vm_compute in E. inversion E; subst. split; [reflexivity|]. split; [reflexivity|]. split; [vm_compute; discriminate|].
  split; intros [rr H]; vm_compute in H; discriminate.
Qed.

(* ... and the same run creates /d and /d/usr without naming them in the log *)
Theorem log_complete_refuted :
  exists o pl f f' lg q,
    do_install o pl f = (f', lg, Ok tt) /\ lookup f q = None /\ lookup f' q <> None /\
    ~ In q (flat_map (fun l => match l with LPath p => [cleanp (normpath p)] | _ => [] end) lg).
Proof.
  exists dd_opts, dd_plan, [].
  destruct (do_install dd_opts dd_plan []) as [[f' lg] r] eqn:E.
  exists f', lg, [s2l "d"; s2l "usr"].
  vm_compute in E. inversion E; subst. split; [reflexivity|]. split; [reflexivity|]. split; [vm_compute; discriminate|].
  vm_compute. intros [H|[H|[]]]; discriminate.
Qed.

(* the guard is satisfiable by a non-trivial plan *)
Example wf_plan_example :
  wf_plan (mkOpts false false None [] [[]; s2l "d"] 18)
          (mkPlan [[]; s2l "usr"] (Some 18) [[]; s2l "b"] [] []
                  [mkFitem KHeader (SReg 420 1 (s2l "dg")) (s2l "h.h") [s2l "include"; s2l "p q"] None [] None false] []
                  [mkEitem [s2l "var"; s2l "e "] (Some 448) [] None]
                  [mkFitem KData (SReg 493 1 (s2l "dg")) (s2l "a") [[]; s2l "etc"; s2l "a"] (Some 420) [] (Some (s2l "doc")) false]
                  [mkLitem (s2l "a") [s2l "share"; s2l "l"] [s2l "share"] [] None]) = true.
Proof. vm_compute. reflexivity. Qed.

(* ------------------------------------------------------------------ histories of installations *)
(* any number of `meson install` runs with any options (reinstall, --only-changed, --tags,
   --skip-subprojects, --dry-run; successful or failing), all into the same DESTDIR *)
Fixpoint run_installs (pl : plan) (os : list opts) (f : fs) : fs :=
  match os with
  | [] => f
  | o :: r => let '(f', _, _) := do_install o pl f in run_installs pl r f'
  end.

Theorem installs_contained_partial : forall pl os D f,
  (forall o, In o os -> wf_plan o pl = true /\ cleanp (effective_destdir o pl) = D) ->
  forall q, ~ is_prefix D q -> ~ is_prefix q D -> lookup (run_installs pl os f) q = lookup f q.
Proof.
  intros pl os D. induction os as [|o r IH]; intros f Hos q N1 N2; simpl; [reflexivity|].
  destruct (do_install o pl f) as [[f' lg] res] eqn:E.
  destruct (Hos o (or_introl eq_refl)) as [Hwf HD].
  rewrite IH; [|intros o' Ho'; apply Hos; right; exact Ho' | exact N1 | exact N2].
  destruct (containment_partial o pl f f' lg res Hwf E q) as [X|[X|[_ [_ X]]]]; [exact X | rewrite HD in X; contradiction | rewrite HD in X; contradiction].
Qed.

(* ------------------------------------------------------------------ exclusions hold whatever exists at the destination *)
(* the destinations of an install_subdir rule contain nothing of a directory that is excluded or lies
   below an excluded directory (do_copydir removes it from the walk: minstall.py:519-522), and no
   excluded file (minstall.py:534-535) *)
Lemma pruned_step_no_dests dst i w :
  pruned (map normpath (sd_excl_dirs i)) (w_rel w) = true -> wstep_dests dst i w = [].
Proof. intros H. unfold wstep_dests. rewrite H. reflexivity. Qed.

Lemma excluded_entries_no_dests dst i w q :
  In q (wstep_dests dst i w) ->
  pruned (map normpath (sd_excl_dirs i)) (w_rel w) = false /\
  ((exists d, In d (w_dirs w) /\ cp_mem (w_rel w ++ [fst d]) (map normpath (sd_excl_dirs i)) = false /\
              q = cleanp (pjoin dst (w_rel w ++ [fst d]))) \/
   (exists e, In e (w_files w) /\ cp_mem (w_rel w ++ [fst e]) (map normpath (sd_excl_files i)) = false /\
              (q = cleanp (pjoin dst (w_rel w ++ [fst e])) \/ q = cleanp (dirname (pjoin dst (w_rel w ++ [fst e])))))).
Proof.
  unfold wstep_dests. destruct (pruned _ _); [intros []|]. intros H. split; [reflexivity|].
  apply in_app_or in H as [H|H].
  - apply in_map_iff in H as [d [<- Hd]]. apply filter_In in Hd as [Hd Hx]. left. exists d.
    apply negb_true_iff in Hx. auto.
  - apply in_flat_map in H as [e [He Hq]]. apply filter_In in He as [He Hx]. right. exists e.
    apply negb_true_iff in Hx. split; [exact He|]. split; [exact Hx|]. destruct Hq as [<-|[<-|[]]]; auto.
Qed.

(* for every initial filesystem - in particular whatever already exists at the destination: directories
   created by other rules, by an earlier installation, or present beforehand - a location that is not a
   destination of a selected rule (sources minus exclusions) nor an ancestor of one is left exactly as it was *)
Theorem unplanned_untouched_partial : forall o pl f f' lg r,
  wf_plan o pl = true -> do_install o pl f = (f', lg, r) ->
  forall q, ~ In q (planned_of o pl) -> (forall w, In w (planned_of o pl) -> ~ is_prefix q w) ->
            lookup f' q = lookup f q.
Proof.
  intros o pl f f' lg r Hwf H q N1 N2.
  destruct (no_extras_partial o pl f f' lg r Hwf H q) as [X|[X|[_ [_ [w [Hw Pw]]]]]]; [exact X | contradiction|].
  exfalso. exact (N2 w Hw Pw).
Qed.

(* ------------------------------------------------------------------ permission bits *)
Definition node_mode (o : option node) : option N :=
  match o with Some (NFile m _ _) => Some m | Some (NDir m) => Some m | _ => None end.

(* containment covers permission bits: outside DESTDIR no mode changes either *)
Theorem containment_modes_partial : forall o pl f f' lg r,
  wf_plan o pl = true -> do_install o pl f = (f', lg, r) ->
  forall q, ~ is_prefix (cleanp (effective_destdir o pl)) q -> ~ is_prefix q (cleanp (effective_destdir o pl)) ->
            node_mode (lookup f' q) = node_mode (lookup f q).
Proof.
  intros o pl f f' lg r Hwf H q N1 N2.
  destruct (containment_partial o pl f f' lg r Hwf H q) as [X|[X|[_ [_ X]]]]; [rewrite X; reflexivity | contradiction | contradiction].
Qed.

(* set_chmod (minstall.py:197-203) never acts through a symbolic link: setting the mode of a path that
   is a link leaves the whole filesystem as it is - the link and whatever it points to *)
Lemma m_chmod_link_noop f p m f' t :
  nodd p = true -> lookup f (cleanp p) = Some (NLink t) -> m_chmod f p m = Ok f' -> f' = f.
Proof.
  intros Hn L H. unfold m_chmod, resolve_x in H. destruct (resolve f p) as [c|e] eqn:R; [|destruct e; discriminate].
  apply resolve_nodd in R; [subst c | exact Hn]. destruct (cleanp p) as [|x c]; [inversion H; reflexivity|].
  rewrite L in H. inversion H. reflexivity.
Qed.

Theorem set_mode_on_link_changes_nothing : forall c p mode s s' r t,
  nodd p = true -> lookup (s_fs s) (cleanp p) = Some (NLink t) ->
  set_mode c p mode s = (s', r) -> s_fs s' = s_fs s.
Proof.
  intros c p mode s s' r t Hn L H. unfold set_mode in H. destruct (c_dry c) eqn:Dry; [inversion H; reflexivity|].
  assert (forall pm s2 r2, mutate c (fun f => m_chmod f p pm) s = (s2, r2) -> s_fs s2 = s_fs s) as Ch.
  { intros pm s2 r2 X. unfold mutate in X. rewrite Dry in X. destruct (m_chmod (s_fs s) p pm) as [f2|e] eqn:E; inversion X; subst; [|reflexivity].
    simpl. eapply m_chmod_link_noop; eauto. }
  destruct mode as [pm|]; [eapply Ch; eauto|].
  unfold sanitize_raw in H. destruct (c_umask c) as [um|]; [|inversion H; reflexivity].
  unfold bind, query in H. destruct (lnode (s_fs s) p) as [[nd0|]|e]; simpl in H; try (inversion H; reflexivity).
  eapply Ch; eauto.
Qed.
