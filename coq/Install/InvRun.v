(* Install/InvRun.v — every function of the installer preserves the invariant I1 in a
   real run that succeeds; consequences for the final state of do_install. *)
From MV Require Import Base.Strs Base.LexFacts Install.Tree Install.TreeFacts Install.Model Install.Spec Install.Proofs
  Install.Contain Install.Log Install.Invariant Install.InvSteps.
From Coq Require Import Lia.
Open Scope N_scope.

Definition pok (p : path) : Prop := nd p = true /\ isabs p = true.

Lemma pok_dirname p : pok p -> pok (dirname p).
Proof. intros [A B]. split; [apply nd_dirname | apply isabs_dirname]; assumption. Qed.

Lemma I1_eta f0 h s : I1 f0 h s -> I1 f0 h (mkSt (s_fs s) (s_log s) (s_dirs s)).
Proof. destruct s. auto. Qed.

Section Run.
  Variable f0 : fs.
  Variable c : cfg.
  Hypothesis Dry : c_dry c = false.
  Notation I := (I1 f0 None).

  Lemma inv_chmod p m : inv I (mutate c (fun f => m_chmod f p m)).
  Proof.
    intros s s' a HI H. unfold mutate in H. rewrite Dry in H.
    destruct (m_chmod (s_fs s) p m) as [f'|e] eqn:E; inversion H; subst.
    apply m_chmod_spec in E as [->|[cc [_ [C [Mo _]]]]]; [apply I1_eta; exact HI|].
    eapply I1_mode; eauto.
  Qed.

  Lemma inv_sanitize_raw p : inv I (sanitize_raw c p).
  Proof.
    unfold sanitize_raw. destruct (c_umask c); [|apply okp_ret; auto].
    apply inv_query_bind. intros [nd0|]; [apply inv_chmod | apply okp_fail].
  Qed.
  Lemma inv_sanitize p : inv I (sanitize c p).
  Proof. unfold sanitize. rewrite Dry. apply inv_sanitize_raw. Qed.
  Lemma inv_set_mode p mode : inv I (set_mode c p mode).
  Proof. unfold set_mode. rewrite Dry. destruct mode; [apply inv_chmod | apply inv_sanitize_raw]. Qed.

  Lemma inv_dm_makedirs p eo : pok p -> inv I (dm_makedirs c p eo).
  Proof. intros [A B] s s' [] HI H. eapply I1_dm_makedirs; eauto. Qed.

  Lemma src_create_spec src p f f' : src_create src p f = Ok f' ->
    exists cc, resolve f p = Ok cc /\ cc <> [] /\ chg_at f f' cc /\ leaf (lookup f' cc) /\ (lookup f cc = None \/ leaf (lookup f cc)).
  Proof.
    unfold src_create. destruct src as [m t d| | |tg tm]; try discriminate; intros H.
    - pose proof H as H0. apply m_write_spec in H as [cc [R [L [C Pre]]]]. exists cc.
      repeat split; auto; [eapply m_write_nonroot; eauto | rewrite L; exact Logic.I|].
      destruct Pre as [N|[m0 [t0 [d0 Lf]]]]; [left; exact N | right; rewrite Lf; exact Logic.I].
    - pose proof H as H0. apply m_symlink_spec in H as [cc [R [N [L C]]]]. exists cc.
      repeat split; auto; [eapply m_symlink_nonroot; eauto | rewrite L; exact Logic.I].
  Qed.

  Lemma inv_copy_to src to_file mk :
    pok to_file -> (forall od, mk = Some od -> pok od) -> inv I (copy_to c src to_file mk).
  Proof.
    intros [Hd Ha] Hmk s0 s' a HI0 H. pose proof (nd_nodd _ Hd) as Hn.
    unfold copy_to in H.
    unfold bind at 1 in H. unfold query at 1 in H.
    destruct (q_islink (s_fs s0) to_file) as [il|e] eqn:Qi; [|discriminate].
    (* a link in the way is removed: the invariant holds with a hole at the destination *)
    assert (exists s h, I1 f0 h s /\
              (h = None \/ (h = Some (cleanp to_file) /\ lookup (s_fs s) (cleanp to_file) = None /\ cleanp to_file <> [])) /\
              (if il then mutate c (fun f => m_unlink f to_file) else ret tt) s0 = (s, Ok tt)) as [s [h [HI [Hh E0]]]].
    { destruct il; [|exists s0, None; auto].
      unfold mutate. rewrite Dry. destruct (m_unlink (s_fs s0) to_file) as [f1|e] eqn:Un.
      - exists (with_fs s0 f1), (Some (cleanp to_file)). pose proof Un as Un0.
        apply m_unlink_spec in Un as [c1 [R1 [Ne [Nd [N1 C1]]]]].
        assert (c1 <> []) as Nc by (unfold m_unlink, resolve_x in Un0; rewrite R1 in Un0; destruct c1; [discriminate | discriminate]).
        apply resolve_nodd in R1; [subst c1 | exact Hn]. split; [|split; [right; auto | reflexivity]].
        apply I1_open; auto. destruct (lookup (s_fs s0) (cleanp to_file)) as [[| |]|]; simpl; auto. eapply Nd; reflexivity.
      - unfold bind in H. unfold mutate in H. rewrite Dry, Un in H. discriminate. }
    unfold bind at 1 in H. rewrite E0 in H. clear E0 HI0 Qi s0.
    assert (h = None \/ h = Some (cleanp to_file)) as Hh' by (destruct Hh as [X|[X _]]; auto).
    unfold bind, query in H.
    destruct (q_exists (s_fs s) to_file) as [[|]|e] eqn:Qe; [| |discriminate].
    - (* the destination exists: there is no hole *)
      assert (h = None) as ->.
      { destruct Hh as [X|[_ [N1 Nc]]]; [exact X|]. exfalso.
        apply q_exists_true in Qe; [|exact Hn]. destruct Qe as [X|X]; contradiction. }
      destruct (q_isfile (s_fs s) to_file) as [[|]|e] eqn:Qf; simpl in H; try discriminate.
      destruct (lnode (s_fs s) to_file) as [n|e] eqn:Ln; [|discriminate].
      destruct (c_only_changed c && _).
      + unfold log, ret in H. inversion H; subst. apply I1_log_comment; [reflexivity | intros p0; discriminate | exact HI].
      + unfold mutate in H. rewrite Dry in H.
        destruct (m_unlink (s_fs s) to_file) as [f1|e] eqn:Un; [|discriminate]. unfold ret in H. simpl in H.
        destruct (src_create src to_file f1) as [f2|e] eqn:Wr; [|discriminate].
        unfold log in H. simpl in H. inversion H; subst.
        apply m_unlink_spec in Un as [c1 [R1 [Ne [Nd [_ C1]]]]]. apply resolve_nodd in R1; [subst c1 | exact Hn].
        apply src_create_spec in Wr as [c2 [R2 [Nc [C2 [L2 _]]]]]. apply resolve_nodd in R2; [subst c2 | exact Hn].
        apply (I1_leaf_logged f0 None); [exact Hd | exact Ha | exact Nc | left; reflexivity | exact HI | eapply chg_at_trans; eauto | exact L2|].
        right. destruct (lookup (s_fs s) (cleanp to_file)) as [[| |]|]; simpl; auto. eapply Nd; reflexivity.
    - (* it does not exist *)
      assert (exists s1, I1 f0 h s1 /\ (match mk with Some outdir => dm_makedirs c outdir true | None => ret tt end) s = (s1, Ok tt)) as [s1 [HI1 E1]].
      { destruct mk as [od|].
        - destruct (dm_makedirs c od true s) as [s1 [[]|e]] eqn:Dm; [|discriminate].
          exists s1. split; [|reflexivity]. destruct (Hmk od eq_refl) as [A B]. eapply I1_dm_makedirs; eauto.
        - exists s. split; [exact HI | reflexivity]. }
      rewrite E1 in H. unfold ret, mutate in H. rewrite Dry in H. simpl in H.
      destruct (src_create src to_file (s_fs s1)) as [f2|e] eqn:Wr; [|discriminate].
      unfold log in H. simpl in H. inversion H; subst.
      apply src_create_spec in Wr as [c2 [R2 [Nc [C2 [L2 Pre]]]]].
      pose proof (resolve_parent _ _ _ Hn R2 Nc) as Pd.
      apply resolve_nodd in R2; [subst c2 | exact Hn].
      apply (I1_leaf_logged f0 h); [exact Hd | exact Ha | exact Nc | exact Hh' | exact HI1 | exact C2 | exact L2|].
      destruct Pre as [N|Lf]; [left; auto | right; exact Lf].
  Qed.

  Lemma inv_do_copyfile src to_file mk :
    pok to_file -> (forall od, mk = Some od -> pok od) -> inv I (do_copyfile c src to_file mk).
  Proof.
    intros Hp Hmk. unfold do_copyfile. destruct src; try apply okp_fail; apply inv_copy_to; assumption.
  Qed.

  Lemma inv_do_symlink target link : pok link -> inv I (do_symlink c target link).
  Proof.
    intros [Hd Ha] s s' a HI H. pose proof (nd_nodd _ Hd) as Hn.
    unfold do_symlink, bind, query in H.
    destruct (q_lexists (s_fs s) link) as [[|]|e] eqn:Ql; [| |discriminate].
    - destruct (q_islink (s_fs s) link) as [[|]|e] eqn:Qi; simpl in H; try discriminate.
      unfold mutate in H. rewrite Dry in H.
      destruct (m_unlink (s_fs s) link) as [f1|e] eqn:Un; [|discriminate].
      unfold try_symlink in H. rewrite Dry in H. simpl in H.
      destruct (unlink_then_symlink _ _ _ target Un) as [f2 Sy]. rewrite Sy in H.
      unfold log, ret in H. simpl in H. inversion H; subst.
      apply m_unlink_spec in Un as [c1 [R1 [Ne [Nd [_ C1]]]]]. apply resolve_nodd in R1; [subst c1 | exact Hn].
      pose proof Sy as Sy0. apply m_symlink_spec in Sy as [c2 [R2 [_ [L2 C2]]]].
      pose proof (m_symlink_nonroot _ _ _ _ _ Sy0 R2) as Nc. apply resolve_nodd in R2; [subst c2 | exact Hn].
      apply (I1_leaf_logged f0 None); [exact Hd | exact Ha | exact Nc | left; reflexivity | exact HI | eapply chg_at_trans; eauto | rewrite L2; exact Logic.I|].
      right. destruct (lookup (s_fs s) (cleanp link)) as [[| |]|]; simpl; auto. eapply Nd; reflexivity.
    - unfold ret, try_symlink in H. rewrite Dry in H. simpl in H.
      destruct (m_symlink (s_fs s) link target) as [f2|e] eqn:Sy.
      + unfold log in H. simpl in H. inversion H; subst.
        pose proof Sy as Sy0. apply m_symlink_spec in Sy as [c2 [R2 [N2 [L2 C2]]]].
        pose proof (m_symlink_nonroot _ _ _ _ _ Sy0 R2) as Nc.
        pose proof (resolve_parent _ _ _ Hn R2 Nc) as Pd.
        apply resolve_nodd in R2; [subst c2 | exact Hn].
        apply (I1_leaf_logged f0 None); [exact Hd | exact Ha | exact Nc | left; reflexivity | exact HI | exact C2 | rewrite L2; exact Logic.I | left; auto].
      + destruct e; try discriminate. simpl in H. inversion H; subst. exact HI.
  Qed.

  Lemma inv_copydir_dir dst_dir excl rel d :
    (cp_mem (rel ++ [fst d]) excl = false -> pok (pjoin dst_dir (rel ++ [fst d]))) ->
    inv I (copydir_dir c dst_dir excl rel d).
  Proof.
    intros Hp. unfold copydir_dir. destruct (cp_mem _ _); [apply okp_ret; auto|]. specialize (Hp eq_refl).
    apply inv_query_bind. intros [|]; [apply okp_ret; auto|].
    apply inv_query_bind. intros [|]; [apply okp_fail|].
    eapply okp_bind; [apply inv_dm_makedirs; exact Hp|]. intros u.
    eapply okp_bind; [apply inv_chmod|]. intros u2. apply inv_sanitize.
  Qed.

  Lemma inv_copydir_file dst_dir excl mode rel rootmode e :
    (cp_mem (rel ++ [fst e]) excl = false -> pok (pjoin dst_dir (rel ++ [fst e]))) ->
    inv I (copydir_file c dst_dir excl mode rel rootmode e).
  Proof.
    intros Hp. unfold copydir_file. destruct (cp_mem _ _); [apply okp_ret; auto|]. specialize (Hp eq_refl).
    apply inv_query_bind. intros [|]; [apply okp_fail|].
    apply inv_query_bind. intros pd.
    eapply okp_bind.
    { instantiate (1 := fun _ => I). destruct pd; [apply okp_ret; auto|].
      eapply okp_bind; [apply inv_dm_makedirs, pok_dirname; exact Hp|]. intros u. apply inv_chmod. }
    intros u.
    eapply okp_bind; [apply inv_do_copyfile; [exact Hp | discriminate]|]. intros b. apply inv_set_mode.
  Qed.

  Definition sitem_pok (dst_dir : path) (i : sitem) : Prop :=
    pok dst_dir /\
    forall w, In w (sd_walk i) ->
      (forall d, In d (w_dirs w) -> pok (pjoin dst_dir (w_rel w ++ [fst d]))) /\
      (forall e, In e (w_files w) -> pok (pjoin dst_dir (w_rel w ++ [fst e]))).

  Lemma inv_do_copydir dst_dir i : sitem_pok dst_dir i -> inv I (do_copydir c dst_dir i).
  Proof.
    intros [_ Hok]. unfold do_copydir. destruct (negb (isabs dst_dir)); [apply okp_fail|].
    apply inv_forM. intros w Hw. destruct (Hok w Hw) as [Hd Hf].
    unfold copydir_step. destruct (pruned _ _); [apply okp_ret; auto|].
    eapply okp_bind; [apply inv_forM; intros d Hin; apply inv_copydir_dir; intros _; apply Hd; exact Hin|].
    intros u. apply inv_forM. intros e Hin. apply inv_copydir_file. intros _. apply Hf. exact Hin.
  Qed.

  Variables destdir fullprefix : path.
  Notation gdp := (get_destdir_path destdir fullprefix).

  Lemma inv_install_subdir i : sitem_pok (gdp (sd_path i)) i -> inv I (install_subdir c destdir fullprefix i).
  Proof.
    intros Hok. unfold install_subdir. destruct (negb (should_install _ _ _)); [apply okp_ret; auto|]. cbv zeta.
    eapply okp_bind; [apply inv_dm_makedirs; apply Hok|]. intros u. apply inv_do_copydir. exact Hok.
  Qed.

  Lemma inv_install_fitem i :
    pok (fitem_outname destdir fullprefix i) -> pok (fitem_outdir destdir fullprefix i) ->
    inv I (install_fitem c destdir fullprefix i).
  Proof.
    intros Hn Hd. unfold install_fitem. destruct (negb (should_install _ _ _)); [apply okp_ret; auto|]. cbv zeta.
    assert (forall src, inv I (do_copyfile c src (fitem_outname destdir fullprefix i) (Some (fitem_outdir destdir fullprefix i)))) as Hc.
    { intros src. apply inv_do_copyfile; [exact Hn|]. intros od E. inversion E; subst. exact Hd. }
    destruct (fi_kind i).
    - destruct (fi_src i) eqn:Es.
      + eapply okp_bind; [apply Hc|]. intros [|]; [apply inv_set_mode | apply okp_ret; auto].
      + destruct (fi_optional i); [apply okp_ret; auto | apply okp_fail].
      + apply okp_fail.
      + eapply okp_bind; [apply Hc|]. intros [|]; [apply inv_set_mode | apply okp_ret; auto].
    - eapply okp_bind; [apply Hc|]. intros b. apply inv_set_mode.
    - eapply okp_bind; [apply Hc|]. intros b. apply inv_set_mode.
    - eapply okp_bind; [apply Hc|]. intros b. apply inv_set_mode.
  Qed.

  Lemma inv_install_emptydir e : pok (gdp (e_path e)) -> inv I (install_emptydir c destdir fullprefix e).
  Proof.
    intros Hp. unfold install_emptydir. destruct (negb (should_install _ _ _)); [apply okp_ret; auto|]. cbv zeta.
    apply inv_query_bind. intros [|]; [apply okp_fail|].
    eapply okp_bind; [apply inv_dm_makedirs; exact Hp|]. intros u. apply inv_set_mode.
  Qed.

  Lemma inv_install_symlink l : pok (gdp (l_path l)) -> pok (gdp (l_name l)) -> inv I (install_symlink c destdir fullprefix l).
  Proof.
    intros Hp Hl. unfold install_symlink. destruct (negb (should_install _ _ _)); [apply okp_ret; auto|]. cbv zeta.
    eapply okp_bind; [apply inv_dm_makedirs; exact Hp|]. intros u.
    eapply okp_bind; [apply inv_do_symlink; exact Hl|]. intros b. apply okp_ret. auto.
  Qed.
End Run.
