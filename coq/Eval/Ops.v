(* Eval/Ops.v — InterpreterObject.operator_call for the elementary holders:
   interpreterbase/baseobjects.py:128-159 (dispatch, op_equals/op_not_equals),
   interpreter/primitives/{integer,boolean,string,array,dict,range}.py (tables).
   No proofs in this file. *)
From MV Require Export Eval.Values.
Open Scope N_scope.

(* interpreterbase/operator.py: MesonOperator *)
Inductive mop :=
| OpPlus | OpMinus | OpTimes | OpDiv | OpMod | OpUMinus | OpNot | OpBool
| OpEq | OpNe | OpGt | OpLt | OpGe | OpLe | OpIn | OpNotIn | OpIndex.

Definition is_Lt (c : comparison) := match c with Lt => true | _ => false end.
Definition is_Gt (c : comparison) := match c with Gt => true | _ => false end.

Definition vbool (b : bool) : pres value := POk (VBool b).
Definition of_opt_bool (o : option bool) (neg : bool) : pres value :=
  match o with Some b => vbool (if neg then negb b else b) | None => POom end.

(* len(range(start, stop, step)), step >= 1 *)
Definition range_len (start stop step : Z) : Z :=
  if (stop <=? start)%Z then 0%Z else ((stop - start + step - 1) / step)%Z.
Fixpoint range_items_go (n : nat) (start step : Z) : list Z :=
  match n with O => [] | S k => start :: range_items_go k (start + step)%Z step end.
Definition range_items (start stop step : Z) : list Z :=
  range_items_go (Z.to_nat (range_len start stop step)) start step.

(* IntegerHolder: integer.py:24-41 (TRIVIAL_OPERATORS), 78-89 (op_div, op_mod).
   isinstance(other, int) also accepts bool (FeatureBroken notice only). *)
Definition int_op (z : Z) (op : mop) (other : option value) : pres value :=
  match op, other with
  | OpUMinus, None => POk (VInt (- z))
  | OpUMinus, Some _ => PInvalid
  | _, None => PInvalid
  | _, Some o =>
      match as_int o with
      | None => PInvalid
      | Some y =>
          match op with
          | OpPlus => POk (VInt (z + y))
          | OpMinus => POk (VInt (z - y))
          | OpTimes => POk (VInt (z * y))
          | OpDiv => if (y =? 0)%Z then PInvalid else POk (VInt (z / y))
          | OpMod => if (y =? 0)%Z then PInvalid else POk (VInt (z mod y))
          | OpEq => vbool (z =? y)%Z
          | OpNe => vbool (negb (z =? y)%Z)
          | OpGt => vbool (y <? z)%Z
          | OpLt => vbool (z <? y)%Z
          | OpGe => vbool (y <=? z)%Z
          | OpLe => vbool (z <=? y)%Z
          | _ => PInvalid
          end
      end
  end.

(* BooleanHolder: boolean.py:22-27 *)
Definition bool_op (b : bool) (op : mop) (other : option value) : pres value :=
  match op, other with
  | OpBool, None => vbool b
  | OpNot, None => vbool (negb b)
  | OpEq, Some (VBool y) => vbool (Bool.eqb b y)
  | OpNe, Some (VBool y) => vbool (negb (Bool.eqb b y))
  | _, _ => PInvalid
  end.

(* StringHolder: string.py:32-44 (TRIVIAL_OPERATORS), 185-213 (op_div, op_index, op_in, op_notin) *)
Definition str_op (s : str) (op : mop) (other : option value) : pres value :=
  match op, other with
  | OpIndex, Some o =>
      match as_int o with
      | Some i => match py_index s i with Some c => POk (VStr [c]) | None => PInvalid end
      | None => PInvalid
      end
  | _, Some (VStr t) =>
      match op with
      | OpPlus => POk (VStr (s ++ t))
      | OpEq => vbool (str_eqb s t)
      | OpNe => vbool (negb (str_eqb s t))
      | OpGt => vbool (is_Gt (str_cmp s t))
      | OpLt => vbool (is_Lt (str_cmp s t))
      | OpGe => vbool (negb (is_Lt (str_cmp s t)))
      | OpLe => vbool (negb (is_Gt (str_cmp s t)))
      | OpDiv => POk (VStr (path_join s t))
      | OpIn => vbool (contains_sub t s)
      | OpNotIn => vbool (negb (contains_sub t s))
      | _ => PInvalid
      end
  | _, _ => PInvalid
  end.

(* ArrayHolder: array.py:31-36 (TRIVIAL_OPERATORS), 99-115 (op_plus, op_index) *)
Definition arr_op (l : list value) (op : mop) (other : option value) : pres value :=
  match op, other with
  | OpEq, Some (VArr m) => of_opt_bool (py_eq (VArr l) (VArr m)) false
  | OpNe, Some (VArr m) => of_opt_bool (py_eq (VArr l) (VArr m)) true
  | OpIn, Some x => of_opt_bool (py_in_list x l) false
  | OpNotIn, Some x => of_opt_bool (py_in_list x l) true
  | OpPlus, Some (VArr m) => POk (VArr (l ++ m))
  | OpPlus, Some x => POk (VArr (l ++ [x]))
  | OpIndex, Some o =>
      match as_int o with
      | Some i => match py_index l i with Some v => POk v | None => PInvalid end
      | None => PInvalid
      end
  | _, _ => PInvalid
  end.

(* DictHolder: dict.py:29-38 (TRIVIAL_OPERATORS), 85-90 (op_index) *)
Definition dict_op (d : list (str * value)) (op : mop) (other : option value) : pres value :=
  match op, other with
  | OpPlus, Some (VDict e) => POk (VDict (dict_merge d e))
  | OpEq, Some (VDict e) => of_opt_bool (py_eq (VDict d) (VDict e)) false
  | OpNe, Some (VDict e) => of_opt_bool (py_eq (VDict d) (VDict e)) true
  | OpIn, Some (VStr k) => vbool (has_key k d)
  | OpNotIn, Some (VStr k) => vbool (negb (has_key k d))
  | OpIndex, Some (VStr k) => match lookup k d with Some v => POk v | None => PInvalid end
  | _, _ => PInvalid
  end.

(* RangeHolder: range.py:22-27 (op_index; the index is type-checked — pending fix
   C01-range-index-type) and the inherited identity ==/!= of InterpreterObject
   (baseobjects.py:147-159: other types are rejected, two ranges compare by identity). *)
Definition range_op (start stop step : Z) (op : mop) (other : option value) : pres value :=
  match op, other with
  | OpIndex, Some o =>
      match as_int o with
      | Some i =>
          let n := range_len start stop step in
          let j := if (i <? 0)%Z then (i + n)%Z else i in
          if ((j <? 0) || (n <=? j))%Z then PInvalid else POk (VInt (start + j * step))
      | None => PInvalid
      end
  | OpEq, Some (VRange _ _ _) | OpNe, Some (VRange _ _ _) => POom
  | _, _ => PInvalid
  end.

Definition sub_op (op : mop) (other : option value) : pres value :=
  match op, other with
  | OpEq, Some (VSub _) | OpNe, Some (VSub _) => POom
  | _, _ => PInvalid
  end.

(* InterpreterObject.operator_call: baseobjects.py:128-143 *)
Definition operator_call (self : value) (op : mop) (other : option value) : pres value :=
  match self with
  | VInt z => int_op z op other
  | VBool b => bool_op b op other
  | VStr s => str_op s op other
  | VArr l => arr_op l op other
  | VDict d => dict_op d op other
  | VRange a b c => range_op a b c op other
  | VSub _ => sub_op op other
  end.
