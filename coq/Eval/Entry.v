(* Eval/Entry.v — entry point used by the C01 correspondence: a project (list of build files)
   is evaluated and the observable result rendered to one canonical string:
     class [SEP1 file SEP1 line] SEP1 message SEP2 message ...
   class: OK | ERR (MesonException, with the build file and line it is reported at) |
          PY (an internal Python exception escapes) | OOM (outside the model) | FUEL.
   Mirrored in harness/check_C01.py. *)
From MV Require Import Base.Strs Eval.Interp.
Open Scope N_scope.

Definition SEP1 : str := [1].
Definition SEP2 : str := [2].

Fixpoint pair_up (l : list str) : files_t :=
  match l with
  | p :: c :: r => (p, c) :: pair_up r
  | _ => []
  end.

Definition total_len (fs : files_t) : nat :=
  fold_left (fun a pc => (a + length (snd pc) + 4)%nat) fs 8%nat.

Definition render_msgs (st : istate) : str := join SEP2 (rev (out st)).

Definition render (r : outcome unit) : str :=
  match r with
  | Val _ st => s2l "OK" ++ SEP1 ++ render_msgs st
  | Fail EMeson (Some (f, (l, _))) st => s2l "ERR" ++ SEP1 ++ f ++ SEP1 ++ N_dec l ++ SEP1 ++ render_msgs st
  | Fail EMeson None st => s2l "ERR" ++ SEP1 ++ SEP1 ++ [48] ++ SEP1 ++ render_msgs st
  | Fail EPy _ st => s2l "PY" ++ SEP1 ++ render_msgs st
  | Brk _ st | Cont _ st => s2l "PY" ++ SEP1 ++ render_msgs st
  | OutOfFuel => s2l "FUEL"
  | OutOfModel => s2l "OOM"
  end.

Definition run_files (fs : files_t) : outcome unit := run_root fs (total_len fs).

Definition run (fn : str) (args : list str) : str :=
  if str_eqb fn (s2l "run") then render (run_files (pair_up args))
  else s2l "?".
