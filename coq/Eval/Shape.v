(* Eval/Shape.v — documented precedence and associativity, as an invariant of every tree the
   (proved) parser model accepts: each operator node's operands sit at the ladder level the
   language reference prescribes.  Together with token conservation (C02) this fixes the
   grouping of every accepted expression.
     level 1  = += ?:      2  or      3  and      4  == != < <= > >= in 'not in'
           5  + -          6  * / %   7  not, unary -      8  atoms, (...), [...], {...}, calls,
                                                              method calls, indexing
   * binary operators are left-associative: the right operand is one level higher;
   * comparisons do not chain: both operands are at level >= 5;
   * unary operators do not stack: the operand is at level 8;
   * a ternary inside a ternary is rejected: the branches of ?: contain no ?: at any depth. *)
From MV Require Import Base.Strs Syntax.Lexer Syntax.Parser Syntax.Yield Syntax.ParserFacts.
From Coq Require Import Lia.
Open Scope N_scope.

Definition lvl (n : node) : nat :=
  match n with
  | NAssign _ _ _ | NPlusAssign _ _ _ | NTernary _ _ _ _ _ => 1
  | NOr _ _ _ => 2
  | NAnd _ _ _ => 3
  | NCmp _ _ _ | NNotIn _ _ _ _ => 4
  | NArith _ op _ => if addsub_kind (tk op) then 5 else 6
  | NNot _ _ _ | NUMinus _ _ _ => 7
  | NIf _ _ | NIfElse _ _ _ _ _ | NForeach _ _ _ _ _ _ _ | NContinue _ _ | NBreak _ _ => 0
  | _ => 8
  end.

(* no ternary operator anywhere inside *)
Fixpoint nt (n : node) : bool :=
  match n with
  | NEmpty _ | NBool _ | NId _ | NNum _ | NStr _ | NContinue _ _ | NBreak _ _ => true
  | NParen _ e _ => nt e
  | NArray _ a _ _ | NDict _ a _ _ | NFunc _ _ a _ _ => nt_args a
  | NMethod obj _ _ _ a _ _ => nt obj && nt_args a
  | NIndex o _ i _ => nt o && nt i
  | NNot _ _ e | NUMinus _ _ e => nt e
  | NArith l _ r | NCmp l _ r | NAnd l _ r | NOr l _ r | NNotIn l _ _ r => nt l && nt r
  | NTernary _ _ _ _ _ => false
  | NAssign _ _ v | NPlusAssign _ _ v => nt v
  | NIf i _ => nt_ifs i
  | NIfElse i _ _ b _ => nt_ifs i && nt_block b
  | NForeach _ _ _ _ items b _ => nt items && nt_block b
  end
with nt_args (a : args) : bool :=
  match a with
  | ANil => true
  | APos n r => nt n && nt_args r
  | AKw k _ v r => nt k && nt v && nt_args r
  end
with nt_block (b : block) : bool :=
  match b with BNil => true | BLine n _ r => nt n && nt_block r end
with nt_ifs (i : ifs) : bool :=
  match i with INil => true | ICons _ c _ b r => nt c && nt_block b && nt_ifs r end.

Definition ge (k : nat) (n : node) : bool := Nat.leb k (lvl n).

(* the grouping of the tree is the documented one, at every depth *)
Fixpoint wfb (n : node) : bool :=
  match n with
  | NEmpty _ | NBool _ | NId _ | NNum _ | NStr _ | NContinue _ _ | NBreak _ _ => true
  | NParen _ e _ => wfb e
  | NArray _ a _ _ | NDict _ a _ _ | NFunc _ _ a _ _ => wfb_args a
  | NMethod obj _ _ _ a _ _ => wfb obj && ge 8 obj && wfb_args a
  | NIndex o _ i _ => wfb o && ge 8 o && wfb i
  | NNot _ _ e | NUMinus _ _ e => wfb e && ge 8 e
  | NArith l op r =>
      wfb l && wfb r &&
      (if addsub_kind (tk op) then ge 5 l && ge 6 r else muldiv_kind (tk op) && ge 6 l && ge 7 r)
  | NCmp l _ r | NNotIn l _ _ r => wfb l && wfb r && ge 5 l && ge 5 r
  | NAnd l _ r => wfb l && wfb r && ge 3 l && ge 4 r
  | NOr l _ r => wfb l && wfb r && ge 2 l && ge 3 r
  | NTernary c _ t _ f => wfb c && wfb t && wfb f && ge 2 c && nt t && nt f
  | NAssign _ _ v | NPlusAssign _ _ v => wfb v
  | NIf i _ => wfb_ifs i
  | NIfElse i _ _ b _ => wfb_ifs i && wfb_block b
  | NForeach _ _ _ _ items b _ => wfb items && wfb_block b
  end
with wfb_args (a : args) : bool :=
  match a with
  | ANil => true
  | APos n r => wfb n && wfb_args r
  | AKw k _ v r => wfb k && wfb v && wfb_args r
  end
with wfb_block (b : block) : bool :=
  match b with BNil => true | BLine n _ r => wfb n && wfb_block r end
with wfb_ifs (i : ifs) : bool :=
  match i with INil => true | ICons _ c _ b r => wfb c && wfb_block b && wfb_ifs r end.

(* ------------------------------------------------------------------ snoc lemmas *)
Lemma wfb_snoc_pos a n : wfb_args (args_snoc_pos a n) = wfb_args a && wfb n.
Proof. induction a; cbn; rewrite ?IHa, ?Bool.andb_assoc, ?Bool.andb_true_r; auto. Qed.
Lemma wfb_snoc_kw a k c v : wfb_args (args_snoc_kw a k c v) = wfb_args a && (wfb k && wfb v).
Proof. induction a; cbn; rewrite ?IHa, ?Bool.andb_assoc, ?Bool.andb_true_r; auto. Qed.
Lemma nt_snoc_pos a n : nt_args (args_snoc_pos a n) = nt_args a && nt n.
Proof. induction a; cbn; rewrite ?IHa, ?Bool.andb_assoc, ?Bool.andb_true_r; auto. Qed.
Lemma nt_snoc_kw a k c v : nt_args (args_snoc_kw a k c v) = nt_args a && (nt k && nt v).
Proof. induction a; cbn; rewrite ?IHa, ?Bool.andb_assoc, ?Bool.andb_true_r; auto. Qed.
Lemma wfb_block_snoc b n e : wfb_block (block_snoc b n e) = wfb_block b && wfb n.
Proof. induction b; cbn; rewrite ?IHb, ?Bool.andb_assoc, ?Bool.andb_true_r; auto. Qed.
Lemma nt_block_snoc b n e : nt_block (block_snoc b n e) = nt_block b && nt n.
Proof. induction b; cbn; rewrite ?IHb, ?Bool.andb_assoc, ?Bool.andb_true_r; auto. Qed.
Lemma wfb_ifs_snoc i kw c e b : wfb_ifs (ifs_snoc i kw c e b) = wfb_ifs i && (wfb c && wfb_block b).
Proof. induction i; cbn; rewrite ?IHi, ?Bool.andb_assoc, ?Bool.andb_true_r; auto. Qed.
Lemma nt_ifs_snoc i kw c e b : nt_ifs (ifs_snoc i kw c e b) = nt_ifs i && (nt c && nt_block b).
Proof. induction i; cbn; rewrite ?IHi, ?Bool.andb_assoc, ?Bool.andb_true_r; auto. Qed.

(* ------------------------------------------------------------------ token primitives *)
Lemma advance_tern st st' : advance st = Ok st' -> tern st' = tern st.
Proof.
  unfold advance. destruct (toks st) as [|t [|t2 r]].
  - intros H; inversion H; reflexivity.
  - destruct (lexerr st); [discriminate|]. intros H; inversion H; reflexivity.
  - intros H; inversion H; reflexivity.
Qed.
Lemma accept_tern k st t st' : accept k st = Ok (Some (t, st')) -> tern st' = tern st /\ tk t = k.
Proof.
  unfold accept. destruct (kind_beq (tk (cur st)) k) eqn:E; [|discriminate].
  destruct (advance st) as [st1| |] eqn:A; cbn; try discriminate. intros H; inversion H; subst.
  split; [eapply advance_tern; eassumption|apply kind_beq_eq; exact E].
Qed.
Lemma accept_any_tern q st t st' : accept_any q st = Ok (Some (t, st')) -> tern st' = tern st /\ q (tk t) = true.
Proof.
  unfold accept_any. destruct (q (tk (cur st))) eqn:E; [|discriminate].
  destruct (advance st) as [st1| |] eqn:A; cbn; try discriminate. intros H; inversion H; subst.
  split; [eapply advance_tern; eassumption|exact E].
Qed.
Lemma expect_tern k st t st' : expect k st = Ok (t, st') -> tern st' = tern st.
Proof.
  unfold expect. destruct (accept k st) as [[[t1 st1]|]| |] eqn:A; cbn; try discriminate.
  intros H; inversion H; subst. eapply accept_tern; eassumption.
Qed.

(* ------------------------------------------------------------------ the invariant *)
Definition good (st st' : pst) (n : node) (K : nat) : Prop :=
  tern st' = tern st /\ wfb n = true /\ (tern st = true -> nt n = true) /\ (K <= lvl n)%nat.
Definition good_args (st st' : pst) (a : args) : Prop :=
  tern st' = tern st /\ wfb_args a = true /\ (tern st = true -> nt_args a = true).

Definition g_node (K : nat) (f : pst -> res (node * pst)) : Prop :=
  forall st n st', f st = Ok (n, st') -> good st st' n K.
Definition g_loop (K : nat) (f : node -> pst -> res (node * pst)) : Prop :=
  forall l st n st', f l st = Ok (n, st') ->
    wfb l = true -> (tern st = true -> nt l = true) -> (K <= lvl l)%nat -> good st st' n K.
Definition g_method (f : node -> token -> pst -> res (node * pst)) : Prop :=
  forall o d st n st', f o d st = Ok (n, st') ->
    wfb o = true -> (tern st = true -> nt o = true) -> (8 <= lvl o)%nat -> good st st' n 8.
Definition g_args (f : pst -> res (args * list token * pst)) : Prop :=
  forall st a c st', f st = Ok (a, c, st') -> good_args st st' a.
Definition g_args_loop (f : node -> args -> list token -> pst -> res (args * list token * pst)) : Prop :=
  forall s a c st a' c' st', f s a c st = Ok (a', c', st') ->
    wfb s = true -> (tern st = true -> nt s = true) ->
    wfb_args a = true -> (tern st = true -> nt_args a = true) -> good_args st st' a'.
Definition good_ifs (st st' : pst) (i : ifs) : Prop :=
  tern st' = tern st /\ wfb_ifs i = true /\ (tern st = true -> nt_ifs i = true).
Definition good_block (st st' : pst) (b : block) : Prop :=
  tern st' = tern st /\ wfb_block b = true /\ (tern st = true -> nt_block b = true).
Definition g_ifs (f : ifs -> pst -> res (ifs * pst)) : Prop :=
  forall i st i' st', f i st = Ok (i', st') ->
    wfb_ifs i = true -> (tern st = true -> nt_ifs i = true) -> good_ifs st st' i'.
Definition g_block (f : pst -> res (block * pst)) : Prop :=
  forall st b st', f st = Ok (b, st') -> good_block st st' b.
Definition g_block_loop (f : block -> pst -> res (block * pst)) : Prop :=
  forall bl st b st', f bl st = Ok (b, st') ->
    wfb_block bl = true -> (tern st = true -> nt_block bl = true) -> good_block st st' b.

Record all_good (p : parsers) : Prop := {
  g_e1 : g_node 1 (p_e1 p); g_e2 : g_node 2 (p_e2 p); g_or : g_loop 2 (p_or_loop p);
  g_e3 : g_node 3 (p_e3 p); g_and : g_loop 3 (p_and_loop p); g_e4 : g_node 4 (p_e4 p);
  g_e5 : g_node 5 (p_e5 p); g_add : g_loop 5 (p_add_loop p); g_e6 : g_node 6 (p_e6 p);
  g_mul : g_loop 6 (p_mul_loop p); g_e7 : g_node 7 (p_e7 p); g_e8 : g_node 8 (p_e8 p);
  g_post : g_loop 8 (p_postfix_loop p); g_meth : g_method (p_method_call p);
  g_e9 : g_node 8 (p_e9 p); g_e10 : g_node 8 (p_e10 p);
  g_kv : g_args (p_key_values p); g_kvl : g_args_loop (p_kv_loop p);
  g_ar : g_args (p_args_ p); g_arl : g_args_loop (p_args_loop p);
  g_line : g_node 0 (p_line p); g_elif : g_ifs (p_elif_loop p);
  g_cb : g_block (p_codeblock p); g_bl : g_block_loop (p_block_loop p) }.

(* ------------------------------------------------------------------ tactics *)
Ltac dgood :=
  repeat match goal with
  | H : good _ _ _ _ |- _ => destruct H as (? & ? & ? & ?)
  | H : good_args _ _ _ |- _ => destruct H as (? & ? & ?)
  | H : good_ifs _ _ _ |- _ => destruct H as (? & ? & ?)
  | H : good_block _ _ _ |- _ => destruct H as (? & ? & ?)
  | H : _ /\ _ |- _ => destruct H
  end.

(* facts of the token primitives and of the parsers that take no precondition *)
Ltac facts0 p Hp :=
  repeat match goal with
  | E : accept _ _ = Ok (Some _) |- _ => apply accept_tern in E
  | E : accept_any _ _ = Ok (Some _) |- _ => apply accept_any_tern in E
  | E : expect _ _ = Ok _ |- _ => apply expect_tern in E
  | E : advance _ = Ok _ |- _ => apply advance_tern in E
  | E : accept _ _ = Ok None |- _ => clear E
  | E : accept_any _ _ = Ok None |- _ => clear E
  | E : p_e1 p _ = Ok _ |- _ => apply (g_e1 p Hp) in E
  | E : p_e2 p _ = Ok _ |- _ => apply (g_e2 p Hp) in E
  | E : p_e3 p _ = Ok _ |- _ => apply (g_e3 p Hp) in E
  | E : p_e4 p _ = Ok _ |- _ => apply (g_e4 p Hp) in E
  | E : p_e5 p _ = Ok _ |- _ => apply (g_e5 p Hp) in E
  | E : p_e6 p _ = Ok _ |- _ => apply (g_e6 p Hp) in E
  | E : p_e7 p _ = Ok _ |- _ => apply (g_e7 p Hp) in E
  | E : p_e8 p _ = Ok _ |- _ => apply (g_e8 p Hp) in E
  | E : p_e9 p _ = Ok _ |- _ => apply (g_e9 p Hp) in E
  | E : p_e10 p _ = Ok _ |- _ => apply (g_e10 p Hp) in E
  | E : p_line p _ = Ok _ |- _ => apply (g_line p Hp) in E
  | E : p_key_values p _ = Ok _ |- _ => apply (g_kv p Hp) in E
  | E : p_args_ p _ = Ok _ |- _ => apply (g_ar p Hp) in E
  | E : p_codeblock p _ = Ok _ |- _ => apply (g_cb p Hp) in E
  end; dgood.

(* discharge the premises tern s = true of the no-ternary facts *)
Ltac use_tern :=
  cbn [tern set_tern] in *;
  repeat match goal with
  | H : true = true -> _ |- _ => specialize (H eq_refl)
  | H : tern ?s = true -> _ |- _ =>
      first [ let X := fresh in assert (X : tern s = true) by congruence; specialize (H X); clear X
            | clear H ]
  end.

Ltac bools :=
  cbn [wfb wfb_args wfb_block wfb_ifs nt nt_args nt_block nt_ifs lvl ge];
  rewrite ?wfb_snoc_pos, ?wfb_snoc_kw, ?nt_snoc_pos, ?nt_snoc_kw, ?wfb_block_snoc, ?nt_block_snoc,
          ?wfb_ifs_snoc, ?nt_ifs_snoc;
  cbn [wfb wfb_args wfb_block wfb_ifs nt nt_args nt_block nt_ifs lvl ge];
  repeat match goal with
  | H : ?q (tk ?t) = _ |- context [?q (tk ?t)] => rewrite H
  end;
  repeat (apply andb_true_intro; split);
  try assumption; try reflexivity;
  try (apply Nat.leb_le; cbn [lvl];
       repeat match goal with H : ?q (tk ?t) = _ |- context [?q (tk ?t)] => rewrite H end; lia).

Ltac fin_tern := cbn [tern set_tern] in *; congruence.
Ltac fin_wfb := use_tern; bools.
Ltac fin_nt := let T := fresh "T" in intros T;
  first [ exfalso; cbn [tern set_tern] in *; congruence | use_tern; bools ].
Ltac fin_lvl := cbn [lvl];
  repeat match goal with H : ?q (tk ?t) = _ |- context [?q (tk ?t)] => rewrite H end;
  try lia.

Ltac fin := first [ split; [fin_tern | split; [fin_wfb | split; [fin_nt | fin_lvl]]]
                  | split; [fin_tern | split; [fin_wfb | fin_nt]] ].

Lemma muldiv_not_addsub k : muldiv_kind k = true -> addsub_kind k = false.
Proof. destruct k; cbn; congruence. Qed.

Section Step.
  Variable p : parsers.
  Hypothesis Hp : all_good p.

  Ltac inv := repeat inv_step p Hp.

  Lemma s_e10 : g_node 8 (p_e10 (step p)).
  Proof.
    intros st n st' H. cbn [step p_e10] in H.
    destruct (tk (cur st)); inv; facts0 p Hp; fin.
  Qed.

  Lemma s_e9 : g_node 8 (p_e9 (step p)).
  Proof. intros st n st' H. cbn [step p_e9] in H. inv; facts0 p Hp; fin. Qed.

  Lemma s_method : g_method (p_method_call (step p)).
  Proof.
    intros o d st n st' H Ho Hn Hl. cbn [step p_method_call] in H. inv; facts0 p Hp.
    - match goal with E : p_method_call p ?m _ _ = Ok _ |- _ =>
        let G := fresh "G" in assert (G : good _ _ _ 8) by (eapply (g_meth p Hp); [exact E | fin_wfb | fin_nt | fin_lvl]); clear E end;
      dgood; fin.
    - fin.
  Qed.

  Lemma s_post : g_loop 8 (p_postfix_loop (step p)).
  Proof.
    intros l st n st' H Ho Hn Hl. cbn [step p_postfix_loop] in H. inv; facts0 p Hp.
    - match goal with E : p_method_call p _ _ _ = Ok _ |- _ =>
        let G := fresh "G" in assert (G : good _ _ _ 8) by (eapply (g_meth p Hp); [exact E | fin_wfb | fin_nt | fin_lvl]); clear E end;
      dgood.
      match goal with E : p_postfix_loop p _ _ = Ok _ |- _ =>
        let G := fresh "G" in assert (G : good _ _ _ 8) by (eapply (g_post p Hp); [exact E | fin_wfb | fin_nt | fin_lvl]); clear E end;
      dgood; fin.
    - match goal with E : p_postfix_loop p _ _ = Ok _ |- _ =>
        let G := fresh "G" in assert (G : good _ _ _ 8) by (eapply (g_post p Hp); [exact E | fin_wfb | fin_nt | fin_lvl]); clear E end;
      dgood; fin.
    - fin.
  Qed.

  Lemma s_e8 : g_node 8 (p_e8 (step p)).
  Proof.
    intros st n st' H. cbn [step p_e8] in H. inv; facts0 p Hp.
    - match goal with E : p_postfix_loop p _ _ = Ok _ |- _ =>
        let G := fresh "G" in assert (G : good _ _ _ 8) by (eapply (g_post p Hp); [exact E | fin_wfb | fin_nt | fin_lvl]); clear E end;
      dgood; fin.
    - match goal with E : p_postfix_loop p _ _ = Ok _ |- _ =>
        let G := fresh "G" in assert (G : good _ _ _ 8) by (eapply (g_post p Hp); [exact E | fin_wfb | fin_nt | fin_lvl]); clear E end;
      dgood; fin.
  Qed.

  Lemma s_e7 : g_node 7 (p_e7 (step p)).
  Proof. intros st n st' H. cbn [step p_e7] in H. inv; facts0 p Hp; fin. Qed.

  Lemma s_mul : g_loop 6 (p_mul_loop (step p)).
  Proof.
    intros l st n st' H Ho Hn Hl. cbn [step p_mul_loop] in H. inv; facts0 p Hp.
    - match goal with M : muldiv_kind (tk ?t) = true |- _ => pose proof (muldiv_not_addsub _ M) end.
      match goal with E : p_mul_loop p _ _ = Ok _ |- _ =>
        let G := fresh "G" in assert (G : good _ _ _ 6) by (eapply (g_mul p Hp); [exact E | fin_wfb | fin_nt | fin_lvl]); clear E end;
      dgood; fin.
    - fin.
  Qed.
  Lemma s_e6 : g_node 6 (p_e6 (step p)).
  Proof.
    intros st n st' H. cbn [step p_e6] in H. inv; facts0 p Hp.
    match goal with E : p_mul_loop p _ _ = Ok _ |- _ =>
        let G := fresh "G" in assert (G : good _ _ _ 6) by (eapply (g_mul p Hp); [exact E | fin_wfb | fin_nt | fin_lvl]); clear E end;
      dgood; fin.
  Qed.

  Lemma s_add : g_loop 5 (p_add_loop (step p)).
  Proof.
    intros l st n st' H Ho Hn Hl. cbn [step p_add_loop] in H. inv; facts0 p Hp.
    - match goal with E : p_add_loop p _ _ = Ok _ |- _ =>
        let G := fresh "G" in assert (G : good _ _ _ 5) by (eapply (g_add p Hp); [exact E | fin_wfb | fin_nt | fin_lvl]); clear E end;
      dgood; fin.
    - fin.
  Qed.
  Lemma s_e5 : g_node 5 (p_e5 (step p)).
  Proof.
    intros st n st' H. cbn [step p_e5] in H. inv; facts0 p Hp.
    match goal with E : p_add_loop p _ _ = Ok _ |- _ =>
        let G := fresh "G" in assert (G : good _ _ _ 5) by (eapply (g_add p Hp); [exact E | fin_wfb | fin_nt | fin_lvl]); clear E end;
      dgood; fin.
  Qed.

  Lemma s_e4 : g_node 4 (p_e4 (step p)).
  Proof. intros st n st' H. cbn [step p_e4] in H. inv; facts0 p Hp; fin. Qed.

  Lemma s_and : g_loop 3 (p_and_loop (step p)).
  Proof.
    intros l st n st' H Ho Hn Hl. cbn [step p_and_loop] in H. inv; facts0 p Hp.
    - match goal with E : p_and_loop p _ _ = Ok _ |- _ =>
        let G := fresh "G" in assert (G : good _ _ _ 3) by (eapply (g_and p Hp); [exact E | fin_wfb | fin_nt | fin_lvl]); clear E end;
      dgood; fin.
    - fin.
  Qed.
  Lemma s_e3 : g_node 3 (p_e3 (step p)).
  Proof.
    intros st n st' H. cbn [step p_e3] in H. inv; facts0 p Hp.
    match goal with E : p_and_loop p _ _ = Ok _ |- _ =>
        let G := fresh "G" in assert (G : good _ _ _ 3) by (eapply (g_and p Hp); [exact E | fin_wfb | fin_nt | fin_lvl]); clear E end;
      dgood; fin.
  Qed.

  Lemma s_or : g_loop 2 (p_or_loop (step p)).
  Proof.
    intros l st n st' H Ho Hn Hl. cbn [step p_or_loop] in H. inv; facts0 p Hp.
    - match goal with E : p_or_loop p _ _ = Ok _ |- _ =>
        let G := fresh "G" in assert (G : good _ _ _ 2) by (eapply (g_or p Hp); [exact E | fin_wfb | fin_nt | fin_lvl]); clear E end;
      dgood; fin.
    - fin.
  Qed.
  Lemma s_e2 : g_node 2 (p_e2 (step p)).
  Proof.
    intros st n st' H. cbn [step p_e2] in H. inv; facts0 p Hp.
    match goal with E : p_or_loop p _ _ = Ok _ |- _ =>
        let G := fresh "G" in assert (G : good _ _ _ 2) by (eapply (g_or p Hp); [exact E | fin_wfb | fin_nt | fin_lvl]); clear E end;
      dgood; fin.
  Qed.

  Lemma s_e1 : g_node 1 (p_e1 (step p)).
  Proof. intros st n st' H. cbn [step p_e1] in H. inv; facts0 p Hp; fin. Qed.

  Lemma s_kvl : g_args_loop (p_kv_loop (step p)).
  Proof.
    intros s a c st a' c' st' H Hs Hn Ha Hna. cbn [step p_kv_loop] in H. inv; facts0 p Hp.
    - fin.
    - match goal with E : p_kv_loop p _ _ _ _ = Ok _ |- _ =>
        let G := fresh "G" in assert (G : good_args _ _ _) by (eapply (g_kvl p Hp); [exact E | fin_wfb | fin_nt | fin_wfb | fin_nt]); clear E end;
      dgood; fin.
    - fin.
  Qed.
  Lemma s_kv : g_args (p_key_values (step p)).
  Proof.
    intros st a c st' H. cbn [step p_key_values] in H. inv; facts0 p Hp.
    match goal with E : p_kv_loop p _ _ _ _ = Ok _ |- _ =>
        let G := fresh "G" in assert (G : good_args _ _ _) by (eapply (g_kvl p Hp); [exact E | fin_wfb | fin_nt | fin_wfb | fin_nt]); clear E end;
      dgood; fin.
  Qed.

  Lemma s_arl : g_args_loop (p_args_loop (step p)).
  Proof.
    intros s a c st a' c' st' H Hs Hn Ha Hna. cbn [step p_args_loop] in H. inv; facts0 p Hp.
    - fin.
    - match goal with E : p_args_loop p _ _ _ _ = Ok _ |- _ =>
        let G := fresh "G" in assert (G : good_args _ _ _) by (eapply (g_arl p Hp); [exact E | fin_wfb | fin_nt | fin_wfb | fin_nt]); clear E end;
      dgood; fin.
    - match goal with E : p_args_loop p _ _ _ _ = Ok _ |- _ =>
        let G := fresh "G" in assert (G : good_args _ _ _) by (eapply (g_arl p Hp); [exact E | fin_wfb | fin_nt | fin_wfb | fin_nt]); clear E end;
      dgood; fin.
    - fin.
    - fin.
  Qed.
  Lemma s_ar : g_args (p_args_ (step p)).
  Proof.
    intros st a c st' H. cbn [step p_args_] in H. inv; facts0 p Hp.
    match goal with E : p_args_loop p _ _ _ _ = Ok _ |- _ =>
        let G := fresh "G" in assert (G : good_args _ _ _) by (eapply (g_arl p Hp); [exact E | fin_wfb | fin_nt | fin_wfb | fin_nt]); clear E end;
      dgood; fin.
  Qed.

  Lemma s_elif : g_ifs (p_elif_loop (step p)).
  Proof.
    intros i st i' st' H Hi Hn. cbn [step p_elif_loop] in H. inv; facts0 p Hp.
    - match goal with E : p_elif_loop p _ _ = Ok _ |- _ =>
        let G := fresh "G" in assert (G : good_ifs _ _ _) by (eapply (g_elif p Hp); [exact E | fin_wfb | fin_nt]); clear E end;
      dgood; fin.
    - fin.
  Qed.

  Lemma s_line : g_node 0 (p_line (step p)).
  Proof.
    intros st n st' H. cbn [step p_line] in H. inv; facts0 p Hp.
    all: try match goal with E : p_elif_loop p _ _ = Ok _ |- _ =>
        let G := fresh "G" in assert (G : good_ifs _ _ _) by (eapply (g_elif p Hp); [exact E | fin_wfb | fin_nt]); clear E end;
      dgood.
    all: fin.
  Qed.

  Lemma s_bl : g_block_loop (p_block_loop (step p)).
  Proof.
    intros bl st b st' H Hb Hn. cbn [step p_block_loop] in H. inv; facts0 p Hp.
    - match goal with E : p_block_loop p _ _ = Ok _ |- _ =>
        let G := fresh "G" in assert (G : good_block _ _ _) by (eapply (g_bl p Hp); [exact E | fin_wfb | fin_nt]); clear E end;
      dgood; fin.
    - fin.
  Qed.
  Lemma s_cb : g_block (p_codeblock (step p)).
  Proof.
    intros st b st' H. cbn [step p_codeblock] in H.
    eapply (g_bl p Hp); [exact H|reflexivity|reflexivity].
  Qed.

  Theorem step_good : all_good (step p).
  Proof.
    constructor.
    - exact s_e1. - exact s_e2. - exact s_or. - exact s_e3. - exact s_and. - exact s_e4.
    - exact s_e5. - exact s_add. - exact s_e6. - exact s_mul. - exact s_e7. - exact s_e8.
    - exact s_post. - exact s_method. - exact s_e9. - exact s_e10. - exact s_kv. - exact s_kvl.
    - exact s_ar. - exact s_arl. - exact s_line. - exact s_elif. - exact s_cb. - exact s_bl.
  Qed.
End Step.

Lemma fuel_good : all_good fuel_parsers.
Proof. constructor; repeat intro; discriminate. Qed.
Theorem P_good n : all_good (P n).
Proof. induction n as [|n IH]; [exact fuel_good|apply step_good; exact IH]. Qed.

(* every accepted token stream / text yields a tree grouped as the reference prescribes *)
Theorem parse_tokens_shape fuel st b :
  tern st = false -> parse_tokens fuel st = Ok b -> wfb_block b = true.
Proof.
  unfold parse_tokens. intros Ht H.
  destruct (p_codeblock (P fuel) st) as [[b0 st1]| |] eqn:E; cbn [bind] in H; try discriminate.
  apply (g_cb _ (P_good fuel)) in E. destruct E as (_ & W & _).
  destruct (expect KEof st1) as [[t st2]| |]; cbn [bind] in H; try discriminate.
  inversion H; subst. exact W.
Qed.

Theorem parse_shape s b : parse s = Ok b -> wfb_block b = true.
Proof.
  unfold parse. destruct s as [|c r].
  - apply parse_tokens_shape. reflexivity.
  - destruct (c =? c_bom); [discriminate|].
    destruct (lex_prefix _ _ _) as [ts e].
    destruct (significant ts) eqn:S.
    + destruct e; [discriminate|]. apply parse_tokens_shape. reflexivity.
    + apply parse_tokens_shape. reflexivity.
Qed.

(* readable consequences of wfb for one node *)
Lemma wfb_cmp_no_chain l op r : wfb (NCmp l op r) = true -> (5 <= lvl l)%nat /\ (5 <= lvl r)%nat.
Proof.
  cbn [wfb ge]. intros H. repeat (apply Bool.andb_true_iff in H; destruct H as [H ?]).
  split; apply Nat.leb_le; assumption.
Qed.
Lemma wfb_unary_no_stack op p e : wfb (NNot op p e) = true \/ wfb (NUMinus op p e) = true -> (8 <= lvl e)%nat.
Proof.
  cbn [wfb ge]. intros [H|H]; apply Bool.andb_true_iff in H; destruct H as [_ H]; apply Nat.leb_le; exact H.
Qed.
Lemma wfb_ternary_not_nested c q t colon f : wfb (NTernary c q t colon f) = true -> nt t = true /\ nt f = true.
Proof.
  cbn [wfb]. intros H. repeat (apply Bool.andb_true_iff in H; destruct H as [H ?]). split; assumption.
Qed.
Lemma wfb_left_assoc l op r : wfb (NArith l op r) = true ->
  (lvl (NArith l op r) <= lvl l)%nat /\ (lvl (NArith l op r) < lvl r)%nat.
Proof.
  cbn [wfb ge lvl]. intros H. apply Bool.andb_true_iff in H. destruct H as [_ H].
  destruct (addsub_kind (tk op)).
  - apply Bool.andb_true_iff in H. destruct H as [H1 H2]. apply Nat.leb_le in H1, H2. lia.
  - apply Bool.andb_true_iff in H. destruct H as [H H2]. apply Bool.andb_true_iff in H. destruct H as [_ H1].
    apply Nat.leb_le in H1, H2. lia.
Qed.
Lemma wfb_and_or l op r :
  (wfb (NAnd l op r) = true -> (3 <= lvl l)%nat /\ (4 <= lvl r)%nat) /\
  (wfb (NOr l op r) = true -> (2 <= lvl l)%nat /\ (3 <= lvl r)%nat).
Proof.
  cbn [wfb ge]. split; intros H; repeat (apply Bool.andb_true_iff in H; destruct H as [H ?]);
    split; apply Nat.leb_le; assumption.
Qed.
