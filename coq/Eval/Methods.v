(* Eval/Methods.v — the documented methods of str / array / dict / int / bool:
   interpreter/primitives/{string,array,dict,integer,boolean}.py, with the argument checking of
   interpreterbase/decorators.py (noPosargs, noKwargs, typed_pos_args, typed_kwargs) and the
   flattening of InterpreterObject.method_call (baseobjects.py:109-126).
   No proofs in this file. *)
From MV Require Export Eval.Ops.
From MV Require Version.Model.
Open Scope N_scope.

Definition kwargs_t := list (str * value).

Definition vstrs (l : list str) : value := VArr (map VStr l).
Definition ok (v : value) : pres value := POk v.

Fixpoint all_strs (l : list value) : option (list str) :=
  match l with
  | [] => Some []
  | VStr s :: r => match all_strs r with Some t => Some (s :: t) | None => None end
  | _ :: _ => None
  end.

(* noKwargs: "if kwargs: raise" *)
Definition no_kw {A} (kw : kwargs_t) (k : pres A) : pres A :=
  match kw with [] => k | _ => PInvalid end.

(* ------------------------------------------------------------------ str *)
Definition m_eq (name : str) (lit : string) : bool := str_eqb name (s2l lit).

Fixpoint stringify_args (l : list value) : pres (list str) :=
  match l with
  | [] => POk []
  | x :: r =>
      match stringify false x with
      | POk s => pbind (stringify_args r) (fun t => POk (s :: t))
      | PInvalid => POom            (* falls back to str(arg): object repr, outside the model *)
      | PCrash => PCrash
      | POom => POom
      end
  end.

Definition str_method (s : str) (name : str) (raw : list value) (kw : kwargs_t) : pres value :=
  let args := flatten_vals raw in
  if m_eq name "format" then                                   (* string.py:66-82, noArgsFlattening *)
    no_kw kw (pbind (stringify_args raw) (fun strs => pmap VStr (format_subst strs s)))
  else if m_eq name "contains" then
    no_kw kw (match args with [VStr a] => vbool (contains_sub a s) | _ => PInvalid end)
  else if m_eq name "startswith" then
    no_kw kw (match args with [VStr a] => vbool (prefixb a s) | _ => PInvalid end)
  else if m_eq name "endswith" then
    no_kw kw (match args with [VStr a] => vbool (suffixb a s) | _ => PInvalid end)
  else if m_eq name "splitlines" then
    no_kw kw (match args with [] => ok (vstrs (py_splitlines s)) | _ => PInvalid end)
  else if m_eq name "join" then
    no_kw kw (match all_strs args with Some l => ok (VStr (join s l)) | None => PInvalid end)
  else if m_eq name "replace" then
    no_kw kw (match args with [VStr a; VStr b] => ok (VStr (py_replace a b s)) | _ => PInvalid end)
  else if m_eq name "split" then
    no_kw kw (match args with
              | [] => ok (vstrs (py_split_ws s))
              | [VStr []] => PInvalid
              | [VStr d] => ok (vstrs (py_split d s))
              | _ => PInvalid
              end)
  else if m_eq name "strip" then
    no_kw kw (match args with
              | [] => ok (VStr (strip s))
              | [VStr c] => ok (VStr (strip_chars c s))
              | _ => PInvalid
              end)
  else if m_eq name "substring" then
    no_kw kw (match args with
              | [] => ok (VStr s)
              | [a] => match as_int a with
                       | Some i => ok (VStr (py_slice s (Some i) (Some (zlen s)) 1))
                       | None => PInvalid end
              | [a; b] => match as_int a, as_int b with
                          | Some i, Some j => ok (VStr (py_slice s (Some i) (Some j) 1))
                          | _, _ => PInvalid end
              | _ => PInvalid
              end)
  else if m_eq name "to_int" then
    no_kw kw (match args with [] => pmap VInt (str_to_int s) | _ => PInvalid end)
  else if m_eq name "to_lower" then
    no_kw kw (match args with [] => pmap VStr (py_lower s) | _ => PInvalid end)
  else if m_eq name "to_upper" then
    no_kw kw (match args with [] => pmap VStr (py_upper s) | _ => PInvalid end)
  else if m_eq name "underscorify" then
    no_kw kw (match args with [] => ok (VStr (underscorify s)) | _ => PInvalid end)
  else if m_eq name "version_compare" then                     (* string.py:171-177 *)
    no_kw kw (match all_strs args with
              | Some (c :: cs) =>
                  if forallb is_ascii (s :: c :: cs)
                  then vbool (Version.Model.compare_many_ok s (c :: cs)) else POom
              | _ => PInvalid
              end)
  else PInvalid.     (* unknown method: InvalidCode *)

(* ------------------------------------------------------------------ int / bool *)
(* integer.py:46-76.  typed_kwargs('to_string', fill: int = 0, format: str = 'dec' in
   {dec,hex,oct,bin}); a bool given for fill is rejected (pending fix C01-to-string-fill-bool) *)
Fixpoint to_string_kw (kw : kwargs_t) (fill : Z) (fmt : nat) : option (Z * nat) :=
  match kw with
  | [] => Some (fill, fmt)
  | (k, v) :: r =>
      if m_eq k "fill" then
        match v with VInt z => to_string_kw r z fmt | _ => None end
      else if m_eq k "format" then
        match v with
        | VStr f => if m_eq f "dec" then to_string_kw r fill 0%nat
                    else if m_eq f "hex" then to_string_kw r fill 1%nat
                    else if m_eq f "oct" then to_string_kw r fill 2%nat
                    else if m_eq f "bin" then to_string_kw r fill 3%nat
                    else None
        | _ => None
        end
      else None
  end.

Definition int_method (z : Z) (name : str) (raw : list value) (kw : kwargs_t) : pres value :=
  let args := flatten_vals raw in
  if m_eq name "is_even" then
    no_kw kw (match args with [] => vbool ((z mod 2 =? 0)%Z) | _ => PInvalid end)
  else if m_eq name "is_odd" then
    no_kw kw (match args with [] => vbool (negb (z mod 2 =? 0)%Z) | _ => PInvalid end)
  else if m_eq name "to_string" then
    match args, to_string_kw kw 0%Z 0%nat with
    | [], Some (fill, fmt) => pmap VStr (format_int z fill fmt)
    | _, _ => PInvalid
    end
  else PInvalid.

(* boolean.py:32-46 *)
Definition bool_method (b : bool) (name : str) (raw : list value) (kw : kwargs_t) : pres value :=
  let args := flatten_vals raw in
  if m_eq name "to_int" then
    no_kw kw (match args with [] => ok (VInt (b2z b)) | _ => PInvalid end)
  else if m_eq name "to_string" then
    no_kw kw (match args with
              | [] => ok (VStr (if b then s2l "true" else s2l "false"))
              | [VStr t; VStr f] =>
                  (* args[0] or 'true' : an empty string selects the default *)
                  let t' := match t with [] => s2l "true" | _ => t end in
                  let f' := match f with [] => s2l "false" | _ => f end in
                  ok (VStr (if b then t' else f'))
              | _ => PInvalid
              end)
  else PInvalid.

(* ------------------------------------------------------------------ array *)
(* array.py:50-62 check_contains: descends into nested lists, then compares the element *)
Fixpoint contains_rec (x : value) (v : value) {struct v} : option bool :=
  match v with
  | VArr l =>
      (fix go (l : list value) : option bool :=
         match l with
         | [] => Some false
         | e :: r =>
             let here := match e with VArr _ => contains_rec x e | _ => Some false end in
             match here with
             | Some true => Some true
             | None => None
             | Some false =>
                 match py_eq e x with
                 | Some true => Some true
                 | None => None
                 | Some false => go r
                 end
             end
         end) l
  | _ => Some false
  end.

Fixpoint slice_kw (kw : kwargs_t) (step : Z) : option Z :=
  match kw with
  | [] => Some step
  | (k, v) :: r =>
      if m_eq k "step" then match as_int v with Some z => slice_kw r z | None => None end
      else None
  end.

Definition arr_method (l : list value) (name : str) (raw : list value) (kw : kwargs_t) : pres value :=
  let args := flatten_vals raw in
  if m_eq name "contains" then                                  (* noArgsFlattening *)
    no_kw kw (match raw with [x] => of_opt_bool (contains_rec x (VArr l)) false | _ => PInvalid end)
  else if m_eq name "length" then
    no_kw kw (match args with [] => ok (VInt (zlen l)) | _ => PInvalid end)
  else if m_eq name "get" then                                  (* array.py:70-80, noArgsFlattening *)
    no_kw kw (match raw with
              | [a] => match as_int a with
                       | Some i => match py_index l i with Some v => ok v | None => PInvalid end
                       | None => PInvalid end
              | [a; d] => match as_int a with
                          | Some i => match py_index l i with Some v => ok v | None => ok d end
                          | None => PInvalid end
              | _ => PInvalid
              end)
  else if m_eq name "slice" then                                (* array.py:82-93 *)
    match slice_kw kw 1%Z with
    | None => PInvalid
    | Some step =>
        if (step =? 0)%Z then PInvalid else
        match args with
        | [] => ok (VArr (py_slice l None None step))
        | [a; b] => match as_int a, as_int b with
                    | Some i, Some j => ok (VArr (py_slice l (Some i) (Some j) step))
                    | _, _ => PInvalid end
        | _ => PInvalid      (* one positional argument is "ambiguous"; more than two rejected *)
        end
    end
  else if m_eq name "flatten" then
    no_kw kw (match args with [] => ok (VArr (flat1 (VArr l))) | _ => PInvalid end)
  else PInvalid.

(* ------------------------------------------------------------------ dict *)
Definition dict_method (d : list (str * value)) (name : str) (raw : list value) (kw : kwargs_t) : pres value :=
  let args := flatten_vals raw in
  let keys := sort_strs (map fst d) in
  if m_eq name "has_key" then
    no_kw kw (match args with [VStr k] => vbool (has_key k d) | _ => PInvalid end)
  else if m_eq name "keys" then
    no_kw kw (match args with [] => ok (vstrs keys) | _ => PInvalid end)
  else if m_eq name "values" then
    no_kw kw (match args with
              | [] => ok (VArr (flat_map (fun k => match lookup k d with Some v => [v] | None => [] end) keys))
              | _ => PInvalid end)
  else if m_eq name "get" then                                  (* dict.py:73-83, noArgsFlattening *)
    no_kw kw (match raw with
              | [VStr k] => match lookup k d with Some v => ok v | None => PInvalid end
              | [VStr k; dflt] => match lookup k d with Some v => ok v | None => ok dflt end
              | _ => PInvalid
              end)
  else PInvalid.

(* InterpreterObject.method_call on an elementary holder.  RangeHolder has no methods;
   SubprojectHolder needs the interpreter state and is handled in Eval/Interp.v. *)
Definition method_call (self : value) (name : str) (args : list value) (kw : kwargs_t) : pres value :=
  match self with
  | VStr s => str_method s name args kw
  | VInt z => int_method z name args kw
  | VBool b => bool_method b name args kw
  | VArr l => arr_method l name args kw
  | VDict d => dict_method d name args kw
  | VRange _ _ _ | VSub _ => PInvalid
  end.
