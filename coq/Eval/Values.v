(* Eval/Values.v — values of the meson core language and the Python-level primitives the
   interpreter relies on (str/list/dict/int behaviour of CPython, as used by
   mesonbuild/interpreterbase and mesonbuild/interpreter/primitives).
   No proofs in this file. *)
From MV Require Export Base.Strs.
Open Scope N_scope.

(* ------------------------------------------------------------------ values *)
(* held objects: int, bool, str, list, dict (insertion ordered); RangeHolder and
   SubprojectHolder are MesonInterpreterObjects (compared by identity in Python). *)
Inductive value :=
| VInt (z : Z)
| VBool (b : bool)
| VStr (s : str)
| VArr (l : list value)
| VDict (d : list (str * value))
| VRange (start stop step : Z)
| VSub (name : str).

(* result of a primitive: ok | MesonException | escaping Python exception | outside the model *)
Inductive pres (A : Type) := POk (a : A) | PInvalid | PCrash | POom.
Arguments POk {A} a. Arguments PInvalid {A}. Arguments PCrash {A}. Arguments POom {A}.
Definition pbind {A B} (r : pres A) (f : A -> pres B) : pres B :=
  match r with POk a => f a | PInvalid => PInvalid | PCrash => PCrash | POom => POom end.
Definition pmap {A B} (f : A -> B) (r : pres A) : pres B := pbind r (fun a => POk (f a)).

Definition b2z (b : bool) : Z := if b then 1%Z else 0%Z.

(* isinstance(x, int): bool is a subclass of int in Python *)
Definition as_int (v : value) : option Z :=
  match v with VInt z => Some z | VBool b => Some (b2z b) | _ => None end.
Definition as_str (v : value) : option str := match v with VStr s => Some s | _ => None end.

(* ------------------------------------------------------------------ assoc (dict) *)
Fixpoint lookup {A} (k : str) (d : list (str * A)) : option A :=
  match d with
  | [] => None
  | (k', v) :: r => if str_eqb k k' then Some v else lookup k r
  end.
(* d[k] = v : keeps the position of an existing key, appends a new one *)
Fixpoint dict_set {A} (k : str) (v : A) (d : list (str * A)) : list (str * A) :=
  match d with
  | [] => [(k, v)]
  | (k', v') :: r => if str_eqb k k' then (k', v) :: r else (k', v') :: dict_set k v r
  end.
Fixpoint dict_del {A} (k : str) (d : list (str * A)) : list (str * A) :=
  match d with
  | [] => []
  | (k', v') :: r => if str_eqb k k' then r else (k', v') :: dict_del k r
  end.
Definition has_key {A} (k : str) (d : list (str * A)) : bool :=
  match lookup k d with Some _ => true | None => false end.
(* {**a, **b} *)
Definition dict_merge {A} (a b : list (str * A)) : list (str * A) :=
  fold_left (fun acc kv => dict_set (fst kv) (snd kv) acc) b a.

(* ------------------------------------------------------------------ Python == *)
(* None: the comparison reaches two identity-compared objects (outside the model). *)
Fixpoint py_eq (a b : value) {struct a} : option bool :=
  match a, b with
  | VInt x, VInt y => Some (x =? y)%Z
  | VInt x, VBool y => Some (x =? b2z y)%Z
  | VBool x, VInt y => Some (b2z x =? y)%Z
  | VBool x, VBool y => Some (Bool.eqb x y)
  | VStr x, VStr y => Some (str_eqb x y)
  | VArr x, VArr y =>
      if Nat.eqb (length x) (length y) then
        (fix go (x y : list value) {struct x} : option bool :=
           match x, y with
           | u :: x', w :: y' =>
               match py_eq u w with
               | Some true => go x' y'
               | r => r
               end
           | _, _ => Some true
           end) x y
      else Some false
  | VDict x, VDict y =>
      if Nat.eqb (length x) (length y) then
        (fix go (x : list (str * value)) {struct x} : option bool :=
           match x with
           | (k, u) :: x' =>
               match lookup k y with
               | None => Some false
               | Some w =>
                   match py_eq u w with
                   | Some true => go x'
                   | r => r
                   end
               end
           | [] => Some true
           end) x
      else Some false
  | VRange _ _ _, VRange _ _ _ => None
  | VSub _, VSub _ => None
  | _, _ => Some false
  end.

(* x in list : identity or equality of some element, scanning left to right *)
Fixpoint py_in_list (x : value) (l : list value) : option bool :=
  match l with
  | [] => Some false
  | e :: r =>
      match py_eq e x with
      | Some true => Some true
      | Some false => py_in_list x r
      | None => None
      end
  end.

(* ------------------------------------------------------------------ rendering *)
Definition MAX_STR_DIGITS : nat := 4300.
(* str(int): CPython refuses more than 4300 digits (ValueError), i.e. |z| >= 10^4300.
   (10^4300 lies between 2^14284 and 2^14285: the bit length decides all but a narrow band.) *)
Definition ten_pow_max (_ : unit) : Z := Z.pow 10 4300.
Definition too_long (z : Z) : bool :=
  let a := Z.abs z in
  if (Z.log2 a <? 14284)%Z then false
  else if (14285 <? Z.log2 a)%Z then true
  else (ten_pow_max tt <=? a)%Z.
Definition int_str (z : Z) : pres str := if too_long z then PCrash else POk (Z_dec z).

Definition q (s : str) : str := 39 :: s ++ [39].

(* helpers.py:55-73 stringifyUserArguments *)
Fixpoint stringify (quote : bool) (v : value) {struct v} : pres str :=
  match v with
  | VStr s => POk (if quote then q s else s)
  | VBool b => POk (if b then s2l "true" else s2l "false")
  | VInt z => int_str z
  | VArr l =>
      pbind ((fix go (l : list value) : pres (list str) :=
                match l with
                | [] => POk []
                | x :: r => pbind (stringify true x) (fun sx => pbind (go r) (fun sr => POk (sx :: sr)))
                end) l)
            (fun parts => POk (91 :: join (s2l ", ") parts ++ [93]))
  | VDict d =>
      pbind ((fix go (d : list (str * value)) : pres (list str) :=
                match d with
                | [] => POk []
                | (k, x) :: r =>
                    pbind (stringify true x) (fun sx =>
                    pbind (go r) (fun sr => POk ((q k ++ s2l " : " ++ sx) :: sr)))
                end) d)
            (fun parts => POk (123 :: join (s2l ", ") parts ++ [125]))
  | VRange _ _ _ | VSub _ => PInvalid
  end.

(* ------------------------------------------------------------------ Python sequences *)
Fixpoint nth_opt {A} (n : nat) (l : list A) : option A :=
  match n, l with
  | O, x :: _ => Some x
  | S k, _ :: r => nth_opt k r
  | _, [] => None
  end.
Definition zlen {A} (l : list A) : Z := Z.of_nat (length l).
(* l[i] with negative indexing; None = IndexError *)
Definition py_index {A} (l : list A) (i : Z) : option A :=
  let n := zlen l in
  let j := if (i <? 0)%Z then (i + n)%Z else i in
  if ((j <? 0) || (n <=? j))%Z then None else nth_opt (Z.to_nat j) l.

(* PySlice_AdjustIndices + item collection: l[start:stop:step], step <> 0 *)
Definition adj (len : Z) (step : Z) (o : option Z) (dflt_pos dflt_neg : Z) : Z :=
  match o with
  | None => if (step <? 0)%Z then dflt_neg else dflt_pos
  | Some i =>
      if (i <? 0)%Z then
        let i' := (i + len)%Z in
        if (i' <? 0)%Z then (if (step <? 0)%Z then (-1)%Z else 0%Z) else i'
      else if (len <=? i)%Z then (if (step <? 0)%Z then (len - 1)%Z else len)
      else i
  end.
Fixpoint slice_go {A} (fuel : nat) (l : list A) (i stop step : Z) : list A :=
  match fuel with
  | O => []
  | S f =>
      if (if (0 <? step)%Z then (i <? stop)%Z else (stop <? i)%Z) then
        match nth_opt (Z.to_nat i) l with
        | Some x => x :: slice_go f l (i + step)%Z stop step
        | None => []
        end
      else []
  end.
Definition py_slice {A} (l : list A) (start stop : option Z) (step : Z) : list A :=
  let len := zlen l in
  let s := adj len step start 0%Z (len - 1)%Z in
  let e := adj len step stop len (-1)%Z in
  slice_go (length l) l s e step.

(* ------------------------------------------------------------------ Python str methods *)
Fixpoint find_from (fuel : nat) (pat s : str) (i : nat) : option nat :=
  if prefixb pat s then Some i else
  match fuel, s with
  | S f, _ :: r => find_from f pat r (S i)
  | _, _ => None
  end.
(* s.find(pat) *)
Definition find_sub (pat s : str) : option nat := find_from (S (length s)) pat s O.
Definition contains_sub (pat s : str) : bool :=
  match find_sub pat s with Some _ => true | None => false end.

(* s.replace(old, new) *)
Fixpoint replace_go (fuel : nat) (old new s : str) : str :=
  match fuel with
  | O => s
  | S f =>
      match s with
      | [] => []
      | c :: r => if prefixb old s then new ++ replace_go f old new (drop (length old) s)
                  else c :: replace_go f old new r
      end
  end.
Definition py_replace (old new s : str) : str :=
  match old with
  | [] => new ++ concat (map (fun c => c :: new) s)
  | _ => replace_go (S (length s)) old new s
  end.

(* s.split(delim), delim <> '' *)
Fixpoint split_go (fuel : nat) (delim s cur : str) : list str :=
  match fuel with
  | O => [rev cur]
  | S f =>
      match s with
      | [] => [rev cur]
      | c :: r => if prefixb delim s then rev cur :: split_go f delim (drop (length delim) s) []
                  else split_go f delim r (c :: cur)
      end
  end.
Definition py_split (delim s : str) : list str := split_go (S (length s)) delim s [].

(* s.split() : runs of whitespace separate, no empty fields *)
Fixpoint split_ws_go (s cur : str) : list str :=
  match s with
  | [] => match cur with [] => [] | _ => [rev cur] end
  | c :: r =>
      if is_space c then
        match cur with [] => split_ws_go r [] | _ => rev cur :: split_ws_go r [] end
      else split_ws_go r (c :: cur)
  end.
Definition py_split_ws (s : str) : list str := split_ws_go s [].

(* str.splitlines(): \n \r \r\n \v \f \x1c \x1d \x1e \x85     *)
Definition is_linebreak (c : char) : bool :=
  ((10 <=? c) && (c <=? 13)) || ((28 <=? c) && (c <=? 30)) || (c =? 133) || (c =? 8232) || (c =? 8233).
Fixpoint splitlines_go (s cur : str) : list str :=
  match s with
  | [] => match cur with [] => [] | _ => [rev cur] end
  | c :: r =>
      if is_linebreak c then
        match r with
        | d :: r' => if (c =? 13) && (d =? 10) then rev cur :: splitlines_go r' []
                     else rev cur :: splitlines_go r []
        | [] => [rev cur]
        end
      else splitlines_go r (c :: cur)
  end.
Definition py_splitlines (s : str) : list str := splitlines_go s [].

(* s.strip(chars) *)
Fixpoint lstrip_chars (chars s : str) : str :=
  match s with
  | c :: r => if memb c chars then lstrip_chars chars r else s
  | [] => []
  end.
Definition strip_chars (chars s : str) : str := rev (lstrip_chars chars (rev (lstrip_chars chars s))).

Definition is_ascii (s : str) : bool := forallb (fun c => c <? 128) s.
Definition lower_c (c : char) : char := if is_upper c then c + 32 else c.
Definition upper_c (c : char) : char := if is_lower c then c - 32 else c.
(* Unicode case mapping is outside the model *)
Definition py_lower (s : str) : pres str := if is_ascii s then POk (map lower_c s) else POom.
Definition py_upper (s : str) : pres str := if is_ascii s then POk (map upper_c s) else POom.
(* mesonlib.underscorify: re.sub(r'[^a-zA-Z0-9]', '_', s) *)
Definition underscorify (s : str) : str := map (fun c => if is_alnum c then c else 95) s.

(* os.path.join(a, b).replace('\\', '/') on POSIX *)
Definition path_join (a b : str) : str :=
  let j := match b with
           | 47 :: _ => b
           | _ => match rev a with
                  | [] => b
                  | 47 :: _ => a ++ b
                  | _ => a ++ 47 :: b
                  end
           end in
  map (fun c => if c =? 92 then 47 else c) j.

(* ------------------------------------------------------------------ int(...) *)
Definition digit_of (base : N) (c : char) : option N :=
  let d := if is_digit c then Some (c - 48)
           else if (97 <=? c) && (c <=? 102) then Some (c - 87)
           else if (65 <=? c) && (c <=? 70) then Some (c - 55)
           else None in
  match d with Some v => if v <? base then Some v else None | None => None end.
(* digit ('_'? digit)*  -> value, number of digits; lead_us: an underscore may precede the
   first digit (after a base prefix) *)
Fixpoint digits_us (base : N) (s : str) (acc : N) (n : nat) (need_digit : bool) : option (N * nat) :=
  match s with
  | [] => if need_digit then None else Some (acc, n)
  | c :: r =>
      if c =? 95 then (if need_digit then None else digits_us base r acc n true)
      else match digit_of base c with
           | Some d => digits_us base r (acc * base + d) (S n) false
           | None => None
           end
  end.
Definition parse_digits (base : N) (lead_us : bool) (s : str) : option (N * nat) :=
  match s with
  | [] => None
  | c :: r => if (c =? 95) && lead_us then digits_us base r 0 O true else digits_us base s 0 O true
  end.
Definition split_sign (s : str) : bool * str :=
  match s with
  | 45 :: r => (true, r)
  | 43 :: r => (false, r)
  | _ => (false, s)
  end.
Definition signed (neg : bool) (n : N) : Z := if neg then (- Z.of_N n)%Z else Z.of_N n.
(* int(s) for an already stripped ASCII string: None = ValueError *)
Definition int_dec (s : str) : option Z :=
  let '(neg, r) := split_sign s in
  match parse_digits 10 false r with
  | Some (v, n) => if Nat.ltb MAX_STR_DIGITS n then None else Some (signed neg v)   (* int(): same limit *)
  | None => None
  end.
(* the prefixed forms of int(s, 0) *)
Definition int_prefixed (s : str) : option Z :=
  let '(neg, r) := split_sign s in
  match r with
  | 48 :: x :: r' =>
      let base := if (x =? 120) || (x =? 88) then 16
                  else if (x =? 111) || (x =? 79) then 8
                  else if (x =? 98) || (x =? 66) then 2 else 0 in
      if base =? 0 then None else
      match parse_digits base true r' with
      | Some (v, _) => Some (signed neg v)
      | None => None
      end
  | _ => None
  end.
(* StringHolder.to_int_method: string.py:139-151 *)
Definition str_to_int (s : str) : pres Z :=
  if negb (is_ascii s) then POom else
  let t := strip s in
  match int_dec t with
  | Some z => POk z
  | None => match int_prefixed t with Some z => POk z | None => PInvalid end
  end.

(* NumberNode: int(text, base=0) on a token the lexer accepted *)
Definition num_value (txt : str) : Z :=
  match int_prefixed txt with
  | Some z => z
  | None => Z.of_N (digits_val txt)
  end.

(* ------------------------------------------------------------------ format(int) *)
Fixpoint N_base_fuel (fuel : nat) (base n : N) (acc : str) : str :=
  match fuel with
  | O => acc
  | S f =>
      let d := N.modulo n base in
      let c := if d <? 10 then 48 + d else 87 + d in
      let q := N.div n base in
      if q =? 0 then c :: acc else N_base_fuel f base q (c :: acc)
  end.
Definition N_base (base n : N) : str := N_base_fuel (S (N.size_nat n)) base n [].
Fixpoint zeros (n : nat) : str := match n with O => [] | S k => 48 :: zeros k end.
(* '{:#0{fill}{code}}'.format(z) : sign, base prefix, zero padding up to width fill, digits.
   fmt: 0 dec, 1 hex, 2 oct, 3 bin *)
Definition format_int (z : Z) (fill : Z) (fmt : nat) : pres str :=
  let mag := Z.abs_N z in
  let sign := if (z <? 0)%Z then [45] else [] in
  let body := match fmt with
              | 1%nat => POk (s2l "0x", N_base 16 mag)
              | 2%nat => POk (s2l "0o", N_base 8 mag)
              | 3%nat => POk (s2l "0b", N_base 2 mag)
              | _ => pbind (int_str (Z.of_N mag)) (fun d => POk ([], d))
              end in
  pbind body (fun pd =>
    let '(pre, digs) := pd in
    let used := (length sign + length pre + length digs)%nat in
    let pad := (Z.to_nat (Z.max 0 fill) - used)%nat in
    POk (sign ++ pre ++ zeros pad ++ digs)).

(* ------------------------------------------------------------------ escapes *)
Definition is_hexc (c : char) : bool :=
  is_digit c || ((97 <=? c) && (c <=? 102)) || ((65 <=? c) && (c <=? 70)).
Definition is_octc (c : char) : bool := (48 <=? c) && (c <=? 55).
Fixpoint hexval (s : str) (acc : N) : N :=
  match s with
  | [] => acc
  | c :: r => hexval r (acc * 16 + (if is_digit c then c - 48 else if 97 <=? c then c - 87 else c - 55))
  end.
Fixpoint octval (s : str) (acc : N) : N :=
  match s with [] => acc | c :: r => octval r (acc * 8 + (c - 48)) end.
Fixpoint take_while (p : char -> bool) (n : nat) (s : str) : str :=
  match n, s with
  | S k, c :: r => if p c then c :: take_while p k r else []
  | _, _ => []
  end.
Definition simple_escape (c : char) : option char :=
  if c =? 92 then Some 92 else if c =? 39 then Some 39
  else if c =? 97 then Some 7 else if c =? 98 then Some 8 else if c =? 102 then Some 12
  else if c =? 110 then Some 10 else if c =? 114 then Some 13 else if c =? 116 then Some 9
  else if c =? 118 then Some 11 else None.
Definition is_surrogate (c : N) : bool := (55296 <=? c) && (c <=? 57343).

(* StringNode.escape(): ESCAPE_SEQUENCE_SINGLE_RE.sub(decode_match, raw) — mparser.py:23-33.
   None: \N{...}, a surrogate or a code point above 0x10FFFF (outside the model; the
   parser model already rejects the last one). *)
Fixpoint decode_go (fuel : nat) (s : str) : option str :=
  match fuel with
  | O => Some s
  | S f =>
      match s with
      | [] => Some []
      | c :: r =>
          let lit := match decode_go f r with Some t => Some (c :: t) | None => None end in
          if negb (c =? 92) then lit else
          match r with
          | [] => lit
          | x :: r' =>
              let esc (n : nat) (v : N) :=
                if is_surrogate v || (1114111 <? v) then None else
                match decode_go f (drop n r') with Some t => Some (v :: t) | None => None end in
              if (x =? 85) && Nat.eqb (length (firstn 8 r')) 8 && forallb is_hexc (firstn 8 r')
              then esc 8%nat (hexval (firstn 8 r') 0)
              else if (x =? 117) && Nat.eqb (length (firstn 4 r')) 4 && forallb is_hexc (firstn 4 r')
              then esc 4%nat (hexval (firstn 4 r') 0)
              else if (x =? 120) && Nat.eqb (length (firstn 2 r')) 2 && forallb is_hexc (firstn 2 r')
              then esc 2%nat (hexval (firstn 2 r') 0)
              else if is_octc x then
                let ds := take_while is_octc 3 r in
                match decode_go f (drop (length ds) r) with
                | Some t => Some (octval ds 0 :: t)
                | None => None
                end
              else if (x =? 78) && (match r' with 123 :: y :: _ => negb (y =? 125) | _ => false end)
                      && existsb (fun y => y =? 125) r' then None
              else match simple_escape x with
                   | Some v => match decode_go f r' with Some t => Some (v :: t) | None => None end
                   | None => lit
                   end
          end
      end
  end.
Definition decode_escapes (s : str) : option str := decode_go (S (length s)) s.

(* ------------------------------------------------------------------ @...@ substitution *)
Definition is_id_start_c (c : char) : bool := (c =? 95) || is_alpha c.
Definition is_id_c (c : char) : bool := (c =? 95) || is_alnum c.
Fixpoint span_c (p : char -> bool) (s : str) : nat :=
  match s with c :: r => if p c then S (span_c p r) else O | [] => O end.

(* re.sub of the pattern  @ identifier @  (interpreterbase.py:454), left to right *)
Fixpoint fsub_go (fuel : nat) (repl : str -> pres str) (s : str) : pres str :=
  match fuel with
  | O => POk s
  | S f =>
      match s with
      | [] => POk []
      | c :: r =>
          let lit := pmap (cons c) (fsub_go f repl r) in
          if negb (c =? 64) then lit else
          match r with
          | x :: _ =>
              if is_id_start_c x then
                let n := span_c is_id_c r in
                match drop n r with
                | 64 :: rest =>
                    pbind (repl (firstn n r)) (fun v => pmap (app v) (fsub_go f repl rest))
                | _ => lit
                end
              else lit
          | [] => lit
          end
      end
  end.
Definition fstring_subst (repl : str -> pres str) (s : str) : pres str := fsub_go (S (length s)) repl s.

(* re.sub(r'@(\d+)@', arg_replace, s) : string.py:82 (ASCII digits) *)
Fixpoint fmt_go (fuel : nat) (args : list str) (s : str) : pres str :=
  match fuel with
  | O => POk s
  | S f =>
      match s with
      | [] => POk []
      | c :: r =>
          let lit := pmap (cons c) (fmt_go f args r) in
          if negb (c =? 64) then lit else
          let n := span_c is_digit r in
          match n, drop n r with
          | S _, 64 :: rest =>
              match nth_opt (N.to_nat (digits_val (firstn n r))) args with
              | Some v => pmap (app v) (fmt_go f args rest)
              | None => PInvalid
              end
          | _, _ => lit
          end
      end
  end.
Definition format_subst (args : list str) (s : str) : pres str := fmt_go (S (length s)) args s.

(* ------------------------------------------------------------------ sorting (dict.keys()) *)
Definition str_leb (a b : str) : bool := match str_cmp a b with Gt => false | _ => true end.
Fixpoint insert_sorted (k : str) (l : list str) : list str :=
  match l with
  | [] => [k]
  | x :: r => if str_leb k x then k :: l else x :: insert_sorted k r
  end.
Definition sort_strs (l : list str) : list str := fold_right insert_sorted [] l.

(* flatten(): helpers.py:22-37 *)
Fixpoint flat1 (v : value) : list value :=
  match v with
  | VArr l => (fix go (l : list value) : list value :=
                 match l with [] => [] | x :: r => flat1 x ++ go r end) l
  | _ => [v]
  end.
Definition flatten_vals (l : list value) : list value := concat (map flat1 l).
