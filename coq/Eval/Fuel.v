(* Eval/Fuel.v — fuel sufficiency: for statements that do not enter another build file (no
   subdir() / subproject() call) evaluation never runs out of fuel once the fuel exceeds the
   height of the syntax tree; loops consume no fuel.  (With subdir()/subproject() the files
   entered add their own heights; that bound is not proved - see the manifest.) *)
From MV Require Import Base.Strs Base.LexFacts Eval.Values Eval.Ops Eval.Methods Eval.Interp.
From Coq Require Import Lia.
Open Scope N_scope.

Fixpoint hgt (n : node) : nat :=
  match n with
  | NEmpty _ | NBool _ | NId _ | NNum _ | NStr _ | NContinue _ _ | NBreak _ _ => 0
  | NParen _ e _ => S (hgt e)
  | NArray _ a _ _ | NDict _ a _ _ | NFunc _ _ a _ _ => S (hgt_args a)
  | NMethod o _ _ _ a _ _ => S (Nat.max (hgt o) (hgt_args a))
  | NIndex o _ i _ => S (Nat.max (hgt o) (hgt i))
  | NNot _ _ e | NUMinus _ _ e => S (hgt e)
  | NArith l _ r | NCmp l _ r | NAnd l _ r | NOr l _ r | NNotIn l _ _ r => S (Nat.max (hgt l) (hgt r))
  | NTernary c _ t _ f => S (Nat.max (hgt c) (Nat.max (hgt t) (hgt f)))
  | NAssign _ _ v | NPlusAssign _ _ v => S (hgt v)
  | NIf i _ => S (hgt_ifs i)
  | NIfElse i _ _ b _ => S (Nat.max (hgt_ifs i) (hgt_block b))
  | NForeach _ _ _ _ items b _ => S (Nat.max (hgt items) (hgt_block b))
  end
with hgt_args (a : args) : nat :=
  match a with
  | ANil => 0
  | APos n r => Nat.max (hgt n) (hgt_args r)
  | AKw k _ v r => Nat.max (hgt k) (Nat.max (hgt v) (hgt_args r))
  end
with hgt_block (b : block) : nat :=
  match b with BNil => 0 | BLine n _ r => Nat.max (hgt n) (hgt_block r) end
with hgt_ifs (i : ifs) : nat :=
  match i with INil => 0 | ICons _ c _ b r => Nat.max (hgt c) (Nat.max (hgt_block b) (hgt_ifs r)) end.

Definition enters_file (name : str) : bool := f_eq name "subdir" || f_eq name "subproject".

(* no subdir() / subproject() call anywhere inside *)
Fixpoint local (n : node) : bool :=
  match n with
  | NEmpty _ | NBool _ | NId _ | NNum _ | NStr _ | NContinue _ _ | NBreak _ _ => true
  | NParen _ e _ => local e
  | NArray _ a _ _ | NDict _ a _ _ => local_args a
  | NFunc name _ a _ _ => negb (enters_file (ttext name)) && local_args a
  | NMethod o _ _ _ a _ _ => local o && local_args a
  | NIndex o _ i _ => local o && local i
  | NNot _ _ e | NUMinus _ _ e => local e
  | NArith l _ r | NCmp l _ r | NAnd l _ r | NOr l _ r | NNotIn l _ _ r => local l && local r
  | NTernary c _ t _ f => local c && local t && local f
  | NAssign _ _ v | NPlusAssign _ _ v => local v
  | NIf i _ => local_ifs i
  | NIfElse i _ _ b _ => local_ifs i && local_block b
  | NForeach _ _ _ _ items b _ => local items && local_block b
  end
with local_args (a : args) : bool :=
  match a with
  | ANil => true
  | APos n r => local n && local_args r
  | AKw k _ v r => local k && local v && local_args r
  end
with local_block (b : block) : bool :=
  match b with BNil => true | BLine n _ r => local n && local_block r end
with local_ifs (i : ifs) : bool :=
  match i with INil => true | ICons _ c _ b r => local c && local_block b && local_ifs r end.

Definition NF {A} (r : outcome A) : Prop := r <> OutOfFuel.

Lemma NF_bind {A B} (r : outcome A) (f : A -> istate -> outcome B) :
  NF r -> (forall a st, NF (f a st)) -> NF (obind r f).
Proof. unfold NF. intros Hr Hf. destruct r; cbn; auto; discriminate. Qed.
Lemma NF_need {B} o st (k : value -> outcome B) : (forall v, NF (k v)) -> NF (need o st k).
Proof. intros H. destruct o; cbn; [apply H|discriminate]. Qed.
Lemma NF_lift {A B} (r : pres A) st (k : A -> outcome B) : (forall v, NF (k v)) -> NF (lift r st k).
Proof. intros H. destruct r; cbn; try apply H; discriminate. Qed.
Lemma NF_truth {B} v st (k : bool -> outcome B) : (forall b, NF (k b)) -> NF (truth v st k).
Proof. intros H. unfold truth. apply NF_lift. intros r. destruct r; try discriminate. apply H. Qed.
Lemma NF_locate {A} (r : outcome A) : NF r -> NF (locate r).
Proof. unfold NF. destruct r; cbn; auto. destruct l; discriminate. Qed.

Ltac nf :=
  repeat match goal with
  | |- NF (Val _ _) => discriminate
  | |- NF (Fail _ _ _) => discriminate
  | |- NF (Brk _ _) => discriminate
  | |- NF (Cont _ _) => discriminate
  | |- NF OutOfModel => discriminate
  | |- NF (err _) => discriminate
  | |- NF (need _ _ _) => apply NF_need; intros ?
  | |- NF (lift _ _ _) => apply NF_lift; intros ?
  | |- NF (truth _ _ _) => apply NF_truth; intros ?
  | |- NF (locate _) => apply NF_locate
  | |- NF (obind _ _) => apply NF_bind; [|intros ? ?]
  | |- NF (if ?c then _ else _) => destruct c
  | |- NF (match ?x with _ => _ end) => destruct x
  | |- NF (let _ := _ in _) => cbv zeta
  end.

Lemma NF_set_variable n v st : NF (set_variable n v st).
Proof. unfold set_variable. nf. Qed.
Lemma NF_get_variable n st : NF (get_variable n st).
Proof. unfold get_variable. nf. Qed.
Lemma NF_expand kw st : NF (expand_default_kwargs kw st).
Proof. unfold expand_default_kwargs. nf. Qed.
Lemma NF_bind_vars names vals st : NF (bind_vars names vals st).
Proof.
  revert vals st; induction names as [|n ns IH]; intros vals st; cbn; [discriminate|].
  destruct vals; [discriminate|]. apply NF_bind; [apply NF_set_variable|]. intros; apply IH.
Qed.
Lemma NF_sub_method sp name raw kw st : NF (sub_method sp name raw kw st).
Proof. unfold sub_method. nf. Qed.

Section Step.
Variable files : files_t.
Variable ev : evalT.
Variable k : nat.
Hypothesis Hev : forall n st, (hgt n < k)%nat -> local n = true -> NF (ev n st).

Lemma NF_eval_pos a st : (hgt_args a < k)%nat -> local_args a = true -> NF (eval_pos ev a st).
Proof.
  revert st; induction a as [|n r IH|kk c v r IH]; intros st Hh Hl; cbn in *.
  - discriminate.
  - apply Bool.andb_true_iff in Hl. destruct Hl as [L1 L2].
    apply NF_bind; [apply Hev; [lia|exact L1]|]. intros o st1.
    apply NF_bind; [apply IH; [lia|exact L2]|]. intros; discriminate.
  - apply Bool.andb_true_iff in Hl. destruct Hl as [_ L]. apply IH; [lia|exact L].
Qed.

Lemma NF_eval_kw dict a acc st : (hgt_args a < k)%nat -> local_args a = true -> NF (eval_kw ev dict a acc st).
Proof.
  revert acc st; induction a as [|n r IH|kk c v r IH]; intros acc st Hh Hl; cbn in *.
  - discriminate.
  - apply Bool.andb_true_iff in Hl. destruct Hl as [_ L]. apply IH; [lia|exact L].
  - apply Bool.andb_true_iff in Hl. destruct Hl as [L L3]. apply Bool.andb_true_iff in L. destruct L as [L1 L2].
    apply NF_bind.
    + destruct dict.
      * apply NF_bind; [apply Hev; [lia|exact L1]|]. intros kv st1. nf.
      * nf.
    + intros key st1. apply NF_bind; [apply Hev; [lia|exact L2]|]. intros val st2.
      apply NF_need. intros w. cbv zeta. destruct (dict && has_key key acc); [discriminate|].
      apply IH; [lia|exact L3].
Qed.

Lemma NF_reduce dict a st : (hgt_args a < k)%nat -> local_args a = true -> NF (reduce_arguments ev dict a st).
Proof.
  intros Hh Hl. unfold reduce_arguments. destruct (negb (args_order_ok a)); [discriminate|]. cbv zeta.
  apply NF_bind; [apply NF_eval_pos; assumption|]. intros pos st1.
  destruct (all_some pos); [|discriminate].
  apply NF_bind; [apply NF_eval_kw; assumption|]. intros kw st2.
  destruct dict; [discriminate|].
  apply NF_bind; [apply NF_expand|]. intros; discriminate.
Qed.

Lemma NF_eval_block b st : (hgt_block b < k)%nat -> local_block b = true -> NF (eval_block ev b st).
Proof.
  revert st; induction b as [|n e r IH]; intros st Hh Hl; cbn in *; [discriminate|].
  apply Bool.andb_true_iff in Hl. destruct Hl as [L1 L2].
  destruct (is_empty n); [apply IH; [lia|exact L2]|].
  apply NF_bind; [apply NF_locate; apply Hev; [lia|exact L1]|]. intros; apply IH; [lia|exact L2].
Qed.

Lemma NF_eval_ifs i els st :
  (hgt_ifs i < k)%nat -> local_ifs i = true ->
  match els with Some b => (hgt_block b < k)%nat /\ local_block b = true | None => True end ->
  NF (eval_ifs ev i els st).
Proof.
  revert st; induction i as [|kw c eol b r IH]; intros st Hh Hl He; cbn in *.
  - destruct els; [apply NF_eval_block; tauto|discriminate].
  - apply Bool.andb_true_iff in Hl. destruct Hl as [L L3]. apply Bool.andb_true_iff in L. destruct L as [L1 L2].
    apply NF_bind; [apply Hev; [lia|exact L1]|]. intros cv st1.
    apply NF_need. intros v. apply NF_truth. intros t.
    destruct t; [apply NF_eval_block; [lia|exact L2]|apply IH; [lia|exact L3|exact He]].
Qed.

(* a loop runs its body at the same fuel for every item: iteration costs no fuel *)
Lemma NF_foreach names b its st :
  (hgt_block b < k)%nat -> local_block b = true -> NF (foreach_loop ev names b its st).
Proof.
  intros Hh Hl. revert st; induction its as [|it rest IH]; intros st; cbn; [discriminate|].
  apply NF_bind; [apply NF_bind_vars|]. intros _ st1.
  pose proof (NF_eval_block b st1 Hh Hl) as Hb.
  destruct (eval_block ev b st1); try discriminate; try apply IH. exfalso; apply Hb; reflexivity.
Qed.

Lemma NF_call_function name raw kw st :
  enters_file name = false -> NF (call_function ev files name raw kw st).
Proof.
  unfold enters_file. intros H. apply Bool.orb_false_iff in H. destruct H as [H1 H2].
  unfold call_function. rewrite H1, H2.
  repeat match goal with
  | |- NF (if ?c then _ else _) => destruct c
  | |- NF (match ?x with _ => _ end) => destruct x
  | |- NF (lift _ _ _) => apply NF_lift; intros ?
  | |- NF (obind (set_variable _ _ _) _) => apply NF_bind; [apply NF_set_variable|intros ? ?]
  | |- NF _ => discriminate
  end.
Qed.

Lemma andb_split a b : a && b = true -> a = true /\ b = true.
Proof. apply Bool.andb_true_iff. Qed.

Lemma NF_step n st : (hgt n <= k)%nat -> local n = true -> NF (step files ev n st).
Proof.
  intros Hh Hl. unfold step. cbv zeta.
  set (st0 := set_cur (npos n) st). clearbody st0.
  destruct n; cbn [hgt local] in Hh, Hl;
    repeat match goal with H : _ && _ = true |- _ => apply andb_split in H; destruct H end.
  - discriminate.
  - discriminate.
  - apply NF_bind; [apply NF_get_variable|]. intros; discriminate.
  - discriminate.
  - nf.
  - discriminate.
  - discriminate.
  - apply Hev; [lia|assumption].
  - apply NF_bind; [apply NF_reduce; [lia|assumption]|]. intros [p kw] st1. cbn. destruct kw; discriminate.
  - apply NF_bind; [apply NF_reduce; [lia|assumption]|]. intros; discriminate.
  - apply NF_bind; [apply NF_reduce; [lia|assumption]|]. intros [p kw] st1. cbv zeta.
    apply NF_call_function. destruct (enters_file (ttext name)); [discriminate|reflexivity].
  - apply NF_bind.
    + destruct (is_id n); [apply NF_bind; [apply NF_get_variable|intros; discriminate]|apply Hev; [lia|assumption]].
    + intros ov st1. apply NF_bind; [apply NF_reduce; [lia|assumption]|]. intros [p kw] st2.
      apply NF_need. intros o. cbv zeta. destruct o; try (apply NF_lift; intros; discriminate). apply NF_sub_method.
  - apply NF_bind; [apply Hev; [lia|assumption]|]. intros ov st1. apply NF_need. intros o.
    apply NF_bind; [apply Hev; [lia|assumption]|]. intros iv st2. nf.
  - apply NF_bind; [apply Hev; [lia|assumption]|]. intros; nf.
  - apply NF_bind; [apply Hev; [lia|assumption]|]. intros; nf.
  - apply NF_bind; [apply Hev; [lia|assumption]|]. intros lv st1.
    apply NF_bind; [apply Hev; [lia|assumption]|]. intros rv st2. nf.
  - apply NF_bind; [apply Hev; [lia|assumption]|]. intros lv st1. apply NF_need. intros a.
    apply NF_bind; [apply Hev; [lia|assumption]|]. intros rv st2. nf.
  - apply NF_bind; [apply Hev; [lia|assumption]|]. intros lv st1. apply NF_need. intros a.
    apply NF_bind; [apply Hev; [lia|assumption]|]. intros rv st2. nf.
  - apply NF_bind; [apply Hev; [lia|assumption]|]. intros lv st1. apply NF_need. intros a. apply NF_truth. intros b.
    destruct (negb b); [discriminate|].
    apply NF_bind; [apply Hev; [lia|assumption]|]. intros; nf.
  - apply NF_bind; [apply Hev; [lia|assumption]|]. intros lv st1. apply NF_need. intros a. apply NF_truth. intros b.
    destruct b; [discriminate|].
    apply NF_bind; [apply Hev; [lia|assumption]|]. intros; nf.
  - apply NF_bind; [apply Hev; [lia|assumption]|]. intros cv st1. apply NF_need. intros a. apply NF_truth. intros b.
    destruct b; apply Hev; try lia; assumption.
  - destruct (negb _); [discriminate|].
    apply NF_bind; [apply Hev; [lia|assumption]|]. intros v st1. apply NF_need. intros w.
    apply NF_bind; [apply NF_set_variable|]. intros; discriminate.
  - apply NF_bind; [apply Hev; [lia|assumption]|]. intros v st1. apply NF_need. intros w.
    apply NF_bind; [apply NF_get_variable|]. intros old st2. apply NF_lift. intros nv.
    apply NF_bind; [apply NF_set_variable|]. intros; discriminate.
  - apply NF_bind; [apply NF_eval_ifs; [lia|assumption|exact I]|]. intros; discriminate.
  - apply NF_bind; [apply NF_eval_ifs; [lia|assumption|split; [lia|assumption]]|]. intros; discriminate.
  - apply NF_bind; [apply Hev; [lia|assumption]|]. intros iv st1.
    destruct iv as [v|]; [|discriminate]. destruct (iter_items v) as [[tsize its]|]; [|discriminate].
    destruct (negb _); [discriminate|].
    apply NF_bind; [apply NF_foreach; [lia|assumption]|]. intros; discriminate.
Qed.
End Step.

(* fuel above the height of the tree is enough *)
Theorem fuel_suffices files fuel n st :
  (hgt n < fuel)%nat -> local n = true -> eval files fuel n st <> OutOfFuel.
Proof.
  revert n st; induction fuel as [|f IH]; intros n st Hh Hl; [lia|].
  cbn [eval]. apply (NF_step files (eval files f) f); [|lia|exact Hl].
  intros m st' Hm Lm. apply IH; [exact Hm|exact Lm].
Qed.

Theorem fuel_suffices_block files fuel b st :
  (hgt_block b < fuel)%nat -> local_block b = true -> eval_block (eval files fuel) b st <> OutOfFuel.
Proof.
  intros Hh Hl. apply (NF_eval_block (eval files fuel) fuel); [|exact Hh|exact Hl].
  intros m st' Hm Lm. apply fuel_suffices; [exact Hm|exact Lm].
Qed.

(* a project whose root build file enters no other file never runs out of fuel once the fuel
   exceeds the height of that file's tree *)
Theorem run_fuel_suffices files fuel code b n rest :
  lookup (build_file []) files = Some code -> parse code = Ok b -> first_stmt b = Some (n, rest) ->
  local_block rest = true -> (hgt_block rest < fuel)%nat -> run_root files fuel <> OutOfFuel.
Proof.
  intros Hl Hp Hf Hloc Hh. unfold run_root, run_project. rewrite Hl.
  destruct (_ && _); [discriminate|]. rewrite Hp, Hf.
  destruct (is_project_call n) as [[|]|]; try discriminate.
  pose proof (fuel_suffices_block files fuel rest (set_cur (npos n) (fresh_state [] [] [] [])) Hh Hloc) as H.
  destruct (eval_block _ rest _); try discriminate. exfalso; apply H; reflexivity.
Qed.
