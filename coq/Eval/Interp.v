(* Eval/Interp.v — executable model of the meson interpreter core on the parse trees of
   Syntax/Parser.v:
     mesonbuild/interpreterbase/interpreterbase.py:185-267 (evaluate_codeblock/statement),
       269-329 (array, dict, not, if), 341-428 (comparison, and/or, uminus, arithmetic, ternary),
       430-455 (f-strings), 457-510 (foreach, +=, indexing), 512-554 (function/method call),
       583-672 (reduce_arguments, kwargs expansion, assignment, set/get_variable),
       705-744 (subdir evaluation);
     mesonbuild/interpreter/interpreter.py: message/error/assert/range/set_variable/get_variable/
       is_variable/unset_variable (1453-1550, 779-793, 4066-4145), subdir (2591-2628),
       subproject (902-1160, restricted to a required meson subproject found in subprojects/);
     mesonbuild/interpreter/interpreterobjects.py:889-937 (SubprojectHolder).
   The behaviour modelled is that of /repo with the pending fixes pending/C01-*.diff applied
   (dict literals do not expand a 'kwargs' key; a break/continue that no foreach catches is an
   InvalidCode error of the interpreter it escapes from; range indexing and to_string(fill:) type-check their argument).
   No proofs in this file. *)
From MV Require Export Syntax.Parser Syntax.Yield Eval.Methods.
Open Scope N_scope.

(* ------------------------------------------------------------------ state and outcomes *)
Inductive ecls := EMeson | EPy.        (* MesonException | escaping Python exception *)
Definition floc := (str * pos)%type.   (* build file (relative to the source root), (line, col) *)

Record istate := mkI {
  vars : list (str * value);           (* self.variables *)
  depth : nat;                         (* self.argument_depth *)
  cur : pos;                           (* self.current_node.(lineno, colno) *)
  sdir : str;                          (* self.subdir *)
  visited : list str;                  (* self.processed_buildfiles (as subdir strings) *)
  stack : list str;                    (* self.subproject_stack *)
  out : list str;                      (* 'Message:' lines so far, most recent first *)
  subs : list (str * list (str * value)) (* finished subprojects: name -> variables *)
}.

Definition set_vars (v : list (str * value)) (s : istate) : istate :=
  mkI v (depth s) (cur s) (sdir s) (visited s) (stack s) (out s) (subs s).
Definition set_depth (d : nat) (s : istate) : istate :=
  mkI (vars s) d (cur s) (sdir s) (visited s) (stack s) (out s) (subs s).
Definition set_cur (p : pos) (s : istate) : istate :=
  mkI (vars s) (depth s) p (sdir s) (visited s) (stack s) (out s) (subs s).
Definition set_sdir (d : str) (s : istate) : istate :=
  mkI (vars s) (depth s) (cur s) d (visited s) (stack s) (out s) (subs s).
Definition set_visited (v : list str) (s : istate) : istate :=
  mkI (vars s) (depth s) (cur s) (sdir s) v (stack s) (out s) (subs s).
Definition add_out (m : str) (s : istate) : istate :=
  mkI (vars s) (depth s) (cur s) (sdir s) (visited s) (stack s) (m :: out s) (subs s).
Definition set_global (o : list str) (sb : list (str * list (str * value))) (s : istate) : istate :=
  mkI (vars s) (depth s) (cur s) (sdir s) (visited s) (stack s) o sb.

Inductive outcome (A : Type) :=
| Val (a : A) (st : istate)
| Brk (l : floc) (st : istate)         (* BreakRequest propagating; l: the break statement *)
| Cont (l : floc) (st : istate)        (* ContinueRequest propagating *)
| Fail (c : ecls) (l : option floc) (st : istate)
| OutOfFuel
| OutOfModel.
Arguments Val {A} a st. Arguments Brk {A} l st. Arguments Cont {A} l st.
Arguments Fail {A} c l st. Arguments OutOfFuel {A}. Arguments OutOfModel {A}.

Definition obind {A B} (r : outcome A) (f : A -> istate -> outcome B) : outcome B :=
  match r with
  | Val a st => f a st
  | Brk l st => Brk l st
  | Cont l st => Cont l st
  | Fail c l st => Fail c l st
  | OutOfFuel => OutOfFuel
  | OutOfModel => OutOfModel
  end.
Notation "' ( x , s ) <~ r ;; k" := (obind r (fun x s => k))
  (at level 61, x pattern, s name, r at next level, right associativity).

Definition err {A} (st : istate) : outcome A := Fail EMeson None st.
(* result of a primitive, raised at the current point *)
Definition lift {A B} (r : pres A) (st : istate) (k : A -> outcome B) : outcome B :=
  match r with
  | POk a => k a
  | PInvalid => Fail EMeson None st
  | PCrash => Fail EPy None st
  | POom => OutOfModel
  end.

Definition evalT := node -> istate -> outcome (option value).

(* ------------------------------------------------------------------ variables *)
(* Interpreter.builtin: meson, build_machine, host_machine, target_machine *)
Definition is_builtin (n : str) : bool :=
  str_mem n [s2l "meson"; s2l "build_machine"; s2l "host_machine"; s2l "target_machine"].

(* interpreterbase.py:662-672 *)
Definition get_variable (n : str) (st : istate) : outcome value :=
  if is_builtin n then OutOfModel
  else match lookup n (vars st) with Some v => Val v st | None => err st end.
(* interpreterbase.py:647-660 *)
Definition set_variable (n : str) (v : value) (st : istate) : outcome unit :=
  if is_builtin n then err st else Val tt (set_vars (dict_set n v (vars st)) st).

(* ------------------------------------------------------------------ literals *)
Definition body_of (k : kind) (txt : str) : str :=
  match k with
  | KStr => removelast (drop 1 txt)
  | KFStr => removelast (drop 2 txt)
  | KMStr => firstn (length txt - 6) (drop 3 txt)
  | KMFStr => firstn (length txt - 7) (drop 4 txt)
  | _ => []
  end.
Definition is_fstr (k : kind) : bool := match k with KFStr | KMFStr => true | _ => false end.
Definition is_multiline (k : kind) : bool := match k with KMStr | KMFStr => true | _ => false end.

(* StringNode.value: escapes are decoded for '...' and f'...' only (mparser.py:323-334) *)
Definition str_value (t : token) : option str :=
  let b := body_of (tk t) (ttext t) in
  if is_multiline (tk t) then Some b else decode_escapes b.

(* evaluate_fstring: interpreterbase.py:434-455 *)
Definition fstring (s : str) (st : istate) : pres str :=
  fstring_subst (fun var => match lookup var (vars st) with
                            | Some v => stringify false v
                            | None => PInvalid
                            end) s.

(* ------------------------------------------------------------------ operators of the syntax *)
Definition arith_op (k : kind) : option mop :=
  match k with
  | KPlus => Some OpPlus | KDash => Some OpMinus | KStar => Some OpTimes
  | KFSlash => Some OpDiv | KPercent => Some OpMod | _ => None
  end.
(* (operator, operands swapped) : 'in' is evaluated as container.contains *)
Definition cmp_op (k : kind) : option (mop * bool) :=
  match k with
  | KEqual => Some (OpEq, false) | KNEqual => Some (OpNe, false)
  | KLt => Some (OpLt, false) | KLe => Some (OpLe, false)
  | KGt => Some (OpGt, false) | KGe => Some (OpGe, false)
  | KIn => Some (OpIn, true) | _ => None
  end.

Definition need {B} (o : option value) (st : istate) (k : value -> outcome B) : outcome B :=
  match o with Some v => k v | None => err st end.

(* the truth value used by if / and / or / ternary: operator_call(BOOL) *)
Definition truth {B} (v : value) (st : istate) (k : bool -> outcome B) : outcome B :=
  lift (operator_call v OpBool None) st
       (fun r => match r with VBool b => k b | _ => err st end).

(* ------------------------------------------------------------------ argument lists *)

(* positional arguments in order; void results are detected after all were evaluated *)
Fixpoint eval_pos (ev : evalT) (a : args) (st : istate) : outcome (list (option value)) :=
  match a with
  | ANil => Val [] st
  | APos n r =>
      '(v, st) <~ ev n st ;;
      '(vs, st) <~ eval_pos ev r st ;;
      Val (v :: vs) st
  | AKw _ _ _ r => eval_pos ev r st
  end.

Fixpoint all_some (l : list (option value)) : option (list value) :=
  match l with
  | [] => Some []
  | Some v :: r => match all_some r with Some t => Some (v :: t) | None => None end
  | None :: _ => None
  end.

(* keyword arguments in order.  dict = true: keys are expressions that must evaluate to strings
   and duplicates are errors (evaluate_dictstatement.resolve_key); dict = false: keys are
   identifiers (default_resolve_key), a repeated key overwrites. *)
Fixpoint eval_kw (ev : evalT) (dict : bool) (a : args) (acc : kwargs_t) (st : istate) : outcome kwargs_t :=
  match a with
  | ANil => Val acc st
  | APos _ r => eval_kw ev dict r acc st
  | AKw k _ v r =>
      '(key, st) <~ (if dict then
                       '(kv, st) <~ ev k st ;;
                       match kv with
                       | Some (VStr s) => Val s st
                       | _ => err st
                       end
                     else match is_id k with
                          | Some t => Val (ttext t) st
                          | None => err st
                          end) ;;
      '(val, st) <~ ev v st ;;
      need val st (fun x =>
        let st := set_cur (npos k) st in
        if dict && has_key key acc then err st
        else eval_kw ev dict r (dict_set key x acc) st)
  end.

(* expand_default_kwargs: interpreterbase.py:613-630 *)
Fixpoint merge_expand (kw : kwargs_t) (extra : kwargs_t) : option kwargs_t :=
  match extra with
  | [] => Some kw
  | (k, v) :: r => if has_key k kw then None else merge_expand (kw ++ [(k, v)]) r
  end.
Definition expand_default_kwargs (kw : kwargs_t) (st : istate) : outcome kwargs_t :=
  match lookup (s2l "kwargs") kw with
  | None => Val kw st
  | Some (VDict d) =>
      if has_key (s2l "kwargs") d then err st else
      match merge_expand (dict_del (s2l "kwargs") kw) d with
      | Some kw' => Val kw' st
      | None => err st
      end
  | Some _ => err st
  end.

(* reduce_arguments: interpreterbase.py:583-611 *)
Definition reduce_arguments (ev : evalT) (dict : bool) (a : args) (st : istate)
  : outcome (list value * kwargs_t) :=
  if negb (args_order_ok a) then err st else
  let st := set_depth (S (depth st)) st in
  '(pos, st) <~ eval_pos ev a st ;;
  match all_some pos with
  | None => err st
  | Some pvals =>
      '(kw, st) <~ eval_kw ev dict a [] st ;;
      let st := set_depth (pred (depth st)) st in
      if dict then Val (pvals, kw) st
      else '(kw, st) <~ expand_default_kwargs kw st ;; Val (pvals, kw) st
  end.

(* ------------------------------------------------------------------ blocks *)
(* evaluate_codeblock: interpreterbase.py:185-207.  An exception without a location gets the
   location of the node being evaluated and the build file of the current subdir. *)
Definition build_file (d : str) : str :=
  match d with [] => s2l "meson.build" | _ => d ++ s2l "/meson.build" end.
Definition locate {A} (r : outcome A) : outcome A :=
  match r with
  | Fail c None st => Fail c (Some (build_file (sdir st), cur st)) st
  | _ => r
  end.

Fixpoint eval_block (ev : evalT) (b : block) (st : istate) : outcome unit :=
  match b with
  | BNil => Val tt st
  | BLine n _ r =>
      if is_empty n then eval_block ev r st       (* empty lines are not in CodeBlockNode.lines *)
      else '(_, st) <~ locate (ev n st) ;; eval_block ev r st
  end.

(* evaluate_if: interpreterbase.py:299-329 *)
Fixpoint eval_ifs (ev : evalT) (i : ifs) (els : option block) (st : istate) : outcome unit :=
  match i with
  | INil => match els with Some b => eval_block ev b st | None => Val tt st end
  | ICons _ c _ b r =>
      '(cv, st) <~ ev c st ;;
      need cv st (fun v => truth v st (fun t =>
        if t then eval_block ev b st else eval_ifs ev r els st))
  end.

(* the loop of evaluate_foreach: interpreterbase.py:466-483.  items: the tuples to bind *)
Fixpoint bind_vars (names : list str) (vals : list value) (st : istate) : outcome unit :=
  match names, vals with
  | n :: ns, v :: vs => '(_, st) <~ set_variable n v st ;; bind_vars ns vs st
  | _, _ => Val tt st
  end.
Fixpoint foreach_loop (ev : evalT) (names : list str) (b : block) (items : list (list value))
                      (st : istate) : outcome unit :=
  match items with
  | [] => Val tt st
  | it :: rest =>
      '(_, st) <~ bind_vars names it st ;;
      match eval_block ev b st with
      | Val _ st => foreach_loop ev names b rest st
      | Cont _ st => foreach_loop ev names b rest st
      | Brk _ st => Val tt st
      | r => r
      end
  end.

(* IterableObject.iter_self of array / dict / range holders; None: not iterable *)
Definition iter_items (v : value) : option (nat * list (list value)) :=
  match v with
  | VArr l => Some (1%nat, map (fun x => [x]) l)
  | VDict d => Some (2%nat, map (fun kv => [VStr (fst kv); snd kv]) d)
  | VRange a b c => Some (1%nat, map (fun z => [VInt z]) (range_items a b c))
  | _ => None
  end.

(* restore per-file / per-loop fields when control leaves a construct by any path *)
Definition map_state {A} (f : istate -> istate) (r : outcome A) : outcome A :=
  match r with
  | Val a st => Val a (f st)
  | Brk l st => Brk l (f st)
  | Cont l st => Cont l (f st)
  | Fail c l st => Fail c l (f st)
  | OutOfFuel => OutOfFuel
  | OutOfModel => OutOfModel
  end.

(* ------------------------------------------------------------------ functions *)
Definition files_t := list (str * str).

Definition meson_functions : list str := map s2l
  ["add_global_arguments"; "add_global_link_arguments"; "add_languages"; "add_project_arguments";
   "add_project_dependencies"; "add_project_link_arguments"; "add_test_setup"; "alias_target";
   "assert"; "benchmark"; "both_libraries"; "build_target"; "configuration_data"; "configure_file";
   "custom_target"; "debug"; "declare_dependency"; "dependency"; "disabler"; "default"; "environment";
   "error"; "executable"; "files"; "find_program"; "generator"; "get_option"; "get_variable"; "import";
   "include_directories"; "install_data"; "install_emptydir"; "install_headers"; "install_man";
   "install_subdir"; "install_symlink"; "is_disabler"; "is_variable"; "jar"; "join_paths"; "library";
   "message"; "option"; "project"; "range"; "run_command"; "run_target"; "set_variable";
   "structured_sources"; "subdir"; "shared_library"; "shared_module"; "static_library"; "subdir_done";
   "subproject"; "summary"; "test"; "unset_variable"; "vcs_tag"; "warning"]%string.

Definition f_eq (name : str) (lit : string) : bool := str_eqb name (s2l lit).

Fixpoint stringify_all (l : list value) : pres (list str) :=
  match l with
  | [] => POk []
  | x :: r => pbind (stringify false x) (fun s => pbind (stringify_all r) (fun t => POk (s :: t)))
  end.

(* mparser.IDENT_RE.fullmatch *)
Definition is_ident (s : str) : bool :=
  match s with c :: r => is_id_start_c c && forallb is_id_c r | [] => false end.

(* path segments [a-z0-9_]+ separated by single '/' (other spellings are outside the model) *)
Definition seg_char (c : char) : bool := is_lower c || is_digit c || (c =? 95).
Fixpoint clean_path_go (s : str) (seg_nonempty : bool) : bool :=
  match s with
  | [] => seg_nonempty
  | c :: r => if c =? 47 then seg_nonempty && clean_path_go r false
              else seg_char c && clean_path_go r true
  end.
Definition clean_path (s : str) : bool := clean_path_go s false.
Definition clean_name (s : str) : bool := negb (Nat.eqb (length s) 0) && forallb seg_char s.

(* the first statement of a project file must be project('name') (sanity_check_ast); only the
   one-string form is inside the model *)
Definition is_project_call (n : node) : option bool :=
  match n with
  | NFunc name _ a _ _ =>
      if f_eq (ttext name) "project" then
        match a with
        | APos (NStr t) ANil =>
            match tk t with
            | KStr | KMStr => match str_value t with
                              | Some s => if memb 58 s then None else Some true
                              | None => None end
            | _ => None
            end
        | _ => None
        end
      else Some false
  | _ => Some false
  end.
Fixpoint first_stmt (b : block) : option (node * block) :=
  match b with
  | BNil => None
  | BLine n _ r => if is_empty n then first_stmt r else Some (n, r)
  end.

Definition fresh_state (dir : str) (stk : list str) (o : list str) (sb : list (str * list (str * value))) : istate :=
  mkI [] 0 (0, 0) dir [] stk o sb.

(* Interpreter.__init__ + run() of a (sub)project rooted at dir: load_root_meson_file,
   sanity_check_ast, parse_project, run.  Returns the final state of that interpreter. *)
Definition run_project (ev : evalT) (files : files_t) (dir : str) (st0 : istate) : outcome unit :=
  let file := build_file dir in
  match lookup file files with
  | None => err st0
  | Some code =>
      if negb (Nat.eqb (length code) 0) && forallb is_space code then err st0 else
      match parse code with
      | Fuel => OutOfModel
      | Err p => Fail EMeson (Some (file, p)) st0
      | Ok b =>
          match first_stmt b with
          | None => err st0
          | Some (n, rest) =>
              match is_project_call n with
              | None => OutOfModel
              | Some false => err st0
              | Some true =>
                  (* InterpreterBase.run: a break/continue that reaches the top of the interpreter
                     is an InvalidCode error located at that statement (pending fix) *)
                  match eval_block ev rest (set_cur (npos n) st0) with
                  | Brk l st | Cont l st => Fail EMeson (Some l) st
                  | r => r
                  end
              end
          end
      end
  end.

(* func_subdir: interpreter.py:2591-2628 with _resolve_subdir/_evaluate_subdir *)
Definition do_subdir (ev : evalT) (files : files_t) (d : str) (st : istate) : outcome (option value) :=
  if contains_sub (s2l "..") d then err st
  else if (Nat.eqb (length (sdir st)) 0) && str_eqb d (s2l "subprojects") then err st
  else if (Nat.eqb (length (sdir st)) 0) && prefixb (s2l "meson-") d then err st
  else if Nat.eqb (length d) 0 then err st
  else if prefixb [47] d then err st
  else if negb (clean_path d) then OutOfModel
  else
    let sub := match sdir st with [] => d | p => p ++ 47 :: d end in
    if str_mem sub (visited st) then err st else
    let st := set_visited (sub :: visited st) st in
    match lookup (build_file sub) files with
    | None => err st
    | Some code =>
        match parse code with
        | Fuel => OutOfModel
        | Err p => Fail EMeson (Some (build_file sub, p)) st
        | Ok b =>
            let prev := sdir st in
            '(_, st) <~ map_state (set_sdir prev) (eval_block ev b (set_sdir sub st)) ;;
            Val None st
        end
    end.

(* func_subproject / do_subproject / _do_subproject_meson (required, method meson) *)
Definition do_subproject (ev : evalT) (files : files_t) (name : str) (st : istate) : outcome (option value) :=
  if Nat.eqb (length name) 0 then err st
  else if negb (clean_name name) then OutOfModel
  else if str_mem name (stack st) then err st
  else if has_key name (subs st) then Val (Some (VSub name)) st
  else
    let dir := s2l "subprojects/" ++ name in
    match lookup (build_file dir) files with
    | None => err st
    | Some _ =>
        match run_project ev files dir (fresh_state dir (name :: stack st) (out st) (subs st)) with
        | Val _ s' => Val (Some (VSub name)) (set_global (out s') ((name, vars s') :: subs s') st)
        | Brk l s' => Brk l (set_global (out s') (subs s') st)
        | Cont l s' => Cont l (set_global (out s') (subs s') st)
        | Fail c l s' => Fail c l (set_global (out s') (subs s') st)
        | OutOfFuel => OutOfFuel
        | OutOfModel => OutOfModel
        end
    end.

Definition range_args (args : list value) : option (Z * Z * Z) :=
  match args with
  | [a] => match as_int a with Some x => Some (0%Z, x, 1%Z) | None => None end
  | [a; b] => match as_int a, as_int b with Some x, Some y => Some (x, y, 1%Z) | _, _ => None end
  | [a; b; c] => match as_int a, as_int b, as_int c with
                 | Some x, Some y, Some z => Some (x, y, z) | _, _, _ => None end
  | _ => None
  end.

(* mlog.force_print inside a subproject (mlog.py:200-206): every line of the printed text is
   stripped and prefixed with 'name| '.  The prefix is removed by the harness on the
   implementation side; the stripping is part of what can be observed of a nested message.
   (The first line follows 'Message: ', so only its right end is stripped.) *)
Fixpoint split_nl (s cur : str) : list str :=
  match s with
  | [] => [rev cur]
  | c :: r => if c =? 10 then rev cur :: split_nl r [] else split_nl r (c :: cur)
  end.
Definition nested_text (txt : str) : str :=
  match split_nl txt [] with
  | [] => []
  | l1 :: rest => join [10] (rstrip l1 :: map strip rest)
  end.
Definition log_text (st : istate) (txt : str) : str :=
  match stack st with [] => txt | _ => nested_text txt end.

(* the builtin functions of the core language; args are the evaluated positional arguments
   (not yet flattened) and keyword arguments *)
Definition call_function (ev : evalT) (files : files_t) (name : str) (raw : list value)
                         (kw : kwargs_t) (st : istate) : outcome (option value) :=
  let args := flatten_vals raw in
  let nokw (k : outcome (option value)) := match kw with [] => k | _ => err st end in
  if f_eq name "message" then                       (* noArgsFlattening, noKwargs *)
    nokw (lift (stringify_all raw) st (fun strs => Val None (add_out (log_text st (join [32] strs)) st)))
  else if f_eq name "error" then
    nokw (lift (stringify_all raw) st (fun _ => err st))
  else if f_eq name "assert" then                   (* typed_pos_args('assert', bool, optargs=[str]) *)
    nokw (match args with
          | [VBool b] => if b then Val None st else err st
          | [VBool b; VStr _] => if b then Val None st else err st
          | _ => err st
          end)
  else if f_eq name "range" then                    (* interpreter.py:4122-4145 *)
    nokw (match range_args args with
          | Some (a, b, c) =>
              if (a <? 0)%Z || (b <? a)%Z || (c <? 1)%Z then err st
              else Val (Some (VRange a b c)) st
          | None => err st
          end)
  else if f_eq name "set_variable" then             (* noArgsFlattening *)
    nokw (match raw with
          | [VStr n; v] =>
              if is_ident n then '(_, st) <~ set_variable n v st ;; Val None st else err st
          | _ => err st
          end)
  else if f_eq name "get_variable" then             (* noArgsFlattening; reads self.variables only *)
    nokw (match raw with
          | [VStr n] => match lookup n (vars st) with Some v => Val (Some v) st | None => err st end
          | [VStr n; d] => match lookup n (vars st) with Some v => Val (Some v) st | None => Val (Some d) st end
          | _ => err st
          end)
  else if f_eq name "is_variable" then
    nokw (match args with
          | [VStr n] => Val (Some (VBool (has_key n (vars st)))) st
          | _ => err st
          end)
  else if f_eq name "unset_variable" then
    nokw (match args with
          | [VStr n] => if has_key n (vars st) then Val None (set_vars (dict_del n (vars st)) st) else err st
          | _ => err st
          end)
  else if f_eq name "subdir" then
    match kw with
    | _ :: _ => OutOfModel
    | [] => match args with [VStr d] => do_subdir ev files d st | _ => err st end
    end
  else if f_eq name "subproject" then
    match kw with
    | _ :: _ => OutOfModel
    | [] => match args with [VStr n] => do_subproject ev files n st | _ => err st end
    end
  else if f_eq name "project" then err st           (* 'Second call to project()' *)
  else if str_mem name meson_functions then OutOfModel
  else err st.                                      (* unknown function: InvalidCode *)

(* SubprojectHolder methods: interpreterobjects.py:906-937 *)
Definition sub_method (sp name : str) (raw : list value) (kw : kwargs_t) (st : istate) : outcome (option value) :=
  match kw with
  | _ :: _ => err st
  | [] =>
      if f_eq name "found" then
        match flatten_vals raw with [] => Val (Some (VBool true)) st | _ => err st end
      else if f_eq name "get_variable" then
        match lookup sp (subs st) with
        | None => OutOfModel
        | Some svars =>
            match raw with
            | [VStr n] => match lookup n svars with Some v => Val (Some v) st | None => err st end
            | [VStr n; d] => match lookup n svars with Some v => Val (Some v) st | None => Val (Some d) st end
            | _ => err st
            end
        end
      else err st
  end.

(* ------------------------------------------------------------------ evaluate_statement *)
Definition step (files : files_t) (ev : evalT) : evalT := fun n st0 =>
  let st := set_cur (npos n) st0 in                       (* self.current_node = cur *)
  match n with
  | NEmpty _ => err st                                    (* 'Unknown statement.' *)
  | NBool t => Val (Some (VBool (match tk t with KTrue => true | _ => false end))) st
  | NNum t => Val (Some (VInt (num_value (ttext t)))) st
  | NId t => '(v, st) <~ get_variable (ttext t) st ;; Val (Some v) st
  | NStr t =>
      match str_value t with
      | None => OutOfModel
      | Some s =>
          if is_fstr (tk t) then lift (fstring s st) st (fun r => Val (Some (VStr r)) st)
          else Val (Some (VStr s)) st
      end
  | NContinue _ _ => Cont (build_file (sdir st), cur st) st
  | NBreak _ _ => Brk (build_file (sdir st), cur st) st
  | NParen _ e _ => ev e st
  | NArray _ a _ _ =>
      '(pk, st) <~ reduce_arguments ev false a st ;;
      match snd pk with
      | [] => Val (Some (VArr (fst pk))) st
      | _ => err st                                       (* keyword arguments in an array *)
      end
  | NDict _ a _ _ =>
      '(pk, st) <~ reduce_arguments ev true a st ;;
      Val (Some (VDict (snd pk))) st
  | NNot _ _ e =>
      '(v, st) <~ ev e st ;;
      need v st (fun x => lift (operator_call x OpNot None) st (fun r => Val (Some r) st))
  | NUMinus _ _ e =>
      '(v, st) <~ ev e st ;;
      need v st (fun x => lift (operator_call x OpUMinus None) st (fun r => Val (Some r) st))
  | NArith l op r =>
      '(lv, st) <~ ev l st ;;
      '(rv, st) <~ ev r st ;;
      match lv, rv, arith_op (tk op) with
      | Some x, Some y, Some o => lift (operator_call x o (Some y)) st (fun r => Val (Some r) st)
      | _, _, _ => err st
      end
  | NCmp l op r =>
      '(lv, st) <~ ev l st ;;
      need lv st (fun x =>
      '(rv, st) <~ ev r st ;;
      need rv st (fun y =>
      match cmp_op (tk op) with
      | Some (o, false) => lift (operator_call x o (Some y)) st (fun r => Val (Some r) st)
      | Some (o, true) => lift (operator_call y o (Some x)) st (fun r => Val (Some r) st)
      | None => err st
      end))
  | NNotIn l _ _ r =>
      '(lv, st) <~ ev l st ;;
      need lv st (fun x =>
      '(rv, st) <~ ev r st ;;
      need rv st (fun y => lift (operator_call y OpNotIn (Some x)) st (fun r => Val (Some r) st)))
  | NAnd l _ r =>
      '(lv, st) <~ ev l st ;;
      need lv st (fun x => truth x st (fun b =>
        if negb b then Val (Some (VBool false)) st
        else '(rv, st) <~ ev r st ;;
             need rv st (fun y => truth y st (fun c => Val (Some (VBool c)) st))))
  | NOr l _ r =>
      '(lv, st) <~ ev l st ;;
      need lv st (fun x => truth x st (fun b =>
        if b then Val (Some (VBool true)) st
        else '(rv, st) <~ ev r st ;;
             need rv st (fun y => truth y st (fun c => Val (Some (VBool c)) st))))
  | NTernary c _ t _ f =>
      '(cv, st) <~ ev c st ;;
      need cv st (fun x => truth x st (fun b => if b then ev t st else ev f st))
  | NIndex obj _ idx _ =>
      '(ov, st) <~ ev obj st ;;
      need ov st (fun o =>
      '(iv, st) <~ ev idx st ;;
      need iv st (fun i => lift (operator_call o OpIndex (Some i)) st (fun r => Val (Some r) st)))
  | NAssign name _ v =>
      if negb (Nat.eqb (depth st) 0) then err st else
      '(x, st) <~ ev v st ;;
      need x st (fun x => '(_, st) <~ set_variable (ttext name) x st ;; Val None st)
  | NPlusAssign name _ v =>
      '(x, st) <~ ev v st ;;
      need x st (fun add =>
      '(old, st) <~ get_variable (ttext name) st ;;
      lift (operator_call old OpPlus (Some add)) st (fun nv =>
      '(_, st) <~ set_variable (ttext name) nv st ;; Val None st))
  | NIf i _ => '(_, st) <~ eval_ifs ev i None st ;; Val None st
  | NIfElse i _ _ b _ => '(_, st) <~ eval_ifs ev i (Some b) st ;; Val None st
  | NForeach _ v1 cv2 _ items b _ =>
      '(iv, st) <~ ev items st ;;
      match iv with
      | None => err st
      | Some v =>
          match iter_items v with
          | None => err st
          | Some (tsize, its) =>
              let names := ttext v1 :: match cv2 with Some (_, v2) => [ttext v2] | None => [] end in
              if negb (Nat.eqb (length names) tsize) then err st else
              '(_, st) <~ foreach_loop ev names b its st ;;
              Val None st
          end
      end
  | NFunc name _ a _ _ =>
      '(pk, st) <~ reduce_arguments ev false a st ;;
      let st := set_cur (npos n) st in                    (* self.current_node = node *)
      call_function ev files (ttext name) (fst pk) (snd pk) st
  | NMethod obj _ name _ a _ _ =>
      '(ov, st) <~ (match is_id obj with
                    | Some t => '(v, st) <~ get_variable (ttext t) st ;; Val (Some v) st
                    | None => ev obj st
                    end) ;;
      '(pk, st) <~ reduce_arguments ev false a st ;;
      need ov st (fun o =>
        let st := set_cur (npos n) st in
        match o with
        | VSub sp => sub_method sp (ttext name) (fst pk) (snd pk) st
        | _ => lift (method_call o (ttext name) (fst pk) (snd pk)) st (fun r => Val (Some r) st)
        end)
  end.

Fixpoint eval (files : files_t) (fuel : nat) : evalT :=
  match fuel with
  | O => fun _ _ => OutOfFuel
  | S f => step files (eval files f)
  end.

(* meson setup: the root project *)
Definition run_root (files : files_t) (fuel : nat) : outcome unit :=
  run_project (eval files fuel) files [] (fresh_state [] [] [] []).
