(* Eval/Frame.v — immutability as a frame theorem: evaluating a statement leaves every variable
   it does not assign exactly as it was, on every path (normal completion, break, continue,
   error).  Values are data in the store (there are no references), so no operation on one name
   can change the value seen through another. *)
From MV Require Import Base.Strs Base.LexFacts Eval.Values Eval.Ops Eval.Methods Eval.Interp.
From Coq Require Import Lia.
Open Scope N_scope.

(* calls that write variables chosen at run time, or run another file in this store *)
Definition is_dyn (name : str) : bool :=
  f_eq name "set_variable" || f_eq name "unset_variable" || f_eq name "subdir".

(* the calls whose written names cannot be read off the program text *)
Definition is_dyn2 (name : str) : bool := f_eq name "set_variable" || f_eq name "unset_variable".

(* [safe dyn x n] (dyn: the excluded calls): the name x is not assigned anywhere inside n (by =, += or as a foreach variable)
   and n contains no call of set_variable / unset_variable / subdir *)
Fixpoint safe (dyn : str -> bool) (x : str) (n : node) : bool :=
  match n with
  | NEmpty _ | NBool _ | NId _ | NNum _ | NStr _ | NContinue _ _ | NBreak _ _ => true
  | NParen _ e _ => safe dyn x e
  | NArray _ a _ _ | NDict _ a _ _ => safe_args dyn x a
  | NFunc name _ a _ _ => negb (dyn (ttext name)) && safe_args dyn x a
  | NMethod obj _ _ _ a _ _ => safe dyn x obj && safe_args dyn x a
  | NIndex o _ i _ => safe dyn x o && safe dyn x i
  | NNot _ _ e | NUMinus _ _ e => safe dyn x e
  | NArith l _ r | NCmp l _ r | NAnd l _ r | NOr l _ r | NNotIn l _ _ r => safe dyn x l && safe dyn x r
  | NTernary c _ t _ f => safe dyn x c && safe dyn x t && safe dyn x f
  | NAssign name _ v | NPlusAssign name _ v => negb (str_eqb x (ttext name)) && safe dyn x v
  | NIf i _ => safe_ifs dyn x i
  | NIfElse i _ _ b _ => safe_ifs dyn x i && safe_block dyn x b
  | NForeach _ v1 cv2 _ items b _ =>
      negb (str_eqb x (ttext v1)) &&
      match cv2 with Some (_, v2) => negb (str_eqb x (ttext v2)) | None => true end &&
      safe dyn x items && safe_block dyn x b
  end
with safe_args (dyn : str -> bool) (x : str) (a : args) : bool :=
  match a with
  | ANil => true
  | APos n r => safe dyn x n && safe_args dyn x r
  | AKw k _ v r => safe dyn x k && safe dyn x v && safe_args dyn x r
  end
with safe_block (dyn : str -> bool) (x : str) (b : block) : bool :=
  match b with
  | BNil => true
  | BLine n _ r => safe dyn x n && safe_block dyn x r
  end
with safe_ifs (dyn : str -> bool) (x : str) (i : ifs) : bool :=
  match i with
  | INil => true
  | ICons _ c _ b r => safe dyn x c && safe_block dyn x b && safe_ifs dyn x r
  end.

Definition opost {A} (P : istate -> Prop) (r : outcome A) : Prop :=
  match r with
  | Val _ st | Brk _ st | Cont _ st | Fail _ _ st => P st
  | OutOfFuel | OutOfModel => True
  end.

Section Frame.
Variable x : str.
Variable dyn : str -> bool.

Definition keeps (st st' : istate) : Prop := lookup x (vars st') = lookup x (vars st).
Definition K {A} (st : istate) (r : outcome A) : Prop := opost (keeps st) r.

Lemma keeps_refl st : keeps st st.
Proof. reflexivity. Qed.
Lemma keeps_trans a b c : keeps a b -> keeps b c -> keeps a c.
Proof. unfold keeps. congruence. Qed.
Lemma keeps_vars a b : vars b = vars a -> keeps a b.
Proof. unfold keeps. intros ->. reflexivity. Qed.

Lemma K_from {A} a b (r : outcome A) : keeps a b -> K b r -> K a r.
Proof. intros H. destruct r; cbn; auto; intros H2; eapply keeps_trans; eauto. Qed.

Lemma K_bind {A B} st (r : outcome A) (f : A -> istate -> outcome B) :
  K st r -> (forall a st1, keeps st st1 -> K st1 (f a st1)) -> K st (obind r f).
Proof.
  intros Hr Hf. destruct r; cbn in *; auto. eapply K_from; [exact Hr|]. apply Hf. exact Hr.
Qed.
Lemma K_err {A} st st' : keeps st st' -> K st (@err A st').
Proof. intros H. exact H. Qed.
Lemma K_need {B} st o (k : value -> outcome B) : (forall v, K st (k v)) -> K st (need o st k).
Proof. intros H. destruct o; cbn; [apply H|apply keeps_refl]. Qed.
Lemma K_lift {A B} st (r : pres A) (k : A -> outcome B) : (forall v, K st (k v)) -> K st (lift r st k).
Proof. intros H. destruct r; cbn; auto; apply keeps_refl. Qed.
Lemma K_truth {B} st v (k : bool -> outcome B) : (forall b, K st (k b)) -> K st (truth v st k).
Proof. intros H. unfold truth. apply K_lift. intros r. destruct r; try apply keeps_refl. apply H. Qed.
Lemma K_locate {A} st (r : outcome A) : K st r -> K st (locate r).
Proof. destruct r; cbn; auto. destruct l; cbn; auto. Qed.

(* the store operations *)
Lemma lookup_dict_set_other {A} n (v : A) d : str_eqb x n = false -> lookup x (dict_set n v d) = lookup x d.
Proof.
  intros H. induction d as [|[k w] r IH]; cbn.
  - rewrite H. reflexivity.
  - destruct (str_eqb n k) eqn:E; cbn.
    + apply str_eqb_eq in E. subst. rewrite H. reflexivity.
    + destruct (str_eqb x k); [reflexivity|exact IH].
Qed.
Lemma K_set_variable st n v : str_eqb x n = false -> K st (set_variable n v st).
Proof.
  intros H. unfold set_variable. destruct (is_builtin n); cbn; [apply keeps_refl|].
  unfold keeps. cbn. apply lookup_dict_set_other. exact H.
Qed.
Lemma K_get_variable st n : K st (get_variable n st).
Proof. unfold get_variable. destruct (is_builtin n); cbn; auto. destruct (lookup n (vars st)); cbn; apply keeps_refl. Qed.

Section Step.
Variable files : files_t.
Variable ev : evalT.
Hypothesis Hev : forall n st, safe dyn x n = true -> K st (ev n st).
(* every build file a subdir() call can enter is itself safe (vacuous when dyn excludes subdir) *)
Definition files_safe : Prop :=
  forall path code b, lookup path files = Some code -> parse code = Ok b -> safe_block dyn x b = true.
Hypothesis Hdyn : forall name, dyn name = false ->
  f_eq name "set_variable" = false /\ f_eq name "unset_variable" = false /\
  (f_eq name "subdir" = true -> files_safe).

Lemma K_eval_pos a st : safe_args dyn x a = true -> K st (eval_pos ev a st).
Proof.
  revert st; induction a as [|n r IH|k c v r IH]; intros st H; cbn in *.
  - apply keeps_refl.
  - apply Bool.andb_true_iff in H. destruct H as [H1 H2].
    apply K_bind; [apply Hev; exact H1|]. intros o st1 _.
    apply K_bind; [apply IH; exact H2|]. intros vs st2 _. apply keeps_refl.
  - apply Bool.andb_true_iff in H. destruct H as [_ H]. apply IH. exact H.
Qed.

Lemma K_eval_kw dict a acc st : safe_args dyn x a = true -> K st (eval_kw ev dict a acc st).
Proof.
  revert acc st; induction a as [|n r IH|k c v r IH]; intros acc st H; cbn in *.
  - apply keeps_refl.
  - apply Bool.andb_true_iff in H. destruct H as [_ H]. apply IH. exact H.
  - apply Bool.andb_true_iff in H. destruct H as [H H3].
    apply Bool.andb_true_iff in H. destruct H as [H1 H2].
    apply K_bind.
    + destruct dict.
      * apply K_bind; [apply Hev; exact H1|]. intros kv st1 _.
        destruct kv as [[]|]; try apply keeps_refl.
      * destruct (is_id k); apply keeps_refl.
    + intros key st1 _. apply K_bind; [apply Hev; exact H2|]. intros val st2 _.
      apply K_need. intros w. cbv zeta.
      destruct (dict && has_key key acc); [apply keeps_vars; reflexivity|].
      eapply K_from; [|apply IH; exact H3]. apply keeps_vars. reflexivity.
Qed.

Lemma K_expand kw st : K st (expand_default_kwargs kw st).
Proof.
  unfold expand_default_kwargs. destruct (lookup _ kw) as [[]|]; try apply keeps_refl.
  destruct (has_key _ d); [apply keeps_refl|]. destruct (merge_expand _ _); apply keeps_refl.
Qed.

Lemma K_reduce dict a st : safe_args dyn x a = true -> K st (reduce_arguments ev dict a st).
Proof.
  intros H. unfold reduce_arguments. destruct (negb (args_order_ok a)); [apply keeps_refl|].
  cbv zeta. apply (K_from st (set_depth (S (depth st)) st)); [apply keeps_vars; reflexivity|].
  apply K_bind; [apply K_eval_pos; exact H|]. intros pos st1 _.
  destruct (all_some pos); [|apply keeps_refl].
  apply K_bind; [apply K_eval_kw; exact H|]. intros kw st2 _.
  destruct dict.
  - apply keeps_vars. reflexivity.
  - apply (K_from st2 (set_depth (pred (depth st2)) st2)); [apply keeps_vars; reflexivity|].
    apply K_bind; [apply K_expand|]. intros kw' st3 _. apply keeps_refl.
Qed.

Lemma K_eval_block b st : safe_block dyn x b = true -> K st (eval_block ev b st).
Proof.
  revert st; induction b as [|n e r IH]; intros st H; cbn in *; [apply keeps_refl|].
  apply Bool.andb_true_iff in H. destruct H as [H1 H2].
  destruct (is_empty n); [apply IH; exact H2|].
  apply K_bind; [apply K_locate; apply Hev; exact H1|]. intros _ st1 _. apply IH. exact H2.
Qed.

Lemma K_eval_ifs i els st :
  safe_ifs dyn x i = true -> match els with Some b => safe_block dyn x b = true | None => True end ->
  K st (eval_ifs ev i els st).
Proof.
  revert st; induction i as [|kw c eol b r IH]; intros st H He; cbn in *.
  - destruct els; [apply K_eval_block; exact He|apply keeps_refl].
  - apply Bool.andb_true_iff in H. destruct H as [H H3].
    apply Bool.andb_true_iff in H. destruct H as [H1 H2].
    apply K_bind; [apply Hev; exact H1|]. intros cv st1 _.
    apply K_need. intros v. apply K_truth. intros t.
    destruct t; [apply K_eval_block; exact H2|apply IH; assumption].
Qed.

Lemma K_bind_vars names vals st :
  forallb (fun n => negb (str_eqb x n)) names = true -> K st (bind_vars names vals st).
Proof.
  revert vals st; induction names as [|n ns IH]; intros vals st H; cbn in *; [apply keeps_refl|].
  destruct vals as [|v vs]; [apply keeps_refl|].
  apply Bool.andb_true_iff in H. destruct H as [H1 H2].
  apply K_bind; [apply K_set_variable; destruct (str_eqb x n); [discriminate H1|reflexivity]|].
  intros _ st1 _. apply IH. exact H2.
Qed.

Lemma K_foreach names b its st :
  forallb (fun n => negb (str_eqb x n)) names = true -> safe_block dyn x b = true ->
  K st (foreach_loop ev names b its st).
Proof.
  intros Hn Hb. revert st; induction its as [|it rest IH]; intros st; cbn; [apply keeps_refl|].
  apply K_bind; [apply K_bind_vars; exact Hn|]. intros _ st1 _.
  pose proof (K_eval_block b st1 Hb) as Hk.
  destruct (eval_block ev b st1) eqn:E; cbn in Hk |- *; auto.
  - eapply K_from; [exact Hk|apply IH].
  - eapply K_from; [exact Hk|apply IH].
Qed.

(* a subproject call never touches the caller's variables, whatever the subproject does *)
Lemma K_do_subproject name st : K st (do_subproject ev files name st).
Proof.
  unfold do_subproject.
  destruct (Nat.eqb (length name) 0); [apply keeps_refl|].
  destruct (negb (clean_name name)); [exact I|].
  destruct (str_mem name (stack st)); [apply keeps_refl|].
  destruct (has_key name (subs st)); [apply keeps_refl|].
  destruct (lookup _ files); [|apply keeps_refl].
  destruct (run_project _ _ _ _); cbn; try exact I; apply keeps_vars; reflexivity.
Qed.

Lemma K_map_state {A} f st (r : outcome A) : (forall s, vars (f s) = vars s) -> K st r -> K st (map_state f r).
Proof.
  intros Hf. destruct r; cbn; auto; unfold keeps; rewrite Hf; auto.
Qed.

(* subdir(): the file's statements run in this store; they keep x if the file is safe *)
Lemma K_do_subdir d st : files_safe -> K st (do_subdir ev files d st).
Proof.
  intros Hfs. unfold do_subdir.
  repeat match goal with
  | |- K _ (if ?c then _ else _) => destruct c; try apply keeps_refl; try exact I
  end.
  cbv zeta.
  destruct (lookup (build_file _) files) as [code|] eqn:El; [|apply keeps_vars; reflexivity].
  destruct (parse code) as [b| |] eqn:Ep; try (apply keeps_vars; reflexivity); try exact I.
  apply K_bind; [|intros; apply keeps_refl].
  apply K_map_state; [reflexivity|].
  match goal with |- K st (eval_block ev b ?s) => apply (K_from st s); [apply keeps_vars; reflexivity|] end.
  apply K_eval_block. eapply Hfs; eassumption.
Qed.

Lemma K_call_function name raw kw st :
  dyn name = false -> K st (call_function ev files name raw kw st).
Proof.
  intros H. destruct (Hdyn name H) as (H1 & H2 & H3).
  unfold call_function. rewrite H1, H2.
  destruct (f_eq name "message").
  { destruct kw; [|apply keeps_refl]. apply K_lift. intros strs. apply keeps_vars. reflexivity. }
  destruct (f_eq name "error").
  { destruct kw; [|apply keeps_refl]. apply K_lift. intros strs. apply keeps_refl. }
  destruct (f_eq name "assert").
  { destruct kw; [|apply keeps_refl]. destruct (flatten_vals raw) as [|[] [|[] [|]]]; try apply keeps_refl;
      destruct b; apply keeps_refl. }
  destruct (f_eq name "range").
  { destruct kw; [|apply keeps_refl]. destruct (range_args _) as [[[a b] c]|]; [|apply keeps_refl].
    destruct (_ || _); apply keeps_refl. }
  destruct (f_eq name "get_variable").
  { destruct kw; [|apply keeps_refl]. destruct raw as [|[] [|? [|]]]; try apply keeps_refl;
      destruct (lookup s (vars st)); apply keeps_refl. }
  destruct (f_eq name "is_variable").
  { destruct kw; [|apply keeps_refl]. destruct (flatten_vals raw) as [|[] [|]]; apply keeps_refl. }
  destruct (f_eq name "subdir").
  { destruct kw; [|exact I]. destruct (flatten_vals raw) as [|[] [|]]; try apply keeps_refl.
    apply K_do_subdir. apply H3. reflexivity. }
  destruct (f_eq name "subproject").
  { destruct kw; [|exact I]. destruct (flatten_vals raw) as [|[] [|]]; try apply keeps_refl. apply K_do_subproject. }
  destruct (f_eq name "project"); [apply keeps_refl|].
  destruct (str_mem name meson_functions); [exact I|apply keeps_refl].
Qed.

Lemma K_sub_method sp name raw kw st : K st (sub_method sp name raw kw st).
Proof.
  unfold sub_method. destruct kw; [|apply keeps_refl].
  destruct (f_eq name "found"); [destruct (flatten_vals raw); apply keeps_refl|].
  destruct (f_eq name "get_variable"); [|apply keeps_refl].
  destruct (lookup sp (subs st)); [|exact I].
  destruct raw as [|[] [|? [|]]]; try apply keeps_refl; destruct (lookup s l); apply keeps_refl.
Qed.

Ltac split_safe H :=
  repeat match type of H with
  | (_ && _) = true => let H1 := fresh "Hs" in let H2 := fresh "Hs" in
      apply Bool.andb_true_iff in H; destruct H as [H1 H2]; try split_safe H1; try split_safe H2
  end.

Lemma K_step n st : safe dyn x n = true -> K st (step files ev n st).
Proof.
  intros H. unfold step.
  eapply K_from; [apply (keeps_vars st (set_cur (npos n) st)); reflexivity|].
  set (st0 := set_cur (npos n) st). clearbody st0.
  destruct n; cbn [safe] in H.
  - apply keeps_refl.
  - apply keeps_refl.
  - apply K_bind; [apply K_get_variable|]. intros; apply keeps_refl.
  - apply keeps_refl.
  - destruct (str_value t); [|exact I]. destruct (is_fstr (tk t)); [|apply keeps_refl].
    apply K_lift. intros; apply keeps_refl.
  - apply keeps_refl.
  - apply keeps_refl.
  - apply Hev; exact H.
  - apply K_bind; [apply K_reduce; exact H|]. intros [p k] st1 _. cbn. destruct k; apply keeps_refl.
  - apply K_bind; [apply K_reduce; exact H|]. intros [p k] st1 _. apply keeps_refl.
  - (* NFunc *)
    apply Bool.andb_true_iff in H. destruct H as [H1 H2].
    apply K_bind; [apply K_reduce; exact H2|]. intros [p k] st1 _.
    cbv zeta.
    match goal with |- K ?s (call_function _ _ _ _ _ ?s') => apply (K_from s s'); [apply keeps_vars; reflexivity|] end.
    apply K_call_function. destruct (dyn (ttext name)); [discriminate H1|reflexivity].
  - (* NMethod *)
    apply Bool.andb_true_iff in H. destruct H as [H1 H2].
    apply K_bind.
    + destruct (is_id n) eqn:E.
      * apply K_bind; [apply K_get_variable|]. intros; apply keeps_refl.
      * apply Hev; exact H1.
    + intros ov st1 _. apply K_bind; [apply K_reduce; exact H2|]. intros [p k] st2 _.
      apply K_need. intros o. cbv zeta.
      destruct o; try (apply (K_from st2 (set_cur (npos (NMethod n dot name lp a commas rp)) st2));
                       [apply keeps_vars; reflexivity|apply K_lift; intros; apply keeps_refl]).
      apply (K_from st2 (set_cur (npos (NMethod n dot name lp a commas rp)) st2));
        [apply keeps_vars; reflexivity|apply K_sub_method].
  - (* NIndex *)
    split_safe H.
    apply K_bind; [apply Hev; assumption|]. intros ov st1 _. apply K_need. intros o.
    apply K_bind; [apply Hev; assumption|]. intros iv st2 _. apply K_need. intros i.
    apply K_lift. intros; apply keeps_refl.
  - apply K_bind; [apply Hev; exact H|]. intros v st1 _. apply K_need. intros w.
    apply K_lift. intros; apply keeps_refl.
  - apply K_bind; [apply Hev; exact H|]. intros v st1 _. apply K_need. intros w.
    apply K_lift. intros; apply keeps_refl.
  - (* NArith *)
    split_safe H.
    apply K_bind; [apply Hev; assumption|]. intros lv st1 _.
    apply K_bind; [apply Hev; assumption|]. intros rv st2 _.
    destruct lv, rv, (arith_op (tk op)); try apply keeps_refl. apply K_lift. intros; apply keeps_refl.
  - (* NCmp *)
    split_safe H.
    apply K_bind; [apply Hev; assumption|]. intros lv st1 _. apply K_need. intros a.
    apply K_bind; [apply Hev; assumption|]. intros rv st2 _. apply K_need. intros b.
    destruct (cmp_op (tk op)) as [[o []]|]; try apply keeps_refl; apply K_lift; intros; apply keeps_refl.
  - (* NNotIn *)
    split_safe H.
    apply K_bind; [apply Hev; assumption|]. intros lv st1 _. apply K_need. intros a.
    apply K_bind; [apply Hev; assumption|]. intros rv st2 _. apply K_need. intros b.
    apply K_lift; intros; apply keeps_refl.
  - (* NAnd *)
    split_safe H.
    apply K_bind; [apply Hev; assumption|]. intros lv st1 _. apply K_need. intros a. apply K_truth. intros b.
    destruct b; cbn [negb]; [|apply keeps_refl].
    apply K_bind; [apply Hev; assumption|]. intros rv st2 _. apply K_need. intros c. apply K_truth. intros d.
    apply keeps_refl.
  - (* NOr *)
    split_safe H.
    apply K_bind; [apply Hev; assumption|]. intros lv st1 _. apply K_need. intros a. apply K_truth. intros b.
    destruct b; [apply keeps_refl|].
    apply K_bind; [apply Hev; assumption|]. intros rv st2 _. apply K_need. intros c. apply K_truth. intros d.
    apply keeps_refl.
  - (* NTernary *)
    split_safe H.
    apply K_bind; [apply Hev; assumption|]. intros cv st1 _. apply K_need. intros a. apply K_truth. intros b.
    destruct b; apply Hev; assumption.
  - (* NAssign *)
    split_safe H.
    destruct (negb (Nat.eqb (depth st0) 0)); [apply keeps_refl|].
    apply K_bind; [apply Hev; assumption|]. intros v st1 _. apply K_need. intros w.
    apply K_bind; [apply K_set_variable; destruct (str_eqb x (ttext name)); [discriminate|reflexivity]|].
    intros; apply keeps_refl.
  - (* NPlusAssign *)
    split_safe H.
    apply K_bind; [apply Hev; assumption|]. intros v st1 _. apply K_need. intros w.
    apply K_bind; [apply K_get_variable|]. intros old st2 _.
    apply K_lift. intros nv.
    apply K_bind; [apply K_set_variable; destruct (str_eqb x (ttext name)); [discriminate|reflexivity]|].
    intros; apply keeps_refl.
  - (* NIf *)
    apply K_bind; [apply K_eval_ifs; [exact H|exact I]|]. intros; apply keeps_refl.
  - (* NIfElse *)
    split_safe H.
    apply K_bind; [apply K_eval_ifs; assumption|]. intros; apply keeps_refl.
  - (* NForeach *)
    split_safe H.
    apply K_bind; [apply Hev; assumption|]. intros iv st1 _.
    destruct iv as [v|]; [|apply keeps_refl].
    destruct (iter_items v) as [[tsize its]|]; [|apply keeps_refl].
    match goal with |- context [Nat.eqb ?a ?b] => destruct (Nat.eqb a b) end; cbn [negb]; [|apply keeps_refl].
    apply K_bind; [|intros; apply keeps_refl].
    apply K_foreach; [|assumption].
    cbn [forallb].
    match goal with Hx : negb (str_eqb x (ttext v1)) = true |- _ => rewrite Hx end. cbn [andb].
    destruct cv2 as [[cm v2]|]; cbn [forallb]; [|reflexivity].
    match goal with Hx : negb (str_eqb x (ttext v2)) = true |- _ => rewrite Hx end. reflexivity.
Qed.
End Step.

End Frame.

Lemma is_dyn_spec name : is_dyn name = false ->
  f_eq name "set_variable" = false /\ f_eq name "unset_variable" = false /\ f_eq name "subdir" = false.
Proof.
  unfold is_dyn. intros H. apply Bool.orb_false_iff in H. destruct H as [H H3].
  apply Bool.orb_false_iff in H. destruct H as [H1 H2]. auto.
Qed.

(* the frame theorem, for every fuel: statements without set_variable / unset_variable / subdir *)
Theorem frame x files fuel n st : safe is_dyn x n = true -> K x st (eval files fuel n st).
Proof.
  revert n st; induction fuel as [|f IH]; intros n st H; cbn [eval]; [exact I|].
  apply (K_step x is_dyn files); [exact IH| |exact H].
  intros name Hn. destruct (is_dyn_spec name Hn) as (A & B & C). repeat split; auto. intros E; congruence.
Qed.

Theorem frame_block x files fuel b st :
  safe_block is_dyn x b = true -> K x st (eval_block (eval files fuel) b st).
Proof. intros H. apply (K_eval_block x is_dyn); [intros; apply frame; assumption|exact H]. Qed.

(* ... and through subdir(): when every build file of the project is safe for x (no assignment to
   x, no set_variable / unset_variable), any statement that is safe in the same sense - subdir()
   calls included, to any depth - leaves x unchanged *)
Definition project_safe (x : str) (files : files_t) : Prop :=
  forall path code b, lookup path files = Some code -> parse code = Ok b -> safe_block is_dyn2 x b = true.

Theorem frame_project x files fuel n st :
  project_safe x files -> safe is_dyn2 x n = true -> K x st (eval files fuel n st).
Proof.
  intros Hp. revert n st; induction fuel as [|f IH]; intros n st H; cbn [eval]; [exact I|].
  apply (K_step x is_dyn2 files); [exact IH| |exact H].
  intros name Hn. unfold is_dyn2 in Hn. apply Bool.orb_false_iff in Hn. destruct Hn as [A B].
  repeat split; auto.
Qed.

(* the two builtins that take the variable name as a value write that name only *)
Lemma set_variable_frame x ev files name v kw st :
  str_eqb x name = false -> K x st (call_function ev files (s2l "set_variable") [VStr name; v] kw st).
Proof.
  intros H. unfold call_function. cbn [f_eq]. 
  change (f_eq (s2l "set_variable") "message") with false.
  change (f_eq (s2l "set_variable") "error") with false.
  change (f_eq (s2l "set_variable") "assert") with false.
  change (f_eq (s2l "set_variable") "range") with false.
  change (f_eq (s2l "set_variable") "set_variable") with true.
  cbv iota. destruct kw; [|apply keeps_refl].
  destruct (is_ident name); [|apply keeps_refl].
  apply K_bind; [apply K_set_variable; exact H|]. intros; apply keeps_refl.
Qed.

Lemma lookup_dict_del_other {A} x n (d : list (str * A)) : str_eqb x n = false -> lookup x (dict_del n d) = lookup x d.
Proof.
  intros H. induction d as [|[k w] r IH]; cbn; [reflexivity|].
  destruct (str_eqb n k) eqn:E; cbn.
  - apply str_eqb_eq in E. subst. rewrite H. reflexivity.
  - destruct (str_eqb x k); [reflexivity|exact IH].
Qed.

Lemma unset_variable_frame x ev files name kw st :
  str_eqb x name = false -> K x st (call_function ev files (s2l "unset_variable") [VStr name] kw st).
Proof.
  intros H. unfold call_function.
  change (f_eq (s2l "unset_variable") "message") with false.
  change (f_eq (s2l "unset_variable") "error") with false.
  change (f_eq (s2l "unset_variable") "assert") with false.
  change (f_eq (s2l "unset_variable") "range") with false.
  change (f_eq (s2l "unset_variable") "set_variable") with false.
  change (f_eq (s2l "unset_variable") "get_variable") with false.
  change (f_eq (s2l "unset_variable") "is_variable") with false.
  change (f_eq (s2l "unset_variable") "unset_variable") with true.
  cbv iota. destruct kw; [|apply keeps_refl]. cbn [flatten_vals map flat1 concat app].
  destruct (has_key name (vars st)); [|apply keeps_refl].
  unfold K, opost, keeps. cbn. apply lookup_dict_del_other. exact H.
Qed.
