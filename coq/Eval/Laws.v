(* Eval/Laws.v — laws of the operators and primitive values of the formal reference:
   floor division / modulo, negative indexing, strict typing (operator tables),
   sorted dict.keys(), escape decoding.  (Control-flow laws: Eval/Control.v.) *)
From MV Require Import Base.Strs Base.LexFacts Eval.Values Eval.Ops Eval.Methods Eval.Interp.
From Coq Require Import Lia ZArith Sorting.Sorted Sorting.Permutation.
Open Scope Z_scope.

(* ------------------------------------------------------------------ floor division, modulo *)
Lemma int_div_zero a :
  operator_call (VInt a) OpDiv (Some (VInt 0)) = PInvalid /\
  operator_call (VInt a) OpMod (Some (VInt 0)) = PInvalid.
Proof. split; reflexivity. Qed.

Lemma int_div_mod a b : b <> 0 ->
  exists q r,
    operator_call (VInt a) OpDiv (Some (VInt b)) = POk (VInt q) /\
    operator_call (VInt a) OpMod (Some (VInt b)) = POk (VInt r) /\
    a = b * q + r /\
    (0 < b -> 0 <= r < b) /\ (b < 0 -> b < r <= 0).
Proof.
  intros Hb. exists (a / b), (a mod b).
  cbn [operator_call int_op as_int].
  destruct (b =? 0) eqn:E; [apply Z.eqb_eq in E; contradiction|].
  repeat split; try reflexivity.
  - apply Z.div_mod; exact Hb.
  - apply Z.mod_pos_bound; assumption.
  - apply Z.mod_pos_bound; assumption.
  - apply Z.mod_neg_bound; assumption.
  - apply Z.mod_neg_bound; assumption.
Qed.

(* the quotient is the floor of the rational quotient *)
Lemma int_div_floor a b q : 0 < b ->
  operator_call (VInt a) OpDiv (Some (VInt b)) = POk (VInt q) -> b * q <= a < b * (q + 1).
Proof.
  intros Hb. cbn [operator_call int_op as_int].
  destruct (b =? 0) eqn:E; [apply Z.eqb_eq in E; lia|].
  intros H; inversion H; subst; clear H.
  pose proof (Z.div_mod a b ltac:(lia)). pose proof (Z.mod_pos_bound a b Hb). nia.
Qed.

(* ------------------------------------------------------------------ indexing *)
Lemma nth_opt_nth_error {A} n (l : list A) : nth_opt n l = nth_error l n.
Proof. revert l; induction n; destruct l; cbn; auto. Qed.

Lemma nth_opt_none {A} n (l : list A) : nth_opt n l = None <-> (length l <= n)%nat.
Proof. rewrite nth_opt_nth_error. apply nth_error_None. Qed.

Lemma py_index_bounds {A} (l : list A) i :
  py_index l i = None <-> (i < - zlen l \/ zlen l <= i).
Proof.
  unfold py_index, zlen. set (n := Z.of_nat (length l)).
  destruct (i <? 0) eqn:Ei.
  - apply Z.ltb_lt in Ei.
    destruct ((i + n <? 0) || (n <=? i + n)) eqn:E.
    + split; [intros _|reflexivity].
      apply Bool.orb_true_iff in E. destruct E as [E|E]; [apply Z.ltb_lt in E|apply Z.leb_le in E]; lia.
    + apply Bool.orb_false_iff in E. destruct E as [E1 E2]. apply Z.ltb_ge in E1. apply Z.leb_gt in E2.
      rewrite nth_opt_none. split; intros H; lia.
  - apply Z.ltb_ge in Ei.
    destruct ((i <? 0) || (n <=? i)) eqn:E.
    + split; [intros _|reflexivity].
      apply Bool.orb_true_iff in E. destruct E as [E|E]; [apply Z.ltb_lt in E|apply Z.leb_le in E]; lia.
    + apply Bool.orb_false_iff in E. destruct E as [E1 E2]. apply Z.leb_gt in E2.
      rewrite nth_opt_none. split; intros H; lia.
Qed.

Lemma py_index_nonneg {A} (l : list A) i :
  0 <= i < zlen l -> py_index l i = nth_error l (Z.to_nat i).
Proof.
  intros H. unfold py_index.
  destruct (i <? 0) eqn:Ei; [apply Z.ltb_lt in Ei; lia|].
  destruct ((i <? 0) || (zlen l <=? i)) eqn:E.
  - apply Bool.orb_true_iff in E. destruct E as [E|E]; [apply Z.ltb_lt in E|apply Z.leb_le in E]; lia.
  - apply nth_opt_nth_error.
Qed.

(* x[-k] is x[len - k] *)
Lemma py_index_negative {A} (l : list A) k :
  1 <= k <= zlen l -> py_index l (- k) = py_index l (zlen l - k).
Proof.
  intros H. unfold py_index.
  destruct (- k <? 0) eqn:E1; [|apply Z.ltb_ge in E1; lia].
  destruct (zlen l - k <? 0) eqn:E2; [apply Z.ltb_lt in E2; lia|].
  replace (- k + zlen l) with (zlen l - k) by lia. reflexivity.
Qed.

(* the language-level statement for arrays and strings *)
Lemma array_index l i :
  operator_call (VArr l) OpIndex (Some (VInt i)) =
  match py_index l i with Some v => POk v | None => PInvalid end.
Proof. reflexivity. Qed.
Lemma string_index s i :
  operator_call (VStr s) OpIndex (Some (VInt i)) =
  match py_index s i with Some c => POk (VStr [c]) | None => PInvalid end.
Proof. reflexivity. Qed.

Lemma array_index_bounds (l : list value) i :
  operator_call (VArr l) OpIndex (Some (VInt i)) = PInvalid <-> (i < - zlen l \/ zlen l <= i).
Proof.
  rewrite array_index. rewrite <- py_index_bounds.
  destruct (py_index l i); split; intros H; try discriminate; auto.
Qed.

(* ------------------------------------------------------------------ strict typing *)
Inductive vtype := TInt | TBool | TStr | TArr | TDict | TRange | TSub.
Definition type_of (v : value) : vtype :=
  match v with
  | VInt _ => TInt | VBool _ => TBool | VStr _ => TStr | VArr _ => TArr
  | VDict _ => TDict | VRange _ _ _ => TRange | VSub _ => TSub
  end.

Definition is_arith (op : mop) := match op with OpPlus | OpMinus | OpTimes | OpDiv | OpMod => true | _ => false end.
Definition is_eq (op : mop) := match op with OpEq | OpNe => true | _ => false end.
Definition is_order (op : mop) := match op with OpGt | OpLt | OpGe | OpLe => true | _ => false end.
Definition is_member (op : mop) := match op with OpIn | OpNotIn => true | _ => false end.
Definition is_index (op : mop) := match op with OpIndex => true | _ => false end.
Definition intlike (t : vtype) := match t with TInt | TBool => true | _ => false end.

(* the binary operator table of the reference: receiver type, operator, operand type.
   [leak]: whether a bool is accepted where an int is expected (the implementation does, with
   a FeatureBroken notice; the reference is silent). *)
Definition allowed (leak : bool) (a : vtype) (op : mop) (b : vtype) : bool :=
  let int_ok := match b with TInt => true | TBool => leak | _ => false end in
  match a with
  | TInt => (is_arith op || is_eq op || is_order op) && int_ok
  | TBool => is_eq op && match b with TBool => true | _ => false end
  | TStr => match b with
            | TStr => match op with OpPlus | OpDiv => true | _ => is_eq op || is_order op || is_member op end
            | _ => is_index op && int_ok
            end
  | TArr => match op with
            | OpPlus | OpIn | OpNotIn => true
            | OpEq | OpNe => match b with TArr => true | _ => false end
            | OpIndex => int_ok
            | _ => false
            end
  | TDict => match op with
             | OpPlus | OpEq | OpNe => match b with TDict => true | _ => false end
             | OpIn | OpNotIn | OpIndex => match b with TStr => true | _ => false end
             | _ => false
             end
  | TRange => match op with
              | OpIndex => int_ok
              | OpEq | OpNe => match b with TRange => true | _ => false end
              | _ => false
              end
  | TSub => is_eq op && match b with TSub => true | _ => false end
  end.

(* every operator / operand-type pair outside the table is a meson error: nothing converts *)
Lemma outside_table_is_error a op b :
  allowed true (type_of a) op (type_of b) = false -> operator_call a op (Some b) = PInvalid.
Proof.
  destruct a, b, op; cbn; intros H; try reflexivity; try discriminate H.
Qed.

(* a unary operator applies to exactly one type *)
Lemma unary_table a op : match op with OpNot | OpBool | OpUMinus => True | _ => False end ->
  (exists r, operator_call a op None = POk r) <->
  match op, type_of a with
  | OpNot, TBool | OpBool, TBool | OpUMinus, TInt => True
  | _, _ => False
  end.
Proof.
  destruct op; try contradiction; intros _; destruct a; cbn; split;
    try (intros [r H]; discriminate H); try contradiction; try (intros _; eexists; reflexivity); auto.
Qed.

(* inside the table the only failures are value errors: division by zero, an index out of
   range, a missing key (and the identity comparisons that are outside the model) *)
Definition value_error (a : value) (op : mop) (b : value) : bool :=
  match a, op, as_int b with
  | VInt _, OpDiv, Some 0 | VInt _, OpMod, Some 0 => true
  | VStr s, OpIndex, Some i => match py_index s i with None => true | _ => false end
  | VArr l, OpIndex, Some i => match py_index l i with None => true | _ => false end
  | VRange s e st, OpIndex, Some i =>
      let n := range_len s e st in
      let j := if i <? 0 then i + n else i in (j <? 0) || (n <=? j)
  | _, _, _ =>
      match a, op, b with
      | VDict d, OpIndex, VStr k => negb (has_key k d)
      | _, _, _ => false
      end
  end.

Lemma of_opt_bool_total o n : (exists r, of_opt_bool o n = POk r) \/ of_opt_bool o n = POom.
Proof. destruct o as [b|]; [left; eexists; reflexivity|right; reflexivity]. Qed.

Opaque py_eq py_in_list.
Lemma inside_table_succeeds a op b :
  allowed true (type_of a) op (type_of b) = true -> value_error a op b = false ->
  (exists r, operator_call a op (Some b) = POk r) \/ operator_call a op (Some b) = POom.
Proof.
  destruct a as [z|bb|s|l|d|rs re rst|sn], b as [z'|bb'|s'|l'|d'|rs' re' rst'|sn'], op;
    cbn; intros H V; try discriminate H;
    try (left; eexists; reflexivity);
    try (right; reflexivity);
    try (destruct (z' =? 0) eqn:E; [apply Z.eqb_eq in E; subst; discriminate V | left; eexists; reflexivity]);
    try (destruct bb'; cbn in *; first [discriminate V | left; eexists; reflexivity]);
    try (match goal with |- context [py_index ?x ?i] => destruct (py_index x i) end;
         first [discriminate V | left; eexists; reflexivity]);
    try apply of_opt_bool_total.
  all: try (unfold has_key in V; destruct (lookup s' d); [left; eexists; reflexivity | discriminate V]).
  all: try (match goal with |- context [if ?c then PInvalid else _] => destruct c end;
            first [discriminate V | left; eexists; reflexivity]).
Qed.
Transparent py_eq py_in_list.

(* exact-type equality: == and != never compare values of different types (the one exception is
   an int receiver with a bool operand, see C01_strict_typing_refuted) *)
Lemma equality_same_type a op b r :
  is_eq op = true -> operator_call a op (Some b) = POk r ->
  type_of a = type_of b \/ (type_of a = TInt /\ type_of b = TBool).
Proof.
  destruct a, b, op; cbn; intros E H; try discriminate E; try discriminate H; auto.
Qed.

(* without the bool leak: the strict table.  The two tables differ exactly where a bool operand
   is taken for an int: int arithmetic / comparison, and str / array / range indexing. *)
Definition leak_case (a : vtype) (op : mop) (b : vtype) : bool :=
  match b with
  | TBool => match a with
             | TInt => is_arith op || is_eq op || is_order op
             | TStr | TArr | TRange => is_index op
             | _ => false
             end
  | _ => false
  end.
Lemma strict_table_partial a op b :
  allowed true a op b = allowed false a op b || leak_case a op b.
Proof. destruct a, b, op; reflexivity. Qed.
Lemma strict_guard_satisfiable : leak_case TStr OpPlus TStr = false /\ allowed false TStr OpPlus TStr = true.
Proof. split; reflexivity. Qed.
Lemma strict_table_refuted :
  exists a op b r, allowed false (type_of a) op (type_of b) = false /\ operator_call a op (Some b) = POk r.
Proof. exists (VInt 1), OpPlus, (VBool true), (VInt 2). split; reflexivity. Qed.

(* ------------------------------------------------------------------ dict.keys() *)
Definition sle (a b : str) : Prop := str_leb a b = true.

Lemma str_leb_total a b : str_leb a b = true \/ str_leb b a = true.
Proof.
  unfold str_leb. rewrite (str_cmp_antisym a b). destruct (str_cmp a b); cbn; auto.
Qed.
Lemma str_leb_trans a b c : str_leb a b = true -> str_leb b c = true -> str_leb a c = true.
Proof.
  unfold str_leb. intros H1 H2.
  destruct (str_cmp a b) eqn:E1; try discriminate H1;
  destruct (str_cmp b c) eqn:E2; try discriminate H2.
  - apply str_cmp_eq in E1. subst. rewrite E2. reflexivity.
  - apply str_cmp_eq in E1. subst. rewrite E2. reflexivity.
  - apply str_cmp_eq in E2. subst. rewrite E1. reflexivity.
  - rewrite (str_cmp_trans _ _ _ E1 E2). reflexivity.
Qed.

Lemma insert_sorted_perm k l : Permutation (k :: l) (insert_sorted k l).
Proof.
  induction l as [|x r IH]; cbn; [apply Permutation_refl|].
  destruct (str_leb k x); [apply Permutation_refl|].
  eapply perm_trans; [apply perm_swap|]. apply perm_skip. exact IH.
Qed.
Lemma sort_strs_perm l : Permutation l (sort_strs l).
Proof.
  induction l as [|x r IH]; cbn; [constructor|].
  eapply perm_trans; [apply perm_skip; exact IH|]. apply insert_sorted_perm.
Qed.

Lemma insert_sorted_hd k l x : HdRel sle x l -> sle x k -> HdRel sle x (insert_sorted k l).
Proof.
  intros H Hk. destruct l as [|y r]; cbn; [constructor; exact Hk|].
  destruct (str_leb k y); constructor; [exact Hk|]. inversion H; assumption.
Qed.
Lemma insert_sorted_sorted k l : Sorted sle l -> Sorted sle (insert_sorted k l).
Proof.
  induction l as [|x r IH]; cbn; intros H; [repeat constructor|].
  destruct (str_leb k x) eqn:E.
  - constructor; [exact H|constructor; exact E].
  - inversion H as [|? ? Hs Hh]; subst. constructor; [apply IH; exact Hs|].
    apply insert_sorted_hd; [exact Hh|].
    destruct (str_leb_total k x) as [T|T]; [congruence|exact T].
Qed.
Lemma sort_strs_sorted l : Sorted sle (sort_strs l).
Proof. induction l; cbn; [constructor|apply insert_sorted_sorted; assumption]. Qed.

Lemma dict_keys_sorted d :
  exists ks, dict_method d (s2l "keys") [] [] = POk (vstrs ks) /\
             Sorted sle ks /\ Permutation (map fst d) ks.
Proof.
  exists (sort_strs (map fst d)). split; [reflexivity|]. split; [apply sort_strs_sorted|apply sort_strs_perm].
Qed.

(* ------------------------------------------------------------------ string literals *)
(* multi-line strings are taken verbatim: no escape is decoded *)
Lemma multiline_raw t :
  is_multiline (tk t) = true -> str_value t = Some (body_of (tk t) (ttext t)).
Proof. unfold str_value. intros ->. reflexivity. Qed.

Definition no_backslash (s : str) : bool := forallb (fun c => negb (N.eqb c 92)) s.

Lemma decode_go_plain fuel s : no_backslash s = true -> decode_go fuel s = Some s.
Proof.
  revert s; induction fuel as [|f IH]; intros s H; cbn; [reflexivity|].
  destruct s as [|c r]; [reflexivity|].
  cbn in H. apply Bool.andb_true_iff in H. destruct H as [Hc Hr].
  rewrite (IH r Hr). destruct (N.eqb c 92); [discriminate Hc|reflexivity].
Qed.
(* a quoted string without a backslash denotes its own characters *)
Lemma decode_plain s : no_backslash s = true -> decode_escapes s = Some s.
Proof. apply decode_go_plain. Qed.

(* the escapes of the reference (Syntax.md "Strings"), decoded in '...' *)
Lemma decode_table :
  decode_escapes (s2l "a\nb") = Some [97; 10; 98]%N /\
  decode_escapes (s2l "\t\\\'") = Some [9; 92; 39]%N /\
  decode_escapes (s2l "\a\b\f\r\v") = Some [7; 8; 12; 13; 11]%N /\
  decode_escapes (s2l "\x41\101\7\u00e9\U0001F600") = Some [65; 65; 7; 233; 128512]%N /\
  decode_escapes (s2l "\q\8\x4\u12") = Some (s2l "\q\8\x4\u12") /\
  decode_escapes (s2l "\1234") = Some [83; 52]%N /\
  decode_escapes (s2l "\\n") = Some [92; 110]%N.
Proof. vm_compute. repeat split. Qed.

(* ------------------------------------------------------------------ no internal errors *)
(* an operator application never ends in an internal (Python) error: it yields a value or a
   meson error (or lies outside the model) *)
Lemma of_opt_bool_no_crash o n : of_opt_bool o n <> PCrash.
Proof. destruct o; discriminate. Qed.

Opaque py_eq py_in_list py_index path_join contains_sub dict_merge has_key lookup.
Lemma operators_never_crash a op b : operator_call a op b <> PCrash.
Proof.
  destruct a, op, b as [[]|]; cbn; try discriminate; try apply of_opt_bool_no_crash;
    repeat (match goal with
            | |- context [match ?x with _ => _ end] => destruct x
            | |- context [if ?x then _ else _] => destruct x
            end; try discriminate; try apply of_opt_bool_no_crash).
Qed.
Transparent py_eq py_in_list py_index path_join contains_sub dict_merge has_key lookup.

(* ------------------------------------------------------------------ printing integers *)
(* message() / format() / f-strings render an int in decimal - as long as it has at most 4300
   digits.  Beyond that CPython's str(int) raises ValueError, which escapes as an internal
   error (recorded finding C01:internal-error:ValueError:int-str-limit). *)
Definition printable (z : Z) : bool := negb (too_long z).
Lemma int_render_partial z : printable z = true -> stringify false (VInt z) = POk (Strs.Z_dec z).
Proof.
  unfold printable. intros H. cbn [stringify]. unfold int_str.
  destruct (too_long z); [discriminate H|reflexivity].
Qed.
(* the guard is exactly "fewer than 4301 digits" *)
Lemma printable_spec z : printable z = true <-> (Z.abs z < 10 ^ 4300)%Z.
Proof.
  unfold printable, too_long, ten_pow_max.
  set (a := Z.abs z). assert (Ha : (0 <= a)%Z) by apply Z.abs_nonneg. clearbody a.
  set (P := (2 ^ 14284)%Z). set (Q := (2 ^ 14285)%Z). set (T := (10 ^ 4300)%Z).
  assert (L : (P < T)%Z) by (apply Z.ltb_lt; vm_compute; reflexivity).
  assert (U : (T < Q)%Z) by (apply Z.ltb_lt; vm_compute; reflexivity).
  assert (Tp : (0 < T)%Z) by (apply Z.ltb_lt; vm_compute; reflexivity).
  assert (F1 : (0 < a -> Z.log2 a < 14284 -> a < P)%Z)
    by (intros H1 H2; subst P; apply Z.log2_lt_pow2; assumption).
  assert (F2 : (0 < a -> 14285 <= Z.log2 a -> Q <= a)%Z)
    by (intros H1 H2; subst Q; apply Z.log2_le_pow2; assumption).
  clearbody P Q T.
  destruct (Z.log2 a <? 14284)%Z eqn:E1.
  - apply Z.ltb_lt in E1. split; [intros _|reflexivity].
    destruct (Z.eq_dec a 0) as [->|N]; [exact Tp|].
    assert (a < P)%Z by (apply F1; lia). lia.
  - apply Z.ltb_ge in E1. destruct (14285 <? Z.log2 a)%Z eqn:E2.
    + apply Z.ltb_lt in E2. split; [discriminate|]. intros H. exfalso.
      destruct (Z.eq_dec a 0) as [->|N]; [cbn in E2; lia|].
      assert (Q <= a)%Z by (apply F2; lia). lia.
    + destruct (T <=? a)%Z eqn:E3; cbn [negb].
      * apply Z.leb_le in E3. split; [discriminate|lia].
      * apply Z.leb_gt in E3. split; [intros _; exact E3|reflexivity].
Qed.
Lemma int_render_guard_satisfiable : printable (-42) = true.
Proof. vm_compute. reflexivity. Qed.
Lemma int_render_refuted : exists z, stringify false (VInt z) = PCrash.
Proof. exists (10 ^ 4300)%Z. vm_compute. reflexivity. Qed.
