(* Eval/Control.v — control-flow laws of the formal reference: short-circuit evaluation, lazy
   ternary / if, foreach over the value at loop entry, subdir() and subproject() scoping,
   determinism and fuel monotonicity.  (Immutability frame theorem: Eval/Frame.v.) *)
From MV Require Import Base.Strs Base.LexFacts Eval.Values Eval.Ops Eval.Methods Eval.Interp.
From Coq Require Import Lia.
Open Scope N_scope.

(* ------------------------------------------------------------------ short-circuit *)
Section ShortCircuit.
Variable files : files_t.
Variable ev : evalT.

(* `l and r` with l false: r is not evaluated at all - the result and the whole state
   (variables, messages) are those after l, whatever r is (even if r would fail) *)
Lemma and_short l op r st st' :
  ev l (set_cur (npos (NAnd l op r)) st) = Val (Some (VBool false)) st' ->
  step files ev (NAnd l op r) st = Val (Some (VBool false)) st'.
Proof. intros H. unfold step. rewrite H. reflexivity. Qed.

Lemma or_short l op r st st' :
  ev l (set_cur (npos (NOr l op r)) st) = Val (Some (VBool true)) st' ->
  step files ev (NOr l op r) st = Val (Some (VBool true)) st'.
Proof. intros H. unfold step. rewrite H. reflexivity. Qed.

(* otherwise the result is the truth value of r *)
Lemma and_long l op r st st' :
  ev l (set_cur (npos (NAnd l op r)) st) = Val (Some (VBool true)) st' ->
  step files ev (NAnd l op r) st =
  obind (ev r st') (fun rv st => need rv st (fun y => truth y st (fun c => Val (Some (VBool c)) st))).
Proof. intros H. unfold step. rewrite H. reflexivity. Qed.

Lemma or_long l op r st st' :
  ev l (set_cur (npos (NOr l op r)) st) = Val (Some (VBool false)) st' ->
  step files ev (NOr l op r) st =
  obind (ev r st') (fun rv st => need rv st (fun y => truth y st (fun c => Val (Some (VBool c)) st))).
Proof. intros H. unfold step. rewrite H. reflexivity. Qed.

(* a non-boolean operand of and / or / not / if / ternary is an error: nothing is converted *)
Lemma and_needs_bool l op r st st' v :
  ev l (set_cur (npos (NAnd l op r)) st) = Val (Some v) st' ->
  (forall b, v <> VBool b) ->
  step files ev (NAnd l op r) st = Fail EMeson None st'.
Proof.
  intros H Hv. unfold step. rewrite H. cbn [obind need truth].
  destruct v; try reflexivity. exfalso; eapply Hv; reflexivity.
Qed.

(* the ternary operator evaluates exactly one branch *)
Lemma ternary_true c q t colon f st st' :
  ev c (set_cur (npos (NTernary c q t colon f)) st) = Val (Some (VBool true)) st' ->
  step files ev (NTernary c q t colon f) st = ev t st'.
Proof. intros H. unfold step. rewrite H. reflexivity. Qed.
Lemma ternary_false c q t colon f st st' :
  ev c (set_cur (npos (NTernary c q t colon f)) st) = Val (Some (VBool false)) st' ->
  step files ev (NTernary c q t colon f) st = ev f st'.
Proof. intros H. unfold step. rewrite H. reflexivity. Qed.

Lemma ternary_one_branch c q t colon f st st' :
  (ev c (set_cur (npos (NTernary c q t colon f)) st) = Val (Some (VBool true)) st' ->
   step files ev (NTernary c q t colon f) st = ev t st') /\
  (ev c (set_cur (npos (NTernary c q t colon f)) st) = Val (Some (VBool false)) st' ->
   step files ev (NTernary c q t colon f) st = ev f st').
Proof. split; [apply ternary_true|apply ternary_false]. Qed.

(* if / elif: conditions are evaluated in order up to the first true one; later conditions and
   all other blocks are not evaluated *)
Lemma if_first_true kw c eol b rest els st st' :
  ev c st = Val (Some (VBool true)) st' ->
  eval_ifs ev (ICons kw c eol b rest) els st = eval_block ev b st'.
Proof. intros H. cbn [eval_ifs]. rewrite H. reflexivity. Qed.
Lemma if_first_false kw c eol b rest els st st' :
  ev c st = Val (Some (VBool false)) st' ->
  eval_ifs ev (ICons kw c eol b rest) els st = eval_ifs ev rest els st'.
Proof. intros H. cbn [eval_ifs]. rewrite H. reflexivity. Qed.

Lemma if_lazy kw c eol b rest els st st' :
  (ev c st = Val (Some (VBool true)) st' ->
   eval_ifs ev (ICons kw c eol b rest) els st = eval_block ev b st') /\
  (ev c st = Val (Some (VBool false)) st' ->
   eval_ifs ev (ICons kw c eol b rest) els st = eval_ifs ev rest els st').
Proof. split; [apply if_first_true|apply if_first_false]. Qed.

(* foreach: the iterable expression is evaluated once; the loop then runs over the items of
   THAT value (the body may rebind the iterated variable without affecting the iteration) *)
Lemma foreach_snapshot fe v1 cv2 colon items b endfe st st1 v tsize its :
  ev items (set_cur (npos (NForeach fe v1 cv2 colon items b endfe)) st) = Val (Some v) st1 ->
  iter_items v = Some (tsize, its) ->
  let names := ttext v1 :: match cv2 with Some (_, v2) => [ttext v2] | None => [] end in
  length names = tsize ->
  step files ev (NForeach fe v1 cv2 colon items b endfe) st =
  obind (foreach_loop ev names b its st1) (fun _ st => Val None st).
Proof.
  intros H Hi names Hl. unfold step. rewrite H. cbn [obind]. rewrite Hi.
  fold names. rewrite Hl, Nat.eqb_refl. reflexivity.
Qed.

(* the items of an array / dict / range value: elements in order, (key, value) pairs in
   insertion order, the arithmetic progression *)
Lemma iter_items_array l : iter_items (VArr l) = Some (1%nat, map (fun x => [x]) l).
Proof. reflexivity. Qed.
Lemma iter_items_dict d : iter_items (VDict d) = Some (2%nat, map (fun kv => [VStr (fst kv); snd kv]) d).
Proof. reflexivity. Qed.

(* one iteration: bind, run the body; `continue` goes on with the next item, `break` leaves the
   loop, an error stops everything *)
Lemma foreach_step names b it rest st st1 :
  bind_vars names it st = Val tt st1 ->
  foreach_loop ev names b (it :: rest) st =
  match eval_block ev b st1 with
  | Val _ st2 => foreach_loop ev names b rest st2
  | Cont _ st2 => foreach_loop ev names b rest st2
  | Brk _ st2 => Val tt st2
  | r => r
  end.
Proof. intros H. cbn [foreach_loop]. rewrite H. reflexivity. Qed.
End ShortCircuit.

(* ------------------------------------------------------------------ subdir / subproject *)
Section Scoping.
Variable files : files_t.
Variable ev : evalT.

(* subdir(d): the file runs in the SAME interpreter state (all variables shared) exactly as
   its statements would run in place; afterwards only the current directory is restored *)
Lemma subdir_in_place d st code b :
  contains_sub (s2l "..") d = false -> d <> [] -> prefixb [47] d = false ->
  ((Nat.eqb (length (sdir st)) 0) && (str_eqb d (s2l "subprojects") || prefixb (s2l "meson-") d)) = false ->
  clean_path d = true ->
  let sub := match sdir st with [] => d | p => p ++ 47 :: d end in
  str_mem sub (visited st) = false ->
  lookup (build_file sub) files = Some code ->
  parse code = Ok b ->
  do_subdir ev files d st =
  obind (map_state (set_sdir (sdir st)) (eval_block ev b (set_sdir sub (set_visited (sub :: visited st) st))))
        (fun _ st => Val None st).
Proof.
  intros H1 H2 H3 H4 H5 sub H6 H7 H8. unfold do_subdir.
  rewrite H1.
  destruct (Nat.eqb (length (sdir st)) 0) eqn:E0; cbn [andb] in H4 |- *.
  - apply Bool.orb_false_iff in H4. destruct H4 as [H4a H4b]. rewrite H4a, H4b.
    destruct d as [|c r]; [congruence|]. cbn [length Nat.eqb].
    rewrite H3, H5. cbn [negb]. fold sub. rewrite H6.
    cbn [visited set_visited]. rewrite H7, H8. reflexivity.
  - destruct d as [|c r]; [congruence|]. cbn [length Nat.eqb].
    rewrite H3, H5. cbn [negb]. fold sub. rewrite H6.
    cbn [visited set_visited]. rewrite H7, H8. reflexivity.
Qed.

(* subproject(name): whatever the subproject does, the caller's variables are untouched; the
   result is the subproject object, and the subproject's variables are stored under its name
   (they can only be read through that object's get_variable) *)
Lemma subproject_isolated name st v st' :
  do_subproject ev files name st = Val v st' ->
  v = Some (VSub name) /\ vars st' = vars st /\ depth st' = depth st /\ sdir st' = sdir st /\
  visited st' = visited st /\ has_key name (subs st') = true.
Proof.
  unfold do_subproject.
  destruct (Nat.eqb (length name) 0); [discriminate|].
  destruct (negb (clean_name name)); [discriminate|].
  destruct (str_mem name (stack st)); [discriminate|].
  destruct (has_key name (subs st)) eqn:Hk.
  - intros H; inversion H; subst. repeat split; auto.
  - destruct (lookup (build_file (s2l "subprojects/" ++ name)) files); [|discriminate].
    destruct (run_project _ _ _ _) eqn:R; try discriminate.
    intros H; inversion H; subst. cbn. repeat split; auto.
    unfold has_key. cbn [lookup]. rewrite str_eqb_refl. reflexivity.
Qed.

(* a subproject starts from an empty variable store: it cannot see the caller's variables *)
Lemma subproject_fresh dir stk o sb : vars (fresh_state dir stk o sb) = [].
Proof. reflexivity. Qed.

(* an identifier is looked up in the interpreter's own variables only *)
Lemma id_reads_own_vars t st :
  is_builtin (ttext t) = false ->
  step files ev (NId t) st =
  match lookup (ttext t) (vars st) with
  | Some v => Val (Some v) (set_cur (tpos t) st)
  | None => Fail EMeson None (set_cur (tpos t) st)
  end.
Proof.
  intros H. unfold step, get_variable. cbn [npos]. rewrite H. cbn [vars set_cur].
  destruct (lookup (ttext t) (vars st)); reflexivity.
Qed.

(* get_variable on the subproject object reads the stored variables of that subproject *)
Lemma sub_get_variable sp n st svars :
  lookup sp (subs st) = Some svars ->
  sub_method sp (s2l "get_variable") [VStr n] [] st =
  match lookup n svars with Some v => Val (Some v) st | None => Fail EMeson None st end.
Proof. intros H. unfold sub_method. cbn. rewrite H. reflexivity. Qed.
End Scoping.

(* ------------------------------------------------------------------ fuel monotonicity *)
Definition ole {A} (r1 r2 : outcome A) : Prop := r1 = OutOfFuel \/ r1 = r2.
Definition ev_le (e1 e2 : evalT) : Prop := forall n st, ole (e1 n st) (e2 n st).

Lemma ole_refl {A} (r : outcome A) : ole r r.
Proof. right; reflexivity. Qed.
Lemma ole_fuel {A} (r : outcome A) : ole OutOfFuel r.
Proof. left; reflexivity. Qed.
#[local] Hint Resolve ole_refl ole_fuel : ole.

Lemma obind_ole {A B} (r1 r2 : outcome A) (f1 f2 : A -> istate -> outcome B) :
  ole r1 r2 -> (forall a st, ole (f1 a st) (f2 a st)) -> ole (obind r1 f1) (obind r2 f2).
Proof.
  intros [H|H] Hf; subst; [left; reflexivity|].
  destruct r2; cbn; auto with ole.
Qed.
Lemma need_ole {B} o st (k1 k2 : value -> outcome B) :
  (forall v, ole (k1 v) (k2 v)) -> ole (need o st k1) (need o st k2).
Proof. intros H. destruct o; cbn; auto with ole. Qed.
Lemma lift_ole {A B} (r : pres A) st (k1 k2 : A -> outcome B) :
  (forall v, ole (k1 v) (k2 v)) -> ole (lift r st k1) (lift r st k2).
Proof. intros H. destruct r; cbn; auto with ole. Qed.
Lemma truth_ole {B} v st (k1 k2 : bool -> outcome B) :
  (forall b, ole (k1 b) (k2 b)) -> ole (truth v st k1) (truth v st k2).
Proof. intros H. unfold truth. apply lift_ole. intros r. destruct r; auto with ole. Qed.
Lemma locate_ole {A} (r1 r2 : outcome A) : ole r1 r2 -> ole (locate r1) (locate r2).
Proof. intros [H|H]; subst; [left; reflexivity|right; reflexivity]. Qed.
Lemma map_state_ole {A} f (r1 r2 : outcome A) : ole r1 r2 -> ole (map_state f r1) (map_state f r2).
Proof. intros [H|H]; subst; [left; reflexivity|right; reflexivity]. Qed.

Ltac ole_step :=
  match goal with
  | |- ole ?r ?r => apply ole_refl
  | |- ole OutOfFuel _ => apply ole_fuel
  | H : ev_le ?e1 ?e2 |- ole (?e1 _ _) (?e2 _ _) => apply H
  | |- ole (obind _ _) (obind _ _) => apply obind_ole; [|intros ? ?]
  | |- ole (need ?o _ _) (need ?o _ _) => apply need_ole; intros ?
  | |- ole (lift ?r _ _) (lift ?r _ _) => apply lift_ole; intros ?
  | |- ole (truth _ _ _) (truth _ _ _) => apply truth_ole; intros ?
  | |- ole (locate _) (locate _) => apply locate_ole
  | |- ole (map_state _ _) (map_state _ _) => apply map_state_ole
  | |- ole (if ?c then _ else _) (if ?c then _ else _) => destruct c
  | |- ole (match ?x with _ => _ end) (match ?x with _ => _ end) => destruct x
  | |- ole (let '(_, _) := ?x in _) (let '(_, _) := ?x in _) => destruct x
  end.
Ltac ole_tac := repeat ole_step.

Section Mono.
Variable files : files_t.
Variables e1 e2 : evalT.
Hypothesis Hev : ev_le e1 e2.

Lemma eval_pos_ole a st : ole (eval_pos e1 a st) (eval_pos e2 a st).
Proof.
  revert st; induction a; intros st; cbn [eval_pos]; ole_tac; auto.
Qed.

Lemma eval_kw_ole dict a acc st : ole (eval_kw e1 dict a acc st) (eval_kw e2 dict a acc st).
Proof.
  revert acc st; induction a; intros acc st; cbn [eval_kw]; ole_tac; auto.
Qed.

Lemma reduce_arguments_ole dict a st : ole (reduce_arguments e1 dict a st) (reduce_arguments e2 dict a st).
Proof.
  unfold reduce_arguments. destruct (negb (args_order_ok a)); [apply ole_refl|].
  apply obind_ole; [apply eval_pos_ole|]. intros pos st'.
  destruct (all_some pos); [|apply ole_refl].
  apply obind_ole; [apply eval_kw_ole|]. intros kw st''. ole_tac.
Qed.

Lemma eval_block_ole b st : ole (eval_block e1 b st) (eval_block e2 b st).
Proof.
  revert st; induction b; intros st; cbn [eval_block]; ole_tac; auto.
Qed.

Lemma eval_ifs_ole i els st : ole (eval_ifs e1 i els st) (eval_ifs e2 i els st).
Proof.
  revert st; induction i; intros st; cbn [eval_ifs].
  - destruct els; [apply eval_block_ole|apply ole_refl].
  - ole_tac; auto. apply eval_block_ole.
Qed.

Lemma foreach_loop_ole names b its st : ole (foreach_loop e1 names b its st) (foreach_loop e2 names b its st).
Proof.
  revert st; induction its as [|it rest IH]; intros st; cbn [foreach_loop]; [apply ole_refl|].
  apply obind_ole; [apply ole_refl|]. intros _ st'.
  destruct (eval_block_ole b st') as [H|H]; rewrite H; [left; reflexivity|].
  destruct (eval_block e2 b st'); auto with ole.
Qed.

Lemma run_project_ole dir st : ole (run_project e1 files dir st) (run_project e2 files dir st).
Proof.
  unfold run_project.
  destruct (lookup (build_file dir) files); [|apply ole_refl].
  destruct (_ && _); [apply ole_refl|].
  destruct (parse s); try apply ole_refl.
  destruct (first_stmt a) as [[n rest]|]; [|apply ole_refl].
  destruct (is_project_call n) as [[|]|]; try apply ole_refl.
  destruct (eval_block_ole rest (set_cur (npos n) st)) as [H|H]; rewrite H; [left; reflexivity|apply ole_refl].
Qed.

Lemma do_subdir_ole d st : ole (do_subdir e1 files d st) (do_subdir e2 files d st).
Proof.
  unfold do_subdir. ole_tac. apply eval_block_ole.
Qed.

Lemma do_subproject_ole name st : ole (do_subproject e1 files name st) (do_subproject e2 files name st).
Proof.
  unfold do_subproject. ole_tac.
  match goal with |- ole (match ?a with _ => _ end) (match ?b with _ => _ end) =>
    destruct (run_project_ole (s2l "subprojects/" ++ name)
                (fresh_state (s2l "subprojects/" ++ name) (name :: stack st) (out st) (subs st))) as [H|H];
    rewrite H; [left; reflexivity|apply ole_refl] end.
Qed.

Lemma call_function_ole name raw kw st :
  ole (call_function e1 files name raw kw st) (call_function e2 files name raw kw st).
Proof.
  unfold call_function.
  repeat match goal with
  | |- ole (if ?c then _ else _) (if ?c then _ else _) => destruct c
  end; try apply ole_refl.
  - destruct (flatten_vals raw) as [|[] [|]]; try apply ole_refl. apply do_subdir_ole.
  - destruct (flatten_vals raw) as [|[] [|]]; try apply ole_refl. apply do_subproject_ole.
Qed.

Lemma step_ole : ev_le (step files e1) (step files e2).
Proof.
  intros n st. unfold step.
  destruct n; try (match goal with |- ole ?r ?r => apply ole_refl end).
  all: try (ole_tac; auto using reduce_arguments_ole, eval_ifs_ole, foreach_loop_ole, call_function_ole; fail).
  all: try (apply obind_ole; [first [apply reduce_arguments_ole | apply eval_ifs_ole | apply Hev]|]; intros; ole_tac;
            auto using reduce_arguments_ole, eval_ifs_ole, foreach_loop_ole, call_function_ole).
Qed.
End Mono.

Lemma eval_mono_S files f : ev_le (eval files f) (eval files (S f)).
Proof.
  induction f as [|f IH].
  - intros n st. left. reflexivity.
  - cbn [eval]. apply step_ole. exact IH.
Qed.

(* more fuel never changes a result that did not run out of fuel *)
Lemma eval_mono files f k n st r :
  eval files f n st = r -> r <> OutOfFuel -> eval files (f + k) n st = r.
Proof.
  intros H Hr. induction k as [|k IH].
  - rewrite Nat.add_0_r. exact H.
  - rewrite Nat.add_succ_r. destruct (eval_mono_S files (f + k) n st) as [E|E]; congruence.
Qed.

Lemma run_root_mono files f k r :
  run_root files f = r -> r <> OutOfFuel -> run_root files (f + k) = r.
Proof.
  unfold run_root. intros H Hr.
  assert (M : ev_le (eval files f) (eval files (f + k))).
  { intros n st. destruct (eval files f n st) eqn:E; try (right; symmetry; apply (eval_mono files f k n st); [exact E|discriminate]).
    left; reflexivity. }
  destruct (run_project_ole files _ _ M [] (fresh_state [] [] [] [])) as [E|E]; congruence.
Qed.

(* determinism: evaluation is a function of the build files (no hidden state, no ordering
   artefacts): two runs of the same files give the same outcome.  Stated for completeness -
   it holds by construction of the reference. *)
Lemma run_deterministic files f r1 r2 : run_root files f = r1 -> run_root files f = r2 -> r1 = r2.
Proof. congruence. Qed.
