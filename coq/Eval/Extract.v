(* Extraction of the C01 model.  Only the ExtrOcamlBasic directives are used. *)
From Coq Require Extraction.
From Coq Require Import ExtrOcamlBasic.
From MV Require Import Eval.Entry.
Extraction "../extract/C01/model.ml" Eval.Entry.run.
