(* Deps/ProofsMulti.v — repeated dependency() calls with any number of names. *)
From Coq Require Import Lia.
From MV Require Import Base.Strs Base.LexFacts Version.Model Deps.Lookup Deps.Policy Deps.Proofs.
Open Scope N_scope.

Arguments bad_name : simpl never.
Arguments do_subproject : simpl never.
Arguments get_subproject_dep : simpl never.
Arguments get_cached_dep : simpl never.
Arguments check_version : simpl never.
Arguments sys_check : simpl never.
Arguments str_mem : simpl never.
Arguments find_dep_provider : simpl never.

(* ---------------------------------------------------------------- the holder lookup() builds *)
Definition pre (w : world) (o : opts) (st : state) (names0 : list str) (kw : kwargs) : option holder :=
  let names := filter (fun n => negb (is_nil n)) names0 in
  if negb (names_ok [] names) then None else
  let fb : res (option bool * option str * option str) :=
    match k_fallback kw with
    | None => Ok (k_allow kw, None, None)
    | Some l =>
        if is_some (k_allow kw) then Err
        else match l with
             | [] => Ok (Some false, None, None)
             | [s] => Ok (None, Some s, None)
             | [s; v] => Ok (None, Some s, Some v)
             | _ => Err
             end
    end in
  match fb with
  | Err => None
  | Ok (allow, sp, spvar) =>
      let required := k_required kw in
      let nofb := is_nofallback (o_wrap_mode o) in
      let force := is_forcefallback (o_wrap_mode o)
                   || existsb (fun n => str_mem n (o_fff o)) names
                   || (match sp with Some s => str_mem s (o_fff o) | None => false end) in
      let '(force, sp, spvar) :=
        if negb (truthy sp) && negb (match allow with Some false => true | _ => false end)
        then match implicit_provider w o st allow required force names with
             | (force', Some (s, v)) => (force', Some s, v)
             | (force', None) => (force', sp, spvar)
             end
        else (force, sp, spvar) in
      Some (mkHolder (map (ident (k_static kw)) names) allow sp spvar force nofb
                     (match sp with Some s => eff_dl o s (k_static kw) (k_deflib kw) | None => o_deflib o end))
  end.

Lemma lookup_pre w o st names0 kw :
  lookup w o st names0 kw =
  match pre w o st names0 kw with
  | None => (OErr, st)
  | Some h => if is_nil (candidates h) && k_required kw then (OErr, st)
              else try_cands w h (k_version kw) (k_required kw) (candidates h) st
  end.
Proof.
  unfold lookup, pre.
  destruct (negb (names_ok [] (filter (fun n : list char => negb (is_nil n)) names0))); [reflexivity|].
  destruct (k_fallback kw) as [l|].
  - destruct (is_some (k_allow kw)); [reflexivity|].
    destruct l as [|s [|v [|x r]]]; try reflexivity;
      match goal with |- context [if ?c then _ else _] => destruct c end;
      try match goal with |- context [implicit_provider ?a ?b ?c ?d ?e ?f ?g] =>
            destruct (implicit_provider a b c d e f g) as [f' [[s' v']|]] end; reflexivity.
  - match goal with |- context [if ?c then _ else _] => destruct c end;
      try match goal with |- context [implicit_provider ?a ?b ?c ?d ?e ?f ?g] =>
            destruct (implicit_provider a b c d e f g) as [f' [[s' v']|]] end; reflexivity.
Qed.

(* ---------------------------------------------------------------- the phases of the candidate loop *)
Definition finA (h : holder) (required : bool) (d : dep) (st : state) : outcome * state :=
  match d with
  | Found k v => (OFound (Found k v), mkState (register (s_over st) (h_names h) (Found k v)) (s_cache st) (s_subs st))
  | NotFound => if required then (OErr, st) else (ONotFound, st)
  end.

Lemma is_nil_app_r {A} (l r : list A) : r <> [] -> is_nil (l ++ r) = false.
Proof. intros H. destruct l; [destruct r; [congruence|reflexivity]|reflexivity]. Qed.

Lemma cache_phase w h wanted required rest : rest <> [] -> forall ns st,
  try_cands w h wanted required (map CCache ns ++ rest) st =
  match first_cached h st ns wanted with
  | Some d => finA h required d st
  | None => try_cands w h wanted required rest st
  end.
Proof.
  intros Hr. induction ns as [|n r IH]; intros st; [reflexivity|].
  cbn [map app]. rewrite try_cands_cons. cbn [run_cand first_cached].
  rewrite (is_nil_app_r _ _ Hr), andb_false_r.
  destruct (get_cached_dep h st n wanted) as [[|k v]|]; [reflexivity|reflexivity|apply IH].
Qed.

(* first name that the system has in a matching version *)
Fixpoint first_sys (w : world) (ns : list str) (wanted : list str) : option (str * str) :=
  match ns with
  | [] => None
  | n :: r => match assoc (base n) (w_sys w) with
              | Some v => if sys_check wanted v then Some (n, v) else first_sys w r wanted
              | None => first_sys w r wanted
              end
  end.

Definition sys_found (h : holder) (n v : str) (st : state) : outcome * state :=
  (OFound (Found KSystem v),
   mkState (register (s_over st) (h_names h) (Found KSystem v)) (assoc_put n v (s_cache st)) (s_subs st)).

Lemma sys_phase w h wanted required rest : rest <> [] -> forall ns st,
  try_cands w h wanted required (map CSystem ns ++ rest) st =
  match first_sys w ns wanted with
  | Some (n, v) => sys_found h n v st
  | None => try_cands w h wanted required rest st
  end.
Proof.
  intros Hr. induction ns as [|n r IH]; intros st; [reflexivity|].
  cbn [map app]. rewrite try_cands_cons. cbn [run_cand first_sys].
  rewrite (is_nil_app_r _ _ Hr), andb_false_r.
  destruct (assoc (base n) (w_sys w)) as [v|]; [destruct (sys_check wanted v); [reflexivity|]|]; apply IH.
Qed.

Lemma sys_phase_last w h wanted required : forall ns st,
  try_cands w h wanted required (map CSystem ns) st =
  match first_sys w ns wanted with
  | Some (n, v) => sys_found h n v st
  | None => match ns with [] => (ONotFound, st) | _ => (fail required, st) end
  end.
Proof.
  induction ns as [|n r IH]; intros st; [reflexivity|].
  cbn [map]. rewrite try_cands_cons. cbn [run_cand first_sys].
  destruct r as [|n2 r2].
  - cbn [map is_nil first_sys]. rewrite andb_true_r.
    destruct (assoc (base n) (w_sys w)) as [v|]; [destruct (sys_check wanted v); [reflexivity|]|];
      destruct required; reflexivity.
  - cbn [map is_nil]. rewrite andb_false_r.
    destruct (assoc (base n) (w_sys w)) as [v|]; [destruct (sys_check wanted v); [reflexivity|]|];
      (rewrite IH; destruct (first_sys w (n2 :: r2) wanted) as [[? ?]|]; reflexivity).
Qed.

Lemma gsd_found_some w h st s var wanted :
  get_subproject st s = true -> exists d, get_subproject_dep w h st s var wanted = Some d.
Proof.
  intros Hg. unfold get_subproject_dep. rewrite Hg. cbn [negb].
  destruct (first_cached h st (h_names h) wanted); [eexists; reflexivity|].
  destruct (if truthy var then var else first_varname w s (h_names h)) as [[|c vn]|]; try (eexists; reflexivity).
  destruct (assoc s (w_subs w)) as [sd|]; [|eexists; reflexivity].
  destruct (assoc (c :: vn) (sd_vars sd)) as [[[|k v]|]|]; try (eexists; reflexivity).
  destruct (check_version wanted v); eexists; reflexivity.
Qed.

Lemma gsd_notfound_none w h st s var wanted :
  get_subproject st s = false -> get_subproject_dep w h st s var wanted = None.
Proof. intros Hg. unfold get_subproject_dep. rewrite Hg. reflexivity. Qed.

(* the last candidate: configure the fallback subproject *)
Definition sub_phase w (h : holder) wanted required s (st : state) : outcome * state :=
  if negb (h_force h) && h_nofb h then (fail required, st)
  else match do_subproject w st s required (h_dl h) with
       | Err => (OErr, st)
       | Ok st' => match get_subproject_dep w h st' s (h_spvar h) wanted with
                   | Some d => finA h required d st'
                   | None => (fail required, st')
                   end
       end.

Lemma sub_phase_eq w h wanted required s st :
  try_cands w h wanted required [CSub s] st = sub_phase w h wanted required s st.
Proof.
  cbn [try_cands run_cand is_nil]. rewrite andb_true_r. unfold sub_phase.
  destruct (negb (h_force h) && h_nofb h); [destruct required; reflexivity|].
  destruct (do_subproject w st s required (h_dl h)) as [st'|]; [|reflexivity].
  destruct (get_subproject_dep w h st' s (h_spvar h) wanted) as [[|k v]|]; try reflexivity.
  destruct required; reflexivity.
Qed.

(* closed form of the whole loop *)
Definition loop w (h : holder) wanted required (st : state) : outcome * state :=
  match first_cached h st (h_names h) wanted with
  | Some d => finA h required d st
  | None =>
      match h_spname h with
      | Some (c :: s') =>
          let s := c :: s' in
          match (if get_subproject st s then get_subproject_dep w h st s (h_spvar h) wanted else None) with
          | Some d => finA h required d st
          | None =>
              if h_force h then sub_phase w h wanted required s st
              else match first_sys w (h_names h) wanted with
                   | Some (n, v) => sys_found h n v st
                   | None => sub_phase w h wanted required s st
                   end
          end
      | _ =>
          match first_sys w (h_names h) wanted with
          | Some (n, v) => sys_found h n v st
          | None => match h_names h with [] => (ONotFound, st) | _ => (fail required, st) end
          end
      end
  end.

Lemma loop_eq w h wanted required st :
  try_cands w h wanted required (candidates h) st = loop w h wanted required st.
Proof.
  unfold candidates, loop.
  destruct (h_spname h) as [[|c s']|] eqn:Esp; cbn [truthy negb].
  - rewrite orb_true_r, !app_nil_r. cbn [app].
    destruct (h_names h) as [|n r] eqn:En; [reflexivity|].
    rewrite cache_phase by discriminate.
    destruct (first_cached h st (n :: r) wanted); [reflexivity|]. apply sys_phase_last.
  - rewrite orb_false_r.
    assert (Htail : forall st0, try_cands w h wanted required
               ((if negb (h_force h) then map CSystem (h_names h) else []) ++ [CSub (c :: s')]) st0 =
             if h_force h then sub_phase w h wanted required (c :: s') st0
             else match first_sys w (h_names h) wanted with
                  | Some (n, v) => sys_found h n v st0
                  | None => sub_phase w h wanted required (c :: s') st0
                  end).
    { intros st0. destruct (h_force h); cbn [negb app].
      - apply sub_phase_eq.
      - rewrite sys_phase by discriminate. destruct (first_sys w (h_names h) wanted) as [[? ?]|]; [reflexivity|].
        apply sub_phase_eq. }
    rewrite cache_phase by (destruct (if negb (h_force h) then map CSystem (h_names h) else []); discriminate).
    destruct (first_cached h st (h_names h) wanted); [reflexivity|].
    cbn [app]. rewrite try_cands_cons. cbn [run_cand].
    rewrite is_nil_app_r by discriminate. rewrite andb_false_r.
    destruct (if get_subproject st (c :: s') then get_subproject_dep w h st (c :: s') (h_spvar h) wanted else None)
      as [[|k v]|]; try reflexivity.
    apply Htail.
  - rewrite orb_true_r, !app_nil_r. cbn [app].
    destruct (h_names h) as [|n r] eqn:En; [reflexivity|].
    rewrite cache_phase by discriminate.
    destruct (first_cached h st (n :: r) wanted); [reflexivity|]. apply sys_phase_last.
Qed.

(* ---------------------------------------------------------------- overrides and registration *)
Fixpoint first_over (st : state) (ns : list str) (wanted : list str) : option dep :=
  match ns with
  | [] => None
  | n :: r => match assoc n (s_over st) with
              | Some (d, _) => Some (vetd wanted d)
              | None => first_over st r wanted
              end
  end.

Lemma first_cached_over h st wanted : cache_covered st -> forall ns,
  first_cached h st ns wanted = first_over st ns wanted.
Proof.
  intros Hc. induction ns as [|n r IH]; [reflexivity|]. cbn [first_cached first_over].
  destruct (assoc n (s_over st)) as [[d e]|] eqn:Ho.
  - rewrite (cached_some h st n wanted d e Ho). reflexivity.
  - rewrite (cached_none h st n wanted Hc Ho). exact IH.
Qed.

Lemma register_keeps ns : forall over d n x, assoc n over = Some x -> assoc n (register over ns d) = Some x.
Proof.
  induction ns as [|a r IH]; intros over d n x H; [exact H|]. cbn [register]. apply IH.
  destruct (assoc a over); [exact H|]. apply assoc_app_some. exact H.
Qed.

Lemma register_sets ns : forall over d n, In n ns -> assoc n over = None ->
  assoc n (register over ns d) = Some (d, false).
Proof.
  induction ns as [|a r IH]; intros over d n Hin Hn; [contradiction|]. cbn [register].
  destruct (str_eqb n a) eqn:E.
  - apply str_eqb_eq in E. subst a. rewrite Hn. apply register_keeps. apply assoc_app_new. exact Hn.
  - destruct Hin as [->|Hin]; [rewrite str_eqb_refl in E; discriminate|].
    apply IH; [exact Hin|]. destruct (assoc a over); [exact Hn|].
    clear -Hn E. induction over as [|[k v] t IHo]; cbn in *.
    + rewrite E. reflexivity.
    + destruct (str_eqb n k); [discriminate|]. auto.
Qed.

Lemma register_noop ns : forall over d, (forall n, In n ns -> assoc n over <> None) -> register over ns d = over.
Proof.
  induction ns as [|a r IH]; intros over d H; [reflexivity|]. cbn [register].
  destruct (assoc a over) eqn:E; [|exfalso; apply (H a); [left; reflexivity|exact E]].
  apply IH. intros n Hn. apply H. right. exact Hn.
Qed.

Lemma register_all ns over d n : In n ns -> assoc n (register over ns d) <> None.
Proof. apply register_covers. Qed.

Definition vetted (wanted : list str) (d : dep) : Prop :=
  match d with Found k v => check_version wanted v = true | NotFound => True end.

Lemma vetd_vetted wanted d : vetted wanted (vetd wanted d).
Proof. destruct d as [|k v]; cbn; [exact I|]. destruct (check_version wanted v) eqn:E; cbn; auto. Qed.

Lemma vetted_vetd wanted k v : vetted wanted (Found k v) -> vetd wanted (Found k v) = Found k v.
Proof. cbn. intros ->. reflexivity. Qed.

Lemma first_over_vetted st wanted : forall ns d, first_over st ns wanted = Some d -> vetted wanted d.
Proof.
  induction ns as [|n r IH]; intros d; cbn; [discriminate|].
  destruct (assoc n (s_over st)) as [[x e]|]; [|apply IH].
  intros H; inversion H; subst. apply vetd_vetted.
Qed.

(* after a successful lookup the first name answers with the same dependency *)
Lemma first_over_register st' ns wanted k v ca su :
  ns <> [] -> vetted wanted (Found k v) ->
  (first_over st' ns wanted = None \/ first_over st' ns wanted = Some (Found k v)) ->
  first_over (mkState (register (s_over st') ns (Found k v)) ca su) ns wanted = Some (Found k v).
Proof.
  intros Hne Hv Hc. destruct ns as [|n1 r]; [congruence|]. cbn [first_over s_over] in *.
  destruct (assoc n1 (s_over st')) as [[x e]|] eqn:E.
  - rewrite (register_keeps (n1 :: r) _ _ _ _ E). destruct Hc as [Hc|Hc]; [discriminate|exact Hc].
  - rewrite (register_sets (n1 :: r) _ _ _ (or_introl eq_refl) E). rewrite vetted_vetd by exact Hv. reflexivity.
Qed.

Lemma gsd_vetted w h st s var wanted d :
  cache_covered st -> get_subproject_dep w h st s var wanted = Some d ->
  vetted wanted d /\ (first_over st (h_names h) wanted = None \/ first_over st (h_names h) wanted = Some d).
Proof.
  intros Hc. unfold get_subproject_dep. destruct (negb (get_subproject st s)); [discriminate|].
  rewrite (first_cached_over h st wanted Hc).
  destruct (first_over st (h_names h) wanted) as [x|] eqn:Ef.
  { intros H; inversion H; subst. split; [eapply first_over_vetted; eauto|right; reflexivity]. }
  intros H. split; [|left; reflexivity].
  destruct (if truthy var then var else first_varname w s (h_names h)) as [[|c vn]|]; try (inversion H; subst; exact I).
  destruct (assoc s (w_subs w)) as [sd|]; [|inversion H; subst; exact I].
  destruct (assoc (c :: vn) (sd_vars sd)) as [[[|k v]|]|]; try (inversion H; subst; exact I).
  destruct (check_version wanted v) eqn:E; inversion H; subst; cbn; auto.
Qed.

Lemma first_sys_spec w wanted : forall ns n v,
  first_sys w ns wanted = Some (n, v) -> assoc (base n) (w_sys w) = Some v /\ sys_check wanted v = true.
Proof.
  induction ns as [|a r IH]; intros n v; cbn; [discriminate|].
  destruct (assoc (base a) (w_sys w)) as [x|] eqn:E; [destruct (sys_check wanted x) eqn:Es|]; try apply IH.
  intros H; inversion H; subst. auto.
Qed.

(* ---------------------------------------------------------------- the holder is stable *)
Lemma ip_same w o st st' allow req : (forall x, get_subproject st' x = get_subproject st x) ->
  forall ns force, implicit_provider w o st' allow req force ns = implicit_provider w o st allow req force ns.
Proof.
  intros Hs. induction ns as [|n r IH]; intros force; [reflexivity|]. cbn [implicit_provider].
  destruct (find_dep_provider w n) as [[[|c s] var]|]; try apply IH. rewrite Hs. reflexivity.
Qed.

Lemma ip_mono w o st st' allow req : (forall x, get_subproject st x = true -> get_subproject st' x = true) ->
  forall ns force f sv, implicit_provider w o st allow req force ns = (f, Some sv) ->
  implicit_provider w o st' allow req force ns = (f, Some sv).
Proof.
  intros Hm. induction ns as [|n r IH]; intros force f sv; cbn [implicit_provider]; [discriminate|].
  destruct (find_dep_provider w n) as [[[|c s] var]|]; try apply IH.
  destruct (force || str_mem (c :: s) (o_fff o) || match allow with Some true => true | _ => false end || req) eqn:E1; cbn [orb].
  - auto.
  - destruct (get_subproject st (c :: s)) eqn:E2; [|discriminate]. rewrite (Hm _ E2). auto.
Qed.

Lemma pre_same w o st st' names kw :
  (forall x, get_subproject st' x = get_subproject st x) -> pre w o st' names kw = pre w o st names kw.
Proof.
  intros Hs. unfold pre.
  destruct (negb (names_ok [] (filter (fun n : list char => negb (is_nil n)) names))); [reflexivity|].
  destruct (k_fallback kw) as [l|].
  - destruct (is_some (k_allow kw)); [reflexivity|].
    destruct l as [|s [|v [|x r]]]; try reflexivity; rewrite (ip_same w o st st' _ _ Hs); reflexivity.
  - rewrite (ip_same w o st st' _ _ Hs); reflexivity.
Qed.

Lemma pre_mono w o st st' names kw h :
  (forall x, get_subproject st x = true -> get_subproject st' x = true) ->
  pre w o st names kw = Some h -> truthy (h_spname h) = true -> pre w o st' names kw = Some h.
Proof.
  intros Hm. unfold pre.
  destruct (negb (names_ok [] (filter (fun n : list char => negb (is_nil n)) names))); [discriminate|].
  set (ns := filter (fun n : list char => negb (is_nil n)) names).
  assert (G : forall allow sp spvar force0 (mk : bool -> option str -> option str -> holder),
    (forall f a b, h_spname (mk f a b) = a) ->
    (let '(force, sp', spvar') :=
       if negb (truthy sp) && negb (match allow with Some false => true | _ => false end)
       then match implicit_provider w o st allow (k_required kw) force0 ns with
            | (force', Some (s, v)) => (force', Some s, v)
            | (force', None) => (force', sp, spvar)
            end
       else (force0, sp, spvar) in
     Some (mk force sp' spvar')) = Some h ->
    truthy (h_spname h) = true ->
    (let '(force, sp', spvar') :=
       if negb (truthy sp) && negb (match allow with Some false => true | _ => false end)
       then match implicit_provider w o st' allow (k_required kw) force0 ns with
            | (force', Some (s, v)) => (force', Some s, v)
            | (force', None) => (force', sp, spvar)
            end
       else (force0, sp, spvar) in
     Some (mk force sp' spvar')) = Some h).
  { intros allow sp spvar force0 mk Hmk.
    destruct (negb (truthy sp) && negb (match allow with Some false => true | _ => false end)) eqn:Ec; [|auto].
    destruct (implicit_provider w o st allow (k_required kw) force0 ns) as [f [[s v]|]] eqn:Ei.
    - rewrite (ip_mono w o st st' _ _ Hm _ _ _ _ Ei). auto.
    - intros H Ht. inversion H; subst. rewrite Hmk in Ht.
      apply andb_true_iff in Ec. destruct Ec as [Ec _]. rewrite Ht in Ec. discriminate. }
  pose (mk := fun al nofb (f : bool) (a b : option str) =>
     mkHolder (map (ident (k_static kw)) ns) al a b f nofb
       (match a with Some s => eff_dl o s (k_static kw) (k_deflib kw) | None => o_deflib o end)).
  destruct (k_fallback kw) as [l|].
  - destruct (is_some (k_allow kw)); [discriminate|].
    destruct l as [|s [|v [|x r]]]; try discriminate.
    + apply (G (Some false) None None _ (mk (Some false) _)). reflexivity.
    + apply (G None (Some s) None _ (mk None _)). reflexivity.
    + apply (G None (Some s) (Some v) _ (mk None _)). reflexivity.
  - apply (G (k_allow kw) None None _ (mk (k_allow kw) _)). reflexivity.
Qed.

(* ---------------------------------------------------------------- the loop, repeated *)
Lemma first_cached_ext h st st' wanted :
  s_over st = s_over st' -> s_cache st = s_cache st' ->
  forall ns, first_cached h st ns wanted = first_cached h st' ns wanted.
Proof.
  intros H1 H2. induction ns as [|n r IH]; [reflexivity|]. cbn [first_cached].
  unfold get_cached_dep. rewrite H1, H2, IH. reflexivity.
Qed.

Lemma gsd_some_found w h st s var wanted d :
  get_subproject_dep w h st s var wanted = Some d -> get_subproject st s = true.
Proof. unfold get_subproject_dep. destruct (get_subproject st s); [reflexivity|discriminate]. Qed.

Lemma first_sys_in w wanted : forall ns n v, first_sys w ns wanted = Some (n, v) -> In n ns.
Proof.
  induction ns as [|a r IH]; intros n v; cbn; [discriminate|].
  destruct (assoc (base a) (w_sys w)) as [x|]; [destruct (sys_check wanted x)|]; try solve [intros H; right; eapply IH; eauto].
  intros H; inversion H; subst. left; reflexivity.
Qed.

Lemma covered_register st ns d ca :
  cache_covered st -> (forall m, assoc m ca <> None -> assoc m (s_cache st) <> None \/ In m ns) ->
  cache_covered (mkState (register (s_over st) ns d) ca (s_subs st)).
Proof.
  intros Hc Hca m Hm. cbn [s_over s_cache] in *.
  destruct (assoc m ca) eqn:E; [|reflexivity]. exfalso.
  assert (X : assoc m ca <> None) by congruence.
  destruct (Hca m X) as [H|H].
  - apply H. apply Hc. eapply register_grows; eauto.
  - exact (register_covers _ _ _ _ H Hm).
Qed.

Lemma assoc_put_none {A} n m (v : A) l : assoc m (assoc_put n v l) <> None -> assoc m l <> None \/ m = n.
Proof.
  destruct (str_eqb m n) eqn:E; [right; apply str_eqb_eq; exact E|].
  rewrite (assoc_put_other _ _ _ _ E). auto.
Qed.

(* a state in which the first name is overridden with the (vetted) dependency d and every
   name has an override: the loop answers d and changes nothing *)
Lemma loop_hit w h wanted required st k v :
  cache_covered st -> h_names h <> [] ->
  first_over st (h_names h) wanted = Some (Found k v) ->
  (forall n, In n (h_names h) -> assoc n (s_over st) <> None) ->
  loop w h wanted required st = (OFound (Found k v), st).
Proof.
  intros Hc Hne Hf Hall. unfold loop. rewrite (first_cached_over h st wanted Hc), Hf. cbn [finA].
  rewrite (register_noop _ _ _ Hall), state_eta. reflexivity.
Qed.

Lemma found_then_hit w h wanted required st' ca k v :
  cache_covered st' -> h_names h <> [] -> vetted wanted (Found k v) ->
  (first_over st' (h_names h) wanted = None \/ first_over st' (h_names h) wanted = Some (Found k v)) ->
  (forall m, assoc m ca <> None -> assoc m (s_cache st') <> None \/ In m (h_names h)) ->
  let st1 := mkState (register (s_over st') (h_names h) (Found k v)) ca (s_subs st') in
  loop w h wanted required st1 = (OFound (Found k v), st1).
Proof.
  intros Hc Hne Hv Hcompat Hca st1. apply loop_hit.
  - apply covered_register; assumption.
  - exact Hne.
  - apply first_over_register; assumption.
  - intros n Hn. cbn [s_over st1]. apply register_covers. exact Hn.
Qed.

Lemma nil_or_not {A} (l : list A) : l = [] \/ l <> [].
Proof. destruct l; [left; reflexivity|right; discriminate]. Qed.

Lemma sub_phase_repeat w h wanted required s st r st1 :
  cache_covered st -> h_spname h = Some s -> truthy (Some s) = true ->
  first_cached h st (h_names h) wanted = None ->
  get_subproject st s = false ->
  (h_force h = false -> first_sys w (h_names h) wanted = None) ->
  sub_phase w h wanted required s st = (r, st1) -> r <> OErr ->
  loop w h wanted required st1 = (r, st1).
Proof.
  intros Hc Hsp Ht Hfc Hg Hsys H Hr. unfold sub_phase in H.
  destruct (negb (h_force h) && h_nofb h) eqn:Enf.
  { inversion H; subst. apply andb_true_iff in Enf. destruct Enf as [E1 E2].
    destruct (h_force h) eqn:Ef; [discriminate|].
    unfold loop. rewrite Hfc, Hsp. destruct s as [|c s']; [discriminate|].
    rewrite Hg, Ef, (Hsys eq_refl). unfold sub_phase. rewrite Ef, E2. reflexivity. }
  destruct (do_subproject w st s required (h_dl h)) as [st'|] eqn:Ed; [|inversion H; congruence].
  pose proof (do_subproject_covered _ _ _ _ _ _ Ed Hc) as Hc'.
  destruct (dsp_spec _ _ _ _ _ _ Ed) as (Hcache & Hdis & Hmono).
  destruct (get_subproject_dep w h st' s (h_spvar h) wanted) as [d|] eqn:Eg.
  - destruct (gsd_vetted w h st' s (h_spvar h) wanted d Hc' Eg) as [Hv Hcompat].
    pose proof (gsd_some_found _ _ _ _ _ _ _ Eg) as Hfound.
    destruct d as [|k v]; cbn [finA] in H.
    + (* the subproject does not provide it *)
      destruct required; [inversion H; congruence|]. inversion H; subst; clear H.
      unfold loop. destruct (first_cached h st1 (h_names h) wanted) as [x|] eqn:Ex.
      * assert (x = NotFound).
        { unfold get_subproject_dep in Eg. rewrite Hfound, Ex in Eg. inversion Eg; reflexivity. }
        subst x. reflexivity.
      * rewrite Hsp. destruct s as [|c s']; [discriminate|]. rewrite Hfound, Eg. reflexivity.
    + inversion H; subst; clear H.
      destruct (nil_or_not (h_names h)) as [En|Hne].
      * (* dependency('') : nothing to register *)
        rewrite En. cbn [register]. rewrite state_eta. unfold loop. rewrite En. cbn [first_cached].
        rewrite Hsp. destruct s as [|c s']; [discriminate|]. rewrite Hfound, Eg. cbn [finA]. rewrite En.
        cbn [register]. rewrite state_eta. reflexivity.
      * apply found_then_hit; [exact Hc'|exact Hne|exact Hv|exact Hcompat|]. intros m Hm. left. exact Hm.
  - assert (Hnf : get_subproject st' s = false).
    { destruct (get_subproject st' s) eqn:E; [|reflexivity].
      destruct (gsd_found_some w h st' s (h_spvar h) wanted E) as [d Hd]. congruence. }
    destruct (Hdis Hnf) as [Hov Hagain].
    destruct required; [cbn in H; inversion H; congruence|]. cbn [fail] in H. inversion H; subst; clear H.
    unfold loop. rewrite <- (first_cached_ext h st st1 wanted (eq_sym Hov) (eq_sym Hcache)), Hfc, Hsp.
    destruct s as [|c s']; [discriminate|]. rewrite Hnf.
    assert (Hsp2 : sub_phase w h wanted false (c :: s') st1 = (ONotFound, st1)).
    { unfold sub_phase. rewrite Enf, Hagain, Eg. reflexivity. }
    destruct (h_force h); [exact Hsp2|]. rewrite (Hsys eq_refl). exact Hsp2.
Qed.

Lemma sys_found_repeat w h wanted required st n v :
  sys_defined w -> cache_covered st ->
  first_cached h st (h_names h) wanted = None ->
  first_sys w (h_names h) wanted = Some (n, v) ->
  let st1 := snd (sys_found h n v st) in
  loop w h wanted required st1 = (OFound (Found KSystem v), st1).
Proof.
  intros Hsd Hc Hfc Hfs st1.
  destruct (first_sys_spec _ _ _ _ _ Hfs) as [Ha Hs]. pose proof (first_sys_in _ _ _ _ _ Hfs) as Hin.
  unfold st1, sys_found. cbn [snd].
  apply (found_then_hit w h wanted required st (assoc_put n v (s_cache st)) KSystem v).
  - exact Hc.
  - intros E. rewrite E in Hin. contradiction.
  - cbn. apply sys_check_version; eauto.
  - left. rewrite <- (first_cached_over h st wanted Hc). exact Hfc.
  - intros m Hm. destruct (assoc_put_none _ _ _ _ Hm) as [H| ->]; [left; exact H|right; exact Hin].
Qed.

Theorem loop_repeat w h wanted required st r st1 :
  sys_defined w -> cache_covered st ->
  loop w h wanted required st = (r, st1) -> r <> OErr ->
  loop w h wanted required st1 = (r, st1).
Proof.
  intros Hsd Hc H Hr. pose proof H as H0. unfold loop in H.
  destruct (first_cached h st (h_names h) wanted) as [d|] eqn:Efc.
  { (* answered from the overrides *)
    destruct d as [|k v]; cbn [finA] in H.
    - destruct required; inversion H; subst; [congruence|exact H0].
    - inversion H; subst; clear H.
      assert (Hne : h_names h <> []) by (intros E; rewrite E in Efc; discriminate).
      rewrite (first_cached_over h st wanted Hc) in Efc.
      apply found_then_hit; [exact Hc|exact Hne|eapply first_over_vetted; eauto|right; exact Efc|].
      intros m Hm. left. exact Hm. }
  assert (Hnosub : forall q,
     match first_sys w (h_names h) wanted with
     | Some (n, v) => sys_found h n v st
     | None => q
     end = (r, st1) ->
     (first_sys w (h_names h) wanted = None -> q = (r, st1) -> loop w h wanted required st1 = (r, st1)) ->
     loop w h wanted required st1 = (r, st1)).
  { intros q Hq Hother. destruct (first_sys w (h_names h) wanted) as [[n v]|] eqn:Efs; [|auto].
    pose proof (sys_found_repeat w h wanted required st n v Hsd Hc Efc Efs) as X.
    unfold sys_found in Hq. inversion Hq; subst. exact X. }
  destruct (h_spname h) as [[|c s']|] eqn:Esp.
  - apply (Hnosub _ H). intros _ Hq. destruct (h_names h); inversion Hq; subst; exact H0.
  - set (s := c :: s') in *.
    destruct (get_subproject st s) eqn:Eg.
    + destruct (gsd_found_some w h st s (h_spvar h) wanted Eg) as [d Hd]. rewrite Hd in H.
      destruct (gsd_vetted w h st s (h_spvar h) wanted d Hc Hd) as [Hv Hcompat].
      destruct d as [|k v]; cbn [finA] in H.
      * destruct required; inversion H; subst; [congruence|exact H0].
      * inversion H; subst; clear H.
        destruct (nil_or_not (h_names h)) as [En|Hne].
        -- rewrite En in *. cbn [register] in *. rewrite state_eta in *. exact H0.
        -- apply found_then_hit; [exact Hc|exact Hne|exact Hv|exact Hcompat|]. intros m Hm. left. exact Hm.
    + destruct (h_force h) eqn:Ef.
      * eapply sub_phase_repeat; eauto. rewrite Ef. discriminate.
      * apply (Hnosub _ H). intros Hnone Hq. eapply sub_phase_repeat; eauto.
  - apply (Hnosub _ H). intros _ Hq. destruct (h_names h); inversion Hq; subst; exact H0.
Qed.

(* ---------------------------------------------------------------- dependency() repeated *)
Definition subs_rel (h : holder) (st st1 : state) : Prop :=
  s_subs st1 = s_subs st \/
  (truthy (h_spname h) = true /\ forall x, get_subproject st x = true -> get_subproject st1 x = true).

Lemma finA_subs h required d st r st1 : finA h required d st = (r, st1) -> s_subs st1 = s_subs st.
Proof. destruct d as [|k v]; cbn; [destruct required|]; intros H; inversion H; reflexivity. Qed.

Lemma loop_subs w h wanted required st r st1 :
  loop w h wanted required st = (r, st1) -> subs_rel h st st1.
Proof.
  unfold loop. intros H.
  destruct (first_cached h st (h_names h) wanted) as [d|]; [left; eapply finA_subs; eauto|].
  assert (Hsys : forall q, match first_sys w (h_names h) wanted with
                           | Some (n, v) => sys_found h n v st | None => q end = (r, st1) ->
                 (q = (r, st1) -> subs_rel h st st1) -> subs_rel h st st1).
  { intros q Hq Hk. destruct (first_sys w (h_names h) wanted) as [[n v]|]; [|auto].
    unfold sys_found in Hq. inversion Hq; subst. left; reflexivity. }
  assert (Hsub : forall s, h_spname h = Some s -> truthy (Some s) = true ->
                 sub_phase w h wanted required s st = (r, st1) -> subs_rel h st st1).
  { intros s Hs Ht Hp. unfold sub_phase in Hp.
    destruct (negb (h_force h) && h_nofb h); [inversion Hp; subst; left; reflexivity|].
    destruct (do_subproject w st s required (h_dl h)) as [st'|] eqn:Ed; [|inversion Hp; subst; left; reflexivity].
    destruct (dsp_spec _ _ _ _ _ _ Ed) as (_ & _ & Hm). right. rewrite Hs. split; [exact Ht|].
    destruct (get_subproject_dep w h st' s (h_spvar h) wanted) as [d|].
    - pose proof (finA_subs _ _ _ _ _ _ Hp) as E. intros x Hx. unfold get_subproject in *. rewrite E. apply Hm. exact Hx.
    - inversion Hp; subst. exact Hm. }
  destruct (h_spname h) as [[|c s']|] eqn:Esp.
  - apply (Hsys _ H). intros Hq. destruct (h_names h); inversion Hq; subst; left; reflexivity.
  - destruct (if get_subproject st (c :: s') then get_subproject_dep w h st (c :: s') (h_spvar h) wanted else None) as [d|].
    + left; eapply finA_subs; eauto.
    + destruct (h_force h).
      * apply (Hsub (c :: s') eq_refl eq_refl H).
      * apply (Hsys _ H). apply (Hsub (c :: s') eq_refl eq_refl).
  - apply (Hsys _ H). intros Hq. destruct (h_names h); inversion Hq; subst; left; reflexivity.
Qed.

Lemma lookup_repeat_once w o st names kw r st1 :
  sys_defined w -> cache_covered st ->
  lookup w o st names kw = (r, st1) -> r <> OErr -> lookup w o st1 names kw = (r, st1).
Proof.
  intros Hsd Hc H Hr. rewrite lookup_pre in H.
  destruct (pre w o st names kw) as [h|] eqn:Ep; [|inversion H; congruence].
  destruct (is_nil (candidates h) && k_required kw) eqn:En; [inversion H; congruence|].
  rewrite loop_eq in H.
  pose proof (loop_repeat w h _ _ st r st1 Hsd Hc H Hr) as H1.
  assert (Ep1 : pre w o st1 names kw = Some h).
  { destruct (loop_subs _ _ _ _ _ _ _ H) as [E|[Ht Hm]].
    - rewrite <- Ep. apply pre_same. intros x. unfold get_subproject. rewrite E. reflexivity.
    - eapply pre_mono; eauto. }
  rewrite lookup_pre, Ep1, En, loop_eq. exact H1.
Qed.

(* Repeated dependency() calls with the same arguments - any number of names - return the
   same dependency, any number of times. *)
Theorem repeat_lookup_same_names w o st names kw r st1 :
  reach w o st -> sys_defined w ->
  lookup w o st names kw = (r, st1) -> r <> OErr ->
  forall k, again w o st1 names kw k = repeat r k.
Proof.
  intros Hre Hsd H Hr.
  pose proof (reach_covered _ _ _ Hre) as Hc.
  pose proof (lookup_repeat_once w o st names kw r st1 Hsd Hc H Hr) as H1.
  induction k as [|k IH]; [reflexivity|]. cbn [again repeat]. rewrite H1. f_equal. exact IH.
Qed.

(* ================================================================== lookup = policy for any names *)
Lemma first_over_override st wanted : forall ns,
  first_over st ns wanted = option_map (vetd wanted) (first_override st ns).
Proof.
  induction ns as [|n r IH]; [reflexivity|]. cbn [first_over first_override].
  destruct (assoc n (s_over st)) as [[d e]|]; [reflexivity|exact IH].
Qed.

Lemma fst_finA h wanted required d st : fst (finA h required (vetd wanted d) st) = vet wanted required d.
Proof.
  rewrite vet_vetd. destruct (vetd wanted d); cbn; [destruct required; reflexivity|reflexivity].
Qed.

Lemma gsd_offerN w h st s var wanted :
  cache_covered st -> get_subproject st s = true ->
  get_subproject_dep w h st s var wanted = Some (vetd wanted (sub_offerN w st s var (h_names h))).
Proof.
  intros Hc Hs. unfold get_subproject_dep, sub_offerN, var_offer. rewrite Hs. cbn [negb].
  rewrite (first_cached_over h st wanted Hc), first_over_override.
  destruct (first_override st (h_names h)) as [d|]; [reflexivity|]. cbn [option_map].
  destruct (if truthy var then var else first_varname w s (h_names h)) as [[|c vn]|]; try reflexivity.
  destruct (assoc s (w_subs w)) as [sd|]; [|reflexivity].
  destruct (assoc (c :: vn) (sd_vars sd)) as [[[|k v]|]|]; try reflexivity.
  cbn. destruct (check_version wanted v); reflexivity.
Qed.

Lemma first_sys_system w wanted sk : forall ns,
  first_system w ns wanted =
  match first_sys w (map (ident sk) ns) wanted with Some (n, v) => Some (Found KSystem v) | None => None end.
Proof.
  induction ns as [|n r IH]; [reflexivity|]. cbn [first_system first_sys map]. unfold system_dep.
  change (base (ident sk n)) with n.
  destruct (assoc n (w_sys w)) as [v|]; [destruct (sys_check wanted v); [reflexivity|]|]; exact IH.
Qed.

Lemma fst_sub_phase w h wanted required s st :
  cache_covered st ->
  fst (sub_phase w h wanted required s st) =
  if negb (h_force h) && h_nofb h then fail required
  else use_subprojectN w st s (h_spvar h) (h_names h) wanted required (h_dl h).
Proof.
  intros Hc. unfold sub_phase, use_subprojectN. destruct (negb (h_force h) && h_nofb h); [reflexivity|].
  destruct (do_subproject w st s required (h_dl h)) as [st'|] eqn:Ed; [|reflexivity].
  pose proof (do_subproject_covered _ _ _ _ _ _ Ed Hc) as Hc'.
  destruct (get_subproject st' s) eqn:Eg.
  - rewrite (gsd_offerN w h st' s (h_spvar h) wanted Hc' Eg). apply fst_finA.
  - rewrite (gsd_notfound_none w h st' s (h_spvar h) wanted Eg). reflexivity.
Qed.

(* the closed form of the loop, read as the policy *)
Lemma loop_policy_sub w h wanted required st c s' sk ns :
  cache_covered st -> h_spname h = Some (c :: s') -> h_names h = map (ident sk) ns ->
  fst (loop w h wanted required st) =
  match first_override st (h_names h) with
  | Some d => vet wanted required d
  | None =>
      if get_subproject st (c :: s') then vet wanted required (var_offer w (c :: s') (h_spvar h) (h_names h))
      else if h_force h then use_subprojectN w st (c :: s') (h_spvar h) (h_names h) wanted required (h_dl h)
      else match first_system w ns wanted with
           | Some d => OFound d
           | None => if h_nofb h then fail required
                     else use_subprojectN w st (c :: s') (h_spvar h) (h_names h) wanted required (h_dl h)
           end
  end.
Proof.
  intros Hc Hsp Hns. unfold loop. rewrite (first_cached_over h st wanted Hc), first_over_override, Hsp.
  destruct (first_override st (h_names h)) as [d|] eqn:Efo; cbn [option_map]; [apply fst_finA|].
  destruct (get_subproject st (c :: s')) eqn:Eg.
  - rewrite (gsd_offerN w h st (c :: s') (h_spvar h) wanted Hc Eg). unfold sub_offerN. rewrite Efo. apply fst_finA.
  - pose proof (fst_sub_phase w h wanted required (c :: s') st Hc) as Hsp2.
    destruct (h_force h) eqn:Ef; cbn [negb andb] in Hsp2; [exact Hsp2|].
    rewrite (first_sys_system w wanted sk ns), <- Hns.
    destruct (first_sys w (h_names h) wanted) as [[n v]|]; [reflexivity|exact Hsp2].
Qed.

Lemma loop_policy_nosub w h wanted required st sk ns :
  cache_covered st -> h_spname h = None -> h_names h <> [] -> h_names h = map (ident sk) ns ->
  fst (loop w h wanted required st) =
  match first_override st (h_names h) with
  | Some d => vet wanted required d
  | None => match first_system w ns wanted with Some d => OFound d | None => fail required end
  end.
Proof.
  intros Hc Hsp Hne Hns. unfold loop. rewrite (first_cached_over h st wanted Hc), first_over_override, Hsp.
  destruct (first_override st (h_names h)) as [d|]; cbn [option_map]; [apply fst_finA|].
  rewrite (first_sys_system w wanted sk ns), <- Hns.
  destruct (first_sys w (h_names h) wanted) as [[n v]|]; [reflexivity|].
  destruct (h_names h); [congruence|reflexivity].
Qed.

Lemma ip_spec w o st allow req : forall ns force,
  implicit_provider w o st allow req force ns =
  match provider_of w ns with
  | Some (s, var) =>
      let f' := force || str_mem s (o_fff o) in
      if f' || (match allow with Some true => true | _ => false end) || req || get_subproject st s
      then (f', Some (s, var)) else (f', None)
  | None => (force, None)
  end.
Proof.
  induction ns as [|n r IH]; intros force; [reflexivity|]. cbn [implicit_provider provider_of].
  destruct (find_dep_provider w n) as [[[|c s] var]|]; try apply IH. reflexivity.
Qed.

Lemma provider_nonempty w : forall l v, provider_of w l = Some ([], v) -> False.
Proof.
  induction l as [|n r IH]; intros v; cbn; [discriminate|].
  destruct (find_dep_provider w n) as [[[|c s0] v0]|]; try apply IH. discriminate.
Qed.

(* dependency() with any number of names = the documented policy *)
Theorem lookup_is_policyN w o st names kw :
  cache_covered st -> fallback_named kw ->
  fst (lookup w o st names kw) = policyN w o st names kw.
Proof.
  intros Hc Hf. rewrite lookup_pre. unfold pre, policyN, fallback_ofN, fallback_named in *.
  set (ns := filter (fun n : list char => negb (is_nil n)) names).
  destruct (negb (names_ok [] ns)); [reflexivity|].
  destruct kw as [required wanted allow fb sk dlo]. cbn [k_required k_version k_allow k_fallback k_static k_deflib] in *.
  set (ids := map (ident sk) ns).
  assert (Hnosub : forall al var force nofb dl,
     fst (let h := mkHolder ids al None var force nofb dl in
          if is_nil (candidates h) && required then (OErr, st)
          else try_cands w h wanted required (candidates h) st) =
     match first_override st ids with
     | Some d => vet wanted required d
     | None => match first_system w ns wanted with Some d => OFound d | None => fail required end
     end).
  { intros al var force nofb dl. cbv zeta. destruct (nil_or_not ns) as [En|Hne].
    - unfold ids. rewrite En. unfold candidates. cbn [h_names h_spname truthy map app negb]. rewrite orb_true_r. cbn.
      destruct required; reflexivity.
    - assert (Hne' : ids <> []) by (unfold ids; destruct ns; [congruence|discriminate]).
      rewrite cands_nonempty by exact Hne'. cbn [andb]. rewrite loop_eq.
      apply (loop_policy_nosub w (mkHolder ids al None var force nofb dl) wanted required st sk ns Hc eq_refl Hne' eq_refl). }
  assert (Hsub : forall al c s' var force nofb dl,
     fst (let h := mkHolder ids al (Some (c :: s')) var force nofb dl in
          if is_nil (candidates h) && required then (OErr, st)
          else try_cands w h wanted required (candidates h) st) =
     match first_override st ids with
     | Some d => vet wanted required d
     | None =>
         if get_subproject st (c :: s') then vet wanted required (var_offer w (c :: s') var ids)
         else if force then use_subprojectN w st (c :: s') var ids wanted required dl
         else match first_system w ns wanted with
              | Some d => OFound d
              | None => if nofb then fail required else use_subprojectN w st (c :: s') var ids wanted required dl
              end
     end).
  { intros al c s' var force nofb dl. cbv zeta.
    assert (E : is_nil (candidates (mkHolder ids al (Some (c :: s')) var force nofb dl)) = false).
    { unfold candidates. cbn [h_names h_spname truthy]. apply is_nil_app_r.
      intros X. apply app_eq_nil in X. destruct X as [X _]. discriminate. }
    rewrite E. cbn [andb]. rewrite loop_eq.
    apply (loop_policy_sub w (mkHolder ids al (Some (c :: s')) var force nofb dl) wanted required st c s' sk ns Hc eq_refl eq_refl). }
  destruct fb as [l|].
  - destruct allow as [a|]; cbn [is_some]; [reflexivity|].
    destruct l as [|s [|v [|x r]]]; try reflexivity.
    + cbn [truthy negb andb]. cbv iota beta. apply Hnosub.
    + destruct s as [|c s']; [contradiction|]. cbn [truthy negb andb]. cbv iota beta.
      fold ids. rewrite Hsub. unfold forcedN. reflexivity.
    + destruct s as [|c s']; [contradiction|]. cbn [truthy negb andb]. cbv iota beta.
      fold ids. rewrite Hsub. unfold forcedN. reflexivity.
  - cbn [truthy negb andb]. rewrite orb_false_r.
    destruct allow as [[|]|]; cbn [negb].
    + rewrite ip_spec. destruct (provider_of w ns) as [[s var]|] eqn:Ep; cbv beta iota zeta; [|apply Hnosub].
      unfold forcedN. rewrite orb_true_r. cbn [orb]. cbv beta iota.
      destruct s as [|c s']; [exfalso; exact (provider_nonempty w _ _ Ep)|].
      fold ids. rewrite Hsub. reflexivity.
    + cbv beta iota zeta. apply Hnosub.
    + rewrite ip_spec. destruct (provider_of w ns) as [[s var]|] eqn:Ep; cbv beta iota zeta; [|apply Hnosub].
      unfold forcedN. rewrite orb_false_r.
      destruct s as [|c s']; [exfalso; exact (provider_nonempty w _ _ Ep)|].
      destruct (is_forcefallback (o_wrap_mode o) || existsb (fun n : str => str_mem n (o_fff o)) ns
                || str_mem (c :: s') (o_fff o) || required || get_subproject st (c :: s')); cbv beta iota.
      * fold ids. rewrite Hsub. reflexivity.
      * apply Hnosub.
Qed.

Theorem lookup_follows_policyN w o st names kw :
  reach w o st -> fallback_named kw ->
  fst (lookup w o st names kw) = policyN w o st names kw.
Proof. intros Hr Hf. apply lookup_is_policyN; [eapply reach_covered; eauto|exact Hf]. Qed.

(* "Once one of the names has been found, all other names are added into the cache":
   after a successful lookup every name of the call has an override, so later lookups of
   any of them are answered from the overrides (policy step 1). *)
Lemma finA_found_all h required d st d' st1 :
  finA h required d st = (OFound d', st1) -> forall n, In n (h_names h) -> assoc n (s_over st1) <> None.
Proof.
  destruct d as [|k v]; cbn [finA]; [destruct required; discriminate|].
  intros H n Hn. inversion H; subst. cbn [s_over]. apply register_covers. exact Hn.
Qed.

Lemma loop_found_all w h wanted required st d st1 :
  loop w h wanted required st = (OFound d, st1) ->
  forall n, In n (h_names h) -> assoc n (s_over st1) <> None.
Proof.
  unfold loop. intros H.
  destruct (first_cached h st (h_names h) wanted) as [x|]; [eapply finA_found_all; eauto|].
  assert (Hsys : forall q, match first_sys w (h_names h) wanted with
                           | Some (n, v) => sys_found h n v st | None => q end = (OFound d, st1) ->
                 (q = (OFound d, st1) -> forall n, In n (h_names h) -> assoc n (s_over st1) <> None) ->
                 forall n, In n (h_names h) -> assoc n (s_over st1) <> None).
  { intros q Hq Hk. destruct (first_sys w (h_names h) wanted) as [[n v]|]; [|auto].
    unfold sys_found in Hq. inversion Hq; subst. intros m Hm. cbn [s_over]. apply register_covers. exact Hm. }
  assert (Hsub : forall s, sub_phase w h wanted required s st = (OFound d, st1) ->
                 forall n, In n (h_names h) -> assoc n (s_over st1) <> None).
  { intros s Hp. unfold sub_phase in Hp.
    destruct (negb (h_force h) && h_nofb h); [destruct required; discriminate|].
    destruct (do_subproject w st s required (h_dl h)) as [st'|]; [|discriminate].
    destruct (get_subproject_dep w h st' s (h_spvar h) wanted) as [x|]; [eapply finA_found_all; eauto|].
    destruct required; discriminate. }
  destruct (h_spname h) as [[|c s']|].
  - apply (Hsys _ H). intros Hq. destruct (h_names h); [discriminate|destruct required; discriminate].
  - destruct (if get_subproject st (c :: s') then get_subproject_dep w h st (c :: s') (h_spvar h) wanted else None) as [x|].
    + eapply finA_found_all; eauto.
    + destruct (h_force h); [apply (Hsub _ H)|]. apply (Hsys _ H). apply Hsub.
  - apply (Hsys _ H). intros Hq. destruct (h_names h); [discriminate|destruct required; discriminate].
Qed.

Theorem found_names_all_overridden w o st names kw d st1 :
  lookup w o st names kw = (OFound d, st1) ->
  forall n, In n names -> n <> [] -> assoc (ident (k_static kw) n) (s_over st1) <> None.
Proof.
  intros H n Hin Hne. rewrite lookup_pre in H.
  destruct (pre w o st names kw) as [h|] eqn:Ep; [|discriminate].
  destruct (is_nil (candidates h) && k_required kw); [discriminate|].
  rewrite loop_eq in H. apply (loop_found_all _ _ _ _ _ _ _ H).
  assert (Hn : h_names h = map (ident (k_static kw)) (filter (fun x : list char => negb (is_nil x)) names)).
  { unfold pre in Ep.
    destruct (negb (names_ok [] (filter (fun n : list char => negb (is_nil n)) names))); [discriminate|].
    repeat match type of Ep with
           | context [match ?x with _ => _ end] => destruct x; try discriminate
           end; inversion Ep; reflexivity. }
  rewrite Hn. apply in_map. apply filter_In. split; [exact Hin|]. destruct n; [congruence|reflexivity].
Qed.

(* ================================================================== static: and default_library *)
(* A fallback subproject that calls meson.override_dependency(n, d) without `static:` is
   found by the dependency() call that configured it, whatever `static:` that call has and
   whatever default_library is set globally, per subproject or in default_options: the
   subproject is configured with the default_library that `static:` forces, so the override
   is registered under the identifier the call looks up (mesonmain.py:355-395). *)
Lemma assoc_app_other {A} k k' (l : list (str * A)) v :
  str_eqb k k' = false -> assoc k (l ++ [(k', v)]) = assoc k l.
Proof.
  intros E. induction l as [|[a b] r IH]; cbn; [rewrite E; reflexivity|].
  destruct (str_eqb k a); [reflexivity|exact IH].
Qed.

Lemma ident_neq a b n : tag a <> tag b -> str_eqb (ident a n) (ident b n) = false.
Proof.
  intros H. unfold ident. cbn [str_eqb]. destruct (N.eqb (tag a) (tag b)) eqn:E; [|reflexivity].
  apply N.eqb_eq in E. congruence.
Qed.

Lemma override_dep_registers over n sk o s dlo d :
  n <> [] ->
  assoc (ident None n) over = None -> assoc (ident (Some true) n) over = None ->
  assoc (ident (Some false) n) over = None ->
  exists over', override_dep over n None (eff_dl o s sk dlo) d = Ok over' /\
                assoc (ident sk n) over' = Some (d, true).
Proof.
  intros Hn H0 H1 H2. unfold override_dep. destruct n as [|c n']; [congruence|]. set (n := c :: n') in *.
  unfold add_override at 1. cbn [ident]. fold (ident None n). rewrite H0.
  set (o1 := over ++ [(ident None n, (d, true))]).
  assert (A1 : assoc (ident (Some true) n) o1 = None).
  { unfold o1. rewrite assoc_app_other; [exact H1|]. apply ident_neq. discriminate. }
  assert (A2 : assoc (ident (Some false) n) o1 = None).
  { unfold o1. rewrite assoc_app_other; [exact H2|]. apply ident_neq. discriminate. }
  assert (A0 : assoc (ident None n) o1 = Some (d, true)) by (apply assoc_app_new; exact H0).
  assert (Hadd : forall ov key, assoc key ov = None -> key <> [] ->
             add_override ov key d true = Ok (ov ++ [(key, (d, true))])).
  { intros ov key Hk Hne. unfold add_override. destruct key; [congruence|]. rewrite Hk. reflexivity. }
  destruct sk as [[|]|]; cbn [eff_dl].
  - (* static: true -> the subproject is static *)
    rewrite (Hadd o1 _ A1) by discriminate. eexists; split; [reflexivity|]. apply assoc_app_new; exact A1.
  - rewrite (Hadd o1 _ A2) by discriminate. eexists; split; [reflexivity|]. apply assoc_app_new; exact A2.
  - destruct (match assoc s (o_subdl o) with Some x => x | None => match dlo with Some x => x | None => o_deflib o end end).
    + rewrite (Hadd o1 _ A2) by discriminate. eexists; split; [reflexivity|].
      rewrite assoc_app_other; [exact A0|]. apply ident_neq. discriminate.
    + rewrite (Hadd o1 _ A1) by discriminate. eexists; split; [reflexivity|].
      rewrite assoc_app_other; [exact A0|]. apply ident_neq. discriminate.
    + rewrite (Hadd o1 _ A1) by discriminate.
      assert (A2' : assoc (ident (Some false) n) (o1 ++ [(ident (Some true) n, (d, true))]) = None).
      { rewrite assoc_app_other; [exact A2|]. apply ident_neq. discriminate. }
      rewrite (Hadd _ _ A2') by discriminate. eexists; split; [reflexivity|].
      rewrite assoc_app_other; [|apply ident_neq; discriminate].
      rewrite assoc_app_other; [exact A0|]. apply ident_neq. discriminate.
Qed.

Theorem fallback_override_found w o st n kw s var sd k v :
  reach w o st -> n <> [] -> bad_name n = false -> fallback_named kw ->
  fallback_of w o st n kw = FbSub s var -> s <> [] ->           (* s is the fallback subproject *)
  assoc s (s_subs st) = None ->                                 (* not configured yet *)
  (forall sk, assoc (ident sk n) (s_over st) = None) ->         (* nobody has overridden n *)
  (forced o n s = true \/                                       (* the lookup gets to the fallback *)
   (system_dep w n (k_version kw) = None /\ is_nofallback (o_wrap_mode o) = false)) ->
  assoc s (w_subs w) = Some sd -> sd_fails sd = false ->
  sd_overrides sd = [(n, None, Found k v)] ->                   (* meson.override_dependency(n, d) *)
  check_version (k_version kw) v = true ->
  fst (lookup w o st [n] kw) = OFound (Found k v).
Proof.
  intros Hr Hn Hbad Hf Hfb Hsne Hs Hov Hreach Hsd Hfail Hovs Hv.
  rewrite (lookup_follows_policy w o st n kw Hr Hn Hf). unfold policy.
  rewrite Hbad, Hfb, (Hov (k_static kw)).
  assert (Hg : get_subproject st s = false) by (unfold get_subproject; rewrite Hs; reflexivity).
  rewrite Hg.
  assert (Huse : use_subproject w st s var (k_static kw) n (k_version kw) (k_required kw)
                   (eff_dl o s (k_static kw) (k_deflib kw)) = OFound (Found k v)).
  { unfold use_subproject, do_subproject. destruct s as [|c s']; [congruence|]. set (s := c :: s') in *.
    rewrite Hs, Hsd, Hfail, Hovs. cbn [add_overrides].
    destruct (override_dep_registers (s_over st) n (k_static kw) o s (k_deflib kw) (Found k v) Hn
                (Hov None) (Hov (Some true)) (Hov (Some false))) as (over' & E1 & E2).
    rewrite E1. unfold get_subproject. cbn [s_subs]. rewrite (assoc_app_new s _ true Hs).
    unfold sub_offer. cbn [s_over]. rewrite E2. cbn [vet]. rewrite Hv. reflexivity. }
  destruct Hreach as [Hfo|[Hsys Hnf]].
  - rewrite Hfo. exact Huse.
  - destruct (forced o n s); [exact Huse|]. rewrite Hsys, Hnf. exact Huse.
Qed.
